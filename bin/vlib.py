#!/usr/bin/env python3
"""Shared machinery of the verification checks (see DESIGN.md section 2)."""
import json, os, re, subprocess, sys, time, hashlib, shutil

VERIF = os.path.dirname(os.path.dirname(os.path.abspath(__file__)))
REPO = os.environ.get("VERIF_REPO", "/repo")
COQ = os.path.join(VERIF, "coq")
OCAML = os.path.join(VERIF, "ocaml")
HARNESS = os.path.join(VERIF, "harness")
BIN = os.path.join(VERIF, "bin")
WORK = os.path.join(VERIF, "work")

GOENV = dict(os.environ, GOFLAGS="-mod=mod", GOPROXY="off", GOSUMDB="off", GOTOOLCHAIN="local",
             CGO_ENABLED=os.environ.get("CGO_ENABLED", "0"))

FORBIDDEN = r"\b(Admitted|admit|Axiom|Axioms|Parameter|Parameters|Conjecture|Conjectures|Abort All)\b|Unset Guard|bypass_check|type-in-type|impredicative-set|Admit Obligations|Unset Positivity|Unset Universe"

TRUSTED_BASE = [
    "Coq 8.16.1 kernel (coqc full .vo build); no native_compute; vm_compute only in the sample cross-check of the extraction route",
    "axioms: none (Print Assumptions under every property theorem must say 'Closed under the global context')",
    "hand-written Gallina model of the Go code (coq/Model), tied to /repo by the correspondence runs of this check",
    "extraction to OCaml with ExtrOcamlBasic only (its Extract Inductive directives for bool, option, unit, list, prod, sumbool, sumor and its Extract Inlined Constant andb => (&&), orb => (||); no directive of ours), OCaml 4.13.1, ocaml/driver.ml (case reader, printers)",
    "Go harness (generators, dump through the verif-tagged hooks of /repo/verif_hooks.go, observation of the real library), Go toolchain",
    "strconv.ParseFloat and fmt %q/%d/%f/%t renderings are taken from Go as oracles, not modelled",
]


def run(cmd, cwd=None, env=None, timeout=None, check=False, shell=False):
    t0 = time.time()
    p = subprocess.run(cmd, cwd=cwd, env=env, timeout=timeout, shell=shell,
                       stdout=subprocess.PIPE, stderr=subprocess.STDOUT, text=True, errors="replace")
    if check and p.returncode != 0:
        raise RuntimeError("command failed (%d): %s\n%s" % (p.returncode, cmd, p.stdout[-4000:]))
    return p.returncode, p.stdout, time.time() - t0


def gate():
    """no Admitted / Axiom / switched-off checks anywhere in the development"""
    bad = []
    for root, _, files in os.walk(COQ):
        for f in files:
            if not f.endswith(".v"):
                continue
            path = os.path.join(root, f)
            txt = open(path, errors="replace").read()
            # strip comments (non nested is enough: the development does not nest them)
            txt2 = re.sub(r"\(\*.*?\*\)", "", txt, flags=re.S)
            for m in re.finditer(FORBIDDEN, txt2):
                bad.append("%s: %s" % (os.path.relpath(path, VERIF), m.group(0)))
            # Variable / Hypothesis / Context outside a section declare axioms
            depth = 0
            for ln in txt2.splitlines():
                t = ln.strip()
                if re.match(r"Section\s+\w+\s*\.", t):
                    depth += 1
                elif re.match(r"End\s+\w+\s*\.", t):
                    depth = max(0, depth - 1)
                elif depth == 0 and re.match(r"(Variable|Variables|Hypothesis|Hypotheses|Context)\b", t):
                    bad.append("%s: %s outside a section" % (os.path.relpath(path, VERIF), t[:60]))
    return bad


def coq_build(targets=None, timeout=1500):
    """full .vo build (incremental) of the development"""
    mk = os.path.join(COQ, "Makefile")
    cp = os.path.join(COQ, "_CoqProject")
    if not os.path.exists(mk) or os.path.getmtime(mk) < os.path.getmtime(cp):
        run(["coq_makefile", "-f", "_CoqProject", "-o", "Makefile"], cwd=COQ, check=True)
    cmd = ["timeout", str(timeout), "make", "-j16"] + (targets or [])
    rc, out, dt = run(cmd, cwd=COQ)
    return rc, out, dt


def property_obligations(pid, timeout=600):
    """compile Properties/<pid>.v, return (theorems, closed, axioms_listed, output, cmd)"""
    src = os.path.join(COQ, "Properties", pid + ".v")
    txt = open(src).read()
    txt_nc = re.sub(r"\(\*.*?\*\)", "", txt, flags=re.S)
    theorems = re.findall(r"^\s*Theorem\s+(\w+)", txt_nc, flags=re.M)
    printed = re.findall(r"^\s*Print Assumptions\s+(\w+)", txt_nc, flags=re.M)
    cmd = ["timeout", str(timeout), "coqc", "-Q", ".", "GO", "Properties/%s.v" % pid]
    rc, out, dt = run(cmd, cwd=COQ)
    closed = out.count("Closed under the global context")
    axioms = re.findall(r"^Axioms:\s*$", out, flags=re.M)
    ok = rc == 0 and set(theorems) <= set(printed) and closed == len(printed) and not axioms
    return dict(theorems=theorems, printed=len(printed), closed=closed, rc=rc, ok=ok,
                output=out[-3000:], cmd=" ".join(cmd), wall_s=dt)


def newest_mtime(paths):
    m = 0
    for p in paths:
        if os.path.isdir(p):
            for root, _, files in os.walk(p):
                for f in files:
                    m = max(m, os.path.getmtime(os.path.join(root, f)))
        elif os.path.exists(p):
            m = max(m, os.path.getmtime(p))
    return m


def build_driver(force=False):
    """extract the model and build the OCaml driver when the model is newer than the driver"""
    drv = os.path.join(OCAML, "driver")
    src_m = max(newest_mtime([os.path.join(COQ, "Model"), os.path.join(COQ, "Base"), os.path.join(COQ, "Run")]),
                newest_mtime([os.path.join(OCAML, "driver.ml")]))
    if not force and os.path.exists(drv) and os.path.getmtime(drv) >= src_m:
        return 0, "driver up to date", 0.0
    t0 = time.time()
    rc, out, _ = run(["timeout", "600", "coqc", "-Q", COQ, "GO", os.path.join(COQ, "Run", "Extract.v")], cwd=OCAML)
    if rc != 0:
        return rc, out, time.time() - t0
    rc, out2, _ = run(["timeout", "600", "ocamlfind", "ocamlopt", "-O2", "-w", "-a", "model.mli", "model.ml", "driver.ml", "-o", "driver"], cwd=OCAML)
    return rc, out + out2, time.time() - t0


def build_harness():
    """always rebuilt from /repo's current working tree, hooks enabled"""
    rc, out, dt = run(["go", "build", "-tags", "verif", "-o", os.path.join(BIN, "hx"), "."], cwd=HARNESS, env=GOENV, timeout=600)
    return rc, out, dt


def workdir(name):
    d = os.path.join(WORK, name)
    shutil.rmtree(d, ignore_errors=True)
    os.makedirs(d, exist_ok=True)
    return d


def driver_run(mask, casefile, timeout=1200, dmask=None):
    rc, out, dt = run(["timeout", str(timeout), os.path.join(OCAML, "driver"), mask, casefile] + ([dmask] if dmask else []))
    mism = []
    done = None
    for line in out.splitlines():
        if line.startswith("MISMATCH "):
            parts = line.split(" ", 2)
            mism.append((int(parts[1]), parts[2] if len(parts) > 2 else ""))
        elif line.startswith("DONE "):
            m = re.match(r"DONE cases=(\d+) mismatches=(\d+)", line)
            done = (int(m.group(1)), int(m.group(2)))
    return rc, mism, done, out, dt


def coq_sample_run(vfile, timeout=900):
    """vm_compute route on a sample: returns list of mismatching indices or None on failure"""
    d = os.path.dirname(vfile)
    rc, out, dt = run(["timeout", str(timeout), "coqc", "-Q", COQ, "GO", os.path.basename(vfile)], cwd=d)
    m = re.search(r"M\s*=\s*\[(.*?)\]\s*:\s*list nat", out, flags=re.S)
    if rc != 0 or not m:
        return None, out, dt
    body = m.group(1).strip()
    idx = [int(x) for x in re.findall(r"\d+", body)] if body else []
    return idx, out, dt


def load_known_findings():
    path = os.path.join(VERIF, "known_findings.txt")
    open_entries, fixed = [], []
    if os.path.exists(path):
        for line in open(path):
            line = line.strip()
            if not line or line.startswith("#"):
                continue
            if line.startswith("open:"):
                m = re.match(r"open:\s*property=(\S+)\s+key=(\S+)\s+(.*)", line)
                if m:
                    open_entries.append(dict(property=m.group(1), key=m.group(2), text=m.group(3)))
            elif line.startswith("fixed:"):
                fixed.append(line)
    return open_entries, fixed


def write_evidence(pid, ev):
    os.makedirs(os.path.join(VERIF, "evidence"), exist_ok=True)
    path = os.path.join(VERIF, "evidence", pid + ".json")
    with open(path, "w") as f:
        json.dump(ev, f, indent=1, sort_keys=False)
    return path


def write_replay(pid, seed, n, payload):
    os.makedirs(os.path.join(VERIF, "replays"), exist_ok=True)
    path = os.path.join(VERIF, "replays", "%s-%s-%d.json" % (pid, seed, n))
    with open(path, "w") as f:
        json.dump(payload, f, indent=1)
    return path
