HOOK_COMMITS = ["3ff76d6"]
NOT_APPLICABLE = {}
_base_note = ("Trusted: Coq kernel; the hand-written Gallina model (tied to /repo by the correspondence run on every check: "
              "generated definitions are dumped through the verif-tagged hook, the extracted model and the real library run on the same argv, "
              "projected observables compared; a vm_compute sample cross-checks the extraction); ExtrOcamlBasic extraction and the OCaml driver; "
              "the Go harness. No axioms (Print Assumptions: closed under the global context). strconv.ParseFloat is an oracle argument of the model, not modelled.")
TEXTS = {
    "C01": dict(design_ref="6.1", technique="Coq proof (case analysis on the token splitter, lookup and Save) + differential correspondence incl. the tokenizer",
                level="Theorems C01_attached (`--name=v` stores exactly conv v for every byte string v and every resolving name text; Called, CalledAs; nothing else changes; a text that does not convert is an error), C01_detached_* (`--name v`, dash-looking and missing values are errors), C01_optional_no_value_*, C01_bool, C01_increment, C01_token_split; uniform in the mode. Correspondence: values/Called/CalledAs/error kind and arguments on scalar-heavy definitions with boundary and malformed numerals, plus the splitter against the real isOption on enumerated and random byte strings.",
                note=_base_note + " The lifting of the per-token theorems to whole command lines (last writer wins) is by the state machine's fold structure and is exercised by the correspondence; strconv.Atoi is transcribed (Model/Option.v atoi) and validated only through the correspondence."),
    "C02": dict(design_ref="6.2", technique="Coq proof + differential correspondence",
                level="Theorems C02_option_token, C02_intake_mandatory, C02_intake_greedy with C02_stop_rule/C02_wellformed (exact take/stop rule per element type), C02_full/C02_more/C02_eof (at most max, at least min), C02_*_appended (command-line order), C02_int_element + C02_range_* (inclusive range expansion), C02_map_* (split at first '=', last value wins). For all (min,max), element types, followers. Correspondence on slice/map-heavy definitions comparing values, remaining, error kind and arguments.",
                note=_base_note + " Definition-time (min,max) validation is a panic in Go and is exercised by the harness (definitions with invalid bounds must panic), not modelled."),
    "C03": dict(design_ref="6.3", technique="Coq proof (induction over the token state machine) + differential correspondence",
                level="Theorem C03_remaining_is_selection: for every definition tree, mode, unknown mode, require-order setting and argv of any length, a successful Parse returns exactly the selection of argv by one ghost label per token; C03_label_* pin the meaning of the labels; C03_unknown_tokens_stay gives the Pass/Warn clause. Proved for all inputs on the model; the model is run against the real parser on thousands of generated cases per check, comparing remaining byte for byte.",
                note=_base_note),
    "C04": dict(design_ref="6.4", technique="Coq proof + differential correspondence",
                level="Theorems C04_terminator (a `--` reaching the loop head: result of pre ++ `--` :: tail = result of pre with tail appended verbatim, nothing interpreted), C04_taken_only_as_mandatory (`--` is consumed as a value only while a mandatory value is missing), C04_tail_copied; all modes and unknown modes, any argv. Correspondence compares remaining, values and Called on argv with `--` planted in every context.",
                note=_base_note),
    "C05": dict(design_ref="6.5", technique="Coq proof + differential correspondence",
                level="Theorems C05_exact, C05_unique_prefix, C05_abbreviation_token (token with a unique prefix is processed state-for-state like the token with the full key), C05_ambiguous (error listing exactly the candidates, sorted, as a permutation of the prefix census); any table. Correspondence runs every prefix of every key of colliding name sets through the real parser.",
                note=_base_note),
    "C09": dict(design_ref="6.9", technique="Coq proof + differential correspondence",
                level="Theorems C09_stop (stop token and tail appended verbatim to the state of the prefix) and C09_prefix_as_without (up to the stop point the parser equals the same parser with require-order ignored), any tree/argv. Correspondence on trees with SetRequireOrder at some level.",
                note=_base_note),
}
