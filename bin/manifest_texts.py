HOOK_COMMITS = ["3ff76d6"]
NOT_APPLICABLE = {}
_base_note = ("Trusted: Coq kernel; the hand-written Gallina model (tied to /repo by the correspondence run on every check: "
              "generated definitions are dumped through the verif-tagged hook, the extracted model and the real library run on the same argv, "
              "projected observables compared; a vm_compute sample cross-checks the extraction); ExtrOcamlBasic extraction and the OCaml driver; "
              "the Go harness. No axioms (Print Assumptions: closed under the global context). strconv.ParseFloat is an oracle argument of the model, not modelled.")
TEXTS = {
    "C03": dict(design_ref="6.3", technique="Coq proof (induction over the token state machine) + differential correspondence",
                level="Theorem C03_remaining_is_selection: for every definition tree, mode, unknown mode, require-order setting and argv of any length, a successful Parse returns exactly the selection of argv by one ghost label per token; C03_label_* pin the meaning of the labels; C03_unknown_tokens_stay gives the Pass/Warn clause. Proved for all inputs on the model; the model is run against the real parser on thousands of generated cases per check, comparing remaining byte for byte.",
                note=_base_note),
    "C04": dict(design_ref="6.4", technique="Coq proof + differential correspondence",
                level="Theorems C04_terminator (a `--` reaching the loop head: result of pre ++ `--` :: tail = result of pre with tail appended verbatim, nothing interpreted), C04_taken_only_as_mandatory (`--` is consumed as a value only while a mandatory value is missing), C04_tail_copied; all modes and unknown modes, any argv. Correspondence compares remaining, values and Called on argv with `--` planted in every context.",
                note=_base_note),
    "C05": dict(design_ref="6.5", technique="Coq proof + differential correspondence",
                level="Theorems C05_exact, C05_unique_prefix, C05_abbreviation_token (token with a unique prefix is processed state-for-state like the token with the full key), C05_ambiguous (error listing exactly the candidates, sorted, as a permutation of the prefix census); any table. Correspondence runs every prefix of every key of colliding name sets through the real parser.",
                note=_base_note),
    "C09": dict(design_ref="6.9", technique="Coq proof + differential correspondence",
                level="Theorems C09_stop (stop token and tail appended verbatim to the state of the prefix) and C09_prefix_as_without (up to the stop point the parser equals the same parser with require-order ignored), any tree/argv. Correspondence on trees with SetRequireOrder at some level.",
                note=_base_note),
}
