"""Per-property configuration of bin/check: correspondences (generator profile, case counts,
comparison mask e m r v c w), non-triviality rule, extra trusted base."""

def parse_run(profile, mask, nq, nt, extra=None):
    return dict(kind="parse", profile=profile, mask=mask, n_quick=nq, n_thorough=nt, extra=extra or [])

def tok_run(nq_rand, nt_rand, lq=4, lt=5):
    return dict(kind="tok", profile="tok", mask="111111", n_quick=nq_rand, n_thorough=nt_rand, shards=1,
                extra=[])

PROPS = {
    "C03": dict(
        runs=[parse_run("general", "001000", 4000, 200000), parse_run("unknown", "001000", 2000, 100000)],
        rule="generated (definition, argv) pairs; non-trivial = argv has >= 3 token kinds and remaining is not empty; distinct by (definition, argv) hash",
        assumptions=["the labels of Proofs/Labels.v describe the parser's own decisions; their meaning is pinned by the C03_label_* theorems"],
    ),
    "C04": dict(
        runs=[parse_run("term", "001110", 4000, 200000)],
        rule="argv with `--` planted after every context kind; non-trivial = `--` present and neither first nor last",
    ),
    "C05": dict(
        runs=[parse_run("abbrev", "100110", 4000, 200000)],
        rule="every prefix of every key of colliding name sets; non-trivial = name set has two keys sharing a prefix and argv has an option token",
    ),
    "C09": dict(
        runs=[parse_run("order", "001110", 4000, 200000)],
        rule="trees with SetRequireOrder at some level; non-trivial = require-order set somewhere and argv has >= 2 tokens",
    ),
}
