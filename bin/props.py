"""Per-property configuration of bin/check: correspondences (generator profile, case counts,
comparison mask e p m r v c w o), non-triviality rule, extra trusted base."""

def parse_run(profile, mask, nq, nt, extra=None):
    return dict(kind="parse", profile=profile, mask=mask, n_quick=nq, n_thorough=nt, extra=extra or [])

def dispatch_run(profile, mask, dmask, nq, nt, extra=None):
    return dict(kind="dispatch", profile=profile, mask=mask, dmask=dmask, n_quick=nq, n_thorough=nt, extra=extra or [])

BUILD_SCOPES = {"parse": "00000000", "dispatch": "00100000", "complete": "01100000", "all": "11100000"}

def build_run(nq, nt, profile="build", scope="parse", role=None):
    # what the parser and Dispatch read from the tree (keys, kinds, bounds, modes, require order,
    # required flags, functions, the state the definition leaves) is behaviour the properties rely on:
    # a difference there is a failing definition.  Fields only the help text or completion show are
    # model validation (tie) for the properties that do not talk about them.
    if role is None:
        role = "decide" if scope in ("parse", "dispatch") else "tie"
    # validates the model of the definition API; an observable of a property only for C12 and C06, whose
    # clauses about the environment variable / SetCalled are about the state the definition leaves
    # (value, Called, CalledAs before any command line is parsed).  The first three
    # mask characters select the field groups compared beyond what the parser reads: help-only,
    # completion-only, dispatch-only fields (Run/Check.v, bmask): a property is not disturbed by a
    # change of the definition code that only touches fields it never reads.
    return dict(kind="build", profile=profile, mask=BUILD_SCOPES[scope], n_quick=nq, n_thorough=nt, extra=[], role=role)

def tie(run):
    """marks a correspondence as model validation: a difference is reported as a broken tie, not as
    an input on which the property fails (the property is decided by the direct oracles of that run)"""
    run = dict(run); run["role"] = "tie"; return run

def complete_run(nq, nt):
    return dict(kind="complete", profile="complete", mask="11111110", n_quick=nq, n_thorough=nt, extra=[])

def dag_run(profile, nq, nt, extra=None):
    return dict(kind="dag", profile=profile, mask="11111110", n_quick=nq, n_thorough=nt, shards=4, extra=extra or [])

def tok_run(nq_rand, nt_rand, lq=3, lt=5):
    return dict(kind="tok", profile="tok", mask="11111110", n_quick=nq_rand, n_thorough=nt_rand, shards=1,
                extra=["-len", str(lq)], extra_thorough=["-len", str(lt)])

PROPS = {
    "C01": dict(
        runs=[parse_run("scalar", "11001100", 5000, 200000), tok_run(20000, 300000), build_run(1500, 60000, "build")],
        rule="scalar option kinds x both spellings x 3 modes x value pools (boundary/malformed numerals, dashes, '=', newlines, bytes); non-trivial = a scalar option exists, an option token is present and some value text is not a plain ASCII word",
    ),
    "C02": dict(
        runs=[parse_run("multi", "11011000", 5000, 200000), tok_run(5000, 50000), build_run(1500, 60000, "build")],
        rule="slice/map options with 1<=min<=max<=5 and argv of option occurrences with 0..max+1 followers of every token kind; non-trivial = a multi-value option exists and argv has >= 3 tokens",
    ),
    "C03": dict(
        runs=[parse_run("general", "00010000", 4000, 200000), parse_run("unknown", "00010000", 2000, 100000),
              parse_run("bundle", "00010000", 3000, 100000), build_run(1500, 60000, "build")],
        rule="generated (definition, argv) pairs; non-trivial = argv has >= 3 token kinds and remaining is not empty; distinct by (definition, argv) hash",
        assumptions=["the labels of Proofs/Labels.v describe the parser's own decisions; their meaning is pinned by the C03_label_* theorems"],
    ),
    "C04": dict(
        runs=[parse_run("term", "00011100", 4000, 200000), parse_run("bundle", "00011100", 2500, 100000), build_run(1500, 60000, "build")],
        rule="argv with `--` planted after every context kind, and bundles of two greedy options followed by their values, `--` and a tail; non-trivial = `--` present and neither first nor last",
    ),
    "C05": dict(
        runs=[parse_run("abbrev", "11001100", 4000, 200000), build_run(1500, 60000, "build")],
        rule="every prefix of every key of colliding name sets; non-trivial = name set has two keys sharing a prefix and argv has an option token",
    ),
    "C06": dict(
        runs=[parse_run("alias", "00001100", 5000, 200000), parse_run("general", "00001100", 2000, 100000), build_run(1500, 60000, "build", role="decide")],
        rule="definitions where 90% of the options have 1-3 aliases, argv choosing a key per occurrence; non-trivial = some option has an alias and argv has >= 2 option tokens; plus the access-path oracle (pointer, *Var target, Value/Called/CalledAs through every key) on every case",
        assumptions=["pointer / *Var / Value(x) agreement is by construction in the model (one store entry per option); on the real library it is established by the access-path oracle of the harness"],
    ),
    "C07": dict(
        runs=[parse_run("modes", "11011100", 4000, 200000), parse_run("bundle", "11011100", 3000, 100000), tok_run(30000, 500000), build_run(1500, 60000, "build")],
        rule="all three modes with single-dash tokens of any shape (multi-byte letters, attached values, bundles with flags/valued/unknown letters); non-trivial = a single-dash token of length >= 3 or with attached value",
    ),
    "C08": dict(
        runs=[parse_run("unknown", "11010010", 5000, 200000), parse_run("bundle", "11010010", 2000, 100000), build_run(1500, 60000, "build")],
        rule="unknown long/short/bundled options with and without attached values planted before/after command tokens and in wrapper commands, 3 unknown modes x 3 single-dash modes; non-trivial = an unknown option was reported, warned about or passed through",
    ),
    "C10": dict(
        runs=[dispatch_run("dispatch", "10011100", "111000", 4000, 200000), build_run(3000, 100000, scope="dispatch")],
        coq_sample=8,
        rule="command trees of depth <= 3 with inherited options, UnsetOptions wrappers and commands without function; Parse then Dispatch with instrumented functions; non-trivial = the tree has commands and exactly one function ran",
        assumptions=["'exactly one function exactly once' is by the result type in the model; on the real library the harness counts invocations and checks the context value"],
    ),
    "C11": dict(
        runs=[dispatch_run("dispatch", "11000000", "100110", 4000, 200000), build_run(3000, 100000, scope="dispatch")],
        coq_sample=8,
        rule="trees with required options (own/inherited, with/without custom message) and help option/command at every level; non-trivial = a required option was missing or help was requested",
    ),
    "C13": dict(
        runs=[dag_run("dag", 3000, 150000, ["-maxn", "6"]), dag_run("history", 1500, 75000, ["-maxn", "6"]), dag_run("exh", 1200, 12560)],
        race=dict(n_quick=150, n_thorough=3000),
        coq_sample=12,
        rule="exhaustive profile (thorough tier: all 12560 combinations; quick tier: a slice of 1200 chosen by the seed): every dependency shape on 1-3 vertices x every outcome assignment {nil, error, ErrorSkipParents, fail-then-succeed with one retry} x {parallel, limit 1, limit 2, serial} x every order in which running tasks are made to finish; plus random acyclic graphs of 1-6 vertices x outcome tables {nil, error, ErrorSkipParents, fail-then-succeed with retries} x parallel / SetMaxParallel 1-3 / serial x cancellation points; the harness releases one running task at a time (smallest id) and waits for quiescence, so the completion order is the one it chose; every observed trace must be accepted by the transition system (each Enter/Exit is an enabled transition, every quiescent point is maximal, Run's result is the model's); non-trivial = the graph has an edge and a task ran",
        assumptions=["memory visibility between a dependency and its dependents is the Go memory model's (channel receive / go statement), not modelled: the theorems give the synchronisation order (completion received before the dependent's thread is created)",
                     "quiescence is detected by a grace period; a 'ready task not started' verdict is only reported when it persists"],
    ),
    "C14": dict(
        runs=[dag_run("dag", 3000, 150000, ["-maxn", "6"]), dag_run("history", 1500, 75000, ["-maxn", "5"]), dag_run("exh", 1200, 12560)],
        coq_sample=12,
        rule="as C13; non-trivial = some outcome is not nil or the context is cancelled, and the graph has an edge; the entries of the returned *Errors value (task error / skipped / cancellation) are compared as a multiset with the model's",
    ),
    "C15": dict(
        runs=[dag_run("dag", 3000, 150000, ["-maxn", "6", "-pairs", "600"]), dag_run("history", 1000, 50000, ["-maxn", "6", "-pairs", "200"]), dag_run("exh", 1200, 12560)],
        race=dict(n_quick=150, n_thorough=3000),
        coq_sample=12,
        rule="as C13 with limits 1-3 and serial mode; plus pairs of concurrently running graphs sharing Task objects (per-graph peak and per-Task concurrent executions counted inside the task functions); buffered output checked to arrive as one block per attempt; non-trivial = a limit or serial mode is set and at least two tasks ran",
        assumptions=["'at no instant' is interleaving semantics over Enter/Exit events observed inside the task functions"],
    ),
    "C16": dict(
        runs=[dag_run("history", 2500, 125000, ["-maxn", "6"]), dag_run("cycle", 1500, 75000, ["-maxn", "6"]), dag_run("dag", 1000, 50000, ["-maxn", "7"]), dag_run("exh", 1200, 12560)],
        coq_sample=12,
        rule="construction histories with re-added tasks (same and fresh Task objects), arguments given as Task values or as g.Task(id) lookups (known and unknown ids), duplicate and self edges, nil tasks, missing ids and functions, retries (negative, zero, positive) before/after edges, and closed cycles; an exhaustive slice of all 1-3 vertex graphs x outcomes x modes x completion orders; Graph.String() must equal the model's dot text, DepthFirstSort must be a valid order exactly when the model finds no cycle, Run must return (bounded wait) and every quiescent point must be maximal; non-trivial = a task is re-added, a cycle exists, or the graph has >= 2 edges",
        assumptions=["fairness: task functions return and other graphs release Task locks (the model's environment transitions); under it C16_progress + C16_termination give 'Run returns'"],
    ),
    "C17": dict(
        runs=[complete_run(5000, 200000), build_run(1500, 50000, scope="complete")],
        coq_sample=10,
        rule="command trees with aliases, suggested/valid values, value and argument completion functions, wrappers and help; COMP_LINE = program name + 0-4 earlier words that mostly parse + a partial last word (option prefix, --name=prefix, command prefix, word, empty with one or two trailing blanks), bash and zsh targets, bash's three arguments; stdout, Writer, exit code and command function counter compared; non-trivial = at least one earlier word and a non-empty candidate list",
        assumptions=["the completion functions are drawn from a described family of four (constant list, prefix filter, echo of the partial word / number of previous arguments, by target) implemented identically in Go and in Gallina; the theorems quantify over arbitrary functions"],
    ),
    "C18": dict(
        runs=[tie(dispatch_run("help", "00000000", "000011", 3000, 100000)), tie(dispatch_run("dispatch", "00000000", "000011", 2000, 100000)), build_run(1500, 60000, "help", scope="all")],
        coq_sample=8,
        rule="levels with up to 8 options over all 12 kinds, 0-3 aliases, required / env / multi-line descriptions / argument declarations / commands; the exact bytes of Help() and of the help written by Dispatch are compared with the model's rendering; non-trivial = Parse succeeded and the tree has >= 4 option objects",
        trusted_extra=["DefaultStr of numeric defaults (fmt %d %f %t) and HelpArgName are taken from the dump, not recomputed"],
    ),
    "C12": dict(
        runs=[build_run(4000, 150000, "env", role="decide"), parse_run("env", "10001100", 4000, 150000)],
        coq_sample=10,
        rule="bool/string/int/float (plain and optional) options bound to environment variables x variable texts {valid, invalid, empty, unset, mixed case} x option present/absent on the command line; the definition is executed with the process environment set and the resulting option objects are compared with the model's builder, then Parse is compared; non-trivial = an option is bound to a set variable",
        trusted_extra=["the process environment is set by the harness around the definition (os.Setenv), the model gets the same table"],
    ),
    "C19": dict(
        runs=[tie(parse_run("soup", "10000000", 3000, 300000)), tie(dispatch_run("dispatch", "10000000", "000000", 2000, 100000)),
              build_run(2000, 100000, scope="all"), tie(tok_run(30000, 1000000)), tie(complete_run(2500, 100000)),
              tie(dag_run("result", 500, 20000))],
        coq_sample=10,
        rule="byte soup / weird tokens / 20 kB tokens / 3000-token argv on random definitions, each call under recover() and a 10 s deadline; invalid definitions must panic at definition time exactly when the builder model rejects them; non-trivial = a non-ASCII or control byte is present or argv has >= 50 tokens",
        assumptions=["panics or super-linear behaviour inside Go's regexp/strconv/fmt/sort are outside the model: that part is search (recover + deadline), labelled as such"],
    ),
    "C20": dict(
        runs=[tie(parse_run("perm", "11111111", 3000, 100000, extra=["-repeat", "6"])), tie(dict(dispatch_run("help", "11111111", "111111", 1500, 50000), extra=["-repeat", "4"])), build_run(1500, 60000, "build", scope="all"), tie(dict(complete_run(1500, 60000), extra=["-repeat", "4"]))],
        coq_sample=10,
        rule="definitions with several candidates for every diagnostic (missing required options, unknown options, ambiguous prefixes); each case is executed 6 times on fresh definitions (Go randomises map order per range) and all observables incl. error text, warnings and help text must be byte-identical; the model is evaluated on the dumped table order and on every table reversed; non-trivial = the root has >= 2 options",
        assumptions=["cross-process determinism is covered only through repeated in-process definitions (map iteration is randomised per range statement, not per process)"],
    ),
    "C09": dict(
        runs=[parse_run("order", "00011100", 4000, 200000), build_run(1500, 60000, "build")],
        rule="trees with SetRequireOrder at some level; non-trivial = require-order set somewhere and argv has >= 2 tokens",
    ),
}
