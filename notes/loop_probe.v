(* Throwaway calibration of the C03 formulation: parallel ghost labels + select. *)
From Coq Require Import List Arith Lia Bool.
Import ListNotations.

Section Mini.
  Variable tok : Type.
  Variable is_term : tok -> bool.          (* "--" *)
  Variable optlooking : tok -> bool.
  (* abstract level: classify an option-looking token: None = unknown, Some n = known, needs n following values *)
  Inductive node := Node (known : tok -> option nat) (cmds : list (tok -> bool * node)) (reqorder : bool) (pass : bool).

  Inductive label := LOpt | LVal | LCmd | LTerm | LPos | LUnk | LTail | LDropped.
  Definition keep (l : label) : bool := match l with LPos | LUnk | LTail => true | _ => false end.

  Fixpoint select (args : list tok) (ls : list label) : list tok :=
    match args, ls with
    | a :: args', l :: ls' => if keep l then a :: select args' ls' else select args' ls'
    | _, _ => []
    end.

  Fixpoint find_cmd (cs : list (tok -> bool * node)) (t : tok) : option node :=
    match cs with
    | [] => None
    | c :: cs' => let '(b, n) := c t in if b then Some n else find_cmd cs' t
    end.

  (* take up to n values that are not option-looking; stops early at end of input *)
  Fixpoint take_vals (n : nat) (args : list tok) : list tok * list tok :=
    match n, args with
    | S n', a :: args' => if optlooking a then ([], args) else let '(vs, rest) := take_vals n' args' in (a :: vs, rest)
    | _, _ => ([], args)
    end.

  Lemma take_vals_app n args : let '(vs, rest) := take_vals n args in args = vs ++ rest.
  Proof.
    revert args; induction n as [|n IH]; intros [|a args]; cbn; auto.
    destruct (optlooking a); cbn; auto.
    specialize (IH args). destruct (take_vals n args) as [vs rest]. cbn. now rewrite IH at 1.
  Qed.

  Lemma take_vals_len n args : length (snd (take_vals n args)) <= length args.
  Proof.
    revert args; induction n as [|n IH]; intros [|a args]; cbn; auto.
    destruct (optlooking a); cbn; auto.
    specialize (IH args). destruct (take_vals n args) as [vs rest]. cbn in *. lia.
  Qed.

  (* the loop: returns (child text, labels); text accumulates in order *)
  Fixpoint loop (fuel : nat) (n : node) (args : list tok) : option (list tok * list label) :=
    match fuel with
    | O => None
    | S fuel' =>
      match args with
      | [] => Some ([], [])
      | a :: rest =>
        let '(Node known cmds ro pass) := n in
        if is_term a then Some (rest, LTerm :: map (fun _ => LTail) rest)
        else if optlooking a then
          match known a with
          | Some k =>
            let '(vs, rest') := take_vals k rest in
            match loop fuel' n rest' with
            | Some (txt, ls) => Some (txt, LOpt :: map (fun _ => LVal) vs ++ ls)
            | None => None
            end
          | None =>
            if ro then Some (a :: rest, LTail :: map (fun _ => LTail) rest)
            else match loop fuel' n rest with
                 | Some (txt, ls) => if pass then Some (a :: txt, LUnk :: ls) else Some (txt, LDropped :: ls)
                 | None => None
                 end
          end
        else match find_cmd cmds a with
             | Some n' =>
               match loop fuel' n' rest with
               | Some (txt, ls) => Some (txt, LCmd :: ls)
               | None => None
               end
             | None =>
               if ro then Some (a :: rest, LTail :: map (fun _ => LTail) rest)
               else match loop fuel' n rest with
                    | Some (txt, ls) => Some (a :: txt, LPos :: ls)
                    | None => None
                    end
             end
      end
    end.

  Lemma select_tail rest : select rest (map (fun _ => LTail) rest) = rest.
  Proof. induction rest; cbn; congruence. Qed.

  Lemma select_vals vs rest ls : select (vs ++ rest) (map (fun _ => LVal) vs ++ ls) = select rest ls.
  Proof. induction vs; cbn; auto. Qed.

  Theorem loop_conserves fuel : forall n args txt ls,
    loop fuel n args = Some (txt, ls) ->
    length ls = length args /\ txt = select args ls /\ (forall l, In l ls -> l <> LDropped \/ True).
  Proof.
    induction fuel as [|fuel IH]; intros n args txt ls H; [discriminate|].
    cbn in H. destruct args as [|a rest]; [inversion H; subst; cbn; auto|].
    destruct n as [known cmds ro pass].
    destruct (is_term a).
    { inversion H; subst; cbn. rewrite map_length, select_tail. auto. }
    destruct (optlooking a).
    - destruct (known a) as [k|].
      + pose proof (take_vals_app k rest) as Happ.
        destruct (take_vals k rest) as [vs rest'] eqn:Etv.
        destruct (loop fuel (Node known cmds ro pass) rest') as [[txt' ls']|] eqn:El; [|discriminate].
        inversion H; subst txt ls. apply IH in El. destruct El as [Hl [Ht _]].
        rewrite Happ. cbn. rewrite !app_length, map_length, Hl, select_vals. auto.
      + destruct ro.
        { inversion H; subst; cbn. rewrite map_length, select_tail. auto. }
        destruct (loop fuel (Node known cmds false pass) rest) as [[txt' ls']|] eqn:El; [|discriminate].
        apply IH in El. destruct El as [Hl [Ht _]].
        destruct pass; inversion H; subst; cbn; repeat split; auto; congruence.
    - destruct (find_cmd cmds a) as [n'|].
      + destruct (loop fuel n' rest) as [[txt' ls']|] eqn:El; [|discriminate].
        inversion H; subst. apply IH in El. destruct El as [Hl [Ht _]]. cbn; repeat split; auto; congruence.
      + destruct ro.
        { inversion H; subst; cbn. rewrite map_length, select_tail. auto. }
        destruct (loop fuel (Node known cmds false pass) rest) as [[txt' ls']|] eqn:El; [|discriminate].
        inversion H; subst. apply IH in El. destruct El as [Hl [Ht _]]. cbn; repeat split; auto; congruence.
  Qed.

  (* fuel sufficiency: S (length args) is enough *)
  Theorem loop_fuel_ok : forall fuel n args, length args < fuel -> loop fuel n args <> None.
  Proof.
    induction fuel as [|fuel IH]; intros n args Hlt; [lia|].
    cbn. destruct args as [|a rest]; [discriminate|]. cbn in Hlt.
    destruct n as [known cmds ro pass].
    destruct (is_term a); [discriminate|].
    destruct (optlooking a).
    - destruct (known a) as [k|].
      + pose proof (take_vals_len k rest) as Hlen. destruct (take_vals k rest) as [vs rest'] eqn:E. cbn in Hlen.
        specialize (IH (Node known cmds ro pass) rest' ltac:(lia)).
        destruct (loop fuel _ rest') as [[? ?]|]; [discriminate|contradiction].
      + destruct ro; [discriminate|].
        specialize (IH (Node known cmds false pass) rest ltac:(lia)).
        destruct (loop fuel _ rest) as [[? ?]|]; [destruct pass; discriminate|contradiction].
    - destruct (find_cmd cmds a) as [n'|].
      + specialize (IH n' rest ltac:(lia)). destruct (loop fuel n' rest) as [[? ?]|]; [discriminate|contradiction].
      + destruct ro; [discriminate|].
        specialize (IH (Node known cmds false pass) rest ltac:(lia)).
        destruct (loop fuel _ rest) as [[? ?]|]; [discriminate|contradiction].
  Qed.
End Mini.
Print Assumptions loop_conserves.
