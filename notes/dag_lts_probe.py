# Throwaway explicit-state exploration of the planned DagSched LTS (design validation only), v2:
# pseudo completions (skip / ErrorTaskSkipped goroutines) are a multiset of pending messages.
import sys
from collections import deque
P, I, K, D = 'P', 'I', 'K', 'D'

def all_dags(n):
    pairs = [(i, j) for i in range(n) for j in range(i)]
    for mask in range(1 << len(pairs)):
        deps = [[] for _ in range(n)]
        for b, (i, j) in enumerate(pairs):
            if mask >> b & 1:
                deps[i].append(j)
        yield deps

def explore(deps, serial, cap, retries, allow_cancel, stats):
    n = len(deps)
    parents = [[p for p in range(n) if v in deps[p]] for v in range(n)]
    def up(v, acc):
        for p in parents[v]:
            if p not in acc:
                acc.add(p); up(p, acc)
        return acc
    upclos = [frozenset(up(v, set())) for v in range(n)]
    init = (tuple(P for _ in range(n)), tuple(None for _ in range(n)), tuple('N' for _ in range(n)), frozenset(), False, False, 0, False, ())
    def setv(t, v, x): return t[:v] + (x,) + t[v+1:]
    def succ(s):
        st, how, thr, errs, seenc, ctxc, sem, ret, msgs = s
        out = []
        if ret: return out
        if allow_cancel and not ctxc:
            out.append(('Cancel', (st, how, thr, errs, seenc, True, sem, ret, msgs)))
        for v in range(n):
            t = thr[v]
            if t == 'W' and sem < cap:
                for d in deps[v]:
                    assert st[d] == D and how[d] == ('R', 'nil'), ('C13 violated', deps, s, v)
                out.append(('Enter', (st, how, setv(thr, v, ('R', 0)), errs, seenc, ctxc, sem + 1, ret, msgs)))
            elif isinstance(t, tuple) and t[0] == 'R':
                k = t[1]
                for r in ('nil', 'fail', 'skip'):
                    nt = ('S', r) if (r == 'nil' or k == retries[v]) else ('R', k + 1)
                    out.append(('Exit', (st, how, setv(thr, v, nt), errs, seenc, ctxc, sem, ret, msgs)))
            elif t == 'U':
                out.append(('Release', (st, how, setv(thr, v, 'G'), errs, seenc, ctxc, sem - 1, ret, msgs)))
        # Sync of a real task
        for v in range(n):
            t = thr[v]
            if isinstance(t, tuple) and t[0] == 'S':
                assert st[v] == I, ('real sync while not in progress', deps, s, v)
                r = t[1]; nst = list(st); nst[v] = D; nerrs = errs
                if r == 'fail': nerrs = errs | {('fail', v)}
                if r == 'skip':
                    for p in upclos[v]:
                        assert thr[p] == 'N', ('really launched vertex re-skipped', deps, s, v, p)
                        if nst[p] == D: stats['done_to_skip'] += 1
                        if nst[p] == I: stats['inprog_to_skip'] += 1
                        nst[p] = K
                out.append(('Sync', (tuple(nst), setv(how, v, ('R', r)), setv(thr, v, 'U'), nerrs, seenc, ctxc, sem, ret, msgs)))
        # Sync of a pseudo message
        for i, (v, kind) in enumerate(msgs):
            if i > 0 and msgs[i-1] == (v, kind): continue
            nerrs = errs | {('skipped', v)} if kind == 'perr' else errs
            nm = msgs[:i] + msgs[i+1:]
            out.append(('SyncX', (setv(st, v, D), setv(how, v, ('X', kind)), thr, nerrs, seenc, ctxc, sem, ret, nm)))
        inprog = any(x == I for x in st)
        ready = [v for v in range(n) if st[v] in (P, K) and all(st[c] not in (P, I) for c in deps[v])]
        def ctxcheck(errs, seenc):
            if ctxc and not seenc: return errs | {('cancel',)}, True
            return errs, seenc
        if (serial and inprog) or not ready:
            if not (serial and inprog) and all(x == D for x in st):
                out.append(('Return', (st, how, thr, errs, seenc, ctxc, sem, True, msgs)))
            else:
                e2, c2 = ctxcheck(errs, seenc)
                out.append(('Idle', (st, how, thr, e2, c2, ctxc, sem, ret, msgs)))
        else:
            for v in ready:
                e2, c2 = ctxcheck(errs, seenc)
                if st[v] == K:
                    out.append(('Pick', (setv(st, v, I), how, thr, e2, c2, ctxc, sem, ret, tuple(sorted(msgs + ((v, 'pskip'),))))))
                elif e2:
                    out.append(('Pick', (setv(st, v, I), how, thr, e2, c2, ctxc, sem, ret, tuple(sorted(msgs + ((v, 'perr'),))))))
                else:
                    assert thr[v] == 'N', ('real task launched twice', deps, s, v)
                    out.append(('Pick', (setv(st, v, I), how, setv(thr, v, 'W'), e2, c2, ctxc, sem, ret, msgs)))
        return out
    def inv(s):
        st, how, thr, errs, seenc, ctxc, sem, ret, msgs = s
        holding = sum(1 for t in thr if (isinstance(t, tuple) and t[0] in ('R', 'S')) or t == 'U')
        assert holding == sem <= cap, ('sem', s)
        if serial:
            assert sum(1 for x in st if x == I) <= 1, ('serial', s)
        pend = {v for v, k in msgs if k == 'pskip'}
        def skippedish(v):
            return st[v] == K or how[v] == ('X', 'pskip') or (how[v] == ('R', 'skip') and st[v] == D) or v in pend
        for v in range(n):
            if skippedish(v):
                for p in parents[v]:
                    assert skippedish(p) and thr[p] == 'N', ('J1', deps, s, v, p)
            if thr[v] != 'N':
                for c in deps[v]:
                    assert st[c] == D and how[c] == ('R', 'nil'), ('J2', deps, s, v, c)
            if how[v] in (('R', 'fail'), ('R', 'skip')):
                for p in upclos[v]:
                    assert thr[p] == 'N', ('C14', deps, s, v, p)
        if ret:
            assert all(t in ('N', 'U', 'G') for t in thr), ('returned while a task function may still run', deps, s)
            if msgs: stats['leaked_pseudo_senders'] += 1
            fails = {v for v in range(n) if how[v] == ('R', 'fail')}
            assert (len(errs) == 0) == (not fails and not seenc), ('nil iff', s)
            never = {v for v in range(n) if thr[v] == 'N'}
            skipclos = set()
            for v in range(n):
                if how[v] == ('R', 'skip'): skipclos |= upclos[v]
            rep = {v for (k, *r) in errs if k == 'skipped' for v in r}
            assert {e for e in errs if e[0] == 'fail'} == {('fail', v) for v in fails}
            # every never-started vertex is reported skipped, or is a dependent of a SkipParents returner
            assert never == rep | (never & skipclos), ('never', deps, s)
            if rep & skipclos: stats['reported_and_in_skipclosure'] += 1
    seen = {init}; q = deque([init]); edges = {}
    while q:
        s = q.popleft(); stats['states'] += 1
        inv(s)
        ss = succ(s)
        if not s[7]:
            assert any(l not in ('Cancel', 'Idle') for l, _ in ss), ('deadlock', deps, s)
        edges[s] = [t for l, t in ss if not (l == 'Idle' and t == s)]
        for l, t in ss:
            if t not in seen:
                seen.add(t); q.append(t)
    color = {}
    stack = [(init, iter(edges[init]))]; color[init] = 1
    while stack:
        node, it = stack[-1]
        for w in it:
            c = color.get(w, 0)
            if c == 1: raise AssertionError(('cycle: non-termination', deps, node, w))
            if c == 0:
                color[w] = 1; stack.append((w, iter(edges[w]))); break
        else:
            color[node] = 2; stack.pop()

N = int(sys.argv[1]) if len(sys.argv) > 1 else 3
stats = {'states': 0, 'done_to_skip': 0, 'inprog_to_skip': 0, 'leaked_pseudo_senders': 0, 'reported_and_in_skipclosure': 0}
for n in range(1, N + 1):
    for deps in all_dags(n):
        for serial, cap in ((True, 5), (False, 1), (False, 2), (False, 5)):
            for retries in ([0] * n, [1] + [0] * (n - 1)):
                explore(deps, serial, cap, retries, n <= 3, stats)
print('n<=%d' % N, stats, ': all checks hold')
