package getoptions

// Regression demonstrations for the defects D1-D9, D11-D15 (see /verif/DESIGN.md section 7).
// Copied into a scratch copy of the repository root by /verif/bin/defects-demo; not part of /repo.

import (
	"bytes"
	"context"
	"errors"
	"fmt"
	"os"
	"reflect"
	"strings"
	"testing"
	"time"
)

func TestD1NewlineValue(t *testing.T) {
	opt := New()
	s := opt.String("name", "def")
	rem, err := opt.Parse([]string{"--name=a\nb"})
	if err != nil || *s != "a\nb" || len(rem) != 0 || !opt.Called("name") {
		t.Fatalf("D1: s=%q rem=%q err=%v", *s, rem, err)
	}
}

func TestD2MapSplit(t *testing.T) {
	opt := New()
	m := opt.StringMap("m", 1, 3)
	_, err := opt.Parse([]string{"--m", "k=a=b"})
	if err != nil || m["k"] != "a=b" {
		t.Fatalf("D2: m=%v err=%v", m, err)
	}
}

func TestD3GreedySwallowsTerminator(t *testing.T) {
	opt := New()
	s := opt.StringSlice("s", 1, 3)
	f := opt.Bool("flag", false)
	rem, err := opt.Parse([]string{"--s", "a", "--", "--flag", "x"})
	if err != nil || !reflect.DeepEqual(*s, []string{"a"}) || *f || !reflect.DeepEqual(rem, []string{"--flag", "x"}) {
		t.Fatalf("D3: s=%q flag=%v rem=%q err=%v", *s, *f, rem, err)
	}
	opt = New()
	so := opt.StringOptional("so", "d")
	f = opt.Bool("flag", false)
	rem, err = opt.Parse([]string{"--so", "--", "--flag"})
	if err != nil || *so != "d" || *f || !reflect.DeepEqual(rem, []string{"--flag"}) {
		t.Fatalf("D3 optional: so=%q flag=%v rem=%q err=%v", *so, *f, rem, err)
	}
}

func TestD4BundlePassDuplicates(t *testing.T) {
	opt := New()
	opt.SetMode(Bundling)
	opt.SetUnknownMode(Pass)
	opt.Bool("a", false)
	rem, err := opt.Parse([]string{"-xay", "p"})
	if err != nil || !reflect.DeepEqual(rem, []string{"-xay", "p"}) {
		t.Fatalf("D4: rem=%q err=%v", rem, err)
	}
}

func TestD5BeforeCommandLost(t *testing.T) {
	opt := New()
	opt.NewCommand("cmd", "")
	_, err := opt.Parse([]string{"--typo", "cmd", "x"})
	if err == nil {
		t.Fatalf("D5: unknown option before command accepted silently in Fail mode")
	}
	opt = New()
	opt.NewCommand("cmd", "")
	rem, err := opt.Parse([]string{"foo", "cmd", "x"})
	if err != nil || !reflect.DeepEqual(rem, []string{"foo", "x"}) {
		t.Fatalf("D5: rem=%q err=%v", rem, err)
	}
}

func TestD6RequiredDeterministic(t *testing.T) {
	seen := map[string]int{}
	for i := 0; i < 200; i++ {
		opt := New()
		opt.String("aaa", "", opt.Required())
		opt.String("bbb", "", opt.Required())
		opt.String("ccc", "", opt.Required())
		_, err := opt.Parse([]string{})
		seen[fmt.Sprint(err)]++
	}
	if len(seen) != 1 {
		t.Fatalf("D6: %v", seen)
	}
}

func TestD7SingleDashMultibyte(t *testing.T) {
	opt := New()
	opt.SetMode(SingleDash)
	s := opt.String("é", "")
	rem, err := opt.Parse([]string{"-é", "val"})
	if err != nil || *s != "val" || len(rem) != 0 {
		t.Fatalf("D7: s=%q rem=%q err=%v", *s, rem, err)
	}
	opt = New()
	opt.SetMode(SingleDash)
	s = opt.String("x", "")
	_, err = opt.Parse([]string{"-x\xffz"})
	if err != nil || *s != "\xffz" {
		t.Fatalf("D7 bytes: s=%q err=%v", *s, err)
	}
}

func TestD8RangeAtMaxInt(t *testing.T) {
	done := make(chan []int, 1)
	go func() {
		opt := New()
		ii := opt.IntSlice("i", 1, 1)
		_, _ = opt.Parse([]string{"--i", "9223372036854775805..9223372036854775807"})
		done <- *ii
	}()
	select {
	case ii := <-done:
		if len(ii) != 3 {
			t.Fatalf("D8: %v", ii)
		}
	case <-time.After(2 * time.Second):
		// the runaway loop allocates without bound; fail fast
		fmt.Fprintln(os.Stderr, "D8: range ending at MaxInt64 does not terminate")
		os.Exit(3)
	}
}

func TestD9SynopsisKinds(t *testing.T) {
	opt := New()
	opt.Increment("inc", 0)
	opt.StringOptional("so", "")
	opt.IntOptional("io", 0)
	opt.Float64Optional("fo", 0)
	opt.Float64Slice("fs", 1, 1)
	h := opt.Help(HelpSynopsis)
	for _, n := range []string{"--inc", "--so", "--io", "--fo", "--fs"} {
		if !strings.Contains(h, n) {
			t.Fatalf("D9: %s missing from synopsis:\n%s", n, h)
		}
	}
}

func runCompletion(t *testing.T, build func() *GetOpt, compLine string) string {
	t.Helper()
	os.Setenv("COMP_LINE", compLine)
	defer os.Unsetenv("COMP_LINE")
	buf := new(bytes.Buffer)
	completionWriter = buf
	exitFn = func(code int) {}
	defer func() { completionWriter = os.Stdout; exitFn = os.Exit }()
	opt := build()
	_, _ = opt.Parse([]string{})
	return buf.String()
}

func TestD11CompletionWordZero(t *testing.T) {
	out := runCompletion(t, func() *GetOpt {
		opt := New()
		opt.SetRequireOrder()
		opt.Bool("flag", false)
		return opt
	}, "./prog --fl")
	if !strings.Contains(out, "--flag") {
		t.Fatalf("D11: %q", out)
	}
}

func TestD12CompletionMode(t *testing.T) {
	out := runCompletion(t, func() *GetOpt {
		opt := New()
		opt.SetMode(Bundling)
		opt.Bool("v", false)
		opt.String("o", "")
		log := opt.NewCommand("log", "")
		log.NewCommand("sub", "")
		opt.HelpCommand("help")
		return opt
	}, "./prog -vo log ")
	if strings.Contains(out, "sub") {
		t.Fatalf("D12: offers log's subcommands although the parser takes 'log' as -o's value: %q", out)
	}
}

func TestD13BundleTokenTextAfterIntake(t *testing.T) {
	opt := New()
	opt.SetMode(Bundling)
	opt.SetUnknownMode(Pass)
	a := opt.String("a", "")
	rem, err := opt.Parse([]string{"p", "-ax", "v", "rest"})
	if err != nil || *a != "v" || !reflect.DeepEqual(rem, []string{"p", "-ax", "rest"}) {
		t.Fatalf("D13 pass: a=%q rem=%q err=%v", *a, rem, err)
	}
	opt = New()
	opt.SetMode(Bundling)
	opt.SetRequireOrder()
	a = opt.String("a", "")
	rem, err = opt.Parse([]string{"-ax", "v", "rest", "--a=2"})
	if err != nil || *a != "" || !reflect.DeepEqual(rem, []string{"-ax", "v", "rest", "--a=2"}) {
		t.Fatalf("D13 require-order: a=%q rem=%q err=%v", *a, rem, err)
	}
}

func TestD14DoubleDashEqualsModeIndependent(t *testing.T) {
	vals := []string{}
	for _, m := range []Mode{Normal, Bundling, SingleDash} {
		opt := New()
		opt.SetMode(m)
		s := opt.String("-", "")
		_, err := opt.Parse([]string{"--=x"})
		vals = append(vals, fmt.Sprintf("%q/%v", *s, err))
	}
	if vals[0] != vals[1] || vals[1] != vals[2] {
		t.Fatalf("D14: %v", vals)
	}
}

// D15 (C20, C17): `--name=k` with options n, na, name: the keys n and na are prefixes of the typed
// text; they never contribute candidates but the last of them in map order decided the
// single-candidate hint.
func TestD15CompletionHintDeterministic(t *testing.T) {
	run := func() string {
		opt := New()
		opt.String("name", "", opt.SuggestedValues("k="))
		opt.String("n", "", opt.SuggestedValues("zzz", "yyy"))
		opt.String("na", "", opt.ArgName("file"))
		buf := new(bytes.Buffer)
		completionWriter = buf
		exitFn = func(code int) {}
		defer func() { completionWriter = os.Stdout; exitFn = os.Exit }()
		os.Setenv("COMP_LINE", "./prog --name=k")
		os.Setenv("ZSHELL", "true")
		defer os.Unsetenv("COMP_LINE")
		defer os.Unsetenv("ZSHELL")
		opt.Parse([]string{"./prog", "--name=k", "./prog"})
		return buf.String()
	}
	first := run()
	for i := 0; i < 200; i++ {
		if got := run(); got != first {
			t.Fatalf("D15: completion differs between runs: %q vs %q", first, got)
		}
	}
	if strings.Contains(first, "yyy") || strings.Contains(first, "<file>") {
		t.Fatalf("D15: another option's values or argument name are offered: %q", first)
	}
}

// D17 (C17): the help command found its topic by the display name of a command (Self), while
// completion offers - and the command line selects a command by - the name it was declared with.
func TestD17HelpTopicIsTheDeclaredName(t *testing.T) {
	build := func() *GetOpt {
		opt := New()
		opt.Self("prog", "")
		c := opt.NewCommand("x", "cmd x")
		c.Self("disp-x", "cmd x")
		c.SetCommandFn(func(ctx context.Context, o *GetOpt, a []string) error { return nil })
		opt.HelpCommand("help")
		return opt
	}
	opt := build()
	buf := new(bytes.Buffer)
	Writer = buf
	rem, err := opt.Parse([]string{"help", "x"})
	if err != nil {
		t.Fatalf("Parse: %v", err)
	}
	err = opt.Dispatch(context.Background(), rem)
	if !errors.Is(err, ErrorHelpCalled) {
		t.Fatalf("help x: got error %v, want ErrorHelpCalled", err)
	}
	if !strings.Contains(buf.String(), "prog disp-x") {
		t.Errorf("help x did not print the help of the command declared as x:\n%s", buf.String())
	}
}
