package dag

// Regression demonstration for defect D10 (see /verif/DESIGN.md section 7).

import (
	"context"
	"sync"
	"testing"
	"time"

	"github.com/DavidGamba/go-getoptions"
)

func TestD10ReAddKeepsEdges(t *testing.T) {
	for _, readd := range []string{"A", "B"} {
		var mu sync.Mutex
		order := []string{}
		mk := func(id string) *Task {
			return NewTask(id, func(ctx context.Context, opt *getoptions.GetOpt, args []string) error {
				mu.Lock()
				order = append(order, id)
				mu.Unlock()
				time.Sleep(5 * time.Millisecond)
				return nil
			})
		}
		a, b := mk("A"), mk("B")
		g := NewGraph("g")
		g.TaskDependsOn(a, b)
		if readd == "A" {
			g.AddTask(a)
		} else {
			g.AddTask(b)
		}
		done := make(chan error, 1)
		go func() { done <- g.Run(context.Background(), nil, nil) }()
		select {
		case err := <-done:
			if err != nil {
				t.Fatalf("D10 readd %s: %v", readd, err)
			}
		case <-time.After(2 * time.Second):
			t.Fatalf("D10 readd %s: Run does not return", readd)
		}
		if len(order) != 2 || order[0] != "B" {
			t.Fatalf("D10 readd %s: order %v", readd, order)
		}
	}
}
