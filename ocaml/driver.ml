(* Correspondence driver: reads one case per line (bracketed text written by the Go harness),
   evaluates the extracted Coq model on it and reports the cases whose projected observables
   differ from what the real library showed. *)
open Model
type string = Stdlib.String.t

type sx = A of string | L of sx list | C of string * sx list

exception Parse_error of string

let parse_sx (s : string) : sx =
  let n = String.length s in
  let pos = ref 0 in
  let skip () = while !pos < n && (s.[!pos] = ' ' || s.[!pos] = '\t') do incr pos done in
  let atom () =
    let st = !pos in
    while !pos < n && (match s.[!pos] with ' ' | '(' | ')' | '[' | ']' | '\t' -> false | _ -> true) do incr pos done;
    String.sub s st (!pos - st) in
  let rec item () : sx =
    skip ();
    if !pos >= n then raise (Parse_error "eof");
    match s.[!pos] with
    | '(' ->
        incr pos; skip ();
        let name = atom () in
        let args = items ')' in
        C (name, args)
    | '[' -> incr pos; L (items ']')
    | _ -> A (atom ())
  and items (close : char) : sx list =
    skip ();
    if !pos >= n then raise (Parse_error "unclosed");
    if s.[!pos] = close then (incr pos; [])
    else let x = item () in x :: items close
  in
  item ()

(* ---- conversions to the extracted types ---- *)

let rec nat_of_int (i : int) : nat = if i <= 0 then O else S (nat_of_int (i - 1))
let rec int_of_nat (x : nat) : int = match x with O -> 0 | S y -> 1 + int_of_nat y

let rec pos_of_int (i : int) : positive =
  if i <= 1 then XH else if i land 1 = 1 then XI (pos_of_int (i lsr 1)) else XO (pos_of_int (i lsr 1))
let n_of_int (i : int) : n = if i = 0 then N0 else Npos (pos_of_int i)

let n_ten = n_of_int 10
(* arbitrary size decimal -> N, using the extracted arithmetic *)
let n_of_dec (s : string) : n =
  let acc = ref N0 in
  String.iter (fun c -> acc := N.add (N.mul !acc n_ten) (n_of_int (Char.code c - 48))) s;
  !acc
let z_of_dec (s : string) : z =
  if String.length s > 0 && s.[0] = '-' then Z.opp (Z.of_N (n_of_dec (String.sub s 1 (String.length s - 1))))
  else Z.of_N (n_of_dec s)

let rec int_of_pos (p : positive) : int = match p with XH -> 1 | XO q -> 2 * int_of_pos q | XI q -> 2 * int_of_pos q + 1
let int_of_n (x : n) : int = match x with N0 -> 0 | Npos p -> int_of_pos p

let hexval c = match c with
  | '0'..'9' -> Char.code c - 48
  | 'a'..'f' -> Char.code c - 87
  | _ -> raise (Parse_error "hex")

let str_of_atom (a : string) : str =
  if String.length a = 0 || a.[0] <> 'x' then raise (Parse_error ("string atom expected: " ^ a));
  let l = ref [] in
  let m = (String.length a - 1) / 2 in
  for i = m - 1 downto 0 do
    l := n_of_int (hexval a.[1 + 2 * i] * 16 + hexval a.[2 + 2 * i]) :: !l
  done;
  !l

let fail_sx what = raise (Parse_error ("bad " ^ what))

let c_str = function A a -> str_of_atom a | _ -> fail_sx "str"
let c_nat = function A a -> nat_of_int (int_of_string a) | _ -> fail_sx "nat"
let c_n = function A a -> n_of_dec a | _ -> fail_sx "N"
let c_z = function A a -> z_of_dec a | _ -> fail_sx "Z"
let c_bool = function A "true" -> true | A "false" -> false | _ -> fail_sx "bool"
let c_list f = function L l -> List.map f l | _ -> fail_sx "list"
let c_pair f g = function C ("P", [a; b]) -> (f a, g b) | _ -> fail_sx "pair"
let c_opt f = function A "None" -> None | C ("Some", [x]) -> Some (f x) | _ -> fail_sx "option"

let c_kind = function
  | A "KBool" -> KBool | A "KIncr" -> KIncr | A "KStr" -> KStr | A "KInt" -> KInt | A "KFloat" -> KFloat
  | A "KStrOpt" -> KStrOpt | A "KIntOpt" -> KIntOpt | A "KFloatOpt" -> KFloatOpt
  | A "KStrRep" -> KStrRep | A "KIntRep" -> KIntRep | A "KFloatRep" -> KFloatRep | A "KMap" -> KMap
  | _ -> fail_sx "kind"

let c_ekind = function
  | A "EAmbiguous" -> EAmbiguous | A "EMissingArg" -> EMissingArg | A "EArgWithDash" -> EArgWithDash
  | A "EConvInt" -> EConvInt | A "EConvFloat" -> EConvFloat | A "ENotKeyValue" -> ENotKeyValue
  | A "EWrongValue" -> EWrongValue | A "EMissingRequired" -> EMissingRequired | A "EUnknown" -> EUnknown
  | A "ENoHelpTopic" -> ENoHelpTopic | A "ENoCommandFn" -> ENoCommandFn | A "EHelpCalled" -> EHelpCalled
  | A "EUser" -> EUser | _ -> fail_sx "ekind"

let c_mode = function A "Normal" -> Normal | A "Bundling" -> Bundling | A "SingleDash" -> SingleDash | _ -> fail_sx "mode"
let c_umode = function A "Fail" -> Fail | A "Warn" -> Warn | A "Pass" -> Pass | _ -> fail_sx "umode"

let c_value = function
  | C ("VBool", [b]) -> VBool (c_bool b)
  | C ("VInt", [z]) -> VInt (c_z z)
  | C ("VStr", [s]) -> VStr (c_str s)
  | C ("VFloat", [f]) -> VFloat (c_n f)
  | C ("VStrs", [l]) -> VStrs (c_list c_str l)
  | C ("VInts", [l]) -> VInts (c_list c_z l)
  | C ("VFloats", [l]) -> VFloats (c_list c_n l)
  | C ("VMap", [l]) -> VMap (c_list (c_pair c_str c_str) l)
  | _ -> fail_sx "value"

let c_state = function
  | C ("mkState", [v; c; u]) -> { o_val = c_value v; o_called = c_bool c; o_used = c_str u }
  | _ -> fail_sx "ostate"

let c_spec = function
  | C ("mkSpec", [name; kind; mn; mx; valid; validq; req; reqmsg; booldef; aliases; env; defstr; desc; argname; sugg; sfn]) ->
      { os_name = c_str name; os_kind = c_kind kind; os_min = c_nat mn; os_max = c_nat mx;
        os_valid = c_list c_str valid; os_validq = c_str validq; os_required = c_bool req;
        os_reqmsg = c_str reqmsg; os_booldef = c_bool booldef; os_aliases = c_list c_str aliases;
        os_env = c_str env; os_defstr = c_str defstr; os_desc = c_str desc; os_argname = c_str argname;
        os_suggested = c_list c_str sugg; os_sfn = c_opt c_nat sfn }
  | _ -> fail_sx "ospec"

let c_fn = function
  | A "FnNone" -> FnNone | A "FnHelp" -> FnHelp | C ("FnUser", [i]) -> FnUser (c_nat i) | _ -> fail_sx "fnref"

let c_info = function
  | C ("mkInfo", [name; desc; um; ro; hn; fn; sugg; sfns; syn]) ->
      { ni_name = c_str name; ni_desc = c_str desc; ni_umode = c_umode um; ni_reqorder = c_bool ro;
        ni_helpname = c_str hn; ni_fn = c_fn fn; ni_suggestions = c_list c_str sugg;
        ni_sfns = c_list c_nat sfns; ni_synargs = c_list (c_pair c_str c_str) syn }
  | _ -> fail_sx "ninfo"

let rec c_node = function
  | C ("Node", [i; opts; cmds]) ->
      Node (c_info i, c_list (c_pair c_str c_nat) opts, c_list (c_pair c_str c_node) cmds)
  | _ -> fail_sx "node"

let c_case = function
  | C ("mkCase", [md; lower; specs; root; st0; args; ftab; err; rem; st1; warn]) ->
      { c_md = c_mode md; c_lower = c_bool lower; c_specs = c_list c_spec specs; c_root = c_node root;
        c_st0 = c_list c_state st0; c_args = c_list c_str args;
        c_ftab = c_list (c_pair c_str (c_opt c_n)) ftab;
        c_err = c_opt (function C ("E", [m; p; k; a]) -> (((c_str m, c_bool p), c_ekind k), c_list c_str a) | _ -> fail_sx "err") err; c_rem = c_list c_str rem;
        c_st1 = c_list c_state st1; c_warn = c_str warn }
  | _ -> fail_sx "case"

let c_optdef = function
  | C ("mkOptDef", [kind; name; aliases; def; mn; mx; req; reqmsg; env; valid; validq; sugg; sfn; setc; desc; argname; defstr]) ->
      { od_kind = c_kind kind; od_name = c_str name; od_aliases = c_list c_str aliases; od_default = c_value def;
        od_min = c_nat mn; od_max = c_nat mx; od_required = c_bool req; od_reqmsg = c_str reqmsg; od_env = c_str env;
        od_valid = c_list c_str valid; od_validq = c_str validq; od_suggested = c_list c_str sugg;
        od_sfn = c_opt c_nat sfn; od_setcalled = c_opt (c_pair c_bool c_bool) setc; od_desc = c_str desc; od_argname = c_str argname;
        od_defstr = c_str defstr }
  | _ -> fail_sx "optdef"

let c_path = c_list c_str

let c_bop = function
  | C ("BOpt", [p; o]) -> BOpt (c_path p, c_optdef o)
  | C ("BNewCmd", [p; n; d]) -> BNewCmd (c_path p, c_str n, c_str d)
  | C ("BUnset", [p]) -> BUnset (c_path p)
  | C ("BUMode", [p; m]) -> BUMode (c_path p, c_umode m)
  | C ("BReqOrder", [p]) -> BReqOrder (c_path p)
  | C ("BArgCompl", [p; l]) -> BArgCompl (c_path p, c_list c_str l)
  | C ("BArgFns", [p; l]) -> BArgFns (c_path p, c_list c_nat l)
  | C ("BSynArg", [p; a; d]) -> BSynArg (c_path p, c_str a, c_str d)
  | C ("BSelf", [p; n; d]) -> BSelf (c_path p, c_str n, c_str d)
  | C ("BSetFn", [p; i]) -> BSetFn (c_path p, c_nat i)
  | C ("BHelp", [n; l]) -> BHelp (c_str n, c_list c_str l)
  | _ -> fail_sx "bop"

let c_bcase = function
  | C ("mkBCase", [name; desc; ops; env; ftab; panics; specs; root; store]) ->
      { bc_name = c_str name; bc_desc = c_str desc; bc_ops = c_list c_bop ops;
        bc_env = c_list (c_pair c_str c_str) env; bc_ftab = c_list (c_pair c_str (c_opt c_n)) ftab;
        bc_panics = c_bool panics; bc_specs = c_list c_spec specs; bc_root = c_node root;
        bc_store = c_list c_state store }
  | _ -> fail_sx "bcase"

let c_ccase = function
  | C ("mkCCase", [md; lower; specs; root; st0; ftab; zsh; line; args; out; err; exits; fns]) ->
      { cc_md = c_mode md; cc_lower = c_bool lower; cc_specs = c_list c_spec specs; cc_root = c_node root;
        cc_st0 = c_list c_state st0; cc_ftab = c_list (c_pair c_str (c_opt c_n)) ftab; cc_zsh = c_bool zsh;
        cc_line = c_str line; cc_args = c_list c_str args; cc_stdout = c_str out; cc_stderr = c_str err;
        cc_exits = c_list c_nat exits; cc_fns = c_nat fns }
  | _ -> fail_sx "ccase"

let c_taskarg = c_opt (c_pair c_str c_bool)
let c_targ = function
  | C ("TA", [t]) -> TA (c_taskarg t)
  | C ("TL", [id]) -> TL (c_str id)
  | _ -> fail_sx "targ"
let c_gop = function
  | C ("GAdd", [t]) -> GAdd (c_targ t)
  | C ("GDep", [t; deps]) -> GDep (c_targ t, c_list c_targ deps)
  | C ("GRetries", [t; n]) -> GRetries (c_targ t, c_z n)
  | _ -> fail_sx "gop"
let c_outcome = function A "ONil" -> ONil | A "OErr" -> OErr | A "OSkipParents" -> OSkipParents | _ -> fail_sx "outcome"
let c_oevent = function
  | C ("OEnter", [v; k]) -> OEnter (c_str v, c_nat k)
  | C ("OExit", [v; k; r]) -> OExit (c_str v, c_nat k, c_outcome r)
  | A "OCancel" -> OCancel
  | A "OQuiet" -> OQuiet
  | _ -> fail_sx "oevent"
let c_gerr = function
  | A "XNilTask" -> XNilTask | A "XMissingID" -> XMissingID | A "XCycle" -> XCycle | A "XCancel" -> XCancel
  | C ("XMissingFn", [x]) -> XMissingFn (c_str x) | C ("XTask", [x]) -> XTask (c_str x) | C ("XSkipped", [x]) -> XSkipped (c_str x) | C ("XNotFound", [x]) -> XNotFound (c_str x)
  | C ("XDupDep", [a; b]) -> XDupDep (c_str a, c_str b)
  | _ -> fail_sx "gerr"
let c_gcase = function
  | C ("mkGCase", [ops; serial; cap; dot; dfs; evs; isnil; res; hang]) ->
      { gc_ops = c_list c_gop ops; gc_serial = c_bool serial; gc_cap = c_n cap; gc_dot = c_str dot;
        gc_dfs = c_opt (c_list c_str) dfs; gc_events = c_list c_oevent evs; gc_nil = c_bool isnil;
        gc_result = c_list c_gerr res; gc_hang = c_bool hang }
  | _ -> fail_sx "gcase"

let c_dcase = function
  | C ("mkDCase", [base; ran; err; writer; help]) ->
      { d_base = c_case base;
        d_ran = c_list (function C ("R3", [id; args; view]) -> ((c_nat id, c_list c_str args), c_list (c_pair c_str c_state) view) | _ -> fail_sx "ran") ran;
        d_err = c_opt (function C ("D3", [m; h; p]) -> ((c_str m, c_bool h), c_bool p) | _ -> fail_sx "derr") err;
        d_writer = c_str writer; d_help = c_str help }
  | _ -> fail_sx "dcase"

(* ---- printing (for replays) ---- *)

let show_str (s : str) : string =
  let b = Buffer.create 16 in
  Buffer.add_char b '"';
  List.iter (fun x ->
    let c = int_of_n x in
    if c = 34 then Buffer.add_string b "\\\""
    else if c = 92 then Buffer.add_string b "\\\\"
    else if c >= 32 && c < 127 then Buffer.add_char b (Char.chr c)
    else Buffer.add_string b (Printf.sprintf "\\x%02x" c)) s;
  Buffer.add_char b '"';
  Buffer.contents b

let show_list f l = "[" ^ String.concat " " (List.map f l) ^ "]"

let rec dec_of_pos (p : positive) : string =
  (* decimal rendering through OCaml floats is lossy; print small values exactly, big ones in hex *)
  let rec bits p = match p with XH -> [1] | XO q -> 0 :: bits q | XI q -> 1 :: bits q in
  let bs = bits p in
  if List.length bs <= 62 then string_of_int (int_of_pos p)
  else "0b" ^ String.concat "" (List.rev_map string_of_int bs)
and show_n = function N0 -> "0" | Npos p -> dec_of_pos p
let show_z = function Z0 -> "0" | Zpos p -> dec_of_pos p | Zneg p -> "-" ^ dec_of_pos p

let show_value = function
  | VBool b -> string_of_bool b
  | VInt z -> show_z z
  | VStr s -> show_str s
  | VFloat f -> "bits:" ^ show_n f
  | VStrs l -> show_list show_str l
  | VInts l -> show_list show_z l
  | VFloats l -> show_list (fun f -> "bits:" ^ show_n f) l
  | VMap m -> show_list (fun (k, v) -> show_str k ^ "=" ^ show_str v) m

let show_state (o : ostate) = Printf.sprintf "{%s called=%b as=%s}" (show_value o.o_val) o.o_called (show_str o.o_used)

let show_ekind = function
  | EAmbiguous -> "Ambiguous" | EMissingArg -> "MissingArg" | EArgWithDash -> "ArgWithDash"
  | EConvInt -> "ConvInt" | EConvFloat -> "ConvFloat" | ENotKeyValue -> "NotKeyValue"
  | EWrongValue -> "WrongValue" | EMissingRequired -> "MissingRequired" | EUnknown -> "Unknown"
  | ENoHelpTopic -> "NoHelpTopic" | ENoCommandFn -> "NoCommandFn" | EHelpCalled -> "HelpCalled" | EUser -> "Other"

let show_view (c : pcase) : string =
  let (warn, ((err, rem), st)) = model_view c in
  Printf.sprintf "model{warn=%s err=%s remaining=%s store=%s}"
    (show_list show_str warn)
    (match err with None -> "none" | Some ((k, m), p) -> Printf.sprintf "(%s %s parsing=%b)" (show_ekind k) (show_str m) p)
    (show_list show_str rem) (show_list show_state st)

let show_dview (c : dcase) : string =
  match run_dcase c with
  | None -> "model{parse failed: " ^ show_view c.d_base ^ "}"
  | Some (r, h) ->
      let rs = match r with
        | DRan (id, args, view) -> Printf.sprintf "ran fn=%d args=%s view=%s" (int_of_nat id) (show_list show_str args)
                                     (show_list (fun (k, o) -> show_str k ^ ":" ^ show_state o) view)
        | DHelp t -> "help-called writer=" ^ show_str t
        | DRootHelp t -> "root-help writer=" ^ show_str t
        | DErr e -> Printf.sprintf "error %s %s parsing=%b" (show_ekind e.e_kind) (show_str e.e_msg) e.e_parsing in
      Printf.sprintf "model{%s | Help()=%s | %s}" rs (show_str h) (show_view c.d_base)

let dmask_of_string (s : string) : dmask =
  (* six characters: f(unction) a(rgs) v(iew) e(rror) w(riter) h(elp text) *)
  let g i = String.length s > i && s.[i] = '1' in
  { dm_fn = g 0; dm_args = g 1; dm_view = g 2; dm_err = g 3; dm_writer = g 4; dm_help = g 5 }

let rec show_node (Node (i, opts, cmds)) : string =
  Printf.sprintf "(%s um=%s ro=%b help=%s fn=%s opts=%s cmds=%s)" (show_str i.ni_name)
    (match i.ni_umode with Fail -> "Fail" | Warn -> "Warn" | Pass -> "Pass") i.ni_reqorder (show_str i.ni_helpname)
    (match i.ni_fn with FnNone -> "none" | FnHelp -> "help" | FnUser n -> string_of_int (int_of_nat n))
    (show_list (fun (k, o) -> show_str k ^ ":" ^ string_of_int (int_of_nat o)) opts)
    (show_list (fun (k, c) -> show_str k ^ "=" ^ show_node c) cmds)

let show_spec s = Printf.sprintf "%s[%d,%d]req=%b/%s env=%s def=%s arg=%s aliases=%s valid=%s/%s sugg=%s booldef=%b desc=%s" (show_str s.os_name) (int_of_nat s.os_min) (int_of_nat s.os_max) s.os_required (show_str s.os_reqmsg) (show_str s.os_env) (show_str s.os_defstr) (show_str s.os_argname) (show_list show_str s.os_aliases) (show_list show_str s.os_valid) (show_str s.os_validq) (show_list show_str s.os_suggested) s.os_booldef (show_str s.os_desc)

let show_bdiff (c : bcase) : string =
  match run_bcase c with
  | None -> "model rejects the definition, the real API accepted it"
  | Some ((r, sp), st) ->
      if c.bc_panics then "model accepts the definition, the real API panicked" else
      let ((r', sp'), st') = canon c.bc_root c.bc_specs c.bc_store in
      let b = Buffer.create 256 in
      if show_node r <> show_node r' then Buffer.add_string b (Printf.sprintf "TREE model=%s impl=%s; " (show_node r) (show_node r'));
      List.iteri (fun i s -> let s' = try List.nth sp' i with _ -> s in if show_spec s <> show_spec s' then Buffer.add_string b (Printf.sprintf "SPEC %d model=%s impl=%s; " i (show_spec s) (show_spec s'))) sp;
      List.iteri (fun i s -> let s' = try List.nth st' i with _ -> s in if show_state s <> show_state s' then Buffer.add_string b (Printf.sprintf "STATE %d model=%s impl=%s; " i (show_state s) (show_state s'))) st;
      if List.length sp <> List.length sp' then Buffer.add_string b "number of options differs; ";
      Buffer.contents b

let show_bview (c : bcase) : string =
  match run_bcase c with
  | None -> "model{definition rejected (panic)}"
  | Some ((r, sp), st) ->
      Printf.sprintf "model{tree=%s specs=%s store=%s}" (show_node r)
        (show_list (fun s -> Printf.sprintf "%s[%d,%d]req=%b env=%s def=%s aliases=%s" (show_str s.os_name) (int_of_nat s.os_min) (int_of_nat s.os_max) s.os_required (show_str s.os_env) (show_str s.os_defstr) (show_list show_str s.os_aliases)) sp)
        (show_list show_state st)

let mask_of_string (s : string) : mask =
  (* eight characters: e(rror presence/class/kind) p(ayload = format arguments) m(essage text)
     r(emaining) v(alues) c(alled) w(riter) o(rder: model result invariant under reversed tables), '1' = compare *)
  let g i = String.length s > i && s.[i] = '1' in
  { m_err = g 0; m_args = g 1; m_msg = g 2; m_rem = g 3; m_val = g 4; m_called = g 5; m_warn = g 6; m_perm = g 7 }

let () =
  let mask = if Array.length Sys.argv > 1 then mask_of_string Sys.argv.(1) else mask_all in
  let ic = if Array.length Sys.argv > 2 then open_in Sys.argv.(2) else stdin in
  let dmask = if Array.length Sys.argv > 3 then dmask_of_string Sys.argv.(3) else dmask_all in
  let i = ref 0 and bad = ref 0 in
  (try
     while true do
       let line = input_line ic in
       if String.length line > 0 then begin
         (match parse_sx line with
          | C ("mkCase", _) as sx ->
              let c = c_case sx in
              if check_case mask c then ()
              else begin incr bad; Printf.printf "MISMATCH %d %s\n" !i (show_view c) end
          | C ("mkGCase", _) as sx ->
              let c = c_gcase sx in
              if check_gcase c then ()
              else begin incr bad; Printf.printf "MISMATCH %d dag reason=%d\n" !i (int_of_nat (explain_gcase c)) end
          | C ("mkCCase", _) as sx ->
              let c = c_ccase sx in
              if check_ccase c then ()
              else begin
                incr bad;
                let r = run_ccase c in
                Printf.printf "MISMATCH %d model{stdout=%s stderr=%s}\n" !i (show_str (comp_stdout r)) (show_str (comp_stderr r))
              end
          | C ("mkBCase", _) as sx ->
              let c = c_bcase sx in
              (* for definition-tree cases the first three mask characters select the field groups:
                 help-only, completion-only, dispatch-only fields (see Run/Check.v, bmask) *)
              let bm = { bm_help = mask.m_err; bm_compl = mask.m_args; bm_req = mask.m_msg } in
              if check_bcase_with bm c then ()
              else begin incr bad; Printf.printf "MISMATCH %d %s\n" !i (show_bdiff c) end
          | C ("mkDCase", _) as sx ->
              let c = c_dcase sx in
              if check_dcase mask dmask c then ()
              else begin incr bad; Printf.printf "MISMATCH %d %s\n" !i (show_dview c) end
          | C ("mkTCase", [md; str; pairs; is]) ->
              let c = { t_md = c_mode md; t_s = c_str str; t_pairs = c_list (c_pair c_str (c_list c_str)) pairs; t_is = c_bool is } in
              if check_tcase c then ()
              else begin
                incr bad;
                let (ps, b) = is_option c.t_md c.t_s in
                Printf.printf "MISMATCH %d tokenizer input=%s model=(%s,%b)\n" !i (show_str c.t_s)
                  (show_list (fun p -> show_str p.p_name ^ ":" ^ show_list show_str p.p_args) ps) b
              end
          | _ -> incr bad; Printf.printf "MISMATCH %d unknown case form\n" !i);
         incr i
       end
     done
   with End_of_file -> ());
  Printf.printf "DONE cases=%d mismatches=%d\n" !i !bad
