package main

// Error classification, input features (for the evidence histograms), non-triviality rules and the
// direct, model-independent oracles.

import (
	"fmt"
	"reflect"
	"regexp"
	"sort"
	"strings"

	getoptions "github.com/DavidGamba/go-getoptions"
	"github.com/DavidGamba/go-getoptions/text"
)

func tmplRegexp(t string) *regexp.Regexp {
	q := regexp.QuoteMeta(t)
	q = strings.ReplaceAll(q, "%s", "((?s:.*))")
	q = strings.ReplaceAll(q, "%v", "((?s:.*))")
	return regexp.MustCompile("(?s)^" + q + "$")
}

type classifier struct {
	re   *regexp.Regexp
	kind string
}

var classifiers []classifier

func init() {
	classifiers = []classifier{
		{tmplRegexp(text.ErrorAmbiguousArgument), "EAmbiguous"},
		{tmplRegexp(text.ErrorArgumentWithDash), "EArgWithDash"},
		{tmplRegexp(text.ErrorMissingArgument), "EMissingArg"},
		{tmplRegexp(text.ErrorConvertToInt), "EConvInt"},
		{tmplRegexp(text.ErrorConvertToFloat64), "EConvFloat"},
		{tmplRegexp(text.ErrorArgumentIsNotKeyValue), "ENotKeyValue"},
		{regexp.MustCompile(`(?s)^wrong value for option '(.*)', valid values are (.*)$`), "EWrongValue"},
		{tmplRegexp(text.MessageOnUnknown), "EUnknown"},
	}
}

// classifyErr maps an error of Parse to the model's error kinds and extracts the arguments of the
// message format (templates are read from package text, so a change of wording is followed).
func classifyErr(msg string, isParsing bool) (string, []string) {
	for _, c := range classifiers {
		if m := c.re.FindStringSubmatch(msg); m != nil {
			// messages that wrap ErrorParsing and messages that do not are different kinds
			if (c.kind == "EMissingArg" || c.kind == "EArgWithDash") != isParsing {
				continue
			}
			return c.kind, m[1:]
		}
	}
	if isParsing {
		return "EMissingRequired", []string{msg}
	}
	return "EUser", []string{}
}

func isSubsequence(sub, full []string) bool {
	i := 0
	for _, t := range full {
		if i < len(sub) && sub[i] == t {
			i++
		}
	}
	return i == len(sub)
}

func allOpts(c *CmdDef) []OptDef {
	out := append(append([]OptDef{}, c.Opts...), c.LateOpts...)
	for _, s := range c.Cmds {
		out = append(out, allOpts(s)...)
	}
	return out
}

func anyCmd(c *CmdDef, f func(*CmdDef) bool) bool {
	if f(c) {
		return true
	}
	for _, s := range c.Cmds {
		if anyCmd(s, f) {
			return true
		}
	}
	return false
}

func plainWord(s string) bool {
	for i := 0; i < len(s); i++ {
		c := s[i]
		if !(c >= 'a' && c <= 'z' || c >= '0' && c <= '9' || c >= 'A' && c <= 'Z') {
			return false
		}
	}
	return true
}

// features fills hist tags, non-triviality flags and oracle verdicts of a parse observation.
func (obs *ParseObs) features() {
	p, argv := obs.Prog, obs.Argv
	opts := allOpts(p.Root)
	h := []string{"mode:" + modeNames[p.Mode]}
	if obs.HasErr {
		h = append(h, "err:"+obs.ErrKind)
	} else {
		h = append(h, "ok")
	}
	n := len(argv)
	switch {
	case n == 0:
		h = append(h, "argv:0")
	case n <= 3:
		h = append(h, "argv:1-3")
	case n <= 8:
		h = append(h, "argv:4-8")
	default:
		h = append(h, "argv:9+")
	}
	kinds := map[string]bool{}
	ddIdx := -1
	optLooking, single3, nonASCII := 0, false, false
	for i, t := range argv {
		switch {
		case t == "--":
			kinds["term"] = true
			if ddIdx < 0 {
				ddIdx = i
			}
		case t == "-":
			kinds["dash"] = true
		case t == "":
			kinds["empty"] = true
		case strings.HasPrefix(t, "--"):
			kinds["long"] = true
			optLooking++
		case strings.HasPrefix(t, "-"):
			kinds["short"] = true
			optLooking++
			if len(t) >= 3 {
				single3 = true
			}
		default:
			kinds["word"] = true
		}
		if strings.Contains(t, "=") {
			kinds["attached"] = true
		}
		for j := 0; j < len(t); j++ {
			if t[j] >= 0x80 || t[j] < 0x20 {
				nonASCII = true
			}
		}
	}
	ks := []string{}
	for k := range kinds {
		ks = append(ks, k)
	}
	sort.Strings(ks)
	for _, k := range ks {
		h = append(h, "tok:"+k)
	}
	if len(p.Root.Cmds) > 0 {
		h = append(h, "tree:commands")
	}
	obs.Hist = h

	hasKind := func(lo, hi int) bool {
		for _, o := range opts {
			if o.Kind >= lo && o.Kind <= hi {
				return true
			}
		}
		return false
	}
	exotic := false
	for _, t := range argv {
		tt := strings.TrimLeft(t, "-")
		if i := strings.Index(tt, "="); i >= 0 {
			if !plainWord(tt[i+1:]) {
				exotic = true
			}
		} else if !plainWord(tt) {
			exotic = true
		}
	}
	sharePrefix := false
	aliases := false
	names := []string{}
	for _, o := range opts {
		names = append(names, o.Name)
		names = append(names, o.Aliases...)
		if len(o.Aliases) > 0 {
			aliases = true
		}
	}
	for i := range names {
		for j := range names {
			if i != j && strings.HasPrefix(names[j], names[i]) {
				sharePrefix = true
			}
		}
	}
	reqOrder := anyCmd(p.Root, func(c *CmdDef) bool { return c.RequireOrder })
	unknownSeen := obs.ErrKind == "EUnknown" || strings.Contains(obs.Writer, "WARNING")
	for _, t := range obs.Remaining {
		if strings.HasPrefix(t, "-") && t != "-" && t != "--" {
			unknownSeen = true
		}
	}
	obs.Nontrivial = map[string]bool{
		"C01": hasKind(KStr, KFloatOpt) && exotic && optLooking > 0,
		"C02": hasKind(KStrRep, KMap) && n >= 3,
		"C03": len(kinds) >= 3 && len(obs.Remaining) > 0,
		"C04": ddIdx > 0 && ddIdx < n-1,
		"C05": sharePrefix && optLooking > 0,
		"C06": aliases && optLooking >= 2,
		"C07": single3 || (kinds["short"] && kinds["attached"]),
		"C08": unknownSeen,
		"C09": reqOrder && n >= 2,
		"C12": len(p.Env) > 0 && hasKind(KBool, KFloatOpt),
		"C19": nonASCII || n >= 50,
		"C20": len(p.Root.Opts) >= 2,
	}

	// ---- direct oracles (independent of the model) ----
	obs.Oracle = map[string][]OracleHit{}
	add := func(pid, key, what string) {
		obs.Oracle[pid] = append(obs.Oracle[pid], OracleHit{Key: key, What: what})
	}
	if !obs.HasErr {
		if !isSubsequence(obs.Remaining, argv) {
			add("C03", "not-subsequence", "remaining is not a subsequence of the arguments")
		}
		// C04 (restricted form that needs no parser knowledge): only plain words before the first `--`
		if ddIdx >= 0 {
			plainBefore := true
			for _, t := range argv[:ddIdx] {
				if strings.HasPrefix(t, "-") {
					plainBefore = false
				}
			}
			if plainBefore {
				tail := argv[ddIdx+1:]
				if len(obs.Remaining) < len(tail) || !equalStrings(obs.Remaining[len(obs.Remaining)-len(tail):], tail) {
					add("C04", "tail-not-verbatim", "tokens after the first `--` are not the verbatim end of remaining")
				}
				if obs.CalledAfterCount != obs.CalledBeforeCount {
					add("C04", "option-set-after-terminator", "an option became Called although only words precede `--`")
				}
			}
		}
	} else {
		if !obs.RemNil {
			add("C19", "remaining-on-error", "a failed Parse returned a non-nil remaining list")
		}
	}
	// C08 (needs no parser knowledge): a planted token that is no prefix of any declared name and
	// looks like an option can never be a value; before any `--`, without require-order anywhere
	// and with one unknown mode for the whole tree it must make Parse fail (Fail), or be warned
	// about and kept (Warn), or be kept (Pass) -- unless Parse fails for another reason.
	um := p.Root.UnknownMode
	if um < 0 {
		um = 0
	}
	uniform := !anyCmd(p.Root, func(c *CmdDef) bool {
		m := c.UnknownMode
		if m < 0 {
			m = um // inherited at creation unless the parent sets its mode late
		}
		return m != um || c.RequireOrder || c.SettingsLate
	})
	if uniform {
		for i, t := range argv {
			if t == "--" {
				break
			}
			if strings.HasPrefix(t, "--qq-unk") {
				_ = i
				switch {
				case obs.HasErr:
				case um == 0:
					add("C08", "fail-mode-no-error", "Fail mode: unknown option "+t+" was accepted without error")
				default:
					found := false
					for _, r := range obs.Remaining {
						if r == t {
							found = true
						}
					}
					if !found {
						add("C08", "unknown-not-kept", "unknown option "+t+" is not in remaining")
					}
					if um == 1 && !strings.Contains(obs.Writer, strings.TrimPrefix(strings.SplitN(t, "=", 2)[0], "--")) {
						add("C08", "no-warning", "Warn mode: no warning names "+t)
					}
				}
			}
		}
	}
	if obs.Panic != "" {
		add("C19", "panic", "panic: "+obs.Panic)
	}
	if obs.Hang {
		add("C19", "hang", "Parse did not return within the deadline")
	}
}

// accessPaths - C06: the pointer returned at definition (or the *Var target), Value(x), Called(x) and
// CalledAs(x) through every key of a root-level option must agree with each other and with the
// option object itself.
func (obs *ParseObs) accessPaths(b *Built, p *ProgDef, post *getoptions.VerifDump) {
	byKey := map[string]*getoptions.VerifOption{}
	for i, k := range post.Root.OptionKeys {
		byKey[k] = post.Options[post.Root.OptionIDs[i]]
	}
	add := func(what string) {
		obs.Oracle["C06"] = append(obs.Oracle["C06"], OracleHit{Key: "access-path", What: what})
	}
	for _, o := range append(append([]OptDef{}, p.Root.Opts...), p.Root.LateOpts...) {
		ptr := b.Ptrs["\x00"+o.Name]
		if ptr == nil {
			continue
		}
		pv := reflect.ValueOf(ptr).Elem().Interface()
		d := byKey[o.Name]
		if d == nil {
			add("option " + o.Name + " missing from the root table")
			continue
		}
		for _, k := range append([]string{o.Name}, o.Aliases...) {
			v := b.Opt.Value(k)
			if fmt.Sprintf("%#v", normNil(pv)) != fmt.Sprintf("%#v", normNil(v)) {
				add(fmt.Sprintf("Value(%q)=%#v differs from the definition pointer %#v", k, v, pv))
			}
			if b.Opt.Called(k) != d.Called {
				add(fmt.Sprintf("Called(%q)=%v but the option object says %v", k, b.Opt.Called(k), d.Called))
			}
			if b.Opt.CalledAs(k) != d.UsedAlias {
				add(fmt.Sprintf("CalledAs(%q)=%q but the option object says %q", k, b.Opt.CalledAs(k), d.UsedAlias))
			}
		}
	}
}

// normNil maps nil and empty slices/maps to the same value for comparison
func normNil(v interface{}) interface{} {
	rv := reflect.ValueOf(v)
	switch rv.Kind() {
	case reflect.Slice, reflect.Map:
		if rv.Len() == 0 {
			return "empty"
		}
	}
	return v
}

func equalStrings(a, b []string) bool {
	if len(a) != len(b) {
		return false
	}
	for i := range a {
		if a[i] != b[i] {
			return false
		}
	}
	return true
}
