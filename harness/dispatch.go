package main

// Dispatch correspondence: Parse, then Help() and Dispatch on the same object, with instrumented
// command functions.

import (
	"bufio"
	"bytes"
	"context"
	"encoding/json"
	"errors"
	"flag"
	"fmt"
	"os"
	"strings"
	"time"

	getoptions "github.com/DavidGamba/go-getoptions"
)

type DispatchObs struct {
	*ParseObs
	Dispatched bool     `json:"dispatched"`
	FnCount    int      `json:"fn_count"`
	FnPaths    []string `json:"fn_paths"`
	DErr       string   `json:"dispatch_err,omitempty"`
	DHasErr    bool     `json:"dispatch_has_err"`
	DIsHelp    bool     `json:"dispatch_is_help_called"`
	DIsParsing bool     `json:"dispatch_is_parsing"`
	DWriter    string   `json:"dispatch_writer"`
	HelpText   string   `json:"help_text"`
	dterm      *T
}

func runDispatch(seed int64, p *ProgDef, argv []string) *DispatchObs {
	d := &DispatchObs{}
	var b *Built
	var views [][]*T
	hook := func(bb *Built) { b = bb }
	obs := runParseWith(seed, p, argv, hook)
	d.ParseObs = obs
	if obs.BuildErr != "" || obs.Panic != "" || obs.Hang || obs.term == nil {
		return d
	}
	ran := []*T{}
	errT := Ctor("None")
	if !obs.HasErr {
		d.Dispatched = true
		buf := new(bytes.Buffer)
		getoptions.Writer = buf
		type res struct {
			err      error
			help     string
			sections string
			pan      interface{}
		}
		ch := make(chan res, 1)
		go func() {
			var r res
			defer func() {
				if x := recover(); x != nil {
					r.pan = x
				}
				ch <- r
			}()
			r.help = b.Opt.Help()
			// sections asked for explicitly come out in the order given, each as when asked for alone
			sec := []getoptions.HelpSection{getoptions.HelpName, getoptions.HelpSynopsis, getoptions.HelpCommandList, getoptions.HelpOptionList}
			i, j := len(argv)%4, (len(argv)/4+1+len(argv)%4)%4
			if i != j {
				both := b.Opt.Help(sec[i], sec[j])
				if parts := b.Opt.Help(sec[i]) + b.Opt.Help(sec[j]); both != parts {
					r.sections = fmt.Sprintf("Help(%d, %d) = %q but Help(%d) + Help(%d) = %q", sec[i], sec[j], both, sec[i], sec[j], parts)
				}
			}
			ctx := context.WithValue(context.Background(), ctxKey("verif"), "token")
			// the caller's context is passed on as it is, whatever its state: every fifth command line
			// (by its text) is dispatched with a context that is already cancelled or past its deadline
			switch h := len(strings.Join(argv, " ")) % 10; h {
			case 3:
				c2, cancel := context.WithCancel(ctx)
				cancel()
				ctx = c2
			case 7:
				c2, cancel := context.WithDeadline(ctx, time.Unix(0, 0))
				defer cancel()
				ctx = c2
			}
			r.err = b.Opt.Dispatch(ctx, obs.Remaining)
		}()
		var r res
		select {
		case r = <-ch:
		case <-time.After(10 * time.Second):
			obs.Hang = true
			obs.Oracle["C19"] = append(obs.Oracle["C19"], OracleHit{Key: "hang", What: "Dispatch did not return"})
			return d
		}
		if r.pan != nil {
			obs.Panic = fmt.Sprint(r.pan)
			obs.Oracle["C19"] = append(obs.Oracle["C19"], OracleHit{Key: "panic", What: "Dispatch/Help panic: " + obs.Panic})
			return d
		}
		d.HelpText = r.help
		d.DWriter = buf.String()
		if r.sections != "" {
			obs.Oracle["C18"] = append(obs.Oracle["C18"], OracleHit{Key: "help-sections", What: r.sections})
		}
		for _, h := range helpOracle(b.Opt.VerifDumpFinal(), r.help) {
			obs.Oracle["C18"] = append(obs.Oracle["C18"], h)
		}
		d.FnCount = len(b.FnCalls)
		for _, c := range b.FnCalls {
			d.FnPaths = append(d.FnPaths, c.Path)
			ran = append(ran, Ctor("R3", Nat(c.ID), Strs(c.Args), List(c.viewT...)))
			if !c.CtxOK {
				obs.Oracle["C10"] = append(obs.Oracle["C10"], OracleHit{Key: "ctx", What: "the CommandFn did not receive the caller's context"})
			}
		}
		_ = views
		if r.err != nil {
			d.DHasErr = true
			d.DErr = r.err.Error()
			d.DIsHelp = errors.Is(r.err, getoptions.ErrorHelpCalled)
			d.DIsParsing = errors.Is(r.err, getoptions.ErrorParsing)
			errT = Ctor("Some", Ctor("D3", Str(d.DErr), Bool(d.DIsHelp), Bool(d.DIsParsing)))
		}
		// direct oracles
		if d.FnCount > 1 {
			obs.Oracle["C10"] = append(obs.Oracle["C10"], OracleHit{Key: "fn-count", What: fmt.Sprintf("%d user functions ran", d.FnCount)})
		}
		if d.DIsHelp && d.FnCount > 0 {
			obs.Oracle["C11"] = append(obs.Oracle["C11"], OracleHit{Key: "fn-after-help", What: "a CommandFn ran although help was called"})
		}
		if d.DIsParsing && d.FnCount > 0 {
			obs.Oracle["C11"] = append(obs.Oracle["C11"], OracleHit{Key: "fn-after-missing-required", What: "a CommandFn ran although a required option is missing"})
		}
	}
	obs.Nontrivial["C10"] = d.Dispatched && len(p.Root.Cmds) > 0 && d.FnCount == 1
	obs.Nontrivial["C11"] = (obs.ErrKind == "EMissingRequired") || d.DIsHelp || d.DIsParsing
	obs.Nontrivial["C18"] = d.Dispatched && len(obs.Values) >= 4
	if d.Dispatched {
		switch {
		case d.DIsHelp:
			obs.Hist = append(obs.Hist, "dispatch:help")
		case d.DIsParsing:
			obs.Hist = append(obs.Hist, "dispatch:missing-required")
		case d.DHasErr:
			obs.Hist = append(obs.Hist, "dispatch:error")
		case d.FnCount == 1:
			obs.Hist = append(obs.Hist, "dispatch:fn")
		default:
			obs.Hist = append(obs.Hist, "dispatch:none")
		}
	}
	d.dterm = Ctor("mkDCase", obs.term, List(ran...), errT, Str(d.DWriter), Str(d.HelpText))
	return d
}

func cmdDispatch(args []string) {
	fs := flag.NewFlagSet("dispatch", flag.ExitOnError)
	seed := fs.Int64("seed", 1, "seed")
	n := fs.Int("n", 100, "number of cases")
	profile := fs.String("profile", "dispatch", "generator profile")
	out := fs.String("out", "cases.txt", "case output for the extracted driver")
	coqOut := fs.String("coq", "", "Coq output (vm_compute route)")
	coqN := fs.Int("coqn", 10, "number of cases in the Coq output")
	obsOut := fs.String("obs", "obs.jsonl", "observation output")
	repeat := fs.Int("repeat", 0, "C20: run every case this many times (fresh definition each time) and compare help text, Dispatch output and error")
	maskT := fs.String("mask", "mask_all", "comparison mask of the vm_compute sample (Coq term)")
	dmaskT := fs.String("dmask", "dmask_all", "dispatch comparison mask of the vm_compute sample (Coq term)")
	fs.Parse(args)

	g := NewGen(*seed)
	applyProfile(g, *profile)
	defs := []*T{}
	of, err := os.Create(*obsOut)
	if err != nil {
		panic(err)
	}
	defer of.Close()
	ow := bufio.NewWriter(of)
	defer ow.Flush()
	enc := json.NewEncoder(ow)
	skipped := 0
	var prog *ProgDef
	for i := 0; len(defs) < *n && i < *n*4; i++ {
		if prog == nil || i%4 == 0 {
			prog = genProgFor(g, *profile)
		}
		argv := genArgvFor(g, *profile, prog)
		d := runDispatch(*seed, prog, argv)
		if d.BuildErr != "" {
			skipped++
			prog = nil
			continue
		}
		for k := 1; k < *repeat && d.Panic == "" && !d.Hang && d.dterm != nil; k++ {
			again := runDispatch(*seed, prog, argv)
			if again.HelpText != d.HelpText || again.DWriter != d.DWriter || again.DErr != d.DErr {
				d.Oracle["C20"] = append(d.Oracle["C20"], OracleHit{Key: "help-nondeterministic",
					What: fmt.Sprintf("run %d of the same program and arguments differs in help text / Dispatch output: first help=%q writer=%q err=%q, again help=%q writer=%q err=%q",
						k+1, d.HelpText, d.DWriter, d.DErr, again.HelpText, again.DWriter, again.DErr)})
				break
			}
		}
		if d.Panic == "" && !d.Hang && d.dterm != nil && d.DIsHelp && prog.Help {
			helpRouteOracle(*seed, prog, argv, d)
		}
		if d.Panic != "" || d.Hang || d.dterm == nil {
			enc.Encode(d)
			fmt.Printf("IMPL-FAILURE argv=%q panic=%q hang=%v\n", d.Argv, d.Panic, d.Hang)
			continue
		}
		ci := len(defs)
		d.Case = &ci
		enc.Encode(d)
		defs = append(defs, d.dterm)
	}
	if err := writeSexpCases(*out, defs); err != nil {
		panic(err)
	}
	if *coqOut != "" {
		k := *coqN
		if k > len(defs) {
			k = len(defs)
		}
		f, err := os.Create(*coqOut)
		if err != nil {
			panic(err)
		}
		w := bufio.NewWriter(f)
		fmt.Fprintln(w, "From GO Require Import Base.Str Model.Tokenizer Model.Option Model.Tree Run.Check.")
		fmt.Fprintln(w, "Open Scope N_scope.")
		names := ""
		for i := range defs[:k] {
			fmt.Fprintf(w, "Definition c_%d : dcase :=\n %s.\n", i, sampleText(defs[:k], i))
			if i > 0 {
				names += ";"
			}
			names += fmt.Sprintf("c_%d", i)
		}
		fmt.Fprintf(w, "Definition M := Eval vm_compute in dmismatches %s %s [%s].\nPrint M.\n", *maskT, *dmaskT, names)
		w.Flush()
		f.Close()
	}
	fmt.Printf("cases=%d skipped_definitions=%d\n", len(defs), skipped)
}

// helpRouteOracle - C18, last sentence: the help of a level is the same text whichever way it is
// asked for.  The same level is asked for again through another route (the help option appended to
// the command path; when that is the route already used, the parent's help command with the last
// command as topic); when both requests end in help for the same command path the texts must be equal.
func helpRouteOracle(seed int64, p *ProgDef, argv []string, d *DispatchObs) {
	isHelpTok := func(t string) bool {
		if t == p.HelpName || t == "--"+p.HelpName || t == "-"+p.HelpName {
			return true
		}
		for _, a := range p.HelpAlias {
			if t == "-"+a || t == "--"+a {
				return true
			}
		}
		return false
	}
	toks := []string{}
	for _, t := range argv {
		if !isHelpTok(t) {
			toks = append(toks, t)
		}
	}
	alt := append(append([]string{}, toks...), "--"+p.HelpName)
	if fmt.Sprintf("%q", alt) == fmt.Sprintf("%q", argv) {
		if len(toks) == 0 {
			alt = []string{p.HelpName}
		} else {
			alt = append(append(append([]string{}, toks[:len(toks)-1]...), p.HelpName), toks[len(toks)-1])
		}
	}
	d2 := runDispatch(seed, p, alt)
	if d2.Panic != "" || d2.Hang || d2.dterm == nil || !d2.DIsHelp {
		return
	}
	level := func(text string) string {
		text = strings.TrimPrefix(text, "NAME:\n")
		if i := strings.Index(text, "\n"); i >= 0 {
			text = text[:i]
		}
		if i := strings.Index(text, " - "); i >= 0 {
			text = text[:i]
		}
		return strings.TrimSpace(text)
	}
	if d.DWriter == "" || d2.DWriter == "" || level(d.DWriter) != level(d2.DWriter) {
		return
	}
	if d.DWriter != d2.DWriter {
		d.Oracle["C18"] = append(d.Oracle["C18"], OracleHit{Key: "help-route",
			What: fmt.Sprintf("the help of `%s` asked for as %q and as %q differs: %q versus %q", level(d.DWriter), argv, alt, d.DWriter, d2.DWriter)})
	}
}
