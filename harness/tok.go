package main

// Tokenizer correspondence: isOption (through the VerifIsOption hook) on enumerated and random
// byte strings, in the three modes.

import (
	"bufio"
	"flag"
	"fmt"
	"math/rand"
	"os"

	getoptions "github.com/DavidGamba/go-getoptions"
)

var tokAlphabet = []string{"-", "=", "\n", "a", "b", "é", "\xff", "\xe2\x82", " ", ":", "/", ".", "\xf0\x9f\x98\x80", "\xed\xa0\x80"}

func tokCase(mode int, s string) *T {
	pairs, is := getoptions.VerifIsOption(s, getoptions.Mode(mode))
	ps := []*T{}
	for _, p := range pairs {
		ps = append(ps, Pair(Str(p.Option), Strs(p.Args)))
	}
	return Ctor("mkTCase", Ctor(modeNames[mode]), Str(s), List(ps...), Bool(is))
}

func cmdTok(args []string) {
	fs := flag.NewFlagSet("tok", flag.ExitOnError)
	seed := fs.Int64("seed", 1, "seed")
	maxLen := fs.Int("len", 3, "exhaustive length over the alphabet")
	nRand := fs.Int("n", 20000, "random strings")
	out := fs.String("out", "tok.txt", "output")
	_ = fs.String("profile", "", "unused")
	_ = fs.String("obs", "", "unused")
	fs.Parse(args)
	f, err := os.Create(*out)
	if err != nil {
		panic(err)
	}
	defer f.Close()
	w := bufio.NewWriter(f)
	defer w.Flush()
	count := 0
	emit := func(s string) {
		for m := 0; m < 3; m++ {
			fmt.Fprintln(w, tokCase(m, s).SexpString())
			count++
		}
	}
	var rec func(prefix string, depth int)
	rec = func(prefix string, depth int) {
		emit(prefix)
		if depth == *maxLen {
			return
		}
		for _, a := range tokAlphabet {
			rec(prefix+a, depth+1)
		}
	}
	rec("", 0)
	r := rand.New(rand.NewSource(*seed))
	for i := 0; i < *nRand; i++ {
		n := r.Intn(12)
		b := []byte{}
		if r.Intn(4) > 0 {
			b = append(b, '-')
			if r.Intn(2) == 0 {
				b = append(b, '-')
			}
		}
		for j := 0; j < n; j++ {
			switch r.Intn(6) {
			case 0:
				b = append(b, byte(r.Intn(256)))
			case 1:
				b = append(b, '=')
			case 2:
				b = append(b, []byte(tokAlphabet[r.Intn(len(tokAlphabet))])...)
			default:
				b = append(b, byte('a'+r.Intn(26)))
			}
		}
		emit(string(b))
	}
	fmt.Printf("cases=%d\n", count)
}
