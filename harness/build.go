package main

// Builder correspondence: the operation list, as a Coq term, with the dump of the tree the real API
// built from it.

import (
	"bufio"
	"encoding/json"
	"flag"
	"fmt"
	"os"
	"sort"
	"strconv"

	getoptions "github.com/DavidGamba/go-getoptions"
)

func tPath(p []string) *T { return Strs(p) }

func defaultValueT(o *OptDef) *T {
	switch o.Kind {
	case KBool:
		return Ctor("VBool", Bool(o.DefBool))
	case KIncr, KInt, KIntOpt:
		return Ctor("VInt", ZInt(o.DefInt))
	case KStr, KStrOpt:
		return Ctor("VStr", Str(o.DefStr))
	case KFloat, KFloatOpt:
		return Ctor("VFloat", FloatBits(o.DefFloat))
	case KStrRep:
		if o.UseVar && o.PreSet {
			return Ctor("VStrs", List(Str("pre")))
		}
		return Ctor("VStrs", List())
	case KIntRep:
		return Ctor("VInts", List())
	case KFloatRep:
		return Ctor("VFloats", List())
	}
	if o.Kind == KMap && o.UseVar && o.PreSet {
		return Ctor("VMap", List(Pair(Str("pre"), Str("set"))))
	}
	return Ctor("VMap", List())
}

// defaultStr - what option.New renders as DefaultStr (fmt verbs of the library, recomputed here so
// that the model gets it as data; the tree comparison checks it against the real object).
func defaultStr(o *OptDef) string {
	switch o.Kind {
	case KBool:
		return fmt.Sprintf("%t", o.DefBool)
	case KIncr, KInt, KIntOpt:
		return fmt.Sprintf("%d", o.DefInt)
	case KStr:
		return fmt.Sprintf("\"%s\"", o.DefStr)
	case KStrOpt:
		return o.DefStr
	case KFloat, KFloatOpt:
		return fmt.Sprintf("%f", o.DefFloat)
	case KMap:
		return "{}"
	}
	return "[]"
}

func tOptDef(o *OptDef) *T {
	setc := Ctor("None")
	switch o.SetCalled {
	case 1:
		setc = Ctor("Some", Pair(Bool(true), Bool(false)))
	case 2:
		setc = Ctor("Some", Pair(Bool(false), Bool(false)))
	case 3:
		setc = Ctor("Some", Pair(Bool(true), Bool(true)))
	case 4:
		setc = Ctor("Some", Pair(Bool(false), Bool(true)))
	}
	reqmsg := ""
	if o.Required && o.HasReqMsg {
		reqmsg = o.ReqMsg
	}
	var valid []string
	valid = append(valid, o.Valid...)
	return Ctor("mkOptDef", Ctor(kindNames[o.Kind]), Str(o.Name), Strs(o.Aliases), defaultValueT(o),
		Nat(o.Min), Nat(o.Max), Bool(o.Required), Str(reqmsg), Str(o.Env), Strs(o.Valid),
		Str(fmt.Sprintf("%q", valid)), Strs(o.Suggested), tOptNat(o.SuggestFn), setc, Str(o.Desc), Str(o.ArgName),
		Str(defaultStr(o)))
}

func tOp(op Op) *T {
	switch op.Kind {
	case "opt":
		return Ctor("BOpt", tPath(op.Path), tOptDef(op.Opt))
	case "newcmd":
		return Ctor("BNewCmd", tPath(op.Path), Str(op.Name), Str(op.Desc))
	case "unset":
		return Ctor("BUnset", tPath(op.Path))
	case "umode":
		return Ctor("BUMode", tPath(op.Path), Ctor(umodeNames[op.Int]))
	case "reqorder":
		return Ctor("BReqOrder", tPath(op.Path))
	case "argcompl":
		return Ctor("BArgCompl", tPath(op.Path), Strs(op.List))
	case "argfns":
		l := []*T{}
		for _, i := range op.Ints {
			l = append(l, Nat(i))
		}
		return Ctor("BArgFns", tPath(op.Path), List(l...))
	case "self":
		return Ctor("BSelf", tPath(op.Path), Str(op.Name), Str(op.Desc))
	case "synarg":
		return Ctor("BSynArg", tPath(op.Path), Str(op.Name), Str(op.Desc))
	case "setfn":
		return Ctor("BSetFn", tPath(op.Path), Nat(op.Int))
	case "help":
		return Ctor("BHelp", Str(op.Name), Strs(op.List))
	}
	panic("unknown op " + op.Kind)
}

type BuildObs struct {
	Case       *int                   `json:"case"`
	Key        string                 `json:"key"`
	Prog       *ProgDef               `json:"prog"`
	Ops        []Op                   `json:"ops"`
	Panicked   bool                   `json:"panicked"`
	PanicText  string                 `json:"panic_text,omitempty"`
	Hist       []string               `json:"hist"`
	Nontrivial map[string]bool        `json:"nontrivial"`
	Oracle     map[string][]OracleHit `json:"oracle"`
	Sample     map[string]interface{} `json:"sample"`
	term       *T
}

// inheritanceOracle - written from the documented rule, not from the model: once HelpCommand has been
// declared (it is the last call of a linearised definition) every command has, in its own option
// table, every spelling of every option declared on it or on an ancestor, up to and including the
// nearest UnsetOptions wrapper.  An option missing there cannot be parsed at that level, is not in
// the view its function gets, is not offered by completion and is not listed by the level's help.
func inheritanceOracle(p *ProgDef, root *getoptions.VerifNode) []OracleHit {
	hits := []OracleHit{}
	var walk func(path []*CmdDef, n *getoptions.VerifNode)
	walk = func(path []*CmdDef, n *getoptions.VerifNode) {
		have := map[string]bool{}
		for _, k := range n.OptionKeys {
			have[k] = true
		}
		names := ""
		for _, c := range path[1:] {
			names += " " + c.Name
		}
		declared := []OptDef{}
		for _, c := range path {
			if c.UnsetOptions {
				declared = []OptDef{}
			}
			declared = append(append(declared, c.Opts...), c.LateOpts...)
		}
		for _, o := range declared {
			for _, k := range optKeys(o) {
				if !have[k] && len(hits) < 3 {
					hits = append(hits, OracleHit{Key: "inherited-option-missing",
						What: fmt.Sprintf("option %q (spelling %q) is declared on the command path `prog%s` or above it, HelpCommand was declared afterwards, yet the option table of `prog%s` does not contain it: it cannot be given there and the help of that level does not list it", o.Name, k, names, names)})
				}
			}
		}
		cur := path[len(path)-1]
		for _, sub := range cur.Cmds {
			for i, ck := range n.CommandKeys {
				if ck == sub.Name && i < len(n.Commands) {
					walk(append(append([]*CmdDef{}, path...), sub), n.Commands[i])
				}
			}
		}
	}
	walk([]*CmdDef{p.Root}, root)
	return hits
}

// helpTopicsOracle - the topics completion offers after `<commands...> help ` are the static
// suggestions of that level's help command; the applicable ones are exactly the names runHelp accepts
// there: the other commands of the same level.
func helpTopicsOracle(p *ProgDef, root *getoptions.VerifNode) []OracleHit {
	hits := []OracleHit{}
	var walk func(path string, n *getoptions.VerifNode)
	walk = func(path string, n *getoptions.VerifNode) {
		if n.Name == p.HelpName && path != "" {
			return
		}
		want := []string{}
		var help *getoptions.VerifNode
		for i, k := range n.CommandKeys {
			if k == p.HelpName {
				help = n.Commands[i]
			} else {
				want = append(want, k)
			}
		}
		if help != nil {
			got := append([]string{}, help.Suggestions...)
			sort.Strings(got)
			sort.Strings(want)
			if fmt.Sprintf("%q", got) != fmt.Sprintf("%q", want) && len(hits) < 3 {
				hits = append(hits, OracleHit{Key: "help-topics",
					What: fmt.Sprintf("completion after `prog%s %s ` offers %q; the help topics accepted at that level (its other commands) are %q", path, p.HelpName, got, want)})
			}
		}
		for i, k := range n.CommandKeys {
			if k != p.HelpName {
				walk(path+" "+k, n.Commands[i])
			}
		}
	}
	walk("", root)
	return hits
}

func runBuild(p *ProgDef, ops []Op) *BuildObs {
	obs := &BuildObs{Prog: p, Ops: ops, Oracle: map[string][]OracleHit{}}
	obs.Key = fmt.Sprintf("%x", jsonOf(ops)+jsonOf(p.Env))
	if len(obs.Key) > 64 {
		obs.Key = fmt.Sprintf("%d-%s", len(obs.Key), obs.Key[len(obs.Key)-48:])
	}
	b, err := BuildOps(p, ops)
	opsT := []*T{}
	for _, op := range ops {
		opsT = append(opsT, tOp(op))
	}
	envT := []*T{}
	ftab := map[string]*float64{}
	order := []string{}
	for _, k := range sortedKeys(p.Env) {
		v := p.Env[k]
		envT = append(envT, Pair(Str(k), Str(v)))
		if _, ok := ftab[v]; !ok {
			f, e := strconv.ParseFloat(v, 64)
			if e != nil {
				ftab[v] = nil
			} else {
				ftab[v] = &f
			}
			order = append(order, v)
		}
	}
	specs, st := []*T{}, []*T{}
	root := Ctor("Node", Ctor("mkInfo", Str(""), Str(""), Ctor("Fail"), Bool(false), Str(""), Ctor("FnNone"), List(), List(), List()), List(), List())
	nopts, ncmds := 0, 0
	if err != nil {
		obs.Panicked = true
		obs.PanicText = err.Error()
	} else {
		d := b.Opt.VerifDumpTree()
		meta := metaOf(p)
		meta.fnID = b.FnIDs
		for _, o := range d.Options {
			specs = append(specs, tSpec(o, sfnOfOption(p, o.Name)))
			st = append(st, tState(o))
		}
		root = tNode(d.Root, "", meta)
		nopts, ncmds = len(d.Options), countNodes(d.Root)
		if p.Help && !p.HelpEarly && jsonOf(ops) == jsonOf(Linearise(p)) {
			for _, h := range inheritanceOracle(p, d.Root) {
				for _, pid := range []string{"C03", "C10", "C17", "C18"} {
					obs.Oracle[pid] = append(obs.Oracle[pid], h)
				}
			}
			for _, h := range helpTopicsOracle(p, d.Root) {
				obs.Oracle["C17"] = append(obs.Oracle["C17"], h)
			}
		}
	}
	obs.Hist = []string{fmt.Sprintf("panicked:%v", obs.Panicked), "mode:" + modeNames[p.Mode]}
	if p.Help {
		obs.Hist = append(obs.Hist, "help-command")
	}
	hasUnset := anyCmd(p.Root, func(c *CmdDef) bool { return c.UnsetOptions })
	hasLate := anyCmd(p.Root, func(c *CmdDef) bool { return len(c.LateOpts) > 0 })
	if hasUnset {
		obs.Hist = append(obs.Hist, "wrapper")
	}
	if hasLate {
		obs.Hist = append(obs.Hist, "late-options")
	}
	envBound := false
	for _, o := range allOpts(p.Root) {
		if o.Env != "" && p.Env[o.Env] != "" {
			envBound = true
		}
	}
	if envBound {
		obs.Hist = append(obs.Hist, "env-bound")
	}
	obs.Nontrivial = map[string]bool{
		"C10": ncmds >= 3 && nopts >= 2, "C11": ncmds >= 2 && p.Help, "C12": envBound, "C06": nopts >= 2,
		"C17": ncmds >= 2, "C18": nopts >= 3, "C19": true, "C20": nopts >= 2,
	}
	obs.Sample = map[string]interface{}{"ops": len(ops), "options": nopts, "nodes": ncmds, "panicked": obs.Panicked, "env": p.Env}
	obs.term = Ctor("mkBCase", Str(p.Root.Name), Str(p.Root.Desc), List(opsT...), List(envT...), tFloatTable(ftab, order),
		Bool(obs.Panicked), List(specs...), root, List(st...))
	return obs
}

func sfnOfOption(p *ProgDef, name string) int {
	for _, o := range allOpts(p.Root) {
		if o.Name == name {
			return o.SuggestFn
		}
	}
	return 0
}

func countNodes(n *getoptions.VerifNode) int {
	c := 1
	for _, s := range n.Commands {
		c += countNodes(s)
	}
	return c
}

func cmdBuild(args []string) {
	fs := flag.NewFlagSet("build", flag.ExitOnError)
	seed := fs.Int64("seed", 1, "seed")
	n := fs.Int("n", 100, "number of cases")
	profile := fs.String("profile", "build", "generator profile")
	out := fs.String("out", "cases.txt", "case output for the extracted driver")
	coqOut := fs.String("coq", "", "Coq output (vm_compute route)")
	coqN := fs.Int("coqn", 10, "number of cases in the Coq output")
	obsOut := fs.String("obs", "obs.jsonl", "observation output")
	bmaskT := fs.String("bmask", "bmask_all", "field groups compared by the vm_compute sample (Coq term)")
	fs.Parse(args)
	g := NewGen(*seed)
	applyProfile(g, *profile)
	of, err := os.Create(*obsOut)
	if err != nil {
		panic(err)
	}
	defer of.Close()
	ow := bufio.NewWriter(of)
	defer ow.Flush()
	enc := json.NewEncoder(ow)
	defs := []*T{}
	for i := 0; i < *n; i++ {
		p := genProgFor(g, *profile)
		ops := Linearise(p)
		if g.pct(g.PInvalid) {
			ops = g.corruptOps(ops)
		}
		obs := runBuild(p, ops)
		ci := len(defs)
		obs.Case = &ci
		enc.Encode(obs)
		defs = append(defs, obs.term)
	}
	if err := writeSexpCases(*out, defs); err != nil {
		panic(err)
	}
	if *coqOut != "" {
		k := *coqN
		if k > len(defs) {
			k = len(defs)
		}
		f, err := os.Create(*coqOut)
		if err != nil {
			panic(err)
		}
		w := bufio.NewWriter(f)
		fmt.Fprintln(w, "From GO Require Import Base.Str Model.Tokenizer Model.Option Model.Tree Model.Build Run.Check.")
		fmt.Fprintln(w, "Open Scope N_scope.")
		names := ""
		for i := range defs[:k] {
			fmt.Fprintf(w, "Definition c_%d : bcase :=\n %s.\n", i, sampleText(defs[:k], i))
			if i > 0 {
				names += ";"
			}
			names += fmt.Sprintf("c_%d", i)
		}
		fmt.Fprintf(w, "Definition M := Eval vm_compute in bmismatches %s [%s].\nPrint M.\n", *bmaskT, names)
		w.Flush()
		f.Close()
	}
	fmt.Printf("cases=%d skipped_definitions=0\n", len(defs))
}

// corruptOps - makes the definition invalid in one of the ways the library panics on
func (g *Gen) corruptOps(ops []Op) []Op {
	out := append([]Op{}, ops...)
	idx := []int{}
	for i, op := range out {
		if op.Kind == "opt" || op.Kind == "newcmd" {
			idx = append(idx, i)
		}
	}
	if len(idx) == 0 {
		return out
	}
	i := idx[g.r.Intn(len(idx))]
	op := out[i]
	switch {
	case op.Kind == "newcmd":
		if g.pct(50) {
			op.Name = ""
		} else { // duplicate command: repeat the call
			out = append(out[:i+1], append([]Op{op}, out[i+1:]...)...)
			return out
		}
	case op.Opt != nil:
		o := *op.Opt
		switch g.r.Intn(4) {
		case 0:
			o.Name = ""
		case 1:
			o.Aliases = append(append([]string{}, o.Aliases...), o.Name)
		case 2:
			if o.Kind >= KStrRep {
				o.Min, o.Max = []int{0, 2, -1}[g.r.Intn(3)], 1
			} else {
				o.Aliases = append(append([]string{}, o.Aliases...), "")
			}
		default: // duplicate option: repeat the call
			out = append(out[:i+1], append([]Op{op}, out[i+1:]...)...)
			return out
		}
		op.Opt = &o
	}
	out[i] = op
	return out
}
