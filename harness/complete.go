package main

// Completion correspondence: Parse with COMP_LINE set, in process, with the completion writer and
// the exit function replaced through the verif hooks.

import (
	"bufio"
	"bytes"
	"encoding/json"
	"flag"
	"fmt"
	"os"
	"sort"
	"strings"
	"time"

	getoptions "github.com/DavidGamba/go-getoptions"
)

type CompObs struct {
	Case       *int                   `json:"case"`
	Key        string                 `json:"key"`
	Prog       *ProgDef               `json:"prog"`
	Line       string                 `json:"comp_line"`
	Zsh        bool                   `json:"zsh"`
	Args       []string               `json:"parse_args"`
	Stdout     string                 `json:"stdout"`
	Stderr     string                 `json:"stderr"`
	Exits      []int                  `json:"exits"`
	FnCount    int                    `json:"fn_count"`
	Panic      string                 `json:"panic,omitempty"`
	Hang       bool                   `json:"hang,omitempty"`
	BuildErr   string                 `json:"build_err,omitempty"`
	Hist       []string               `json:"hist"`
	Nontrivial map[string]bool        `json:"nontrivial"`
	Oracle     map[string][]OracleHit `json:"oracle"`
	Sample     map[string]interface{} `json:"sample"`
	term       *T
}

func runComplete(p *ProgDef, line string, zsh bool, args []string) *CompObs {
	obs := &CompObs{Prog: p, Line: line, Zsh: zsh, Args: args, Oracle: map[string][]OracleHit{}, Nontrivial: map[string]bool{}}
	obs.Key = fmt.Sprintf("%x", []byte(jsonOf(p)+"|"+line+"|"+fmt.Sprint(zsh, args)))
	if len(obs.Key) > 64 {
		obs.Key = fmt.Sprintf("%d-%s", len(obs.Key), obs.Key[len(obs.Key)-48:])
	}
	b, err := Build(p)
	if err != nil {
		obs.BuildErr = err.Error()
		return obs
	}
	pre := b.Opt.VerifDumpTree()
	meta := metaOf(p)
	meta.fnID = b.FnIDs
	out, errw := new(bytes.Buffer), new(bytes.Buffer)
	oldW := getoptions.VerifSetCompletionWriter(out)
	exits := []int{}
	oldE := getoptions.VerifSetExit(func(c int) { exits = append(exits, c) })
	getoptions.Writer = errw
	os.Setenv("COMP_LINE", line)
	if zsh {
		os.Setenv("ZSHELL", "true")
	}
	// the target is chosen by ZSHELL alone; the rest of the environment (the login shell in
	// particular) varies from case to case and must not matter
	// bash also exports the cursor position; the candidates are for the last word of COMP_LINE
	switch len(line) % 5 {
	case 0:
		os.Setenv("COMP_POINT", "3")
	case 1:
		os.Setenv("COMP_POINT", "0")
	case 2:
		os.Setenv("COMP_POINT", fmt.Sprint(len(line)))
	case 3:
		os.Setenv("COMP_POINT", fmt.Sprint(len(line)/2+1))
	}
	defer os.Unsetenv("COMP_POINT")
	oldShell, hadShell := os.LookupEnv("SHELL")
	switch len(line) % 4 {
	case 0:
		os.Setenv("SHELL", "/bin/zsh")
	case 1:
		os.Setenv("SHELL", "/usr/local/bin/zsh")
	case 2:
		os.Unsetenv("SHELL")
	}
	defer func() {
		if hadShell {
			os.Setenv("SHELL", oldShell)
		} else {
			os.Unsetenv("SHELL")
		}
		os.Unsetenv("COMP_LINE")
		os.Unsetenv("ZSHELL")
		getoptions.VerifSetCompletionWriter(oldW)
		getoptions.VerifSetExit(oldE)
	}()
	type res struct {
		rem []string
		err error
		pan interface{}
	}
	ch := make(chan res, 1)
	go func() {
		var r res
		defer func() {
			if x := recover(); x != nil {
				r.pan = x
			}
			ch <- r
		}()
		r.rem, r.err = b.Opt.Parse(append([]string{}, args...))
	}()
	var r res
	select {
	case r = <-ch:
	case <-time.After(10 * time.Second):
		obs.Hang = true
		obs.Oracle["C19"] = append(obs.Oracle["C19"], OracleHit{Key: "hang", What: "completion did not return"})
		obs.Oracle["C17"] = append(obs.Oracle["C17"], OracleHit{Key: "hang", What: "completion did not return"})
		return obs
	}
	if r.pan != nil {
		obs.Panic = fmt.Sprint(r.pan)
		obs.Oracle["C19"] = append(obs.Oracle["C19"], OracleHit{Key: "panic", What: "completion panic: " + obs.Panic})
		obs.Oracle["C17"] = append(obs.Oracle["C17"], OracleHit{Key: "panic", What: "completion panic: " + obs.Panic})
		return obs
	}
	obs.Stdout, obs.Stderr, obs.Exits, obs.FnCount = out.String(), errw.String(), exits, len(b.FnCalls)

	// direct oracles
	add := func(key, what string) {
		obs.Oracle["C17"] = append(obs.Oracle["C17"], OracleHit{Key: key, What: what})
	}
	if len(exits) != 1 || exits[0] != 124 {
		add("exit-path", fmt.Sprintf("completion did not leave through the exit path exactly once with 124: %v", exits))
	}
	if obs.FnCount != 0 {
		add("fn-ran", "a command function ran during completion")
	}
	if r.rem != nil || r.err != nil {
		add("parse-result", "Parse returned a result in completion mode")
	}
	lines := strings.Split(strings.TrimSuffix(obs.Stdout, "\n"), "\n")
	if obs.Stdout == "\n" || obs.Stdout == "" {
		lines = []string{}
	}
	if !sort.StringsAreSorted(lines) && !(len(lines) == 1) {
		add("unsorted", fmt.Sprintf("candidates are not sorted: %q", lines))
	}
	nopt := len(pre.Options)
	obs.Hist = []string{"mode:" + modeNames[p.Mode], fmt.Sprintf("zsh:%v", zsh), fmt.Sprintf("candidates:%d", min3(len(lines), 3))}
	if obs.Stderr != "" {
		obs.Hist = append(obs.Hist, "error-on-writer")
	}
	words := strings.Fields(line)
	last := ""
	if len(words) > 0 && !strings.HasSuffix(line, " ") {
		last = words[len(words)-1]
	}
	switch {
	case strings.Contains(last, "="):
		obs.Hist = append(obs.Hist, "last:value")
	case strings.HasPrefix(last, "-"):
		obs.Hist = append(obs.Hist, "last:option")
	case last == "":
		obs.Hist = append(obs.Hist, "last:empty")
	default:
		obs.Hist = append(obs.Hist, "last:word")
	}
	obs.Nontrivial["C17"] = len(words) >= 2 && len(lines) > 0
	obs.Nontrivial["C19"] = true
	obs.Nontrivial["C20"] = nopt >= 2
	obs.Sample = map[string]interface{}{"COMP_LINE": line, "zsh": zsh, "args": quoteAll(args), "stdout": obs.Stdout, "stderr": obs.Stderr}

	specs, st0 := []*T{}, []*T{}
	for _, o := range pre.Options {
		specs = append(specs, tSpec(o, 0))
		st0 = append(st0, tState(o))
	}
	tab, order := floatTable(pre, strings.Fields(line))
	ex := []*T{}
	for _, c := range exits {
		ex = append(ex, Nat(c))
	}
	obs.term = Ctor("mkCCase", Ctor(modeNames[pre.Root.Mode]), Bool(pre.Root.MapKeysToLower), List(specs...),
		tNode(pre.Root, "", meta), List(st0...), tFloatTable(tab, order), Bool(zsh), Str(line), Strs(args),
		Str(obs.Stdout), Str(obs.Stderr), List(ex...), Nat(obs.FnCount))
	return obs
}

func min3(a, b int) int {
	if a < b {
		return a
	}
	return b
}

// genCompLine - a COMP_LINE for the program: earlier words that mostly parse, and a partial last word
func (g *Gen) genCompLine(p *ProgDef) (string, []string) {
	earlier := g.GenCleanArgv(p)
	if len(earlier) > 4 {
		earlier = earlier[:4]
	}
	clean := []string{}
	for _, w := range earlier {
		if w == "" || strings.ContainsAny(w, " \t\n") {
			continue
		}
		clean = append(clean, w)
	}
	// the level reached (approximately): follow command names
	path := []*CmdDef{p.Root}
	for _, w := range clean {
		for _, c := range path[len(path)-1].Cmds {
			if c.Name == w {
				path = append(path, c)
				break
			}
		}
	}
	cur := path[len(path)-1]
	vis := visibleOpts(path, p)
	last := ""
	// `<commands...> help <TAB>`: the topics of the help command of the level reached
	helpTopic := p.HelpName != "" && g.pct(12)
	if helpTopic {
		clean = append(clean, p.HelpName)
	}
	switch r := g.r.Intn(100); {
	case helpTopic:
		if len(cur.Cmds) > 0 && g.pct(60) {
			c := cur.Cmds[g.r.Intn(len(cur.Cmds))]
			last = c.Name[:g.r.Intn(len(c.Name)+1)]
		} else if len(p.Root.Cmds) > 0 && g.pct(40) {
			c := p.Root.Cmds[g.r.Intn(len(p.Root.Cmds))]
			last = c.Name[:g.r.Intn(len(c.Name)+1)]
		}
	case r < 30 && len(vis) > 0:
		o := vis[g.r.Intn(len(vis))]
		ks := optKeys(o)
		k := ks[g.r.Intn(len(ks))]
		last = "--" + k[:g.r.Intn(len(k)+1)]
		if g.pct(15) {
			last = "-" + k[:g.r.Intn(len(k)+1)]
		}
	case r < 45 && len(vis) > 0:
		o := vis[g.r.Intn(len(vis))]
		// prefer an option that has values to offer
		for try := 0; try < 4 && len(o.Suggested)+len(o.Valid) == 0 && o.SuggestFn == 0; try++ {
			o = vis[g.r.Intn(len(vis))]
		}
		ks := optKeys(o)
		k := ks[g.r.Intn(len(ks))]
		vals := append(append([]string{}, o.Valid...), o.Suggested...)
		vals = append(vals, "alpha", "re", "x", "")
		v := vals[g.r.Intn(len(vals))]
		last = "--" + k + "=" + v[:g.r.Intn(len(v)+1)]
	case r < 65 && len(cur.Cmds) > 0:
		c := cur.Cmds[g.r.Intn(len(cur.Cmds))]
		last = c.Name[:g.r.Intn(len(c.Name)+1)]
	case r < 72:
		last = []string{"-", "--", "h", "he", "su", "a", "n", "re", "b-"}[g.r.Intn(9)]
	case r < 80:
		last = g.pick(wordPool)
		if strings.ContainsAny(last, " ") {
			last = "w"
		}
	default:
		last = ""
	}
	line := "./prog"
	for _, w := range clean {
		line += " " + w
	}
	prev := "./prog"
	if len(clean) > 0 {
		prev = clean[len(clean)-1]
	}
	var args []string
	switch {
	case last == "":
		line += " "
		if g.pct(20) {
			line += " "
		}
		args = []string{"./prog", "", prev}
		if g.pct(10) && len(clean) > 0 { // the documented quirk: bash reports the previous word as the current one
			args = []string{"./prog", clean[len(clean)-1], "./prog"}
		}
	default:
		line += " " + last
		args = []string{"./prog", last, prev}
	}
	switch {
	case g.pct(5):
		args = []string{}
	case g.pct(8) && len(args) == 3:
		// a caller that hands Parse only the program name and the current word
		args = args[:2]
	case g.pct(3) && len(args) == 3:
		args = args[:1]
	}
	if g.pct(8) {
		// white space other than single blanks: tabs, runs, leading white space, white-space-only
		// lines (COMP_LINE is split on Go's \s+ : [\t\n\f\r ]; \v is not white space there)
		switch g.r.Intn(6) {
		case 0:
			line = strings.Replace(line, " ", "\t", 1)
		case 1:
			line = strings.Replace(line, " ", "  \t ", -1)
		case 2:
			line = " " + line
		case 3:
			line = []string{"\t", " ", "\n", " \t", "   ", "\r", "\f "}[g.r.Intn(7)]
		case 4:
			line = strings.Replace(line, " ", "\v", 1)
		default:
			line = strings.TrimPrefix(line, "./prog")
		}
		if line == "" {
			line = " "
		}
	}
	return line, args
}

func cmdComplete(argv []string) {
	fs := flag.NewFlagSet("complete", flag.ExitOnError)
	seed := fs.Int64("seed", 1, "seed")
	n := fs.Int("n", 100, "number of cases")
	profile := fs.String("profile", "complete", "generator profile")
	out := fs.String("out", "cases.txt", "case output for the extracted driver")
	coqOut := fs.String("coq", "", "Coq output (vm_compute route)")
	coqN := fs.Int("coqn", 10, "number of cases in the Coq output")
	obsOut := fs.String("obs", "obs.jsonl", "observation output")
	repeat := fs.Int("repeat", 0, "C20: complete every case this many times (fresh definition each time) and compare the output")
	fs.Parse(argv)
	g := NewGen(*seed)
	applyProfile(g, *profile)
	of, err := os.Create(*obsOut)
	if err != nil {
		panic(err)
	}
	defer of.Close()
	ow := bufio.NewWriter(of)
	defer ow.Flush()
	enc := json.NewEncoder(ow)
	defs := []*T{}
	var prog *ProgDef
	for i := 0; len(defs) < *n && i < *n*4; i++ {
		if prog == nil || i%6 == 0 {
			prog = genProgFor(g, *profile)
		}
		line, args := g.genCompLine(prog)
		zsh := g.pct(40)
		obs := runComplete(prog, line, zsh, args)
		if obs.BuildErr != "" {
			prog = nil
			continue
		}
		for k := 1; k < *repeat && obs.Panic == "" && !obs.Hang; k++ {
			again := runComplete(prog, line, zsh, args)
			if again.Stdout != obs.Stdout || again.Stderr != obs.Stderr || again.Panic != obs.Panic {
				obs.Oracle["C20"] = append(obs.Oracle["C20"], OracleHit{Key: "completion-nondeterministic",
					What: fmt.Sprintf("run %d of the same completion differs: first stdout=%q stderr=%q, again stdout=%q stderr=%q", k+1, obs.Stdout, obs.Stderr, again.Stdout, again.Stderr)})
				break
			}
		}
		if obs.Panic != "" || obs.Hang || obs.term == nil {
			enc.Encode(obs)
			fmt.Printf("IMPL-FAILURE comp_line=%q panic=%q hang=%v\n", line, obs.Panic, obs.Hang)
			continue
		}
		ci := len(defs)
		obs.Case = &ci
		enc.Encode(obs)
		defs = append(defs, obs.term)
	}
	if err := writeSexpCases(*out, defs); err != nil {
		panic(err)
	}
	if *coqOut != "" {
		k := *coqN
		if k > len(defs) {
			k = len(defs)
		}
		f, err := os.Create(*coqOut)
		if err != nil {
			panic(err)
		}
		w := bufio.NewWriter(f)
		fmt.Fprintln(w, "From GO Require Import Base.Str Model.Tokenizer Model.Option Model.Tree Run.Check.")
		fmt.Fprintln(w, "Open Scope N_scope.")
		names := ""
		for i := range defs[:k] {
			fmt.Fprintf(w, "Definition c_%d : ccase :=\n %s.\n", i, sampleText(defs[:k], i))
			if i > 0 {
				names += ";"
			}
			names += fmt.Sprintf("c_%d", i)
		}
		fmt.Fprintf(w, "Definition M := Eval vm_compute in cmismatches [%s].\nPrint M.\n", names)
		w.Flush()
		f.Close()
	}
	fmt.Printf("cases=%d skipped_definitions=0\n", len(defs))
}
