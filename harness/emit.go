package main

// Terms of the Coq model built from dumps and observations, rendered either as Coq source (for the
// vm_compute route) or as a bracketed text format read by the extracted OCaml driver.

import (
	"fmt"
	"math"
	"reflect"
	"strconv"
	"strings"

	getoptions "github.com/DavidGamba/go-getoptions"
)

type T struct {
	k    byte // 's' string, 'n' nat, 'N' N/decimal, 'z' Z, 'c' constructor, 'l' list, 'p' pair
	s    string
	i    int64
	args []*T
}

func Str(s string) *T              { return &T{k: 's', s: s} }
func Nat(n int) *T                 { return &T{k: 'n', i: int64(n)} }
func NDec(dec string) *T           { return &T{k: 'N', s: dec} }
func ZInt(n int) *T                { return &T{k: 'z', i: int64(n)} }
func Ctor(name string, a ...*T) *T { return &T{k: 'c', s: name, args: a} }
func List(items ...*T) *T          { return &T{k: 'l', args: items} }
func Pair(a, b *T) *T              { return &T{k: 'p', args: []*T{a, b}} }
func Bool(b bool) *T {
	if b {
		return Ctor("true")
	}
	return Ctor("false")
}
func Strs(l []string) *T {
	items := make([]*T, len(l))
	for i, s := range l {
		items[i] = Str(s)
	}
	return List(items...)
}
func FloatBits(f float64) *T { return NDec(strconv.FormatUint(math.Float64bits(f), 10)) }

func (t *T) Coq(b *strings.Builder) {
	switch t.k {
	case 's':
		if t.s == "" {
			b.WriteString("[]")
			return
		}
		b.WriteByte('[')
		for i := 0; i < len(t.s); i++ {
			if i > 0 {
				b.WriteByte(';')
			}
			b.WriteString(strconv.Itoa(int(t.s[i])))
		}
		b.WriteByte(']')
	case 'n':
		fmt.Fprintf(b, "%d%%nat", t.i)
	case 'N':
		b.WriteString(t.s)
	case 'z':
		fmt.Fprintf(b, "(%d)%%Z", t.i)
	case 'c':
		if len(t.args) == 0 {
			b.WriteString(t.s)
			return
		}
		b.WriteByte('(')
		b.WriteString(t.s)
		for _, a := range t.args {
			b.WriteByte(' ')
			a.Coq(b)
		}
		b.WriteByte(')')
	case 'l':
		b.WriteByte('[')
		for i, a := range t.args {
			if i > 0 {
				b.WriteByte(';')
			}
			a.Coq(b)
		}
		b.WriteByte(']')
	case 'p':
		b.WriteByte('(')
		t.args[0].Coq(b)
		b.WriteByte(',')
		t.args[1].Coq(b)
		b.WriteByte(')')
	}
}

const hexdigits = "0123456789abcdef"

func (t *T) Sexp(b *strings.Builder) {
	switch t.k {
	case 's':
		b.WriteByte('x')
		for i := 0; i < len(t.s); i++ {
			b.WriteByte(hexdigits[t.s[i]>>4])
			b.WriteByte(hexdigits[t.s[i]&15])
		}
	case 'n', 'z':
		fmt.Fprintf(b, "%d", t.i)
	case 'N':
		b.WriteString(t.s)
	case 'c':
		if len(t.args) == 0 {
			b.WriteString(t.s)
			return
		}
		b.WriteByte('(')
		b.WriteString(t.s)
		for _, a := range t.args {
			b.WriteByte(' ')
			a.Sexp(b)
		}
		b.WriteByte(')')
	case 'l':
		b.WriteByte('[')
		for i, a := range t.args {
			if i > 0 {
				b.WriteByte(' ')
			}
			a.Sexp(b)
		}
		b.WriteByte(']')
	case 'p':
		b.WriteString("(P ")
		t.args[0].Sexp(b)
		b.WriteByte(' ')
		t.args[1].Sexp(b)
		b.WriteByte(')')
	}
}

func (t *T) CoqString() string  { var b strings.Builder; t.Coq(&b); return b.String() }
func (t *T) SexpString() string { var b strings.Builder; t.Sexp(&b); return b.String() }

var modeNames = []string{"Normal", "Bundling", "SingleDash"}
var umodeNames = []string{"Fail", "Warn", "Pass"}

func tValue(o *getoptions.VerifOption) *T {
	switch o.ValueKind {
	case "bool":
		return Ctor("VBool", Bool(o.ValueBool))
	case "int":
		return Ctor("VInt", ZInt(o.ValueInt))
	case "string":
		return Ctor("VStr", Str(o.ValueString))
	case "float":
		return Ctor("VFloat", FloatBits(o.ValueFloat))
	case "strings":
		return Ctor("VStrs", Strs(o.ValueStrings))
	case "ints":
		items := []*T{}
		for _, i := range o.ValueInts {
			items = append(items, ZInt(i))
		}
		return Ctor("VInts", List(items...))
	case "floats":
		items := []*T{}
		for _, f := range o.ValueFloats {
			items = append(items, FloatBits(f))
		}
		return Ctor("VFloats", List(items...))
	case "map":
		items := []*T{}
		for i, k := range o.ValueMapKeys {
			items = append(items, Pair(Str(k), Str(o.ValueMapVals[i])))
		}
		return Ctor("VMap", List(items...))
	}
	return Ctor("VBool", Bool(false))
}

func tState(o *getoptions.VerifOption) *T {
	return Ctor("mkState", tValue(o), Bool(o.Called), Str(o.UsedAlias))
}

func tOptNat(n int) *T {
	if n == 0 {
		return Ctor("None")
	}
	return Ctor("Some", Nat(n))
}

// the suggestion function family is identified through the code pointer of the function found in
// the dumped object (the functions of the family capture nothing)
func valueFnID(o *getoptions.VerifOption) int {
	if o.SuggestedValuesFn == nil {
		return 0
	}
	p := reflect.ValueOf(o.SuggestedValuesFn).Pointer()
	for id := 1; id <= 4; id++ {
		if reflect.ValueOf(valueFn(id)).Pointer() == p {
			return id
		}
	}
	return 99
}

func argFnID(fn getoptions.ArgCompletionsFn) int {
	p := reflect.ValueOf(fn).Pointer()
	for id := 1; id <= 4; id++ {
		if reflect.ValueOf(argFn(id)).Pointer() == p {
			return id
		}
	}
	return 99
}

func tSpec(o *getoptions.VerifOption, sfnIgnored int) *T {
	sfn := valueFnID(o)
	return Ctor("mkSpec",
		Str(o.Name), Ctor(kindNames[o.Kind]), Nat(o.MinArgs), Nat(capMax(o.MaxArgs)),
		Strs(o.ValidValues), Str(o.ValidValuesQ), Bool(o.IsRequired), Str(o.IsRequiredErr),
		Bool(o.BoolDefault), Strs(o.Aliases), Str(o.EnvVar), Str(o.DefaultStr), Str(o.Description),
		Str(o.HelpArgName), Strs(o.SuggestedValues), tOptNat(sfn))
}

// what the harness knows about a definition beyond the dump
type nodeMeta struct {
	fnID   map[string]int   // path -> user fn id
	sfns   map[string][]int // path -> arg completion fn ids
	optSfn map[string]int   // option name -> value fn id
}

func tNode(n *getoptions.VerifNode, path string, meta *nodeMeta) *T {
	fn := Ctor("FnNone")
	if id, ok := meta.fnID[path]; ok && n.HasCommandFn {
		fn = Ctor("FnUser", Nat(id))
	} else if n.HasCommandFn {
		fn = Ctor("FnHelp")
	}
	sf := []*T{}
	for _, fn := range n.SuggestionFns {
		sf = append(sf, Nat(argFnID(fn)))
	}
	syn := []*T{}
	for _, a := range n.SynopsisArgs {
		syn = append(syn, Pair(Str(a[0]), Str(a[1])))
	}
	info := Ctor("mkInfo", Str(n.Name), Str(n.Description), Ctor(umodeNames[n.UnknownMode]), Bool(n.RequireOrder),
		Str(n.HelpCommandName), fn, Strs(n.Suggestions), List(sf...), List(syn...))
	opts := []*T{}
	for i, k := range n.OptionKeys {
		opts = append(opts, Pair(Str(k), Nat(n.OptionIDs[i])))
	}
	cmds := []*T{}
	for i, k := range n.CommandKeys {
		cmds = append(cmds, Pair(Str(k), tNode(n.Commands[i], path+"/"+k, meta)))
	}
	return Ctor("Node", info, List(opts...), List(cmds...))
}

func tFloatTable(tab map[string]*float64, order []string) *T {
	items := []*T{}
	for _, k := range order {
		v := tab[k]
		if v == nil {
			items = append(items, Pair(Str(k), Ctor("None")))
		} else {
			items = append(items, Pair(Str(k), Ctor("Some", FloatBits(*v))))
		}
	}
	return List(items...)
}

// HugeMax stands, in the definition handed to the model, for the "no upper limit" idiom
// (math.MaxInt) the real declaration gets; no generated command line has that many tokens.
const HugeMax = 20000

// sampleText - the Coq text of case i of a vm_compute sample; cases that Coq cannot read in
// reasonable time (very long value lists, unary numerals in the thousands) are replaced by the
// first case, the extracted driver evaluates them all
func sampleText(terms []*T, i int) string {
	txt := terms[i].CoqString()
	if i > 0 && (len(txt) > 150000 || strings.Contains(txt, fmt.Sprintf(" %d%%nat", HugeMax))) {
		return terms[0].CoqString()
	}
	return txt
}

// capMax - the model's bound for a dumped MaxArgs (see HugeMax)
func capMax(m int) int {
	if m > HugeMax {
		return HugeMax
	}
	return m
}
