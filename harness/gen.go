package main

// Generators: program definitions and argument vectors.  Every random choice comes from one
// math/rand source so that a case is reproducible from (seed, index).

import (
	"math/rand"
	"os"
	"sort"
	"strings"
)

type Gen struct {
	r *rand.Rand
	// knobs (probabilities in percent / limits), set by the profile
	MaxDepth      int
	MaxCmds       int
	MaxOpts       int
	PHelp         int
	PRequireOrder int
	PUnset        int
	PRequired     int
	PEnv          int
	PSuggested    int
	PValid        int
	PAliases      int
	PLateOpts     int
	PSettingsLate int
	PExoticNames  int
	PMalformed    int // share of byte-soup argv
	PSingleLetter int
	PInvalid      int // share of definitions made invalid on purpose (must panic)
	PClean        int // share of argv made only of valid option uses, commands and words
	Kinds         []int
	Modes         []int
	UModes        []int
	MaxArgv       int
}

func NewGen(seed int64) *Gen {
	return &Gen{r: rand.New(rand.NewSource(seed)),
		MaxDepth: 2, MaxCmds: 3, MaxOpts: 5, PHelp: 40, PRequireOrder: 15, PUnset: 10, PRequired: 10,
		PSuggested: 10, PEnv: 15, PValid: 10, PAliases: 50, PLateOpts: 10, PSettingsLate: 20, PExoticNames: 15, PMalformed: 15,
		Kinds: []int{0, 1, 2, 3, 4, 5, 6, 7, 8, 9, 10, 11}, Modes: []int{0, 1, 2}, UModes: []int{-1, 0, 1, 2}, MaxArgv: 8}
}

func (g *Gen) pct(p int) bool { return g.r.Intn(100) < p }
func (g *Gen) pick(l []string) string {
	return l[g.r.Intn(len(l))]
}
func (g *Gen) pickInt(l []int) int { return l[g.r.Intn(len(l))] }

var optNamePool = []string{
	"v", "ver", "verb", "verbose", "f", "fl", "flag", "fleg", "x", "y", "z", "a", "b", "c",
	"o", "opt", "output", "out", "n", "num", "l", "lis", "list", "m", "map", "i", "int", "s", "str", "string",
	"d", "dry", "dry-run", "debug", "e", "env", "p", "profile", "t", "k", "q", "w",
	// an option and its negation, as programs commonly declare them
	"color", "no-color", "no-dry-run", "no-v", "no-verbose", "no", "no-",
}
var exoticNamePool = []string{"é", "日", "\U0001F600", "n.m", "k:1", "2", "a1", "X", "Ver", "-", "é2", "日本"}
var cmdNamePool = []string{"log", "show", "run", "sub", "list", "add", "rm", "x", "ver", "get", "put", "o", "verbose", "help2", "Log", "RUN"}
var envNamePool = []string{"VERIF_E1", "VERIF_E2", "VERIF_E3", "VERIF_E4"}

var wordPool = []string{"foo", "bar", "hello", "a", "b", "x", "log", "show", "sub", "list", "v", "verbose", "1", "42", "word", "a b", "help",
	"'v'", "'5'", "'1.5'", "\"q\"", "100%", "%d", "%s%v"}
var intPool = []string{"0", "1", "-1", "42", "+7", "007", "0000000000000000000042", "-00000000000000000000007", "-0", "9223372036854775807", "-9223372036854775808",
	"9223372036854775808", "-9223372036854775809", "123456789012345678901234567890"}
var badIntPool = []string{"", "+", "-", "1_0", "0x10", "1e3", " 1", "1 ", "１", "abc", "1.5", "--1", "1..", "0b1", "٣"}
var floatPool = []string{"0", "1.5", "-2.25", "1e3", "1E-3", ".5", "5.", "inf", "-Inf", "NaN", "Infinity", "0x1p-2", "1_0.5",
	"1.7976931348623157e308", "1e309", "4.9e-324", "1e-400", "+3.0", "-0"}
var badFloatPool = []string{"", ".", "e3", "1e", "abc", "1.2.3", " 1.0", "0x", "1_", "--1.5", "infin"}
var kvPool = []string{"k=v", "a=b", "k=", "=v", "=", "k=a=b", "key=value with space", "K=V", "k=v\nw", "é=日", "a=-b", "a==", "x=1", "y=2"}
var rangePool = []string{"1..3", "-2..2", "3..1", "1..1", "1..", "..3", "1...3", "a..b", "0..10", "9223372036854775805..9223372036854775807", "1..2..3"}
var weirdPool = []string{"\u2014verbose", "\u2013 note", "\u2014", "", "-", "--", "---", "-=", "--=", "--=x", "-=x", "=", "a=b", "--a=b=c", "-\n", "a\nb", "\xff", "\xe2\x82", "\xed\xa0\x80",
	"--\xff", "-\xffz", " ", "-- ", " --", "-é", "--é=日", "-日本", "\x00", "-\x00", "--a\x00b"}

func init() {
	// a positional spelled exactly like the running program (`man man`): a token like any other
	wordPool = append(wordPool, os.Args[0], os.Args[0])
}

func (g *Gen) shuffleStrings(l []string) []string {
	out := append([]string{}, l...)
	g.r.Shuffle(len(out), func(i, j int) { out[i], out[j] = out[j], out[i] })
	return out
}

// freshName picks an option key not yet used on the path (parent chain and this level).
func (g *Gen) freshName(used map[string]bool) string {
	for tries := 0; tries < 50; tries++ {
		var n string
		if g.pct(g.PSingleLetter) {
			n = string(rune('a' + g.r.Intn(26)))
		} else if g.pct(g.PExoticNames) {
			n = g.pick(exoticNamePool)
		} else {
			n = g.pick(optNamePool)
		}
		if !used[n] {
			used[n] = true
			return n
		}
	}
	// fallback: synthesise
	for i := 0; ; i++ {
		n := "gen" + string(rune('a'+i%26)) + strings.Repeat("x", i/26)
		if !used[n] {
			used[n] = true
			return n
		}
	}
}

func (g *Gen) genOpt(used map[string]bool) OptDef {
	o := OptDef{Kind: g.pickInt(g.Kinds)}
	o.Name = g.freshName(used)
	if g.pct(g.PAliases) {
		n := 1 + g.r.Intn(3)
		for i := 0; i < n; i++ {
			o.Aliases = append(o.Aliases, g.freshName(used))
		}
	}
	o.DefBool = g.pct(30)
	o.DefInt = []int{0, 0, 1, -5, 42}[g.r.Intn(5)]
	o.DefStr = []string{"", "", "def", "d e", "-x", "%d%"}[g.r.Intn(6)]
	o.DefFloat = []float64{0, 0, 1.5, -2.25}[g.r.Intn(4)]
	o.Min = 1
	o.Max = 1
	if o.Kind >= KStrRep {
		o.Min = 1 + g.r.Intn(3)
		o.Max = o.Min + g.r.Intn(3)
		if g.pct(6) {
			o.Max = HugeMax // declared with math.MaxInt: "as many as given"
		}
	}
	if g.pct(g.PRequired) {
		o.Required = true
		if g.pct(50) {
			o.HasReqMsg = true
			o.ReqMsg = []string{"please give it", "", "custom: é", "need 100% of it", "use %d style %"}[g.r.Intn(5)]
		}
	}
	if g.pct(g.PEnv) {
		o.Env = g.pick(envNamePool)
	}
	if g.pct(g.PValid) && (o.Kind == KStr || o.Kind == KStrOpt || o.Kind == KStrRep || o.Kind == KInt) {
		if o.Kind == KInt {
			o.Valid = []string{"1", "42", "x"}
		} else {
			o.Valid = []string{"foo", "bar", "a b", "fo\"o"}[:2+g.r.Intn(3)]
		}
	} else if g.pct(g.PSuggested) {
		switch g.r.Intn(6) {
		case 0:
			// values that end in or contain `=` (a single candidate ending in `=` takes the hint path)
			o.Suggested = []string{"k=", "key=val"}[:1+g.r.Intn(2)]
		case 1:
			o.Suggested = []string{"x="}
		default:
			o.Suggested = []string{"sugg1", "sugg2", "other"}[:1+g.r.Intn(3)]
		}
	}
	if g.pct(8) {
		o.SuggestFn = 1 + g.r.Intn(4)
	}
	if g.pct(5) || (o.Env != "" && g.pct(15)) {
		o.SetCalled = 1 + g.r.Intn(4)
	}
	if g.pct(30) {
		o.Desc = []string{"a description", "multi\nline description", "é description", "uses 100% of %s"}[g.r.Intn(4)]
	}
	if g.pct(15) {
		o.ArgName = []string{"file", "n", "k=v"}[g.r.Intn(3)]
	}
	o.UseVar = g.pct(40)
	o.PreSet = o.UseVar && (o.Kind == KMap || o.Kind == KStrRep) && g.pct(35)
	return o
}

func copyUsed(m map[string]bool) map[string]bool {
	out := map[string]bool{}
	for k, v := range m {
		out[k] = v
	}
	return out
}

func (g *Gen) genCmd(name string, depth int, usedOpts map[string]bool, reserved map[string]bool) *CmdDef {
	c := &CmdDef{Name: name, UnknownMode: g.pickInt(g.UModes)}
	if depth > 0 && g.pct(10) {
		c.SelfName = "disp-" + name
	}
	if c.UnknownMode >= 0 && g.pct(15) {
		c.UModeFirst = 1 + g.r.Intn(3)
	}
	if g.pct(40) {
		c.Desc = []string{"does things", "line1\nline2", "é", "50% done %v"}[g.r.Intn(4)]
	}
	c.RequireOrder = g.pct(g.PRequireOrder)
	c.SettingsLate = g.pct(g.PSettingsLate)
	c.HasFn = g.pct(80)
	if depth > 0 && g.pct(g.PUnset) {
		c.UnsetOptions = true
		usedOpts = map[string]bool{}
		for k := range reserved {
			usedOpts[k] = true
		}
	}
	n := g.r.Intn(g.MaxOpts + 1)
	for i := 0; i < n; i++ {
		c.Opts = append(c.Opts, g.genOpt(usedOpts))
	}
	if g.pct(15) {
		c.Suggestions = []string{"sugA", "sugB", "log2"}[:1+g.r.Intn(3)]
	}
	if g.pct(10) {
		c.SuggestFns = []int{1 + g.r.Intn(4)}
	}
	if g.pct(15) {
		// 1-3 declared arguments; described / not described in every position, empty names too
		pool := [][2]string{{"<file>", "the file"}, {"<n>", ""}, {"<dest>", "where to\nput it"}, {"", "nameless"}, {"<x>", ""}}
		k := 1 + g.r.Intn(3)
		c.SynArgs = nil
		for _, i := range g.r.Perm(len(pool))[:k] {
			c.SynArgs = append(c.SynArgs, pool[i])
		}
	}
	if depth < g.MaxDepth {
		nc := g.r.Intn(g.MaxCmds + 1)
		usedCmd := map[string]bool{}
		for k := range reserved {
			usedCmd[k] = true
		}
		for i := 0; i < nc; i++ {
			cn := g.pick(cmdNamePool)
			if usedCmd[cn] {
				continue
			}
			usedCmd[cn] = true
			c.Cmds = append(c.Cmds, g.genCmd(cn, depth+1, copyUsed(usedOpts), reserved))
		}
		if len(c.Cmds) > 0 && g.pct(g.PLateOpts) {
			// options declared after the commands exist: they reach the children only when a later
			// NewCommand/HelpCommand call copies them; names must be unused in the whole subtree
			all := copyUsed(usedOpts)
			collectOptNames(c, all)
			c.LateOpts = append(c.LateOpts, g.genOpt(all))
			if g.pct(15) {
				// the late option takes the name of an option one of the commands declared itself: when
				// it is copied down it shadows that option's name there (the aliases keep pointing to
				// the command's own option)
				sub := c.Cmds[g.r.Intn(len(c.Cmds))]
				if len(sub.Opts) > 0 {
					c.LateOpts[0].Name = sub.Opts[g.r.Intn(len(sub.Opts))].Name
				}
			}
			usedOpts[c.LateOpts[0].Name] = true
			for _, a := range c.LateOpts[0].Aliases {
				usedOpts[a] = true
			}
		}
	}
	return c
}

func collectOptNames(c *CmdDef, into map[string]bool) {
	for _, o := range append(append([]OptDef{}, c.Opts...), c.LateOpts...) {
		into[o.Name] = true
		for _, a := range o.Aliases {
			into[a] = true
		}
	}
	for _, s := range c.Cmds {
		collectOptNames(s, into)
	}
}

func (g *Gen) GenProg() *ProgDef {
	p := &ProgDef{Mode: g.pickInt(g.Modes), Env: map[string]string{}}
	p.MapLower = g.pct(10)
	p.HelpEarly = g.pct(12)
	p.EarlyParse = g.pct(10)
	if g.pct(15) {
		p.ModeFirst = 1 + g.r.Intn(3)
	}
	reserved := map[string]bool{}
	if g.pct(g.PHelp) {
		p.Help = true
		p.HelpName = "help"
		if g.pct(20) {
			p.HelpName = "ayuda"
		}
		reserved[p.HelpName] = true
		if g.pct(40) {
			p.HelpAlias = []string{"?"}
			if g.pct(50) {
				p.HelpAlias = []string{"h"}
			}
			for _, a := range p.HelpAlias {
				reserved[a] = true
			}
		}
	}
	used := map[string]bool{}
	for k := range reserved {
		used[k] = true
	}
	p.Root = g.genCmd("prog", 0, used, reserved)
	p.Root.UnsetOptions = false
	// environment: set some of the bound variables
	// unset / empty / valid / invalid for the type / padded with white space (must be taken verbatim:
	// " 42" is not an int, "true " is not a bool, " " is a set variable) / mixed case
	envTexts := []string{"true", "false", "TRUE", "False", "tRuE", "yes", "1", "42", "-3", "+5", "abc", "1.5", "1e3", "0x10", "x y", "",
		" 42", "42 ", " true", "false\n", "\t", " ", "  x  ", "Prod-EU", "a=b", "--x", "nan", "-", "1e999", "-1e400", "'5'", "50%"}
	for _, e := range envNamePool {
		if g.pct(50) {
			p.Env[e] = g.pick(envTexts)
		}
	}
	return p
}

// ---- argv ----

type levelInfo struct {
	cmd  *CmdDef
	opts []OptDef // options visible at this level (own + inherited)
}

func visibleOpts(path []*CmdDef, p *ProgDef) []OptDef {
	out := []OptDef{}
	for i, c := range path {
		if c.UnsetOptions {
			out = []OptDef{}
		}
		out = append(out, c.Opts...)
		_ = i
		out = append(out, c.LateOpts...)
	}
	if p.Help {
		out = append(out, OptDef{Kind: KBool, Name: p.HelpName, Aliases: p.HelpAlias})
	}
	return out
}

func (g *Gen) valueFor(kind int) string {
	switch kind {
	case KInt, KIntOpt:
		if g.pct(25) {
			return g.pick(badIntPool)
		}
		return g.pick(intPool)
	case KIntRep:
		switch {
		case g.pct(1) && g.pct(30):
			// a range wider than any plausible internal chunk or cap
			return "0..70000"
		case g.pct(20):
			return g.pick(rangePool)
		case g.pct(20):
			return g.pick(badIntPool)
		}
		return g.pick(intPool)
	case KFloat, KFloatOpt, KFloatRep:
		if g.pct(25) {
			return g.pick(badFloatPool)
		}
		return g.pick(floatPool)
	case KMap:
		if g.pct(15) {
			return g.pick(wordPool)
		}
		return g.pick(kvPool)
	case KBool, KIncr:
		return []string{"true", "false", "x", "TRUE", "3", "0", "-1", "07"}[g.r.Intn(8)]
	}
	switch {
	case g.pct(15):
		return g.pick(weirdPool)
	case g.pct(10):
		return "-" + g.pick(wordPool)
	case g.pct(10):
		return g.pick(kvPool)
	}
	return g.pick(wordPool)
}

func optKeys(o OptDef) []string { return append([]string{o.Name}, o.Aliases...) }

// spell an occurrence of key with an optional attached value
func (g *Gen) spell(key string, mode int, attach bool, val string) string {
	dash := "--"
	if g.pct(35) {
		dash = "-"
	}
	if mode == 2 && dash == "-" && attach {
		// SingleDash: -kVAL
		return "-" + key + val
	}
	if attach {
		return dash + key + "=" + val
	}
	return dash + key
}

// cleanValue - a value text that converts for the kind
func (g *Gen) cleanValue(o OptDef) string {
	if len(o.Valid) > 0 {
		return o.Valid[g.r.Intn(len(o.Valid))]
	}
	switch o.Kind {
	case KInt, KIntOpt, KIntRep:
		return []string{"0", "1", "-1", "42", "+7", "007"}[g.r.Intn(6)]
	case KFloat, KFloatOpt, KFloatRep:
		return []string{"0", "1.5", "-2.25", "1e3", ".5", "inf"}[g.r.Intn(6)]
	case KMap:
		return []string{"k=v", "a=b", "k=", "x=1", "k=a=b"}[g.r.Intn(5)]
	}
	return []string{"foo", "bar", "a b", "x", "-neg", "k=v", "é"}[g.r.Intn(7)]
}

// GenCleanArgv - option uses that parse, commands, words: most of these reach Dispatch
func (g *Gen) GenCleanArgv(p *ProgDef) []string {
	path := []*CmdDef{p.Root}
	out := []string{}
	n := g.r.Intn(g.MaxArgv + 1)
	terminated := false
	for len(out) < n {
		cur := path[len(path)-1]
		vis := visibleOpts(path, p)
		roll := g.r.Intn(100)
		switch {
		case roll < 50 && len(vis) > 0 && !terminated:
			o := vis[g.r.Intn(len(vis))]
			ks := optKeys(o)
			key := ks[g.r.Intn(len(ks))]
			if key == "-" {
				continue
			}
			switch {
			case o.Kind <= KIncr:
				out = append(out, "--"+key)
			case o.Kind >= KStrRep:
				out = append(out, "--"+key)
				for i := 0; i < o.Min; i++ {
					v := g.cleanValue(o)
					if v == "-neg" {
						v = "neg"
					}
					out = append(out, v)
				}
			default:
				out = append(out, "--"+key+"="+g.cleanValue(o))
			}
		case roll < 75 && len(cur.Cmds) > 0 && !terminated:
			c := cur.Cmds[g.r.Intn(len(cur.Cmds))]
			out = append(out, c.Name)
			path = append(path, c)
		case roll < 80 && p.Help && !terminated:
			if g.pct(50) {
				out = append(out, "--"+p.HelpName)
			} else {
				out = append(out, p.HelpName)
			}
		case roll < 84:
			out = append(out, "--")
			terminated = true
		default:
			out = append(out, g.pick(wordPool))
		}
	}
	return out
}

func (g *Gen) GenArgv(p *ProgDef) []string {
	if g.pct(g.PClean) {
		return g.GenCleanArgv(p)
	}
	if g.pct(g.PMalformed) {
		n := g.r.Intn(g.MaxArgv + 1)
		out := []string{}
		for i := 0; i < n; i++ {
			switch {
			case g.pct(50):
				out = append(out, g.pick(weirdPool))
			case g.pct(50):
				b := make([]byte, g.r.Intn(6))
				for j := range b {
					b[j] = []byte{'-', '=', 'a', 'v', '\n', 0xff, 0xc3, 0xa9, '.', ' ', '1'}[g.r.Intn(11)]
				}
				out = append(out, string(b))
			default:
				out = append(out, g.pick(wordPool))
			}
		}
		return out
	}
	path := []*CmdDef{p.Root}
	out := []string{}
	n := g.r.Intn(g.MaxArgv + 1)
	for len(out) < n {
		cur := path[len(path)-1]
		vis := visibleOpts(path, p)
		roll := g.r.Intn(100)
		switch {
		case roll < 45 && len(vis) > 0: // known option occurrence
			o := vis[g.r.Intn(len(vis))]
			ks := optKeys(o)
			key := ks[g.r.Intn(len(ks))]
			if g.pct(25) && len(key) > 1 { // abbreviation (byte prefix; may cut a rune)
				key = key[:1+g.r.Intn(len(key)-1)]
			}
			attach := g.pct(40)
			val := g.valueFor(o.Kind)
			if len(o.Valid) > 0 && g.pct(45) {
				// a listed value, or one that differs from a listed value by white space or case only
				v := o.Valid[g.r.Intn(len(o.Valid))]
				val = []string{v, v, " " + v, v + "\n", v + "\t ", strings.ToUpper(v), "  " + v + " "}[g.r.Intn(7)]
			}
			if o.Kind <= KIncr && !g.pct(18) {
				attach = false
			}
			out = append(out, g.spell(key, p.Mode, attach, val))
			// detached values
			want := 0
			switch {
			case o.Kind >= KStrRep:
				mx := o.Max
				if mx > 8 {
					mx = 8 // "no upper limit": a handful of followers, not thousands
				}
				want = g.r.Intn(mx + 2)
			case o.Kind >= KStr && o.Kind <= KFloat:
				if !attach || g.pct(10) {
					want = 1
				}
				if g.pct(8) {
					want = 0
				}
			case o.Kind >= KStrOpt && o.Kind <= KFloatOpt:
				if g.pct(50) && !attach {
					want = 1
				}
			}
			for i := 0; i < want; i++ {
				out = append(out, g.valueFor(o.Kind))
			}
		case roll < 52 && p.Mode == 1 && len(vis) > 0: // bundle of single letter keys
			letters := []string{}
			for _, o := range vis {
				for _, k := range optKeys(o) {
					if len([]rune(k)) == 1 && k != "-" {
						letters = append(letters, k)
					}
				}
			}
			letters = append(letters, "Q") // an unknown letter
			b := "-"
			m := 1 + g.r.Intn(4)
			for i := 0; i < m; i++ {
				b += letters[g.r.Intn(len(letters))]
			}
			if g.pct(30) {
				b += "=" + g.pick(wordPool)
			}
			out = append(out, b)
			if g.pct(50) {
				out = append(out, g.pick(wordPool))
			}
		case roll < 62: // unknown option
			u := []string{"--unknown", "-u", "--typo=1", "-Q", "--verbosee", "--zz", "-unk", "--un=a=b"}[g.r.Intn(8)]
			out = append(out, u)
		case roll < 72 && len(cur.Cmds) > 0: // descend into a command
			c := cur.Cmds[g.r.Intn(len(cur.Cmds))]
			out = append(out, c.Name)
			path = append(path, c)
			// the same spelling on both sides of a command name (the two levels may resolve it
			// differently: other options, an UnsetOptions wrapper, another abbreviation set)
			if g.pct(35) {
				opts := []string{}
				for _, t := range out[:len(out)-1] {
					if len(t) > 1 && t[0] == '-' && t != "--" {
						opts = append(opts, t)
					}
				}
				if len(opts) > 0 {
					out = append(out, opts[g.r.Intn(len(opts))])
				}
			}
		case roll < 75 && p.Help:
			out = append(out, p.HelpName)
		case roll < 80:
			out = append(out, "--")
		case roll < 84:
			out = append(out, g.pick(weirdPool))
		case roll < 88:
			out = append(out, g.pick(cmdNamePool))
		default:
			out = append(out, g.pick(wordPool))
		}
	}
	return out
}

func sortedKeys(m map[string]string) []string {
	ks := []string{}
	for k := range m {
		ks = append(ks, k)
	}
	sort.Strings(ks)
	return ks
}
