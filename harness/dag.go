package main

// DAG correspondence: construction histories and controlled-schedule runs of the real dag.Graph.Run.
// Task functions report Enter/Exit and block until the controller releases them with an outcome, so
// the controller decides the completion order; between releases it waits for quiescence.

import (
	"bufio"
	"bytes"
	"context"
	"encoding/json"
	"errors"
	"flag"
	"fmt"
	"io"
	"math/rand"
	"os"
	"os/exec"
	"sort"
	"strconv"
	"strings"
	"sync"
	"sync/atomic"
	"time"

	getoptions "github.com/DavidGamba/go-getoptions"
	"github.com/DavidGamba/go-getoptions/dag"
)

type TaskArg struct {
	Nil   bool   `json:"nil,omitempty"`
	ID    string `json:"id"`
	HasFn bool   `json:"has_fn"`
	Obj   int    `json:"obj"`            // which Task object of that ID (re-adding may use a fresh object)
	Look  bool   `json:"look,omitempty"` // the argument is g.Task(ID), evaluated when the call is made
}

type GOp struct {
	Kind    string    `json:"kind"` // add dep retries
	T       TaskArg   `json:"t"`
	Deps    []TaskArg `json:"deps,omitempty"`
	Retries int       `json:"retries,omitempty"`
}

type DagDef struct {
	Ops      []GOp               `json:"ops"`
	Serial   bool                `json:"serial"`
	Cap      int                 `json:"cap"` // 0: default
	Buffered bool                `json:"buffered"`
	Outcomes map[string][]string `json:"outcomes"`        // per task ID: outcome of attempt k (nil err skip), last repeated
	CancelAt int                 `json:"cancel_at"`       // cancel before the n-th release (-1 never)
	Order    []string            `json:"order,omitempty"` // release priority among the running tasks (earlier first); ids not listed come last, smallest id first
}

type DEvent struct {
	Kind string `json:"k"` // enter exit cancel quiet
	ID   string `json:"id,omitempty"`
	K    int    `json:"a,omitempty"`
	R    string `json:"r,omitempty"`
}

type DagObs struct {
	Case       *int                   `json:"case"`
	Key        string                 `json:"key"`
	Def        *DagDef                `json:"def"`
	Dot        string                 `json:"dot"`
	DFS        []string               `json:"dfs"`
	DFSCycle   bool                   `json:"dfs_cycle"`
	Events     []DEvent               `json:"events"`
	Result     []string               `json:"result"` // classified error entries; empty = nil
	ResultNil  bool                   `json:"result_nil"`
	Hang       bool                   `json:"hang,omitempty"`
	Peak       int                    `json:"peak"`
	Hist       []string               `json:"hist"`
	Nontrivial map[string]bool        `json:"nontrivial"`
	Oracle     map[string][]OracleHit `json:"oracle"`
	Sample     map[string]interface{} `json:"sample"`
	term       *T
}

type dctl struct {
	mu      sync.Mutex
	events  []DEvent
	running map[string]chan string
	attempt map[string]int
	changed chan struct{}
	ack     chan struct{} // one token per recorded exit: the harness waits for it after a release
	cur     int
	peak    int
	out     map[string]string
}

var errBoom = errors.New("boom")

func (c *dctl) fn(id string, buffered bool) getoptions.CommandFn {
	return func(ctx context.Context, opt *getoptions.GetOpt, args []string) error {
		ch := make(chan string)
		c.mu.Lock()
		k := c.attempt[id]
		c.attempt[id]++
		c.events = append(c.events, DEvent{Kind: "enter", ID: id, K: k})
		c.running[id] = ch
		c.cur++
		if c.cur > c.peak {
			c.peak = c.cur
		}
		c.mu.Unlock()
		pad := ""
		lateOut := func() {}
		if buffered {
			// three chunks per attempt; every third task writes large ones (an attempt's output must
			// reach the writer as one block whatever its size)
			w := dag.Stdout(ctx)
			if len(id) > 0 && (int(id[0])+k)%3 == 0 {
				pad = "." + strings.Repeat("x", 35000)
			}
			// two chunks on entry, the third just before returning (other tasks may finish in between)
			for j := 0; j < 2; j++ {
				fmt.Fprintf(w, "<%s.%d%s.%d>", id, k, pad, j)
			}
			lateOut = func() { fmt.Fprintf(w, "<%s.%d%s.%d>", id, k, pad, 2) }
		}
		select {
		case c.changed <- struct{}{}:
		default:
		}
		res := <-ch
		lateOut()
		c.mu.Lock()
		c.events = append(c.events, DEvent{Kind: "exit", ID: id, K: k, R: res})
		delete(c.running, id)
		c.cur--
		c.mu.Unlock()
		c.ack <- struct{}{}
		// the library must recognise its sentinel and keep the task's own error reachable through
		// wrapping (errors.Is), whatever else the error wraps: a task may fail on a private deadline
		// while the run's context is alive
		variant := k
		if len(id) > 0 {
			variant += int(id[0])
		}
		switch res {
		case "nil":
			return nil
		case "skip":
			if variant%2 == 1 {
				return fmt.Errorf("nothing to do for %s: %w", id, dag.ErrorSkipParents)
			}
			return dag.ErrorSkipParents
		}
		switch variant % 6 {
		case 5:
			// a task's own error may wrap any sentinel of the package: it is still that task's failure
			return fmt.Errorf("%w after %w", errBoom, dag.ErrorTaskSkipped)
		case 4:
			// a task that ran a sub-graph hands back that graph's *Errors value
			return &dag.Errors{Msg: "sub-graph of " + id, Errors: []error{fmt.Errorf("inner: %w", errBoom), dag.ErrorTaskSkipped}}
		case 1:
			return fmt.Errorf("task %s: %w", id, errBoom)
		case 2:
			return fmt.Errorf("%w: %w", errBoom, context.DeadlineExceeded)
		case 3:
			return fmt.Errorf("%w (%w)", errBoom, context.Canceled)
		}
		return errBoom
	}
}

func (c *dctl) snapshot() (int, []string) {
	c.mu.Lock()
	defer c.mu.Unlock()
	ids := []string{}
	for id := range c.running {
		ids = append(ids, id)
	}
	return len(c.events), ids
}

// quiesce waits until no event has happened for the grace period
func (c *dctl) quiesce(grace time.Duration, done <-chan struct{}) bool {
	last, _ := c.snapshot()
	t := time.Now()
	for {
		select {
		case <-done:
			return false
		case <-c.changed:
		case <-time.After(grace / 4):
		}
		n, _ := c.snapshot()
		if n != last {
			last = n
			t = time.Now()
			continue
		}
		if time.Since(t) >= grace {
			return true
		}
	}
}

// deadlineCtx - a cancellable context that also reports a deadline (in the past: once it is done the
// deadline has expired), and DeadlineExceeded as its error
type deadlineCtx struct{ context.Context }

func (c deadlineCtx) Deadline() (time.Time, bool) { return time.Unix(1, 0), true }
func (c deadlineCtx) Err() error {
	if c.Context.Err() != nil {
		return context.DeadlineExceeded
	}
	return nil
}

type lockedWriter struct {
	mu  sync.Mutex
	buf bytes.Buffer
}

func (w *lockedWriter) Write(p []byte) (int, error) {
	w.mu.Lock()
	defer w.mu.Unlock()
	return w.buf.Write(p)
}

func classifyDagErr(e error) string {
	s := e.Error()
	switch {
	case errors.Is(e, dag.ErrorTaskNil):
		return "XNilTask"
	case errors.Is(e, dag.ErrorTaskID):
		return "XMissingID"
	case errors.Is(e, dag.ErrorTaskFn):
		return "XMissingFn " + strings.TrimPrefix(s, dag.ErrorTaskFn.Error()+" for ")
	case errors.Is(e, dag.ErrorTaskNotFound):
		return "XNotFound " + strings.TrimPrefix(s, dag.ErrorTaskNotFound.Error()+": ")
	case errors.Is(e, dag.ErrorTaskDependencyDuplicate):
		return "XDupDep " + strings.TrimPrefix(s, dag.ErrorTaskDependencyDuplicate.Error()+": ")
	case errors.Is(e, dag.ErrorGraphHasCycle):
		return "XCycle"
	case errors.Is(e, errBoom):
		return "XTask " + taskOf(s)
	case errors.Is(e, dag.ErrorTaskSkipped):
		return "XSkipped " + taskOf(s)
	case func() bool {
		var inner *dag.Errors
		return errors.As(e, &inner) && inner.Msg != "" && strings.HasPrefix(inner.Msg, "sub-graph of ")
	}():
		// the entry wraps the *Errors value a task handed back (errors.As reaches it)
		return "XTask " + taskOf(s)
	case strings.HasPrefix(s, "cancellation received"):
		return "XCancel"
	}
	return "XOther " + s
}

// "Task g:ID error: ..." -> ID
func taskOf(s string) string {
	s = strings.TrimPrefix(s, "Task g:")
	if i := strings.Index(s, " error: "); i >= 0 {
		return s[:i]
	}
	return s
}

var hangAfter = 3 * time.Second

// hangsSeen counts runs of this process that did not return.  When Run hangs systematically (a
// broken scheduler) waiting three seconds for each of thousands of runs would take the check out of
// its time budget, so after the first few the wait shrinks (it stays well above the grace period).
var hangsSeen int64

func hangLimit(grace time.Duration) time.Duration {
	if atomic.LoadInt64(&hangsSeen) < 6 {
		return hangAfter
	}
	d := 12 * grace
	if d < 250*time.Millisecond {
		d = 250 * time.Millisecond
	}
	if d > hangAfter {
		d = hangAfter
	}
	return d
}

func runDag(def *DagDef, grace time.Duration) *DagObs {
	obs := &DagObs{Def: def, Oracle: map[string][]OracleHit{}, Nontrivial: map[string]bool{}}
	obs.Key = fmt.Sprintf("%x", []byte(jsonOf(def)))
	if len(obs.Key) > 64 {
		obs.Key = fmt.Sprintf("%d-%s", len(obs.Key), obs.Key[len(obs.Key)-48:])
	}
	c := &dctl{running: map[string]chan string{}, attempt: map[string]int{}, changed: make(chan struct{}, 1), ack: make(chan struct{}, 4096)}
	g := dag.NewGraph("g")
	g.TickerDuration = 200 * time.Microsecond
	w := &lockedWriter{}
	if def.Buffered {
		g.SetOutputBuffer(w)
	}
	if def.Serial {
		g.SetSerial()
	}
	if def.Cap > 0 {
		g.SetMaxParallel(def.Cap)
	}
	objs := map[string]*dag.Task{}
	mk := func(a TaskArg) *dag.Task {
		if a.Nil {
			return nil
		}
		if a.Look {
			return g.Task(a.ID)
		}
		key := fmt.Sprintf("%s#%d#%v", a.ID, a.Obj, a.HasFn)
		if t, ok := objs[key]; ok {
			return t
		}
		var t *dag.Task
		if a.HasFn && a.Obj%2 == 1 {
			// a Task may also be written as a struct literal (ID and Fn are exported, the zero lock works)
			t = &dag.Task{ID: dag.ID(a.ID), Fn: c.fn(a.ID, def.Buffered)}
		} else if a.HasFn {
			t = dag.NewTask(a.ID, c.fn(a.ID, def.Buffered))
		} else {
			t = dag.NewTask(a.ID, nil)
		}
		objs[key] = t
		return t
	}
	for oi, op := range def.Ops {
		if oi == 1 && len(obs.Key)%2 == 0 {
			// a program may validate what it has built so far and go on building
			_ = g.Validate(dag.NewTaskMap())
		}
		switch op.Kind {
		case "add":
			g.AddTask(mk(op.T))
		case "dep":
			deps := []*dag.Task{}
			for _, d := range op.Deps {
				deps = append(deps, mk(d))
			}
			g.TaskDependsOn(mk(op.T), deps...)
		case "retries":
			g.TaskRetries(mk(op.T), op.Retries)
		}
	}
	obs.Dot = g.String()
	if sorted, err := g.DepthFirstSort(); err != nil {
		obs.DFSCycle = true
	} else {
		for _, v := range sorted {
			obs.DFS = append(obs.DFS, string(v.ID))
		}
	}
	ctx, cancel := context.WithCancel(context.Background())
	defer cancel()
	if len(obs.Key)%3 == 1 {
		// the same cancellation seen through a context that has a deadline, already past when it ends
		ctx = deadlineCtx{ctx}
	}
	doneCh := make(chan struct{})
	var runErr error
	go func() {
		runErr = g.Run(ctx, nil, nil)
		close(doneCh)
	}()
	releases := 0
	cancelled := false
	idleSince := time.Time{}
loop:
	for {
		if !c.quiesce(grace, doneCh) {
			break loop
		}
		select {
		case <-doneCh:
			break loop
		default:
		}
		_, running := c.snapshot()
		if len(running) == 0 {
			// nothing is executing and Run has not returned: the scheduler is about to launch
			// something or to return; a stable state only if Run hangs
			if idleSince.IsZero() {
				idleSince = time.Now()
			}
			if time.Since(idleSince) > hangLimit(grace) {
				obs.Hang = true
				atomic.AddInt64(&hangsSeen, 1)
				break loop
			}
			select {
			case <-doneCh:
				break loop
			case <-time.After(grace):
			}
			continue
		}
		idleSince = time.Time{}
		c.mu.Lock()
		c.events = append(c.events, DEvent{Kind: "quiet"})
		c.mu.Unlock()
		if def.CancelAt == releases && !cancelled {
			// cancel at a quiescent point and let the scheduler notice before anything is released
			cancelled = true
			c.mu.Lock()
			c.events = append(c.events, DEvent{Kind: "cancel"})
			c.mu.Unlock()
			cancel()
			time.Sleep(4*grace + 2*time.Millisecond)
			continue
		}
		// release one running task (deterministic choice: smallest id keeps replays stable)
		prio := func(id string) int {
			for i, x := range def.Order {
				if x == id {
					return i
				}
			}
			return len(def.Order)
		}
		pick := running[0]
		for _, id := range running {
			if prio(id) < prio(pick) || (prio(id) == prio(pick) && id < pick) {
				pick = id
			}
		}
		c.mu.Lock()
		k := c.attempt[pick] - 1
		ch := c.running[pick]
		c.mu.Unlock()
		outs := def.Outcomes[pick]
		res := "nil"
		if len(outs) > 0 {
			if k < len(outs) {
				res = outs[k]
			} else {
				res = outs[len(outs)-1]
			}
		}
		releases++
		ch <- res
		<-c.ack // the exit is recorded before the next snapshot
	}
	if obs.Hang {
		cancel()
		// unblock everything so that goroutines do not pile up
		c.mu.Lock()
		for _, ch := range c.running {
			go func(ch chan string) { ch <- "nil" }(ch)
		}
		c.mu.Unlock()
	}
	c.mu.Lock()
	obs.Events = append([]DEvent{}, c.events...)
	obs.Peak = c.peak
	c.mu.Unlock()
	if !obs.Hang {
		if runErr == nil {
			obs.ResultNil = true
		} else {
			var de *dag.Errors
			if errors.As(runErr, &de) {
				for _, e := range de.Errors {
					obs.Result = append(obs.Result, classifyDagErr(e))
				}
			} else {
				obs.Result = append(obs.Result, classifyDagErr(runErr))
			}
		}
	}
	// C15 direct oracles
	capEff := def.Cap
	if capEff <= 0 {
		capEff = 1000000
	}
	if def.Serial {
		capEff = 1
	}
	if obs.Peak > capEff {
		obs.Oracle["C15"] = append(obs.Oracle["C15"], OracleHit{Key: "bound", What: fmt.Sprintf("%d task functions executed at the same time, limit %d", obs.Peak, capEff)})
	}
	if def.Buffered {
		if bad := checkBlocks(w.buf.String()); bad != "" {
			obs.Oracle["C15"] = append(obs.Oracle["C15"], OracleHit{Key: "output-interleaved", What: bad})
		}
	}
	if obs.Hang {
		obs.Oracle["C16"] = append(obs.Oracle["C16"], OracleHit{Key: "hang", What: "Run did not return although no task function is executing"})
		obs.Oracle["C19"] = append(obs.Oracle["C19"], OracleHit{Key: "hang", What: "Graph.Run did not return although no task function is executing"})
	}
	ksum := 0
	for _, ch := range obs.Key {
		ksum += int(ch)
	}
	if !obs.Hang && ksum%3 == 0 && atomic.LoadInt64(&hangsSeen) < 12 {
		secondRun(g, obs)
	}
	return obs
}

// secondRun - a graph is an object that can be extended and run again.  After the first Run has
// returned, a new task is added that depends on a task of the first run, and Run is called again
// (direct oracles, from the statements of C13 and C16): Run returns; the new task is entered exactly
// once when its dependency returned nil in the first run and the first run succeeded; it is not
// entered, and Run does not report success, when its dependency's last attempt failed.
func secondRun(g *dag.Graph, obs *DagObs) {
	last := map[string]string{}
	for _, e := range obs.Events {
		if e.Kind == "exit" {
			last[e.ID] = e.R
		}
	}
	ids := []string{}
	for id := range last {
		if _, ok := g.Vertices[dag.ID(id)]; ok {
			ids = append(ids, id)
		}
	}
	sort.Strings(ids)
	dep, wantRun := "", false
	for _, id := range ids {
		if obs.ResultNil && last[id] == "nil" {
			dep, wantRun = id, true
			break
		}
		if !obs.ResultNil && last[id] != "nil" && last[id] != "skip" {
			dep, wantRun = id, false
			break
		}
	}
	if dep == "" {
		return
	}
	var entered int64
	nt := dag.NewTask("zz-second-run", func(ctx context.Context, opt *getoptions.GetOpt, args []string) error {
		atomic.AddInt64(&entered, 1)
		return nil
	})
	g.TaskDependsOn(nt, g.Task(dep))
	// the limit is lowered between the runs and more new tasks than the limit are ready together
	var cur, peak int64
	if wantRun {
		g.SetMaxParallel(1)
		for _, id := range []string{"zz-a", "zz-b", "zz-c"} {
			g.AddTask(dag.NewTask(id, func(ctx context.Context, opt *getoptions.GetOpt, args []string) error {
				n := atomic.AddInt64(&cur, 1)
				for {
					p := atomic.LoadInt64(&peak)
					if n <= p || atomic.CompareAndSwapInt64(&peak, p, n) {
						break
					}
				}
				time.Sleep(2 * time.Millisecond)
				atomic.AddInt64(&cur, -1)
				return nil
			}))
		}
	}
	done := make(chan error, 1)
	go func() { done <- g.Run(context.Background(), nil, nil) }()
	var err error
	select {
	case err = <-done:
	case <-time.After(3 * time.Second):
		atomic.AddInt64(&hangsSeen, 1)
		obs.Oracle["C16"] = append(obs.Oracle["C16"], OracleHit{Key: "hang-second-run",
			What: fmt.Sprintf("after Run returned, task zz-second-run depending on %q was added; the second Run did not return within 3 s (entered %d times)", dep, atomic.LoadInt64(&entered))})
		return
	}
	n := atomic.LoadInt64(&entered)
	if pk := atomic.LoadInt64(&peak); pk > 1 {
		obs.Oracle["C15"] = append(obs.Oracle["C15"], OracleHit{Key: "second-run-limit",
			What: fmt.Sprintf("SetMaxParallel(1) was called after the first Run; in the second Run %d task functions executed at the same time", pk)})
	}
	switch {
	case wantRun && (n != 1 || err != nil):
		obs.Oracle["C13"] = append(obs.Oracle["C13"], OracleHit{Key: "second-run",
			What: fmt.Sprintf("first Run returned nil and %q returned nil; a task depending on it was added: the second Run entered it %d times and returned %v (want once, nil)", dep, n, err)})
	case !wantRun && (n != 0 || err == nil):
		obs.Oracle["C13"] = append(obs.Oracle["C13"], OracleHit{Key: "second-run",
			What: fmt.Sprintf("the last attempt of %q failed in the first Run; a task depending on it was added: the second Run entered it %d times and returned %v (want never, an error)", dep, n, err)})
	}
}

// checkBlocks - every attempt's three chunks <id.k.0><id.k.1><id.k.2> must be contiguous
func checkBlocks(s string) string {
	parts := strings.Split(strings.TrimSuffix(strings.TrimPrefix(s, "<"), ">"), "><")
	if s == "" {
		return ""
	}
	if len(parts)%3 != 0 {
		return fmt.Sprintf("output has %d chunks", len(parts))
	}
	for i := 0; i < len(parts); i += 3 {
		a, b, c := parts[i], parts[i+1], parts[i+2]
		pa, pb, pc := a[:strings.LastIndex(a, ".")], b[:strings.LastIndex(b, ".")], c[:strings.LastIndex(c, ".")]
		if pa != pb || pb != pc || !strings.HasSuffix(a, ".0") || !strings.HasSuffix(b, ".1") || !strings.HasSuffix(c, ".2") {
			return fmt.Sprintf("attempt output not contiguous near chunk %d: %v", i, parts[i:i+3])
		}
	}
	return ""
}

// ---- generation ----

func genDagDef(r *rand.Rand, maxN int, history bool) *DagDef {
	n := 1 + r.Intn(maxN)
	ids := []string{}
	for i := 0; i < n; i++ {
		ids = append(ids, string(rune('a'+i)))
	}
	d := &DagDef{Outcomes: map[string][]string{}, CancelAt: -1}
	obj := map[string]int{}
	arg := func(id string) TaskArg { return TaskArg{ID: id, HasFn: true, Obj: obj[id]} }
	order := r.Perm(n)
	// edges: i depends on j only for j earlier in a random topological order (acyclic), plus optional noise
	for pi, i := range order {
		deps := []TaskArg{}
		for _, j := range order[:pi] {
			if r.Intn(3) == 0 {
				deps = append(deps, arg(ids[j]))
			}
		}
		switch {
		case len(deps) > 0:
			d.Ops = append(d.Ops, GOp{Kind: "dep", T: arg(ids[i]), Deps: deps})
		case r.Intn(3) > 0:
			d.Ops = append(d.Ops, GOp{Kind: "add", T: arg(ids[i])})
		default:
			d.Ops = append(d.Ops, GOp{Kind: "dep", T: arg(ids[i])})
		}
		if r.Intn(4) == 0 {
			d.Ops = append(d.Ops, GOp{Kind: "retries", T: arg(ids[i]), Retries: 1 + r.Intn(2)})
		}
	}
	r.Shuffle(len(d.Ops), func(a, b int) { d.Ops[a], d.Ops[b] = d.Ops[b], d.Ops[a] })
	if history {
		// construction-history noise: re-adds (same or fresh object), duplicate / self edges, nil
		// tasks, missing ids and functions, retries before / after
		for k := r.Intn(4); k > 0; k-- {
			id := ids[r.Intn(n)]
			pos := r.Intn(len(d.Ops) + 1)
			var op GOp
			switch r.Intn(24) {
			case 0, 1, 2, 3, 4:
				op = GOp{Kind: "add", T: arg(id)}
			case 5, 6, 7, 8:
				obj[id]++
				op = GOp{Kind: "add", T: arg(id)}
			case 9, 10, 11, 12, 13, 14:
				// an extra edge: may duplicate an edge (definition error), be a self edge or close a cycle
				op = GOp{Kind: "dep", T: arg(id), Deps: []TaskArg{arg(ids[r.Intn(n)])}}
			case 15:
				op = GOp{Kind: "add", T: TaskArg{Nil: true}}
			case 16:
				op = GOp{Kind: "add", T: TaskArg{ID: "", HasFn: true}}
			case 17:
				op = GOp{Kind: "add", T: TaskArg{ID: "nofn", HasFn: false}}
			case 18, 19, 20, 21, 22:
				op = GOp{Kind: "retries", T: arg(id), Retries: r.Intn(4) - 1}
			default:
				op = GOp{Kind: "dep", T: arg(id), Deps: []TaskArg{{Nil: true}}}
			}
			d.Ops = append(d.Ops[:pos], append([]GOp{op}, d.Ops[pos:]...)...)
		}
		// refer to tasks through g.Task(id) in some calls (an unknown id records an error and
		// yields an empty Task)
		known := map[string]bool{}
		look := func(a *TaskArg) {
			if a.Nil || a.ID == "" || !a.HasFn {
				return
			}
			if (known[a.ID] && r.Intn(3) == 0) || (!known[a.ID] && r.Intn(40) == 0) {
				a.Look = true
			}
		}
		for i := range d.Ops {
			look(&d.Ops[i].T)
			for j := range d.Ops[i].Deps {
				look(&d.Ops[i].Deps[j])
			}
			// what the call has certainly added (an approximation: only used to bias the choice)
			if !d.Ops[i].T.Nil && d.Ops[i].T.HasFn && d.Ops[i].T.ID != "" {
				known[d.Ops[i].T.ID] = true
			}
			for _, dd := range d.Ops[i].Deps {
				if !dd.Nil && dd.HasFn && dd.ID != "" {
					known[dd.ID] = true
				}
			}
		}
	}
	switch r.Intn(6) {
	case 0:
		d.Serial = true
		// a task with negative retries never enters its function; in serial mode the moment the
		// scheduler picks it is not observable and changes the result when another task fails, so
		// the combination is not generated (the acceptor follows one pick order)
		for i := range d.Ops {
			if d.Ops[i].Kind == "retries" && d.Ops[i].Retries < 0 {
				d.Ops[i].Retries = 0
			}
		}
	case 1, 2:
		d.Cap = 1 + r.Intn(3)
	}
	d.Buffered = r.Intn(3) == 0
	for _, id := range ids {
		switch r.Intn(8) {
		case 0:
			d.Outcomes[id] = []string{"err"}
		case 1:
			d.Outcomes[id] = []string{"skip"}
		case 2:
			d.Outcomes[id] = []string{"err", "nil"}
		case 3:
			d.Outcomes[id] = []string{"err", "err", "nil"}
		}
	}
	if r.Intn(6) == 0 {
		d.CancelAt = r.Intn(n + 1)
	}
	if r.Intn(3) > 0 {
		// the order in which running tasks are made to finish
		for _, i := range r.Perm(n) {
			d.Order = append(d.Order, ids[i])
		}
	}
	return d
}

// exhDagDef enumerates, for 1-3 vertices: every dependency shape over a fixed topological order x
// every outcome assignment {nil, error, ErrorSkipParents, fail-then-succeed with one retry} x
// {parallel, SetMaxParallel(1), SetMaxParallel(2), serial} x every order in which running tasks
// are made to finish.  exhDagCount is the size of the enumeration.
var exhPerms = map[int][][]int{
	1: {{0}},
	2: {{0, 1}, {1, 0}},
	3: {{0, 1, 2}, {0, 2, 1}, {1, 0, 2}, {1, 2, 0}, {2, 0, 1}, {2, 1, 0}},
}

func exhBlock(n int) int {
	edges := n * (n - 1) / 2
	out := 1
	for i := 0; i < n; i++ {
		out *= 4
	}
	return (1 << uint(edges)) * out * 4 * len(exhPerms[n])
}

func exhDagCount() int { return exhBlock(1) + exhBlock(2) + exhBlock(3) }

func exhDagDef(idx int) *DagDef {
	n := 1
	for idx >= exhBlock(n) {
		idx -= exhBlock(n)
		n++
	}
	ids := []string{"a", "b", "c"}[:n]
	edges := n * (n - 1) / 2
	mask := idx % (1 << uint(edges))
	idx /= 1 << uint(edges)
	d := &DagDef{Outcomes: map[string][]string{}, CancelAt: -1}
	arg := func(id string) TaskArg { return TaskArg{ID: id, HasFn: true} }
	bit := 0
	for i := 0; i < n; i++ {
		deps := []TaskArg{}
		for j := 0; j < i; j++ {
			if mask&(1<<uint(bit)) != 0 {
				deps = append(deps, arg(ids[j]))
			}
			bit++
		}
		if len(deps) > 0 {
			d.Ops = append(d.Ops, GOp{Kind: "dep", T: arg(ids[i]), Deps: deps})
		} else {
			d.Ops = append(d.Ops, GOp{Kind: "add", T: arg(ids[i])})
		}
	}
	for i := 0; i < n; i++ {
		switch idx % 4 {
		case 1:
			d.Outcomes[ids[i]] = []string{"err"}
		case 2:
			d.Outcomes[ids[i]] = []string{"skip"}
		case 3:
			d.Outcomes[ids[i]] = []string{"err", "nil"}
			d.Ops = append(d.Ops, GOp{Kind: "retries", T: arg(ids[i]), Retries: 1})
		}
		idx /= 4
	}
	switch idx % 4 {
	case 1:
		d.Cap = 1
	case 2:
		d.Cap = 2
	case 3:
		d.Serial = true
	}
	idx /= 4
	for _, i := range exhPerms[n][idx%len(exhPerms[n])] {
		d.Order = append(d.Order, ids[i])
	}
	return d
}

func tTaskArg(a TaskArg) *T {
	if a.Look {
		return Ctor("TL", Str(a.ID))
	}
	if a.Nil {
		return Ctor("TA", Ctor("None"))
	}
	return Ctor("TA", Ctor("Some", Pair(Str(a.ID), Bool(a.HasFn))))
}

func tOutcome(r string) *T {
	switch r {
	case "nil":
		return Ctor("ONil")
	case "skip":
		return Ctor("OSkipParents")
	}
	return Ctor("OErr")
}

func tGErr(s string) *T {
	f := strings.SplitN(s, " ", 2)
	switch f[0] {
	case "XNilTask", "XMissingID", "XCycle", "XCancel":
		return Ctor(f[0])
	case "XMissingFn", "XTask", "XSkipped", "XNotFound":
		if len(f) < 2 {
			return Ctor(f[0], Str(""))
		}
		return Ctor(f[0], Str(f[1]))
	case "XDupDep":
		ab := strings.SplitN(f[1], " -> ", 2)
		if len(ab) == 2 {
			return Ctor("XDupDep", Str(ab[0]), Str(ab[1]))
		}
	}
	return Ctor("XTask", Str("?unclassified:"+s))
}

func (obs *DagObs) finish() {
	def := obs.Def
	ops := []*T{}
	for _, op := range def.Ops {
		switch op.Kind {
		case "add":
			ops = append(ops, Ctor("GAdd", tTaskArg(op.T)))
		case "dep":
			deps := []*T{}
			for _, d := range op.Deps {
				deps = append(deps, tTaskArg(d))
			}
			ops = append(ops, Ctor("GDep", tTaskArg(op.T), List(deps...)))
		case "retries":
			ops = append(ops, Ctor("GRetries", tTaskArg(op.T), ZInt(op.Retries)))
		}
	}
	evs := []*T{}
	for _, e := range obs.Events {
		switch e.Kind {
		case "enter":
			evs = append(evs, Ctor("OEnter", Str(e.ID), Nat(e.K)))
		case "exit":
			evs = append(evs, Ctor("OExit", Str(e.ID), Nat(e.K), tOutcome(e.R)))
		case "cancel":
			evs = append(evs, Ctor("OCancel"))
		case "quiet":
			evs = append(evs, Ctor("OQuiet"))
		}
	}
	res := []*T{}
	for _, r := range obs.Result {
		res = append(res, tGErr(r))
	}
	capEff := def.Cap
	if capEff <= 0 {
		capEff = 1000000
	}
	dfs := Ctor("None")
	if !obs.DFSCycle {
		dfs = Ctor("Some", Strs(obs.DFS))
	}
	obs.term = Ctor("mkGCase", List(ops...), Bool(def.Serial), NDec(strconv.Itoa(capEff)), Str(obs.Dot), dfs, List(evs...),
		Bool(obs.ResultNil), List(res...), Bool(obs.Hang))
	nEdges, nReadd := 0, 0
	seen := map[string]bool{}
	for _, op := range def.Ops {
		nEdges += len(op.Deps)
		if op.Kind == "add" {
			if seen[op.T.ID] {
				nReadd++
			}
			seen[op.T.ID] = true
		}
	}
	nonNil := false
	for _, o := range def.Outcomes {
		if len(o) > 0 {
			nonNil = true
		}
	}
	mode := "parallel"
	if def.Serial {
		mode = "serial"
	} else if def.Cap > 0 {
		mode = fmt.Sprintf("max%d", def.Cap)
	}
	obs.Hist = []string{"mode:" + mode, fmt.Sprintf("events:%d", len(obs.Events)/4*4), fmt.Sprintf("buffered:%v", def.Buffered)}
	if def.CancelAt >= 0 {
		obs.Hist = append(obs.Hist, "cancelled")
	}
	if !obs.ResultNil {
		obs.Hist = append(obs.Hist, "result:errors")
	} else {
		obs.Hist = append(obs.Hist, "result:nil")
	}
	obs.Nontrivial["C13"] = nEdges >= 1 && len(obs.Events) > 0
	obs.Nontrivial["C14"] = (nonNil || def.CancelAt >= 0) && nEdges >= 1
	obs.Nontrivial["C15"] = (def.Serial || def.Cap > 0) && len(obs.Events) >= 4
	obs.Nontrivial["C16"] = nReadd > 0 || obs.DFSCycle || nEdges >= 2
	obs.Sample = map[string]interface{}{"ops": def.Ops, "mode": mode, "outcomes": def.Outcomes, "cancel_at": def.CancelAt, "events": obs.Events, "result": obs.Result}
}

func cmdDag(argv []string) {
	fs := flag.NewFlagSet("dag", flag.ExitOnError)
	seed := fs.Int64("seed", 1, "seed")
	n := fs.Int("n", 100, "number of runs")
	profile := fs.String("profile", "dag", "dag | history | cycle")
	out := fs.String("out", "cases.txt", "case output")
	coqOut := fs.String("coq", "", "Coq output (vm_compute route)")
	coqN := fs.Int("coqn", 10, "cases in the Coq output")
	obsOut := fs.String("obs", "obs.jsonl", "observation output")
	maxN := fs.Int("maxn", 5, "largest graph")
	workers := fs.Int("workers", 8, "parallel runs")
	graceUS := fs.Int("grace", 3000, "quiescence grace period in microseconds")
	defsIn := fs.String("defs", "", "re-run the definitions of this observation file (one JSON object per line, field def) instead of generating")
	pairs := fs.Int("pairs", 0, "C15: additionally run this many pairs of concurrently running graphs sharing Task objects (direct oracle)")
	fs.Parse(argv)
	dag.Logger.SetOutput(io.Discard)
	r := rand.New(rand.NewSource(*seed))
	if *profile == "exh" && *n > exhDagCount() {
		*n = exhDagCount()
	}
	defs := make([]*DagDef, *n)
	for i := range defs {
		if *profile == "exh" {
			// shards take consecutive slices of the enumeration: -seed carries the offset
			defs[i] = exhDagDef((int(*seed%1000)*(*n) + i) % exhDagCount())
			continue
		}
		defs[i] = genDagDef(r, *maxN, *profile != "dag")
		if *profile == "cycle" && r.Intn(2) == 0 {
			// close a cycle
			ids := []string{}
			for _, op := range defs[i].Ops {
				if !op.T.Nil && op.T.ID != "" {
					ids = append(ids, op.T.ID)
				}
			}
			if len(ids) > 0 {
				a, b := ids[r.Intn(len(ids))], ids[r.Intn(len(ids))]
				defs[i].Ops = append(defs[i].Ops, GOp{Kind: "dep", T: TaskArg{ID: a, HasFn: true}, Deps: []TaskArg{{ID: b, HasFn: true}}},
					GOp{Kind: "dep", T: TaskArg{ID: b, HasFn: true}, Deps: []TaskArg{{ID: a, HasFn: true}}})
			}
		}
	}
	if *defsIn != "" {
		defs = nil
		f, err := os.Open(*defsIn)
		if err != nil {
			panic(err)
		}
		sc := bufio.NewScanner(f)
		sc.Buffer(make([]byte, 1<<20), 1<<26)
		for sc.Scan() {
			var o DagObs
			if json.Unmarshal(sc.Bytes(), &o) == nil && o.Def != nil {
				defs = append(defs, o.Def)
			}
		}
		f.Close()
		*n = len(defs)
	}
	// the definitions are journalled before anything runs: a crash of the process (a fatal stack
	// overflow in the library cannot be recovered) can then be replayed definition by definition
	if jf, err := os.Create(*obsOut + ".defs"); err == nil {
		jw := bufio.NewWriter(jf)
		je := json.NewEncoder(jw)
		for i, d := range defs {
			ci := i
			je.Encode(&DagObs{Case: &ci, Def: d})
		}
		jw.Flush()
		jf.Close()
	}
	results := make([]*DagObs, *n)
	var wg sync.WaitGroup
	sem := make(chan struct{}, *workers)
	for i := range defs {
		wg.Add(1)
		sem <- struct{}{}
		go func(i int) {
			defer wg.Done()
			defer func() { <-sem }()
			obs := runDag(defs[i], time.Duration(*graceUS)*time.Microsecond)
			obs.finish()
			results[i] = obs
		}(i)
	}
	wg.Wait()
	of, err := os.Create(*obsOut)
	if err != nil {
		panic(err)
	}
	defer of.Close()
	ow := bufio.NewWriter(of)
	defer ow.Flush()
	enc := json.NewEncoder(ow)
	if *pairs > 0 && len(results) > 0 {
		var pmu sync.Mutex
		var pwg sync.WaitGroup
		psem := make(chan struct{}, *workers)
		for i := 0; i < *pairs; i++ {
			pwg.Add(1)
			psem <- struct{}{}
			go func(i int) {
				defer pwg.Done()
				defer func() { <-psem }()
				pr := rand.New(rand.NewSource(*seed*100003 + int64(i)))
				hits, desc := runPair(pr, time.Duration(*graceUS)*time.Microsecond)
				if len(hits) > 0 {
					pmu.Lock()
					o := results[i%len(results)]
					o.Oracle["C15"] = append(o.Oracle["C15"], hits...)
					o.Sample["pair"] = desc
					pmu.Unlock()
				}
			}(i)
		}
		pwg.Wait()
	}
	if len(results) > 0 && (*profile == "result" || *profile == "history") {
		// once per run, in a child process (a panicking task function takes the process down): the
		// task a dependency of which panicked must never be entered
		if hit := panicChild(); hit != nil {
			results[0].Oracle["C13"] = append(results[0].Oracle["C13"], *hit)
		}
	}
	terms := []*T{}
	for i, obs := range results {
		ci := i
		obs.Case = &ci
		enc.Encode(obs)
		terms = append(terms, obs.term)
	}
	if err := writeSexpCases(*out, terms); err != nil {
		panic(err)
	}
	if *coqOut != "" {
		k := *coqN
		if k > len(terms) {
			k = len(terms)
		}
		f, err := os.Create(*coqOut)
		if err != nil {
			panic(err)
		}
		w := bufio.NewWriter(f)
		fmt.Fprintln(w, "From GO Require Import Base.Str Model.Tree Model.Dag Run.Check.")
		fmt.Fprintln(w, "Open Scope N_scope.")
		names := ""
		for i, dd := range terms[:k] {
			fmt.Fprintf(w, "Definition c_%d : gcase :=\n %s.\n", i, dd.CoqString())
			if i > 0 {
				names += ";"
			}
			names += fmt.Sprintf("c_%d", i)
		}
		fmt.Fprintf(w, "Definition M := Eval vm_compute in gmismatches [%s].\nPrint M.\n", names)
		w.Flush()
		f.Close()
	}
	fmt.Printf("cases=%d skipped_definitions=0\n", len(terms))
}

// cmdDagPanic - child side of panicChild: b depends on a, a's function panics
func cmdDagPanic() {
	g := dag.NewGraph("p")
	g.TickerDuration = 200 * time.Microsecond
	a := dag.NewTask("a", func(ctx context.Context, opt *getoptions.GetOpt, args []string) error {
		var m map[string]int
		m["x"] = 1
		return nil
	})
	b := dag.NewTask("b", func(ctx context.Context, opt *getoptions.GetOpt, args []string) error {
		fmt.Println("VERIF-DEPENDENT-ENTERED")
		return nil
	})
	g.TaskDependsOn(b, a)
	err := g.Run(context.Background(), nil, nil)
	fmt.Printf("VERIF-RUN-RETURNED %v\n", err)
}

func panicChild() *OracleHit {
	cmd := exec.Command(os.Args[0], "dagpanic")
	cmd.Env = append(os.Environ(), "GOTRACEBACK=none")
	done := make(chan []byte, 1)
	go func() {
		out, _ := cmd.CombinedOutput()
		done <- out
	}()
	select {
	case out := <-done:
		if strings.Contains(string(out), "VERIF-DEPENDENT-ENTERED") {
			return &OracleHit{Key: "panic-dependency", What: fmt.Sprintf("b depends on a; a's task function panicked; b was entered all the same (child process output: %q)", string(out))}
		}
	case <-time.After(20 * time.Second):
		if cmd.Process != nil {
			_ = cmd.Process.Kill()
		}
	}
	return nil
}
