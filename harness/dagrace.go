// Memory visibility through the scheduler (C13, C15), to be run in a binary built with -race:
// task functions communicate ONLY through the graph's own synchronisation.  A dependency writes a
// plain variable before returning and every dependent reads it on entry; a Task shared by two
// graphs that run at the same time increments a plain counter.  No lock, channel or atomic of the
// harness orders these accesses, so if Graph.Run did not order "dependency returned" before
// "dependent entered" (or did not serialise a shared Task) the race detector reports it, and the
// value read is checked as well.
package main

import (
	"bytes"
	"context"
	"flag"
	"fmt"
	"math/rand"
	"os"
	"sync"
	"time"

	getoptions "github.com/DavidGamba/go-getoptions"
	"github.com/DavidGamba/go-getoptions/dag"
)

func cmdDagRace(argv []string) {
	fs := flag.NewFlagSet("dagrace", flag.ExitOnError)
	seed := fs.Int64("seed", 1, "seed")
	n := fs.Int("n", 200, "number of graphs")
	fs.Parse(argv)
	dag.Logger.SetOutput(os.Stderr)
	devnull, _ := os.OpenFile(os.DevNull, os.O_WRONLY, 0)
	dag.Logger.SetOutput(devnull)
	r := rand.New(rand.NewSource(*seed))
	bad := 0
	for c := 0; c < *n; c++ {
		nv := 2 + r.Intn(6)
		data := make([]int, nv)     // written by task i before it returns, read by its dependents
		wrong := make([]string, nv) // written by task i only
		deps := make([][]int, nv)
		order := r.Perm(nv)
		for pi, i := range order {
			for _, j := range order[:pi] {
				if r.Intn(3) == 0 {
					deps[i] = append(deps[i], j)
				}
			}
		}
		buffered := r.Intn(2) == 0
		attempts := make([]int, nv)
		failFirst := make([]bool, nv)
		tasks := make([]*dag.Task, nv)
		for i := 0; i < nv; i++ {
			i := i
			failFirst[i] = r.Intn(5) == 0
			sleep := time.Duration(r.Intn(300)) * time.Microsecond
			tasks[i] = dag.NewTask(fmt.Sprintf("t%d", i), func(ctx context.Context, opt *getoptions.GetOpt, args []string) error {
				// with SetOutputBuffer the library hands each attempt's output to the writer; the writer
				// below is a plain buffer, so two hand-overs that are not serialised are a data race
				if buffered {
					fmt.Fprintf(dag.Stdout(ctx), "<t%d attempt %d>", i, attempts[i])
				}
				for _, j := range deps[i] {
					if data[j] != j+1 {
						wrong[i] = fmt.Sprintf("t%d entered before the write of its dependency t%d was visible (read %d)", i, j, data[j])
					}
				}
				time.Sleep(sleep)
				attempts[i]++ // attempts of one task are sequential: plain variable
				if failFirst[i] && attempts[i] == 1 {
					return fmt.Errorf("first attempt fails")
				}
				data[i] = i + 1
				return nil
			})
		}
		g := dag.NewGraph("g")
		g.TickerDuration = 100 * time.Microsecond
		var out bytes.Buffer // deliberately without a lock
		if buffered {
			g.SetOutputBuffer(&out)
		}
		switch r.Intn(4) {
		case 0:
			g.SetSerial()
		case 1:
			g.SetMaxParallel(1 + r.Intn(3))
		}
		for _, i := range r.Perm(nv) {
			g.AddTask(tasks[i])
			if failFirst[i] {
				g.TaskRetries(tasks[i], 1)
			}
		}
		for i := 0; i < nv; i++ {
			for _, j := range deps[i] {
				g.TaskDependsOn(tasks[i], tasks[j])
			}
		}
		if err := g.Run(context.Background(), nil, nil); err != nil {
			fmt.Printf("RACE-RUN unexpected error %v\n", err)
			bad++
		}
		// after Run returned everything the tasks wrote is visible to the caller
		for i := 0; i < nv; i++ {
			if data[i] != i+1 || wrong[i] != "" {
				fmt.Printf("VISIBILITY graph %d: data[%d]=%d %s\n", c, i, data[i], wrong[i])
				bad++
			}
		}
	}
	// a Task shared by two graphs running at the same time: plain counter inside the function
	for c := 0; c < *n/4+1; c++ {
		counter := 0
		inside := 0
		maxInside := 0
		sharedFn := func(ctx context.Context, opt *getoptions.GetOpt, args []string) error {
			inside++
			if inside > maxInside {
				maxInside = inside
			}
			counter++
			time.Sleep(time.Duration(r.Intn(200)) * time.Microsecond)
			inside--
			return nil
		}
		shared := dag.NewTask("shared", sharedFn)
		if c%2 == 1 {
			shared = &dag.Task{ID: "shared", Fn: sharedFn} // a Task written as a struct literal
		}
		var wg sync.WaitGroup
		k := 2 + r.Intn(3)
		graphs := make([]*dag.Graph, k)
		for gi := 0; gi < k; gi++ {
			g := dag.NewGraph(fmt.Sprintf("g%d", gi))
			g.TickerDuration = 100 * time.Microsecond
			g.AddTask(shared)
			other := dag.NewTask("own", func(ctx context.Context, opt *getoptions.GetOpt, args []string) error { return nil })
			g.TaskDependsOn(shared, other)
			graphs[gi] = g
		}
		for gi := 0; gi < k; gi++ {
			wg.Add(1)
			go func(g *dag.Graph) {
				defer wg.Done()
				g.Run(context.Background(), nil, nil)
			}(graphs[gi])
		}
		wg.Wait()
		if counter != k || maxInside != 1 {
			fmt.Printf("SHARED-TASK executions=%d (want %d) at-once=%d (want 1)\n", counter, k, maxInside)
			bad++
		}
	}
	fmt.Printf("DONE-RACE graphs=%d bad=%d\n", *n, bad)
	if bad > 0 {
		os.Exit(3)
	}
}
