package main

// Program definitions as data, and their construction through the public API.

import (
	"context"
	"fmt"
	"os"
	"strings"

	getoptions "github.com/DavidGamba/go-getoptions"
)

// Option kinds, in the order of option.Type.
const (
	KBool = iota
	KIncr
	KStr
	KInt
	KFloat
	KStrOpt
	KIntOpt
	KFloatOpt
	KStrRep
	KIntRep
	KFloatRep
	KMap
)

var kindNames = []string{"KBool", "KIncr", "KStr", "KInt", "KFloat", "KStrOpt", "KIntOpt", "KFloatOpt", "KStrRep", "KIntRep", "KFloatRep", "KMap"}

type OptDef struct {
	Kind      int
	Name      string
	Aliases   []string
	DefBool   bool
	DefInt    int
	DefStr    string
	DefFloat  float64
	Min, Max  int
	Required  bool
	ReqMsg    string
	HasReqMsg bool
	Env       string
	Valid     []string
	Suggested []string
	SuggestFn int // 0 none, else id in the suggestion function family
	SetCalled int // 0 not used, 1 SetCalled(true), 2 SetCalled(false)
	Desc      string
	ArgName   string
	UseVar    bool
}

type CmdDef struct {
	Name         string
	Desc         string
	Opts         []OptDef
	LateOpts     []OptDef // declared after the commands of this level
	Cmds         []*CmdDef
	UnknownMode  int // -1 not set
	RequireOrder bool
	UnsetOptions bool
	SettingsLate bool // unknown mode / require order set after the commands were created
	HasFn        bool
	Suggestions  []string
	SuggestFns   []int
	SynArgs      [][2]string
}

type ProgDef struct {
	Root      *CmdDef
	Mode      int
	MapLower  bool
	Help      bool
	HelpName  string
	HelpAlias []string
	Env       map[string]string
}

// Built - a constructed program with everything the harness observes.
type Built struct {
	Opt      *getoptions.GetOpt
	FnCalls  []FnCall
	FnIDs    map[string]int // command path -> fn id
	Ptrs     map[string]interface{}
	pathOf   map[*CmdDef]string
	nextFn   int
	FnErr    error // error returned by user functions (nil)
	InFnView map[string][]ViewEntry
}

type FnCall struct {
	ID           int
	Path         string
	Args         []string
	CtxOK        bool
	View         []ViewEntry
	ViewKeys     []string
	viewT        []*T
	ViewMismatch []string
}

type ViewEntry struct {
	Key    string
	Value  string
	Called bool
	As     string
}

type ctxKey string

// suggestion function family (shared with the Coq model: Model/Complete.v)
//
//	1: constant list {alpha, beta, alps}
//	2: prefix filter over {red, green, grey} on the partial word
//	3: echoes the number of previous args: "n<k>"
//	4: by target: bash -> "b-item", zsh -> "z-item"
func valueFn(id int) func(target, partial string) []string {
	switch id {
	case 1:
		return func(target, partial string) []string { return []string{"alpha", "beta", "alps"} }
	case 2:
		return func(target, partial string) []string {
			out := []string{}
			for _, e := range []string{"red", "green", "grey"} {
				if strings.HasPrefix(e, partial) {
					out = append(out, e)
				}
			}
			return out
		}
	case 3:
		return func(target, partial string) []string { return []string{"p" + partial} }
	case 4:
		return func(target, partial string) []string {
			if target == "bash" {
				return []string{"b-item"}
			}
			return []string{"z-item"}
		}
	}
	return nil
}

func argFn(id int) getoptions.ArgCompletionsFn {
	switch id {
	case 1:
		return func(target string, prev []string, partial string) []string { return []string{"alpha", "beta", "alps"} }
	case 2:
		return func(target string, prev []string, partial string) []string {
			out := []string{}
			for _, e := range []string{"red", "green", "grey"} {
				if strings.HasPrefix(e, partial) {
					out = append(out, e)
				}
			}
			return out
		}
	case 3:
		return func(target string, prev []string, partial string) []string {
			return []string{fmt.Sprintf("n%d", len(prev))}
		}
	case 4:
		return func(target string, prev []string, partial string) []string {
			if target == "bash" {
				return []string{"b-item"}
			}
			return []string{"z-item"}
		}
	}
	return nil
}

func (b *Built) defineOpt(g *getoptions.GetOpt, path string, o *OptDef) {
	fns := []getoptions.ModifyFn{}
	// modifier order: alias, then the rest (env after valid values so that Save sees them)
	if len(o.Aliases) > 0 {
		fns = append(fns, g.Alias(o.Aliases...))
	}
	if o.Desc != "" {
		fns = append(fns, g.Description(o.Desc))
	}
	if o.ArgName != "" {
		fns = append(fns, g.ArgName(o.ArgName))
	}
	if len(o.Valid) > 0 {
		fns = append(fns, g.ValidValues(o.Valid...))
	}
	if len(o.Suggested) > 0 {
		fns = append(fns, g.SuggestedValues(o.Suggested...))
	}
	if o.SuggestFn != 0 {
		fns = append(fns, g.SuggestedValuesFn(valueFn(o.SuggestFn)))
	}
	if o.Required {
		if o.HasReqMsg {
			fns = append(fns, g.Required(o.ReqMsg))
		} else {
			fns = append(fns, g.Required())
		}
	}
	if o.Env != "" {
		fns = append(fns, g.GetEnv(o.Env))
	}
	switch o.SetCalled {
	case 1:
		fns = append(fns, g.SetCalled(true))
	case 2:
		fns = append(fns, g.SetCalled(false))
	}
	key := path + "\x00" + o.Name
	switch o.Kind {
	case KBool:
		if o.UseVar {
			var v bool
			g.BoolVar(&v, o.Name, o.DefBool, fns...)
			b.Ptrs[key] = &v
		} else {
			b.Ptrs[key] = g.Bool(o.Name, o.DefBool, fns...)
		}
	case KIncr:
		if o.UseVar {
			var v int
			g.IncrementVar(&v, o.Name, o.DefInt, fns...)
			b.Ptrs[key] = &v
		} else {
			b.Ptrs[key] = g.Increment(o.Name, o.DefInt, fns...)
		}
	case KStr:
		if o.UseVar {
			var v string
			g.StringVar(&v, o.Name, o.DefStr, fns...)
			b.Ptrs[key] = &v
		} else {
			b.Ptrs[key] = g.String(o.Name, o.DefStr, fns...)
		}
	case KInt:
		if o.UseVar {
			var v int
			g.IntVar(&v, o.Name, o.DefInt, fns...)
			b.Ptrs[key] = &v
		} else {
			b.Ptrs[key] = g.Int(o.Name, o.DefInt, fns...)
		}
	case KFloat:
		if o.UseVar {
			var v float64
			g.Float64Var(&v, o.Name, o.DefFloat, fns...)
			b.Ptrs[key] = &v
		} else {
			b.Ptrs[key] = g.Float64(o.Name, o.DefFloat, fns...)
		}
	case KStrOpt:
		if o.UseVar {
			var v string
			g.StringVarOptional(&v, o.Name, o.DefStr, fns...)
			b.Ptrs[key] = &v
		} else {
			b.Ptrs[key] = g.StringOptional(o.Name, o.DefStr, fns...)
		}
	case KIntOpt:
		if o.UseVar {
			var v int
			g.IntVarOptional(&v, o.Name, o.DefInt, fns...)
			b.Ptrs[key] = &v
		} else {
			b.Ptrs[key] = g.IntOptional(o.Name, o.DefInt, fns...)
		}
	case KFloatOpt:
		if o.UseVar {
			var v float64
			g.Float64VarOptional(&v, o.Name, o.DefFloat, fns...)
			b.Ptrs[key] = &v
		} else {
			b.Ptrs[key] = g.Float64Optional(o.Name, o.DefFloat, fns...)
		}
	case KStrRep:
		if o.UseVar {
			var v []string
			g.StringSliceVar(&v, o.Name, o.Min, o.Max, fns...)
			b.Ptrs[key] = &v
		} else {
			b.Ptrs[key] = g.StringSlice(o.Name, o.Min, o.Max, fns...)
		}
	case KIntRep:
		if o.UseVar {
			var v []int
			g.IntSliceVar(&v, o.Name, o.Min, o.Max, fns...)
			b.Ptrs[key] = &v
		} else {
			b.Ptrs[key] = g.IntSlice(o.Name, o.Min, o.Max, fns...)
		}
	case KFloatRep:
		if o.UseVar {
			var v []float64
			g.Float64SliceVar(&v, o.Name, o.Min, o.Max, fns...)
			b.Ptrs[key] = &v
		} else {
			b.Ptrs[key] = g.Float64Slice(o.Name, o.Min, o.Max, fns...)
		}
	case KMap:
		if o.UseVar {
			var v map[string]string
			g.StringMapVar(&v, o.Name, o.Min, o.Max, fns...)
			b.Ptrs[key] = &v
		} else {
			m := g.StringMap(o.Name, o.Min, o.Max, fns...)
			b.Ptrs[key] = &m
		}
	}
}

func (b *Built) applySettings(g *getoptions.GetOpt, c *CmdDef) {
	if c.UnknownMode >= 0 {
		g.SetUnknownMode(getoptions.UnknownMode(c.UnknownMode))
	}
	if c.RequireOrder {
		g.SetRequireOrder()
	}
}

func (b *Built) defineCmd(g *getoptions.GetOpt, path string, c *CmdDef) {
	b.pathOf[c] = path
	if c.UnsetOptions {
		g.UnsetOptions()
	}
	if !c.SettingsLate {
		b.applySettings(g, c)
	}
	if len(c.Suggestions) > 0 {
		g.ArgCompletions(c.Suggestions...)
	}
	for _, id := range c.SuggestFns {
		g.ArgCompletionsFns(argFn(id))
	}
	for _, a := range c.SynArgs {
		g.HelpSynopsisArg(a[0], a[1])
	}
	if c.HasFn {
		id := b.nextFn
		b.nextFn++
		b.FnIDs[path] = id
		p := path
		g.SetCommandFn(func(ctx context.Context, opt *getoptions.GetOpt, args []string) error {
			call := FnCall{ID: id, Path: p, Args: append([]string{}, args...)}
			call.CtxOK = ctx.Value(ctxKey("verif")) == "token"
			d := opt.VerifDumpTree()
			for i, k := range d.Root.OptionKeys {
				o := d.Options[d.Root.OptionIDs[i]]
				call.ViewKeys = append(call.ViewKeys, k)
				call.View = append(call.View, ViewEntry{Key: k, Value: fmt.Sprintf("%#v", opt.Value(k)), Called: opt.Called(k), As: opt.CalledAs(k)})
				call.viewT = append(call.viewT, Pair(Str(k), tState(o)))
				// the view's own query API must agree with the option objects it holds
				if opt.Called(k) != o.Called || opt.CalledAs(k) != o.UsedAlias {
					call.ViewMismatch = append(call.ViewMismatch, k)
				}
			}
			b.FnCalls = append(b.FnCalls, call)
			return b.FnErr
		})
	}
	for i := range c.Opts {
		b.defineOpt(g, path, &c.Opts[i])
	}
	for _, sub := range c.Cmds {
		sg := g.NewCommand(sub.Name, sub.Desc)
		b.defineCmd(sg, path+"/"+sub.Name, sub)
	}
	for i := range c.LateOpts {
		b.defineOpt(g, path, &c.LateOpts[i])
	}
	if c.SettingsLate {
		b.applySettings(g, c)
	}
}

// Build - constructs the program; a panic of the library (invalid definition) is returned as error.
func Build(p *ProgDef) (b *Built, err error) {
	defer func() {
		if r := recover(); r != nil {
			err = fmt.Errorf("definition panic: %v", r)
		}
	}()
	for k, v := range p.Env {
		os.Setenv(k, v)
	}
	defer func() {
		for k := range p.Env {
			os.Unsetenv(k)
		}
	}()
	b = &Built{FnIDs: map[string]int{}, Ptrs: map[string]interface{}{}, pathOf: map[*CmdDef]string{}}
	g := getoptions.New()
	g.Self(p.Root.Name, p.Root.Desc)
	g.SetMode(getoptions.Mode(p.Mode))
	if p.MapLower {
		g.SetMapKeysToLower()
	}
	b.Opt = g
	b.defineCmd(g, "", p.Root)
	if p.Help {
		fns := []getoptions.ModifyFn{}
		if len(p.HelpAlias) > 0 {
			fns = append(fns, g.Alias(p.HelpAlias...))
		}
		g.HelpCommand(p.HelpName, fns...)
	}
	return b, nil
}
