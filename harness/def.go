package main

// Program definitions as data, and their construction through the public API.

import (
	"bytes"
	"context"
	"fmt"
	"math"
	"os"
	"strings"

	getoptions "github.com/DavidGamba/go-getoptions"
)

// Option kinds, in the order of option.Type.
const (
	KBool = iota
	KIncr
	KStr
	KInt
	KFloat
	KStrOpt
	KIntOpt
	KFloatOpt
	KStrRep
	KIntRep
	KFloatRep
	KMap
)

var kindNames = []string{"KBool", "KIncr", "KStr", "KInt", "KFloat", "KStrOpt", "KIntOpt", "KFloatOpt", "KStrRep", "KIntRep", "KFloatRep", "KMap"}

type OptDef struct {
	Kind      int
	Name      string
	Aliases   []string
	DefBool   bool
	DefInt    int
	DefStr    string
	DefFloat  float64
	Min, Max  int
	Required  bool
	ReqMsg    string
	HasReqMsg bool
	Env       string
	Valid     []string
	Suggested []string
	SuggestFn int // 0 none, else id in the suggestion function family
	SetCalled int // 0 not used, 1 SetCalled(true), 2 SetCalled(false) after GetEnv; 3, 4 the same before GetEnv
	Desc      string
	ArgName   string
	UseVar    bool
	PreSet    bool // *Var forms of map and []string: the target already holds entries (they are the default)
}

type CmdDef struct {
	Name         string
	Desc         string
	SelfName     string // non-empty: Self(SelfName, Desc) is called on the command (display name differs from the name it is declared and selected by)
	Opts         []OptDef
	LateOpts     []OptDef // declared after the commands of this level
	Cmds         []*CmdDef
	UnknownMode  int // -1 not set
	UModeFirst   int // >0: SetUnknownMode(UModeFirst-1) is called before the final one
	RequireOrder bool
	UnsetOptions bool
	SettingsLate bool // unknown mode / require order set after the commands were created
	HasFn        bool
	Suggestions  []string
	SuggestFns   []int
	SynArgs      [][2]string
}

type ProgDef struct {
	Root       *CmdDef
	Mode       int
	MapLower   bool
	EarlyParse bool // Parse([]) is called on the fresh GetOpt before anything is declared (a program that parses more than once)
	HelpEarly  bool // HelpCommand is declared before the last command of the program is created
	ModeFirst  int  // >0: SetMode(ModeFirst-1) is called before the final SetMode(Mode) (a setter called twice)
	Help       bool
	HelpName   string
	HelpAlias  []string
	Env        map[string]string
}

// Built - a constructed program with everything the harness observes.
type Built struct {
	Opt      *getoptions.GetOpt
	FnCalls  []FnCall
	FnIDs    map[string]int // command path -> fn id
	Ptrs     map[string]interface{}
	pathOf   map[*CmdDef]string
	nextFn   int
	FnErr    error // error returned by user functions (nil)
	InFnView map[string][]ViewEntry
	Handles  map[string]*getoptions.GetOpt // command path key -> the GetOpt NewCommand returned
}

type FnCall struct {
	ID           int
	Path         string
	Args         []string
	CtxOK        bool
	View         []ViewEntry
	ViewKeys     []string
	viewT        []*T
	ViewMismatch []string
}

type ViewEntry struct {
	Key    string
	Value  string
	Called bool
	As     string
}

type ctxKey string

// suggestion function family (shared with the Coq model: Model/Complete.v)
//
//	1: constant list {alpha, beta, alps}
//	2: prefix filter over {red, green, grey} on the partial word
//	3: echoes the number of previous args: "n<k>"
//	4: by target: bash -> "b-item", zsh -> "z-item"
//
//go:noinline
func valueFn(id int) func(target, partial string) []string {
	switch id {
	case 1:
		return func(target, partial string) []string { return []string{"alpha", "beta", "alps"} }
	case 2:
		return func(target, partial string) []string {
			out := []string{}
			for _, e := range []string{"red", "green", "grey"} {
				if strings.HasPrefix(e, partial) {
					out = append(out, e)
				}
			}
			return out
		}
	case 3:
		return func(target, partial string) []string { return []string{"p" + partial} }
	case 4:
		return func(target, partial string) []string {
			if target == "bash" {
				return []string{"b-item"}
			}
			return []string{"z-item"}
		}
	}
	return nil
}

//go:noinline
func argFn(id int) getoptions.ArgCompletionsFn {
	switch id {
	case 1:
		return func(target string, prev []string, partial string) []string { return []string{"alpha", "beta", "alps"} }
	case 2:
		return func(target string, prev []string, partial string) []string {
			out := []string{}
			for _, e := range []string{"red", "green", "grey"} {
				if strings.HasPrefix(e, partial) {
					out = append(out, e)
				}
			}
			return out
		}
	case 3:
		return func(target string, prev []string, partial string) []string {
			return []string{fmt.Sprintf("n%d", len(prev))}
		}
	case 4:
		return func(target string, prev []string, partial string) []string {
			if target == "bash" {
				return []string{"b-item"}
			}
			return []string{"z-item"}
		}
	}
	return nil
}

// aliasCalls declares the aliases either with one opt.Alias(a, b, ...) call or with one call per
// alias (the two spellings must be equivalent); the choice is a function of the definition
func aliasCalls(g *getoptions.GetOpt, name string, aliases []string) []getoptions.ModifyFn {
	if len(aliases) < 2 || (len(name)+len(aliases[0]))%2 == 1 {
		return []getoptions.ModifyFn{g.Alias(aliases...)}
	}
	fns := []getoptions.ModifyFn{}
	for _, a := range aliases {
		fns = append(fns, g.Alias(a))
	}
	return fns
}

// realMax - the HugeMax marker of a definition becomes the "no upper limit" idiom in the real call
func realMax(m int) int {
	if m >= HugeMax {
		return math.MaxInt
	}
	return m
}

func (b *Built) defineOpt(g *getoptions.GetOpt, path string, o *OptDef) {
	fns := []getoptions.ModifyFn{}
	// modifier order: alias, then the rest (env after valid values so that Save sees them)
	if len(o.Aliases) > 0 {
		fns = append(fns, aliasCalls(g, o.Name, o.Aliases)...)
	}
	if o.Desc != "" {
		fns = append(fns, g.Description(o.Desc))
	}
	if o.ArgName != "" {
		fns = append(fns, g.ArgName(o.ArgName))
	}
	if len(o.Valid) > 0 {
		fns = append(fns, g.ValidValues(o.Valid...))
	}
	if len(o.Suggested) > 0 {
		fns = append(fns, g.SuggestedValues(o.Suggested...))
	}
	if o.SuggestFn != 0 {
		fns = append(fns, g.SuggestedValuesFn(valueFn(o.SuggestFn)))
	}
	if o.Required {
		if o.HasReqMsg && len(o.ReqMsg)%2 == 1 {
			// the message is the first argument, whatever else is passed
			fns = append(fns, g.Required(o.ReqMsg, "a second argument changes nothing"))
		} else if o.HasReqMsg {
			fns = append(fns, g.Required(o.ReqMsg))
		} else {
			fns = append(fns, g.Required())
		}
	}
	switch o.SetCalled {
	case 3:
		fns = append(fns, g.SetCalled(true))
	case 4:
		fns = append(fns, g.SetCalled(false))
	}
	if o.Env != "" {
		fns = append(fns, g.GetEnv(o.Env))
	}
	switch o.SetCalled {
	case 1:
		fns = append(fns, g.SetCalled(true))
	case 2:
		fns = append(fns, g.SetCalled(false))
	}
	key := path + "\x00" + o.Name
	switch o.Kind {
	case KBool:
		if o.UseVar {
			var v bool
			g.BoolVar(&v, o.Name, o.DefBool, fns...)
			b.Ptrs[key] = &v
		} else {
			b.Ptrs[key] = g.Bool(o.Name, o.DefBool, fns...)
		}
	case KIncr:
		if o.UseVar {
			var v int
			g.IncrementVar(&v, o.Name, o.DefInt, fns...)
			b.Ptrs[key] = &v
		} else {
			b.Ptrs[key] = g.Increment(o.Name, o.DefInt, fns...)
		}
	case KStr:
		if o.UseVar {
			var v string
			g.StringVar(&v, o.Name, o.DefStr, fns...)
			b.Ptrs[key] = &v
		} else {
			b.Ptrs[key] = g.String(o.Name, o.DefStr, fns...)
		}
	case KInt:
		if o.UseVar {
			var v int
			g.IntVar(&v, o.Name, o.DefInt, fns...)
			b.Ptrs[key] = &v
		} else {
			b.Ptrs[key] = g.Int(o.Name, o.DefInt, fns...)
		}
	case KFloat:
		if o.UseVar {
			var v float64
			g.Float64Var(&v, o.Name, o.DefFloat, fns...)
			b.Ptrs[key] = &v
		} else {
			b.Ptrs[key] = g.Float64(o.Name, o.DefFloat, fns...)
		}
	case KStrOpt:
		if o.UseVar {
			var v string
			g.StringVarOptional(&v, o.Name, o.DefStr, fns...)
			b.Ptrs[key] = &v
		} else {
			b.Ptrs[key] = g.StringOptional(o.Name, o.DefStr, fns...)
		}
	case KIntOpt:
		if o.UseVar {
			var v int
			g.IntVarOptional(&v, o.Name, o.DefInt, fns...)
			b.Ptrs[key] = &v
		} else {
			b.Ptrs[key] = g.IntOptional(o.Name, o.DefInt, fns...)
		}
	case KFloatOpt:
		if o.UseVar {
			var v float64
			g.Float64VarOptional(&v, o.Name, o.DefFloat, fns...)
			b.Ptrs[key] = &v
		} else {
			b.Ptrs[key] = g.Float64Optional(o.Name, o.DefFloat, fns...)
		}
	case KStrRep:
		if o.UseVar {
			var v []string
			if o.PreSet {
				v = []string{"pre"}
			}
			g.StringSliceVar(&v, o.Name, o.Min, realMax(o.Max), fns...)
			b.Ptrs[key] = &v
		} else {
			b.Ptrs[key] = g.StringSlice(o.Name, o.Min, realMax(o.Max), fns...)
		}
	case KIntRep:
		if o.UseVar {
			var v []int
			g.IntSliceVar(&v, o.Name, o.Min, realMax(o.Max), fns...)
			b.Ptrs[key] = &v
		} else {
			b.Ptrs[key] = g.IntSlice(o.Name, o.Min, realMax(o.Max), fns...)
		}
	case KFloatRep:
		if o.UseVar {
			var v []float64
			g.Float64SliceVar(&v, o.Name, o.Min, realMax(o.Max), fns...)
			b.Ptrs[key] = &v
		} else {
			b.Ptrs[key] = g.Float64Slice(o.Name, o.Min, realMax(o.Max), fns...)
		}
	case KMap:
		if o.UseVar {
			var v map[string]string
			if o.PreSet {
				v = map[string]string{"pre": "set"}
			}
			g.StringMapVar(&v, o.Name, o.Min, realMax(o.Max), fns...)
			b.Ptrs[key] = &v
		} else {
			m := g.StringMap(o.Name, o.Min, realMax(o.Max), fns...)
			b.Ptrs[key] = &m
		}
	}
}

// Op - one call of the definition API.
type Op struct {
	Kind string   `json:"kind"` // opt newcmd unset umode reqorder argcompl argfns synarg setfn help
	Path []string `json:"path"` // command names from the root
	Opt  *OptDef  `json:"opt,omitempty"`
	Name string   `json:"name,omitempty"`
	Desc string   `json:"desc,omitempty"`
	Int  int      `json:"int,omitempty"`
	List []string `json:"list,omitempty"`
	Ints []int    `json:"ints,omitempty"`
}

func clonePath(p []string) []string { return append([]string{}, p...) }

// Linearise - the definition as the sequence of API calls Build makes.
func Linearise(p *ProgDef) []Op {
	helpEarly := p.Help && p.HelpEarly && len(p.Root.Cmds) > 0
	ops := []Op{}
	fnID := 0
	var cmd func(path []string, c *CmdDef)
	settings := func(path []string, c *CmdDef) {
		if c.UnknownMode >= 0 {
			if c.UModeFirst > 0 {
				ops = append(ops, Op{Kind: "umode", Path: clonePath(path), Int: c.UModeFirst - 1})
			}
			ops = append(ops, Op{Kind: "umode", Path: clonePath(path), Int: c.UnknownMode})
		}
		if c.RequireOrder {
			ops = append(ops, Op{Kind: "reqorder", Path: clonePath(path)})
		}
	}
	cmd = func(path []string, c *CmdDef) {
		if c.UnsetOptions {
			ops = append(ops, Op{Kind: "unset", Path: clonePath(path)})
		}
		if !c.SettingsLate {
			settings(path, c)
		}
		if len(c.Suggestions) > 0 {
			ops = append(ops, Op{Kind: "argcompl", Path: clonePath(path), List: c.Suggestions})
		}
		if len(c.SuggestFns) > 0 {
			ops = append(ops, Op{Kind: "argfns", Path: clonePath(path), Ints: c.SuggestFns})
		}
		if c.SelfName != "" && len(path) > 0 {
			ops = append(ops, Op{Kind: "self", Path: clonePath(path), Name: c.SelfName, Desc: c.Desc})
		}
		for _, a := range c.SynArgs {
			ops = append(ops, Op{Kind: "synarg", Path: clonePath(path), Name: a[0], Desc: a[1]})
		}
		if c.HasFn {
			ops = append(ops, Op{Kind: "setfn", Path: clonePath(path), Int: fnID})
			fnID++
		}
		for i := range c.Opts {
			ops = append(ops, Op{Kind: "opt", Path: clonePath(path), Opt: &c.Opts[i]})
		}
		for si, sub := range c.Cmds {
			if helpEarly && c == p.Root && si == len(c.Cmds)-1 {
				ops = append(ops, Op{Kind: "help", Name: p.HelpName, List: p.HelpAlias})
			}
			ops = append(ops, Op{Kind: "newcmd", Path: clonePath(path), Name: sub.Name, Desc: sub.Desc})
			cmd(append(clonePath(path), sub.Name), sub)
		}
		for i := range c.LateOpts {
			ops = append(ops, Op{Kind: "opt", Path: clonePath(path), Opt: &c.LateOpts[i]})
		}
		if c.SettingsLate {
			settings(path, c)
		}
	}
	cmd([]string{}, p.Root)
	if p.Help && !helpEarly {
		ops = append(ops, Op{Kind: "help", Name: p.HelpName, List: p.HelpAlias})
	}
	return ops
}

func pathKey(path []string) string {
	k := ""
	for _, c := range path {
		k += "/" + c
	}
	return k
}

// Build - constructs the program by executing the operation list against the real API; a panic of
// the library (invalid definition) is returned as error.
func Build(p *ProgDef) (b *Built, err error) {
	return BuildOps(p, Linearise(p))
}

func BuildOps(p *ProgDef, ops []Op) (b *Built, err error) {
	defer func() {
		if r := recover(); r != nil {
			err = fmt.Errorf("definition panic: %v", r)
		}
	}()
	for k, v := range p.Env {
		os.Setenv(k, v)
	}
	defer func() {
		for k := range p.Env {
			os.Unsetenv(k)
		}
	}()
	b = &Built{FnIDs: map[string]int{}, Ptrs: map[string]interface{}{}, pathOf: map[*CmdDef]string{}}
	g := getoptions.New()
	g.Self(p.Root.Name, p.Root.Desc)
	if p.EarlyParse {
		// nothing is declared yet and the command line is empty: this Parse stores nothing and
		// leaves nothing behind; whatever the library remembers from it is hidden state
		func() {
			old := getoptions.Writer
			getoptions.Writer = new(bytes.Buffer)
			defer func() { getoptions.Writer = old }()
			_, _ = g.Parse([]string{})
		}()
	}
	if p.ModeFirst > 0 {
		g.SetMode(getoptions.Mode(p.ModeFirst - 1))
	}
	g.SetMode(getoptions.Mode(p.Mode))
	if p.MapLower {
		g.SetMapKeysToLower()
	}
	b.Opt = g
	handles := map[string]*getoptions.GetOpt{"": g}
	b.Handles = handles
	for _, op := range ops {
		pk := pathKey(op.Path)
		h := handles[pk]
		if h == nil {
			return nil, fmt.Errorf("harness: no handle for %q", pk)
		}
		switch op.Kind {
		case "opt":
			b.defineOpt(h, pk, op.Opt)
		case "newcmd":
			handles[pk+"/"+op.Name] = h.NewCommand(op.Name, op.Desc)
		case "unset":
			h.UnsetOptions()
		case "umode":
			h.SetUnknownMode(getoptions.UnknownMode(op.Int))
		case "reqorder":
			h.SetRequireOrder()
		case "argcompl":
			h.ArgCompletions(op.List...)
		case "argfns":
			for _, id := range op.Ints {
				h.ArgCompletionsFns(argFn(id))
			}
		case "self":
			h.Self(op.Name, op.Desc)
		case "synarg":
			h.HelpSynopsisArg(op.Name, op.Desc)
		case "setfn":
			b.setFn(h, pk, op.Int)
		case "help":
			fns := []getoptions.ModifyFn{}
			if len(op.List) > 0 {
				fns = append(fns, aliasCalls(g, op.Name, op.List)...)
			}
			g.HelpCommand(op.Name, fns...)
		}
	}
	return b, nil
}

func (b *Built) setFn(g *getoptions.GetOpt, path string, id int) {
	b.FnIDs[path] = id
	p := path
	g.SetCommandFn(func(ctx context.Context, opt *getoptions.GetOpt, args []string) error {
		call := FnCall{ID: id, Path: p, Args: append([]string{}, args...)}
		call.CtxOK = ctx.Value(ctxKey("verif")) == "token"
		d := opt.VerifDumpTree()
		for i, k := range d.Root.OptionKeys {
			o := d.Options[d.Root.OptionIDs[i]]
			call.ViewKeys = append(call.ViewKeys, k)
			call.View = append(call.View, ViewEntry{Key: k, Value: fmt.Sprintf("%#v", opt.Value(k)), Called: opt.Called(k), As: opt.CalledAs(k)})
			call.viewT = append(call.viewT, Pair(Str(k), tState(o)))
			// the view's own query API must agree with the option objects it holds
			if opt.Called(k) != o.Called || opt.CalledAs(k) != o.UsedAlias {
				call.ViewMismatch = append(call.ViewMismatch, k)
			}
		}
		b.FnCalls = append(b.FnCalls, call)
		return b.FnErr
	})
}
