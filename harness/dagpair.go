package main

// C15: two graphs that share Task objects, running concurrently under one controller.

import (
	"context"
	"fmt"
	"math/rand"
	"sync"
	"time"

	getoptions "github.com/DavidGamba/go-getoptions"
	"github.com/DavidGamba/go-getoptions/dag"
)

type pairCtl struct {
	mu       sync.Mutex
	running  map[string]chan struct{} // "graph/id"
	perGraph [3]int
	peak     [3]int
	perTask  map[string]int
	taskPeak int
	events   int
}

type gkey string

// runPair returns oracle hits and a short description
func runPair(r *rand.Rand, grace time.Duration) ([]OracleHit, map[string]interface{}) {
	n := 2 + r.Intn(4)
	c := &pairCtl{running: map[string]chan struct{}{}, perTask: map[string]int{}}
	tasks := make([]*dag.Task, n)
	fromMap := make([]bool, n)
	tm := dag.NewTaskMap()
	for i := 0; i < n; i++ {
		id := string(rune('a' + i))
		fn := func(ctx context.Context, opt *getoptions.GetOpt, args []string) error {
			gi := ctx.Value(gkey("graph")).(int)
			ch := make(chan struct{})
			c.mu.Lock()
			c.events++
			c.running[fmt.Sprintf("%d/%s", gi, id)] = ch
			c.perGraph[gi]++
			if c.perGraph[gi] > c.peak[gi] {
				c.peak[gi] = c.perGraph[gi]
			}
			c.perTask[id]++
			if c.perTask[id] > c.taskPeak {
				c.taskPeak = c.perTask[id]
			}
			c.mu.Unlock()
			<-ch
			c.mu.Lock()
			c.events++
			c.perGraph[gi]--
			c.perTask[id]--
			c.mu.Unlock()
			return nil
		}
		switch i % 3 {
		case 1:
			// written as a struct literal: ID and Fn are exported and the zero lock works
			tasks[i] = &dag.Task{ID: dag.ID(id), Fn: fn}
		case 2:
			// kept in a TaskMap; every graph asks the map for it again
			tasks[i] = tm.Add(id, fn)
			fromMap[i] = true
		default:
			tasks[i] = dag.NewTask(id, fn)
		}
	}
	taskFor := func(i int) *dag.Task {
		if fromMap[i] {
			return tm.Get(string(tasks[i].ID))
		}
		return tasks[i]
	}
	caps := [3]int{1 + r.Intn(3), 1 + r.Intn(3), 1 + r.Intn(3)}
	graphs := [3]*dag.Graph{}
	desc := map[string]interface{}{"tasks": n, "caps": caps}
	for gi := 0; gi < 3; gi++ {
		g := dag.NewGraph(fmt.Sprintf("g%d", gi))
		g.TickerDuration = 200 * time.Microsecond
		g.SetMaxParallel(caps[gi])
		order := r.Perm(n)
		edges := []string{}
		for pi, i := range order {
			g.AddTask(taskFor(i))
			for _, j := range order[:pi] {
				if r.Intn(3) == 0 {
					g.TaskDependsOn(taskFor(i), taskFor(j))
					edges = append(edges, fmt.Sprintf("%s->%s", tasks[i].ID, tasks[j].ID))
				}
			}
		}
		desc[fmt.Sprintf("edges%d", gi)] = edges
		graphs[gi] = g
	}
	var wg sync.WaitGroup
	done := make(chan struct{})
	for gi := 0; gi < 3; gi++ {
		wg.Add(1)
		go func(gi int) {
			defer wg.Done()
			ctx := context.WithValue(context.Background(), gkey("graph"), gi)
			_ = graphs[gi].Run(ctx, nil, nil)
		}(gi)
	}
	go func() { wg.Wait(); close(done) }()
	hits := []OracleHit{}
	deadline := time.Now().Add(10 * time.Second)
	last := -1
	stable := time.Now()
loop:
	for {
		select {
		case <-done:
			break loop
		case <-time.After(grace / 2):
		}
		c.mu.Lock()
		ev := c.events
		keys := []string{}
		for k := range c.running {
			keys = append(keys, k)
		}
		c.mu.Unlock()
		if ev != last {
			last = ev
			stable = time.Now()
			continue
		}
		if time.Since(stable) < grace {
			continue
		}
		if len(keys) == 0 {
			if time.Now().After(deadline) {
				hits = append(hits, OracleHit{Key: "pair-hang", What: "two graphs sharing tasks: Run did not return"})
				break loop
			}
			continue
		}
		k := keys[r.Intn(len(keys))]
		c.mu.Lock()
		ch := c.running[k]
		delete(c.running, k) // released: never picked twice
		c.mu.Unlock()
		if ch != nil {
			close(ch)
		}
		stable = time.Now()
	}
	c.mu.Lock()
	defer c.mu.Unlock()
	for gi := 0; gi < 3; gi++ {
		if c.peak[gi] > caps[gi] {
			hits = append(hits, OracleHit{Key: "bound", What: fmt.Sprintf("graph %d with SetMaxParallel(%d) had %d task functions executing at once while sharing tasks with another graph", gi, caps[gi], c.peak[gi])})
		}
	}
	if c.taskPeak > 1 {
		hits = append(hits, OracleHit{Key: "task-mutex", What: "a Task shared by two graphs executed twice at the same time"})
	}
	desc["peak"] = c.peak
	return hits, desc
}
