package main

// Generator profiles: per-property biases on top of the general generator.

func applyProfile(g *Gen, profile string) {
	switch profile {
	case "general":
	}
}

func genProgFor(g *Gen, profile string) *ProgDef { return g.GenProg() }

func genArgvFor(g *Gen, profile string, p *ProgDef) []string { return g.GenArgv(p) }
