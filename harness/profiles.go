package main

import "strings"

// Generator profiles: per-property biases on top of the general generator.

func applyProfile(g *Gen, profile string) {
	switch profile {
	case "unknown":
		g.PMalformed = 5
		g.UModes = []int{-1, 0, 1, 1, 2, 2}
		g.PRequireOrder = 5
		g.PRequired = 0
	case "term":
		g.PMalformed = 0
		g.PRequired = 0
		g.MaxArgv = 4
	case "abbrev":
		g.PMalformed = 0
		g.PRequired = 0
		g.PAliases = 70
		g.MaxOpts = 6
		g.PExoticNames = 20
		g.Kinds = []int{KBool, KBool, KStr, KStr, KIncr, KInt, KStrOpt, KStrRep}
	case "order":
		g.PMalformed = 5
		g.PRequireOrder = 70
		g.PRequired = 0
	case "scalar":
		g.PMalformed = 0
		g.PRequired = 0
		g.Kinds = []int{KStr, KInt, KFloat, KStrOpt, KIntOpt, KFloatOpt, KBool, KIncr}
		g.MaxDepth = 1
	case "multi":
		g.PMalformed = 0
		g.PRequired = 0
		g.Kinds = []int{KStrRep, KIntRep, KFloatRep, KMap, KBool, KStr}
		g.MaxDepth = 1
		g.MaxArgv = 10
	case "alias":
		g.PMalformed = 0
		g.PRequired = 5
		g.PAliases = 90
	case "modes":
		g.PMalformed = 5
		g.PRequired = 0
		g.PExoticNames = 30
	case "env":
		g.PMalformed = 0
		g.PEnv = 70
		g.PRequired = 20
		g.Kinds = []int{KBool, KStr, KInt, KFloat, KStrOpt, KIntOpt, KFloatOpt, KStrRep}
		g.MaxDepth = 1
	case "bundle":
		g.PMalformed = 0
		g.PRequired = 0
		g.Modes = []int{1}
		g.PSingleLetter = 80
		g.MaxOpts = 6
		g.Kinds = []int{KBool, KBool, KBool, KIncr, KIntRep, KFloatRep, KMap, KStrRep, KStrOpt, KIntOpt, KStr}
		g.UModes = []int{-1, 0, 1, 2, 2}
	case "dispatch":
		g.PClean = 70
		g.PMalformed = 3
		g.PRequired = 25
		g.PHelp = 70
		g.MaxDepth = 3
		g.PEnv = 20
		g.PUnset = 15
	case "help":
		g.PClean = 85
		g.PMalformed = 0
		g.PRequired = 30
		g.PHelp = 70
		g.PEnv = 40
		g.MaxOpts = 8
		g.MaxArgv = 3
		g.PLateOpts = 30
		g.PUnset = 25
		g.MaxDepth = 3
	case "build":
		g.PInvalid = 12
		g.PLateOpts = 35
		g.PUnset = 25
		g.PEnv = 40
		g.PHelp = 60
		g.MaxDepth = 3
		g.PSettingsLate = 40
	case "perm":
		g.PMalformed = 3
		g.PRequired = 35
		g.MaxOpts = 7
		g.PAliases = 70
		g.UModes = []int{-1, 0, 1, 1, 2}
	case "complete":
		g.PSuggested = 45
		g.PMalformed = 0
		g.PRequired = 5
		g.PHelp = 70
		g.PValid = 35
		g.PAliases = 60
		g.MaxArgv = 4
		g.PRequireOrder = 10
	case "soup":
		g.PMalformed = 85
		g.MaxArgv = 14
		g.PExoticNames = 40
	}
}

func genProgFor(g *Gen, profile string) *ProgDef { return g.GenProg() }

func (g *Gen) knownToken(p *ProgDef, path []*CmdDef) string {
	vis := visibleOpts(path, p)
	if len(vis) == 0 {
		return "--none"
	}
	o := vis[g.r.Intn(len(vis))]
	ks := optKeys(o)
	return "--" + ks[g.r.Intn(len(ks))]
}

func genArgvFor(g *Gen, profile string, p *ProgDef) []string {
	switch profile {
	case "term":
		ctx := g.GenArgv(p)
		out := append([]string{}, ctx...)
		// end the context in a chosen way
		path := []*CmdDef{p.Root}
		switch g.r.Intn(6) {
		case 0: // positional
			out = append(out, g.pick(wordPool))
		case 1: // option without its value (mandatory missing / optional / greedy)
			out = append(out, g.knownToken(p, path))
		case 2: // option with one value (greedy ones may want more)
			out = append(out, g.knownToken(p, path), g.pick(wordPool))
		case 3: // command
			if len(p.Root.Cmds) > 0 {
				out = append(out, p.Root.Cmds[g.r.Intn(len(p.Root.Cmds))].Name)
			}
		}
		out = append(out, "--")
		n := g.r.Intn(4)
		for i := 0; i < n; i++ {
			switch g.r.Intn(5) {
			case 0:
				out = append(out, g.knownToken(p, path))
			case 1:
				out = append(out, g.pick(cmdNamePool))
			case 2:
				out = append(out, "--")
			case 3:
				out = append(out, "--unknown")
			default:
				out = append(out, g.pick(wordPool))
			}
		}
		return out
	case "order":
		// `--` directly behind a command name now and then (the command level decides what stops)
		out := g.GenArgv(p)
		for i, t := range out {
			isCmd := false
			for _, c := range p.Root.Cmds {
				if c.Name == t {
					isCmd = true
				}
			}
			if isCmd && g.pct(25) {
				out = append(out[:i+1], append([]string{"--"}, out[i+1:]...)...)
				break
			}
		}
		return out
	case "multi":
		// now and then an []int option gets a range wider than any plausible internal chunk or cap,
		// attached or as its first mandatory value
		if g.pct(2) {
			for _, o := range visibleOpts([]*CmdDef{p.Root}, p) {
				if o.Kind == KIntRep {
					out := []string{}
					if g.pct(50) {
						out = append(out, "--"+o.Name+"=0..70000")
					} else {
						out = append(out, "--"+o.Name, "0..70000")
					}
					for i := g.r.Intn(3); i > 0; i-- {
						out = append(out, g.pick(intPool))
					}
					return out
				}
			}
		}
		return g.GenArgv(p)
	case "help":
		// ask for the help of a command chosen anywhere in the tree, in every spelling the library
		// accepts: the help option before, inside or after the command path, the help command at
		// the root, at the parent, or inside the command itself
		if !p.Help || !g.pct(70) {
			return g.GenArgv(p)
		}
		path := []string{}
		cur := p.Root
		for len(cur.Cmds) > 0 && g.pct(75) {
			cur = cur.Cmds[g.r.Intn(len(cur.Cmds))]
			path = append(path, cur.Name)
		}
		hopt := "--" + p.HelpName
		if len(p.HelpAlias) > 0 && g.pct(30) {
			hopt = "-" + p.HelpAlias[0]
		}
		out := []string{}
		switch g.r.Intn(6) {
		case 0:
			out = append(append(out, path...), hopt)
		case 1:
			out = append(append(out, hopt), path...)
		case 2:
			out = append(append(out, p.HelpName), path...)
		case 3:
			if len(path) > 0 {
				topic := path[len(path)-1]
				if g.pct(15) {
					// a topic that is not a command of the level, only a case variant of one
					topic = strings.ToUpper(topic[:1]) + topic[1:]
					if g.pct(50) {
						topic = strings.ToUpper(topic)
					}
				}
				out = append(append(append(out, path[:len(path)-1]...), p.HelpName), topic)
				return out
			} else {
				out = append(out, p.HelpName)
			}
		case 4:
			out = append(append(out, path...), p.HelpName)
		default:
			k := g.r.Intn(len(path) + 1)
			out = append(append(append(out, path[:k]...), hopt), path[k:]...)
		}
		return out
	case "abbrev":
		// abbreviations (and exact names) at the root level, optionally a command, then more of
		// them at the command's level; a spelling used before the command is sometimes used again
		// after it, where another table decides what it means
		path := []*CmdDef{p.Root}
		out := []string{}
		optToks := []string{}
		emit := func() {
			vis := visibleOpts(path, p)
			if len(vis) == 0 {
				return
			}
			o := vis[g.r.Intn(len(vis))]
			ks := optKeys(o)
			key := ks[g.r.Intn(len(ks))]
			pre := key[:1+g.r.Intn(len(key))]
			attach := o.Kind > KIncr && g.pct(60)
			tok := g.spell(pre, p.Mode, attach, g.valueFor(o.Kind))
			out = append(out, tok)
			optToks = append(optToks, tok)
			if o.Kind > KIncr && !attach && g.pct(80) {
				out = append(out, g.valueFor(o.Kind))
			}
		}
		first := g.r.Intn(3)
		if len(p.Root.Cmds) == 0 || !g.pct(45) {
			first = 1 + g.r.Intn(3)
		}
		for i := 0; i < first; i++ {
			emit()
		}
		if len(p.Root.Cmds) > 0 && g.pct(45) {
			c := p.Root.Cmds[g.r.Intn(len(p.Root.Cmds))]
			out = append(out, c.Name)
			path = append(path, c)
			for i := g.r.Intn(3); i > 0; i-- {
				if len(optToks) > 0 && g.pct(50) {
					out = append(out, optToks[g.r.Intn(len(optToks))])
				} else {
					emit()
				}
			}
		}
		return out
	case "bundle":
		if g.pct(10) {
			// two greedy options in one bundle: the first takes its values and refuses the next token
			// for its format, the second takes that token; then `--` and a tail that must stay untouched
			var a, b *OptDef
			vis := visibleOpts([]*CmdDef{p.Root}, p)
			for i := range vis {
				o := &vis[i]
				if len([]rune(o.Name)) != 1 || o.Name == "-" {
					continue
				}
				if a == nil && (o.Kind == KIntRep || o.Kind == KFloatRep || o.Kind == KMap) {
					a = o
				} else if b == nil && o.Kind == KStrRep {
					b = o
				}
			}
			if a != nil && b != nil {
				out := []string{"-" + a.Name + b.Name}
				for i := 0; i < a.Min; i++ {
					out = append(out, g.cleanValue(*a))
				}
				for i := 0; i < b.Min; i++ {
					out = append(out, []string{"foo", "word", "x y", "bar"}[g.r.Intn(4)])
				}
				out = append(out, "--")
				for i := g.r.Intn(4); i > 0; i-- {
					if g.pct(50) {
						out = append(out, g.knownToken(p, []*CmdDef{p.Root}))
					} else {
						out = append(out, g.pick(wordPool))
					}
				}
				return out
			}
		}
		path := []*CmdDef{p.Root}
		out := []string{}
		n := 1 + g.r.Intn(4)
		for i := 0; i < n; i++ {
			vis := visibleOpts(path, p)
			letters := []string{}
			kinds := map[string]int{}
			for _, o := range vis {
				for _, k := range optKeys(o) {
					if len([]rune(k)) == 1 && k != "-" {
						letters = append(letters, k)
						kinds[k] = o.Kind
					}
				}
			}
			letters = append(letters, "Q", "W")
			switch {
			case g.pct(70):
				b := "-"
				m := 1 + g.r.Intn(4)
				last := ""
				for j := 0; j < m; j++ {
					last = letters[g.r.Intn(len(letters))]
					b += last
				}
				if g.pct(25) {
					b += "=" + g.valueFor(kinds[last])
				}
				out = append(out, b)
				for j := g.r.Intn(3); j > 0; j-- {
					switch g.r.Intn(4) {
					case 0:
						out = append(out, g.pick(intPool))
					case 1:
						out = append(out, g.pick(kvPool))
					case 2:
						out = append(out, g.pick(floatPool))
					default:
						out = append(out, g.pick(wordPool))
					}
				}
			case g.pct(30) && len(path[len(path)-1].Cmds) > 0:
				c := path[len(path)-1].Cmds[g.r.Intn(len(path[len(path)-1].Cmds))]
				out = append(out, c.Name)
				path = append(path, c)
			case g.pct(30):
				out = append(out, "--")
			default:
				out = append(out, g.pick(wordPool))
			}
		}
		return out
	case "perm":
		// several candidates for every diagnostic: ambiguous prefixes, unknown options, and (through
		// the definition) several missing required options
		out := g.GenArgv(p)
		vis := visibleOpts([]*CmdDef{p.Root}, p)
		if len(vis) > 0 && g.pct(50) {
			o := vis[g.r.Intn(len(vis))]
			out = append(out, "--"+o.Name[:1])
		}
		for i := g.r.Intn(3); i > 0; i-- {
			pos := g.r.Intn(len(out) + 1)
			u := []string{"--qq-unk1", "--qq-unk2=v", "-Q", "--zz"}[g.r.Intn(4)]
			out = append(out[:pos], append([]string{u}, out[pos:]...)...)
		}
		return out
	case "soup":
		out := g.GenArgv(p)
		if g.pct(2) { // very long token / many tokens
			big := make([]byte, 20000)
			for i := range big {
				big[i] = "-=ab\xff"[g.r.Intn(5)]
			}
			out = append(out, string(big))
		}
		if g.pct(2) {
			for i := 0; i < 3000; i++ {
				out = append(out, g.pick(weirdPool))
			}
		}
		return out
	case "unknown":
		out := g.GenArgv(p)
		// plant unknown options at random positions
		n := 1 + g.r.Intn(2)
		for i := 0; i < n; i++ {
			u := []string{"--unknown", "-u", "--typo=1", "-Q", "--verbosee", "--zz", "-unk", "--un=a=b", "-QW", "--qq-unk1", "--qq-unk2=v", "--qq-unk3"}[g.r.Intn(12)]
			pos := g.r.Intn(len(out) + 1)
			out = append(out[:pos], append([]string{u}, out[pos:]...)...)
		}
		return out
	}
	return g.GenArgv(p)
}
