// C18, decided on the help text itself (independent of the model's renderer): given the option
// table and the command table of the level whose help was produced (from the dump of the final
// node: keys -> option objects, names, required flag, default text, environment variable), the
// text must list every option exactly once, under all the keys that reach it, in the right
// section, with its default / environment variable, mention it in the synopsis, and list every
// command other than the help command exactly once.
package main

import (
	"fmt"
	"regexp"
	"sort"
	"strings"

	getoptions "github.com/DavidGamba/go-getoptions"
)

var helpEntryRe = regexp.MustCompile(`^ {4}(-\S*)`)
var helpSectionRe = regexp.MustCompile(`^[A-Z][A-Z ]*:$`)

func dashed(k string) string {
	switch {
	case k == "-":
		return "-"
	case len(k) > 1:
		return "--" + k
	}
	return "-" + k
}

type helpEntry struct {
	section string
	token   string
	block   string
}

func splitHelp(text string) (sections map[string]string, entries []helpEntry) {
	sections = map[string]string{}
	cur := ""
	var open *helpEntry
	flush := func() {
		if open != nil {
			entries = append(entries, *open)
			open = nil
		}
	}
	for _, line := range strings.Split(text, "\n") {
		if helpSectionRe.MatchString(line) {
			flush()
			cur = strings.TrimSuffix(line, ":")
			continue
		}
		sections[cur] += line + "\n"
		if cur == "REQUIRED PARAMETERS" || cur == "OPTIONS" {
			if m := helpEntryRe.FindStringSubmatch(line); m != nil {
				flush()
				open = &helpEntry{section: cur, token: m[1]}
			}
			if open != nil {
				open.block += line + "\n"
			}
		}
	}
	flush()
	return
}

// helpOracle returns the C18 violations visible in the text, or nil.  Levels whose keys contain
// white space or '|' are skipped (the text cannot be split back unambiguously).
func helpOracle(final *getoptions.VerifDump, text string) []OracleHit {
	if final == nil || final.Root == nil {
		return nil
	}
	n := final.Root
	keysOf := map[int][]string{}
	for i, k := range n.OptionKeys {
		if k == "" || strings.ContainsAny(k, " \t\n\r\f\v|") {
			return nil
		}
		keysOf[n.OptionIDs[i]] = append(keysOf[n.OptionIDs[i]], k)
	}
	for _, k := range n.CommandKeys {
		if k == "" || strings.ContainsAny(k, " \t\n\r\f\v") {
			return nil
		}
	}
	sections, entries := splitHelp(text)
	hits := []OracleHit{}
	add := func(key, what string) { hits = append(hits, OracleHit{Key: key, What: what}) }
	canon := func(tok string) string {
		parts := strings.Split(tok, "|")
		sort.Strings(parts)
		return strings.Join(parts, "|")
	}
	ids := []int{}
	for id := range keysOf {
		ids = append(ids, id)
	}
	sort.Ints(ids)
	for _, id := range ids {
		if id < 0 || id >= len(final.Options) {
			continue
		}
		o := final.Options[id]
		want := []string{}
		for _, k := range keysOf[id] {
			want = append(want, dashed(k))
		}
		sort.Strings(want)
		wantTok := strings.Join(want, "|")
		found := []helpEntry{}
		for _, e := range entries {
			if canon(e.token) == wantTok {
				found = append(found, e)
			}
		}
		if len(found) != 1 {
			// is it listed under fewer / other keys?
			partial := ""
			for _, e := range entries {
				for _, p := range strings.Split(e.token, "|") {
					if p == dashed(o.Name) {
						partial = e.token
					}
				}
			}
			// known finding D16: the option's own name or one of its aliases is a key of this level that
			// leads to ANOTHER option object (an option of that name declared later on an ancestor was
			// copied over it); the help does not show the option under exactly the keys that reach it
			taken := ""
			declared := append([]string{o.Name}, o.Aliases...)
			for i, k := range n.OptionKeys {
				for _, dk := range declared {
					if k == dk && n.OptionIDs[i] != id {
						taken = k
					}
				}
			}
			if taken != "" {
				add("help-entry-key-taken-over", fmt.Sprintf("option %q (declared with %v) is reachable at this level as %v only: its key %q leads to another option here (an option of that name declared later on an ancestor was copied over it), and the help text does not show the option under exactly the keys that reach it", o.Name, declared, want, taken))
				continue
			}
			add("help-entry", fmt.Sprintf("option %q reachable as %v has %d entries %q in the option list (closest entry: %q)", o.Name, want, len(found), wantTok, partial))
			continue
		}
		e := found[0]
		if o.IsRequired && e.section != "REQUIRED PARAMETERS" {
			add("help-section", fmt.Sprintf("required option %q is listed under %s", o.Name, e.section))
		}
		if !o.IsRequired && e.section != "OPTIONS" {
			add("help-section", fmt.Sprintf("optional option %q is listed under %s", o.Name, e.section))
		}
		if !o.IsRequired && !strings.Contains(e.block, "(default: "+o.DefaultStr) {
			add("help-default", fmt.Sprintf("the entry of option %q does not show its default %q", o.Name, o.DefaultStr))
		}
		if o.EnvVar != "" && !strings.Contains(e.block, "env: "+o.EnvVar) {
			add("help-env", fmt.Sprintf("the entry of option %q does not show its environment variable %q", o.Name, o.EnvVar))
		}
		// the synopsis mentions the option under the same keys
		syn := sections["SYNOPSIS"]
		okSyn := false
		for _, f := range strings.FieldsFunc(syn, func(r rune) bool { return r == ' ' || r == '\n' || r == '[' || r == ']' || r == '<' || r == '>' }) {
			if strings.HasPrefix(f, "-") && canon(f) == wantTok {
				okSyn = true
			}
		}
		if !okSyn {
			add("help-synopsis", fmt.Sprintf("the synopsis does not mention option %q as %q", o.Name, wantTok))
		} else if m := regexp.MustCompile(`(^|[ \n\[<])` + regexp.QuoteMeta(e.token) + `([ \n\]>]|$)`).FindStringIndex(syn); m != nil {
			// optional options are bracketed, required ones are not
			i := m[0]
			bracketed := syn[i] == '['
			if bracketed == o.IsRequired {
				add("help-synopsis-brackets", fmt.Sprintf("option %q (required=%v) is shown in the synopsis as %q", o.Name, o.IsRequired, strings.TrimSpace(syn[i:min3(len(syn), m[1]+12)])))
			}
		}
	}
	// declared positional arguments that have a name and a description are listed once
	for _, a := range n.SynopsisArgs {
		if a[0] == "" || a[1] == "" || strings.ContainsAny(a[0], " \t\n") {
			continue
		}
		cnt := 0
		for _, line := range strings.Split(sections["ARGUMENTS"], "\n") {
			if strings.HasPrefix(line, "    "+a[0]+" ") || line == "    "+a[0] {
				cnt++
			}
		}
		dup := 0
		for _, b := range n.SynopsisArgs {
			if b[0] == a[0] {
				dup++
			}
		}
		if cnt != dup {
			add("help-argument", fmt.Sprintf("declared argument %q (%q) is listed %d times in the ARGUMENTS section", a[0], a[1], cnt))
		}
	}
	// commands
	for ci, key := range n.CommandKeys {
		if key == n.HelpCommandName {
			continue
		}
		// the list shows a command under its display name (Self), which is its key unless changed
		k := key
		if ci < len(n.Commands) && n.Commands[ci] != nil && n.Commands[ci].Name != "" {
			k = n.Commands[ci].Name
		}
		if strings.ContainsAny(k, " \t\n\r\f\v|") {
			continue
		}
		cnt := 0
		for _, line := range strings.Split(sections["COMMANDS"], "\n") {
			if strings.HasPrefix(line, "    "+k+" ") || line == "    "+k {
				cnt++
			}
		}
		if cnt != 1 {
			add("help-command", fmt.Sprintf("command %q is listed %d times in the command list", k, cnt))
		}
	}
	if len(hits) > 3 {
		hits = hits[:3]
	}
	return hits
}
