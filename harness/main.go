package main

import (
	"bufio"
	"bytes"
	"crypto/sha1"
	"encoding/json"
	"errors"
	"flag"
	"fmt"
	"os"
	"runtime"
	"strconv"
	"strings"
	"time"

	getoptions "github.com/DavidGamba/go-getoptions"
)

// OracleHit - a direct (model independent) oracle that fired.
type OracleHit struct {
	Key  string `json:"key"`
	What string `json:"what"`
}

// ParseObs - what one Parse call showed.
type ParseObs struct {
	Case              *int                   `json:"case"` // index in the case file, nil when no case was emitted
	Key               string                 `json:"key"`
	Seed              int64                  `json:"seed"`
	Prog              *ProgDef               `json:"prog"`
	Argv              []string               `json:"argv"`
	ArgvQ             []string               `json:"argv_q"`
	Err               string                 `json:"err,omitempty"`
	ErrKind           string                 `json:"err_kind,omitempty"`
	ErrArgs           []string               `json:"err_args,omitempty"`
	HasErr            bool                   `json:"has_err"`
	IsParsing         bool                   `json:"is_parsing"`
	Remaining         []string               `json:"remaining"`
	RemNil            bool                   `json:"remaining_nil"`
	Writer            string                 `json:"writer"`
	Panic             string                 `json:"panic,omitempty"`
	Hang              bool                   `json:"hang,omitempty"`
	BuildErr          string                 `json:"build_err,omitempty"`
	Values            []string               `json:"values,omitempty"`
	CalledBeforeCount int                    `json:"called_before"`
	CalledAfterCount  int                    `json:"called_after"`
	Hist              []string               `json:"hist"`
	Nontrivial        map[string]bool        `json:"nontrivial"`
	Oracle            map[string][]OracleHit `json:"oracle"`
	Sample            map[string]interface{} `json:"sample"`
	HelpText          string                 `json:"help,omitempty"`
	term              *T
}

func jsonOf(v interface{}) string {
	b, _ := json.Marshal(v)
	return string(b)
}

func quoteAll(l []string) []string {
	out := make([]string, len(l))
	for i, s := range l {
		out[i] = strconv.Quote(s)
	}
	return out
}

func metaOf(p *ProgDef) *nodeMeta {
	m := &nodeMeta{fnID: map[string]int{}, sfns: map[string][]int{}, optSfn: map[string]int{}}
	var walk func(c *CmdDef, path string)
	walk = func(c *CmdDef, path string) {
		m.sfns[path] = c.SuggestFns
		for _, o := range append(append([]OptDef{}, c.Opts...), c.LateOpts...) {
			if o.SuggestFn != 0 {
				m.optSfn[path+"\x00"+o.Name] = o.SuggestFn
				m.optSfn[o.Name] = o.SuggestFn
			}
		}
		for _, s := range c.Cmds {
			walk(s, path+"/"+s.Name)
		}
	}
	walk(p.Root, "")
	return m
}

func hasFloatKinds(d *getoptions.VerifDump) bool {
	for _, o := range d.Options {
		if o.Kind == KFloat || o.Kind == KFloatOpt || o.Kind == KFloatRep {
			return true
		}
	}
	return false
}

func floatTable(d *getoptions.VerifDump, argv []string) (map[string]*float64, []string) {
	tab := map[string]*float64{}
	order := []string{}
	if !hasFloatKinds(d) {
		return tab, order
	}
	add := func(s string) {
		if _, ok := tab[s]; ok {
			return
		}
		f, err := strconv.ParseFloat(s, 64)
		if err != nil {
			tab[s] = nil
		} else {
			tab[s] = &f
		}
		order = append(order, s)
	}
	for _, t := range argv {
		if len(t) <= 64 {
			for i := 0; i <= len(t); i++ {
				add(t[i:])
			}
			continue
		}
		// long tokens: the token and what follows its first '=' signs and first bytes
		add(t)
		n := 0
		for i := 0; i < len(t) && n < 8; i++ {
			if t[i] == '=' || i < 6 {
				add(t[i:])
				add(t[i+1:])
				n++
			}
		}
	}
	return tab, order
}

// runParse builds the program, runs Parse on argv and renders the Coq case.
// parseDeadline - how long one Parse call may take before it counts as a hang (C19).
var parseDeadline = 3 * time.Second

// memoryWatchdog ends the process when the library allocates without bound (a runaway loop in a
// goroutine that cannot be stopped would otherwise exhaust the machine).
func memoryWatchdog() {
	go func() {
		var m runtime.MemStats
		for {
			time.Sleep(200 * time.Millisecond)
			runtime.ReadMemStats(&m)
			if m.Sys > 8<<30 {
				fmt.Printf("IMPL-FAILURE argv=? panic=\"\" hang=true memory=%d (the process grew beyond 8 GiB: unbounded allocation)\n", m.Sys)
				os.Exit(5)
			}
		}
	}()
}

// repeatRuns - C20: how often every case is executed again (fresh definition each time; Go
// randomises map iteration order per range statement) to compare all observables
var repeatRuns = 0

func (obs *ParseObs) repeat(p *ProgDef, argv []string, n int) {
	first := fmt.Sprintf("%q|%v|%q|%q|%q|%q", obs.Remaining, obs.HasErr, obs.Err, obs.Writer, obs.Values, obs.HelpText)
	for i := 1; i < n; i++ {
		b, err := Build(p)
		if err != nil {
			obs.Oracle["C20"] = append(obs.Oracle["C20"], OracleHit{Key: "definition-flaky", What: "the definition panics in one run and not in another"})
			return
		}
		buf := new(bytes.Buffer)
		getoptions.Writer = buf
		rem, perr := b.Opt.Parse(append([]string{}, argv...))
		d := b.Opt.VerifDumpTree()
		vals := []string{}
		for _, o := range d.Options {
			vals = append(vals, fmt.Sprintf("%s(%s)=%s called=%v as=%q", o.Name, kindNames[o.Kind], tValue(o).SexpString(), o.Called, o.UsedAlias))
		}
		es := ""
		if perr != nil {
			es = perr.Error()
		}
		again := fmt.Sprintf("%q|%v|%q|%q|%q|%q", rem, perr != nil, es, buf.String(), vals, b.Opt.Help())
		if again != first {
			obs.Oracle["C20"] = append(obs.Oracle["C20"], OracleHit{Key: "nondeterministic", What: fmt.Sprintf("run %d differs: first=%s again=%s", i, first, again)})
			return
		}
	}
}

func runParse(idx int, seed int64, p *ProgDef, argv []string) *ParseObs {
	return runParseWith(seed, p, argv, nil)
}

// runParseWith - hook receives the built program (for Dispatch afterwards).
func runParseWith(seed int64, p *ProgDef, argv []string, hook func(*Built)) *ParseObs {
	obs := &ParseObs{Seed: seed, Prog: p, Argv: argv, ArgvQ: quoteAll(argv)}
	obs.Key = fmt.Sprintf("%x", sha1.Sum([]byte(fmt.Sprintf("%#v|%q", jsonOf(p), argv))))
	b, err := Build(p)
	if err != nil {
		obs.BuildErr = err.Error()
		return obs
	}
	if hook != nil {
		hook(b)
	}
	pre := b.Opt.VerifDumpTree()
	meta := metaOf(p)
	modeSetterOracle := pre.Root.Mode != p.Mode
	meta.fnID = b.FnIDs
	buf := new(bytes.Buffer)
	getoptions.Writer = buf
	type res struct {
		rem []string
		err error
		pan interface{}
	}
	ch := make(chan res, 1)
	go func() {
		var r res
		defer func() {
			if x := recover(); x != nil {
				r.pan = x
			}
			ch <- r
		}()
		r.rem, r.err = b.Opt.Parse(append([]string{}, argv...))
	}()
	var r res
	select {
	case r = <-ch:
	case <-time.After(parseDeadline):
		obs.Hang = true
		obs.features()
		return obs
	}
	if r.pan != nil {
		obs.Panic = fmt.Sprint(r.pan)
		obs.features()
		return obs
	}
	obs.Writer = buf.String()
	obs.Remaining = r.rem
	obs.RemNil = r.rem == nil
	if r.err != nil {
		obs.HasErr = true
		obs.Err = r.err.Error()
		obs.IsParsing = errors.Is(r.err, getoptions.ErrorParsing)
		obs.ErrKind, obs.ErrArgs = classifyErr(obs.Err, obs.IsParsing)
	}
	post := b.Opt.VerifDumpTree()
	for i, o := range pre.Options {
		if o.Called {
			obs.CalledBeforeCount++
		}
		if post.Options[i].Called {
			obs.CalledAfterCount++
		}
		obs.Values = append(obs.Values, fmt.Sprintf("%s(%s)=%s called=%v as=%q", o.Name, kindNames[o.Kind], tValue(post.Options[i]).SexpString(), post.Options[i].Called, post.Options[i].UsedAlias))
	}
	obs.features()
	for i, o := range pre.Options {
		// C06, also when Parse fails: an option this command line named (CalledAs was empty before and
		// names a spelling now) was given on the command line, so Called says so
		if o.UsedAlias == "" && post.Options[i].UsedAlias != "" && !post.Options[i].Called {
			obs.Oracle["C06"] = append(obs.Oracle["C06"], OracleHit{Key: "calledas-without-called",
				What: fmt.Sprintf("after Parse(%q) (error: %q) CalledAs(%q) is %q but Called(%q) is false", argv, obs.Err, o.Name, post.Options[i].UsedAlias, o.Name)})
			break
		}
	}
	obs.accessPaths(b, p, post)
	obs.HelpText = b.Opt.Help()
	if repeatRuns > 1 {
		obs.repeat(p, argv, repeatRuns)
	}
	obs.Sample = map[string]interface{}{"mode": modeNames[p.Mode], "argv": obs.ArgvQ, "remaining": quoteAll(obs.Remaining), "err": obs.Err, "options": len(pre.Options), "commands": len(pre.Root.CommandKeys)}

	specs := []*T{}
	st0 := []*T{}
	st1 := []*T{}
	for i, o := range pre.Options {
		specs = append(specs, tSpec(o, meta.optSfn[o.Name]))
		st0 = append(st0, tState(o))
		st1 = append(st1, tState(post.Options[i]))
	}
	tab, order := floatTable(pre, argv)
	errT := Ctor("None")
	if obs.HasErr {
		errT = Ctor("Some", Ctor("E", Str(obs.Err), Bool(obs.IsParsing), Ctor(obs.ErrKind), Strs(obs.ErrArgs)))
	}
	obs.term = Ctor("mkCase",
		Ctor(modeNames[pre.Root.Mode]), Bool(pre.Root.MapKeysToLower),
		List(specs...), tNode(pre.Root, "", meta), List(st0...), Strs(argv), tFloatTable(tab, order),
		errT, Strs(obs.Remaining), List(st1...), Str(obs.Writer))
	if modeSetterOracle {
		obs.Oracle["C07"] = append(obs.Oracle["C07"], OracleHit{Key: "mode-setter",
			What: fmt.Sprintf("the last SetMode call of the definition was SetMode(%s) (after SetMode(%d)); the program is in mode %s", modeNames[p.Mode], p.ModeFirst-1, modeNames[pre.Root.Mode])})
	}
	if hook == nil && obs.HasErr && obs.ErrKind == "EUnknown" && len(obs.Key) > 0 && obs.Key[0]%2 == 0 {
		// C08: the unknown-option policy belongs to Parse, not to the first call of Parse on an
		// object: the same command line given again must be rejected again, for the same option
		func() {
			old := getoptions.Writer
			getoptions.Writer = new(bytes.Buffer)
			defer func() { getoptions.Writer = old }()
			defer func() { _ = recover() }()
			_, err2 := b.Opt.Parse(argv)
			if err2 == nil || err2.Error() != obs.Err {
				obs.Oracle["C08"] = append(obs.Oracle["C08"], OracleHit{Key: "second-parse-unknown",
					What: fmt.Sprintf("Parse(%q) failed with %q; the same call again on the same object returned error %v", argv, obs.Err, err2)})
			}
		}()
	}
	if hook == nil && !obs.HasErr {
		obs.secondParseOracle(b, argv, pre, post)
		obs.subParseOracle(p, argv, pre)
		obs.setValueOracle(b, pre)
	}
	return obs
}

// subParseOracle - C03 for Parse called on the GetOpt of a command (NewCommand returns one and its
// Parse method is public): when the command line starts with the name of a first-level command,
// parsing the rest with that command's own Parse must return the remaining list the program's Parse
// returns for the whole line (nothing is given at the program's level, so its remaining list is the
// command's).  Fresh definition; only when the command inherited the program's mode.
func (obs *ParseObs) subParseOracle(p *ProgDef, argv []string, pre *getoptions.VerifDump) {
	if len(argv) == 0 {
		return
	}
	h := 0
	for _, c := range obs.Key {
		h = (h*37 + int(c)) % 1000003
	}
	if h%2 != 1 {
		return
	}
	var node *getoptions.VerifNode
	for i, k := range pre.Root.CommandKeys {
		if k == argv[0] && k != p.HelpName {
			node = pre.Root.Commands[i]
		}
	}
	if node == nil || node.Mode != pre.Root.Mode {
		return
	}
	b2, err := Build(p)
	if err != nil {
		return
	}
	sub := b2.Handles["/"+argv[0]]
	if sub == nil {
		return
	}
	for k, v := range p.Env {
		os.Setenv(k, v)
	}
	defer func() {
		for k := range p.Env {
			os.Unsetenv(k)
		}
	}()
	old := getoptions.Writer
	getoptions.Writer = new(bytes.Buffer)
	defer func() { getoptions.Writer = old }()
	defer func() {
		if x := recover(); x != nil {
			obs.Oracle["C19"] = append(obs.Oracle["C19"], OracleHit{Key: "panic", What: fmt.Sprintf("Parse on the GetOpt of command %q panicked: %v", argv[0], x)})
		}
	}()
	rem, perr := sub.Parse(argv[1:])
	if perr != nil {
		return
	}
	if fmt.Sprintf("%q", rem) != fmt.Sprintf("%q", obs.Remaining) && !(len(rem) == 0 && len(obs.Remaining) == 0) {
		obs.Oracle["C03"] = append(obs.Oracle["C03"], OracleHit{Key: "sub-parse-remaining",
			What: fmt.Sprintf("Parse(%q) on the program returned remaining %q; Parse(%q) on the GetOpt of command %q returned %q", argv, obs.Remaining, argv[1:], argv[0], rem)})
	}
}

// setValueOracle - C06: Called(x) says whether x was given on the command line (or through its
// environment variable or SetCalled) and CalledAs(x) which spelling was used last there.  Storing a
// value through the API (SetValue) is none of these: it must leave both as Parse left them, for
// every key of the option.  Runs after all observations of the case have been taken.
func (obs *ParseObs) setValueOracle(b *Built, pre *getoptions.VerifDump) {
	n := pre.Root
	if len(n.OptionKeys) == 0 {
		return
	}
	h := 0
	for _, c := range obs.Key {
		h = (h*31 + int(c)) % 1000003
	}
	if h%3 != 0 {
		return
	}
	i := (h / 3) % len(n.OptionKeys)
	key, id := n.OptionKeys[i], n.OptionIDs[i]
	if id < 0 || id >= len(pre.Options) {
		return
	}
	var vals []string
	switch pre.Options[id].Kind {
	case KBool, KIncr:
	case KInt, KIntOpt, KIntRep:
		vals = []string{"1"}
	case KFloat, KFloatOpt, KFloatRep:
		vals = []string{"1.5"}
	case KMap:
		vals = []string{"k=v"}
	default:
		vals = []string{"sv"}
	}
	type ca struct {
		called bool
		as     string
	}
	snap := func() map[string]ca {
		m := map[string]ca{}
		for j, k := range n.OptionKeys {
			if n.OptionIDs[j] == id {
				m[k] = ca{b.Opt.Called(k), b.Opt.CalledAs(k)}
			}
		}
		return m
	}
	defer func() {
		if x := recover(); x != nil {
			obs.Oracle["C19"] = append(obs.Oracle["C19"], OracleHit{Key: "panic", What: fmt.Sprintf("SetValue(%q, %q) panicked: %v", key, vals, x)})
		}
	}()
	before := snap()
	_ = b.Opt.SetValue(key, vals...)
	after := snap()
	for k, v := range before {
		if after[k] != v {
			obs.Oracle["C06"] = append(obs.Oracle["C06"], OracleHit{Key: "setvalue-called",
				What: fmt.Sprintf("after Parse, Called(%q)/CalledAs(%q) were %v/%q; SetValue(%q, %q) changed them to %v/%q", k, k, v.called, v.as, key, vals, after[k].called, after[k].as)})
			return
		}
	}
}

func writeCoqCases(path string, terms []*T, mask string) error {
	f, err := os.Create(path)
	if err != nil {
		return err
	}
	defer f.Close()
	w := bufio.NewWriter(f)
	fmt.Fprintln(w, "From GO Require Import Base.Str Model.Tokenizer Model.Option Model.Tree Run.Check.")
	fmt.Fprintln(w, "Open Scope N_scope.")
	names := []string{}
	for i, d := range terms {
		_ = d
		txt := sampleText(terms, i)
		fmt.Fprintf(w, "Definition c_%d : pcase :=\n %s.\n", i, txt)
		names = append(names, fmt.Sprintf("c_%d", i))
	}
	fmt.Fprintf(w, "Definition cases : list pcase := [%s].\n", strings.Join(names, ";"))
	fmt.Fprintf(w, "Definition M := Eval vm_compute in mismatches %s cases.\nPrint M.\n", mask)
	return w.Flush()
}

func writeSexpCases(path string, terms []*T) error {
	f, err := os.Create(path)
	if err != nil {
		return err
	}
	defer f.Close()
	w := bufio.NewWriter(f)
	for _, d := range terms {
		fmt.Fprintln(w, d.SexpString())
	}
	return w.Flush()
}

func cmdParse(args []string) {
	fs := flag.NewFlagSet("parse", flag.ExitOnError)
	seed := fs.Int64("seed", 1, "seed")
	n := fs.Int("n", 100, "number of cases")
	profile := fs.String("profile", "general", "generator profile")
	out := fs.String("out", "cases.txt", "case output for the extracted driver")
	coqOut := fs.String("coq", "", "Coq output (vm_compute route) for the first -coqn cases")
	coqN := fs.Int("coqn", 40, "number of cases in the Coq output")
	obsOut := fs.String("obs", "obs.jsonl", "observation output")
	mask := fs.String("mask", "mask_all", "comparison mask (Coq term)")
	fs.IntVar(&repeatRuns, "repeat", 0, "C20: run every case this many times and compare all observables")
	fs.Parse(args)

	g := NewGen(*seed)
	applyProfile(g, *profile)
	defs := []*T{}
	of, err := os.Create(*obsOut)
	if err != nil {
		panic(err)
	}
	defer of.Close()
	ow := bufio.NewWriter(of)
	defer ow.Flush()
	enc := json.NewEncoder(ow)
	skipped := 0
	var prog *ProgDef
	for i := 0; len(defs) < *n && i < *n*4; i++ {
		if prog == nil || i%4 == 0 {
			prog = genProgFor(g, *profile)
		}
		argv := genArgvFor(g, *profile, prog)
		obs := runParse(len(defs), *seed, prog, argv)
		if obs.BuildErr != "" {
			skipped++
			prog = nil
			continue
		}
		if obs.Panic != "" || obs.Hang {
			enc.Encode(obs)
			fmt.Printf("IMPL-FAILURE argv=%q panic=%q hang=%v\n", obs.Argv, obs.Panic, obs.Hang)
			if obs.Hang {
				// the goroutine that did not return cannot be stopped and may allocate without bound:
				// what was observed so far is written out and the process ends here
				ow.Flush()
				of.Sync()
				writeSexpCases(*out, defs)
				fmt.Printf("ABORTED-AFTER-HANG cases=%d\n", len(defs))
				os.Exit(4)
			}
			continue
		}
		ci := len(defs)
		obs.Case = &ci
		enc.Encode(obs)
		defs = append(defs, obs.term)
	}
	if err := writeSexpCases(*out, defs); err != nil {
		panic(err)
	}
	if *coqOut != "" {
		k := *coqN
		if k > len(defs) {
			k = len(defs)
		}
		if err := writeCoqCases(*coqOut, defs[:k], *mask); err != nil {
			panic(err)
		}
	}
	fmt.Printf("cases=%d skipped_definitions=%d\n", len(defs), skipped)
}

func main() {
	memoryWatchdog()
	if len(os.Args) < 2 {
		fmt.Fprintln(os.Stderr, "usage: hx <parse|...> [flags]")
		os.Exit(2)
	}
	switch os.Args[1] {
	case "dagpanic":
		cmdDagPanic()
	case "parse":
		cmdParse(os.Args[2:])
	case "tok":
		cmdTok(os.Args[2:])
	case "dispatch":
		cmdDispatch(os.Args[2:])
	case "build":
		cmdBuild(os.Args[2:])
	case "complete":
		cmdComplete(os.Args[2:])
	case "dag":
		cmdDag(os.Args[2:])
	case "dagrace":
		cmdDagRace(os.Args[2:])
	default:
		fmt.Fprintln(os.Stderr, "unknown subcommand", os.Args[1])
		os.Exit(2)
	}
}

// secondParseOracle - C06 / C12: an option that the command line does not mention keeps what the
// definition left in it (default or environment value, Called, CalledAs).  The options the first
// Parse left untouched are not mentioned by this command line; parsing the same command line again
// on the same object must leave them untouched as well (whatever a second Parse does with the
// options that are mentioned, which is not specified).
func (obs *ParseObs) secondParseOracle(b *Built, argv []string, pre, post *getoptions.VerifDump) {
	h := 0
	for _, c := range obs.Key {
		h = (h*41 + int(c)) % 1000003
	}
	if h%3 != 2 {
		return
	}
	state := func(o *getoptions.VerifOption) string {
		return fmt.Sprintf("%s called=%v as=%q", tValue(o).SexpString(), o.Called, o.UsedAlias)
	}
	untouched := []int{}
	for i, o := range pre.Options {
		if i < len(post.Options) && state(o) == state(post.Options[i]) {
			untouched = append(untouched, i)
		}
	}
	if len(untouched) == 0 {
		return
	}
	old := getoptions.Writer
	getoptions.Writer = new(bytes.Buffer)
	defer func() { getoptions.Writer = old }()
	defer func() {
		if x := recover(); x != nil {
			obs.Oracle["C19"] = append(obs.Oracle["C19"], OracleHit{Key: "panic", What: fmt.Sprintf("second Parse(%q) on the same object panicked: %v", argv, x)})
		}
	}()
	_, _ = b.Opt.Parse(argv)
	post2 := b.Opt.VerifDumpTree()
	for _, i := range untouched {
		if i >= len(post2.Options) {
			continue
		}
		if a, c := state(post.Options[i]), state(post2.Options[i]); a != c {
			hit := OracleHit{Key: "second-parse-frame",
				What: fmt.Sprintf("option %q is not mentioned by %q (the first Parse left it as the definition did: %s); a second Parse of the same command line on the same object changed it to %s", post.Options[i].Name, argv, a, c)}
			obs.Oracle["C06"] = append(obs.Oracle["C06"], hit)
			obs.Oracle["C12"] = append(obs.Oracle["C12"], hit)
			return
		}
	}
}
