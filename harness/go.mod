module verifharness

go 1.16

require github.com/DavidGamba/go-getoptions v0.0.0

replace github.com/DavidGamba/go-getoptions => /repo
