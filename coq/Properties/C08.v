(* C08 — Unknown options are never silently ignored: Fail errors, Warn warns, Pass passes. *)
From GO Require Import Base.Str Model.Tokenizer Model.Option Model.Tree Model.Parse.
From GO Require Import Proofs.ParseLemmas Proofs.Labels Proofs.Unknown.

(* Fail: a token with an unknown option that reaches the head of the loop at a level in Fail mode
   without require-order (label LDropped) — before or after a command token, in a wrapper command,
   bundled or with attached value — makes Parse fail. *)
Theorem C08_fail :
  forall pf md lower ro specs root st0 args,
    In LDropped (labels pf md lower ro specs (init root st0) args) ->
    exists w e, parse pf md lower ro specs root st0 args = mkRes w (Err e).
Proof. exact unknown_in_fail_mode_fails. Qed.
Print Assumptions C08_fail.

(* the error names the first unknown option of the first level (root first = command-line order)
   in Fail mode that recorded one *)
Theorem C08_fail_names_first :
  forall ls1 l ls2 n ns,
    Forall (fun l => ~ failing l) ls1 -> lv_mode l = Fail -> lv_unk l = n :: ns ->
    exists r, policy_levels (ls1 ++ l :: ls2) = (flat_map warnings_of ls1, Some (e_unknown n), r).
Proof. exact policy_levels_fail. Qed.
Print Assumptions C08_fail_names_first.

(* the names are recorded at the level the token is given at, in order *)
Theorem C08_recorded :
  forall pf md lower ro specs st t st',
    head pf md lower ro specs st t = Ok st' -> t <> DD -> looks_like_option md t = true ->
    (ro && ni_reqorder (n_info (cur st)))%bool = false ->
    unk st' = unk st ++ List.map p_name (List.filter (is_unknown (n_opts (cur st))) (fst (is_option md t))).
Proof. exact unknown_recorded. Qed.
Print Assumptions C08_recorded.

(* Warn / Pass: a successful Parse wrote exactly one warning per unknown option of the Warn-mode
   levels, in command-line order, and none for Pass; no Fail-mode level saw an unknown option *)
Theorem C08_warnings :
  forall pf md lower ro specs root st0 args w st rem,
    parse pf md lower ro specs root st0 args = mkRes w (Ok (st, rem)) ->
    w = flat_map warnings_of (levels_of st) /\ Forall (fun l => ~ failing l) (levels_of st).
Proof. exact warnings_of_success. Qed.
Print Assumptions C08_warnings.

(* ... and the token itself stays in remaining (this is C03_unknown_tokens_stay) *)
Theorem C08_token_stays :
  forall md ro sh t,
    t <> DD -> looks_like_option md t = true ->
    List.filter (is_unknown (n_opts (cur sh))) (fst (is_option md t)) <> [] ->
    ni_umode (n_info (cur sh)) <> Fail ->
    keep (head_label md ro sh t) = true.
Proof. exact unknown_token_kept. Qed.
Print Assumptions C08_token_stays.
