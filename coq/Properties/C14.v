(* C14 — DAG: failures, skips and cancellation stop dependents and are fully reported. *)
From GO Require Import Base.Str Model.Tree Model.Dag Proofs.DagHold Proofs.DagInv.

(* once an error entry is recorded -- a task's final attempt failed, or the cancellation was
   noticed -- no further task thread is created: nothing is started, dependents included *)
Theorem C14_no_launch_after_error :
  forall g cf st v st',
    dstep g cf st (LPick v) = Some st' -> d_errs (ctx_check st) <> [] -> d_thread st' = d_thread st.
Proof. exact no_launch_after_error. Qed.
Print Assumptions C14_no_launch_after_error.

Theorem C14_cancel_noticed :
  forall st, d_cancelled st = true -> d_handled st = false -> d_errs (ctx_check st) <> [].
Proof. exact cancel_noticed. Qed.
Print Assumptions C14_cancel_noticed.

(* ErrorSkipParents: every (transitive) dependent is marked, has no thread, and (being marked, its
   status is never Pending again) never gets one; this does not record an error *)
Theorem C14_skip_parents_blocks :
  forall g cf, (forall p c, In c (children g p) <-> In p (parents g c)) ->
  forall st u p, Inv g cf st -> In u (d_sp st) -> depends_on g p u ->
    In p (d_marked st) /\ d_thread st p = NotSpawned.
Proof. exact skip_parents_blocks. Qed.
Print Assumptions C14_skip_parents_blocks.

Theorem C14_marked_never_launched :
  forall g cf st, Inv g cf st -> forall v, d_thread st v <> NotSpawned -> ~ In v (d_marked st).
Proof. intros g cf st I. exact (t_unmarked g cf st I). Qed.
Print Assumptions C14_marked_never_launched.

(* in-flight tasks are allowed to finish: an executing thread keeps its vertex in progress whatever
   else happens (cancellation, failures elsewhere, skips) *)
Theorem C14_in_flight_continue :
  forall g cf st, Inv g cf st -> forall v, alive (d_thread st v) = true -> d_status st v = InProgress.
Proof. intros g cf st I. exact (t_alive g cf st I). Qed.
Print Assumptions C14_in_flight_continue.

(* the value Run returns is its error list at the moment it returns; it is nil iff that list is
   empty; every finished vertex is accounted for: ran to nil, or an error is recorded, or it was
   skipped through ErrorSkipParents *)
Theorem C14_result :
  forall g cf st st', dstep g cf st LReturn = Some st' -> d_errs st' = d_errs st /\ d_returned st' = true.
Proof. exact return_keeps_errors. Qed.
Print Assumptions C14_result.

Theorem C14_done_accounted :
  forall g cf st, Inv g cf st -> forall c, d_status st c = Done ->
    In c (d_okdone st) \/ d_errs st <> [] \/ In c (d_marked st) \/ In c (d_sp st).
Proof. intros g cf st I. exact (m_done g cf st I). Qed.
Print Assumptions C14_done_accounted.
