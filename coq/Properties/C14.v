(* C14 — DAG: failures, skips and cancellation stop dependents and are fully reported. *)
From GO Require Import Base.Str Model.Tree Model.Dag Proofs.DagHold Proofs.DagInv Proofs.DagBuild Proofs.DagReport.

(* once an error entry is recorded -- a task's final attempt failed, or the cancellation was
   noticed -- no further task thread is created: nothing is started, dependents included *)
Theorem C14_no_launch_after_error :
  forall g cf st v st',
    dstep g cf st (LPick v) = Some st' -> d_errs (ctx_check st) <> [] -> d_thread st' = d_thread st.
Proof. exact no_launch_after_error. Qed.
Print Assumptions C14_no_launch_after_error.

Theorem C14_cancel_noticed :
  forall st, d_cancelled st = true -> d_handled st = false -> d_errs (ctx_check st) <> [].
Proof. exact cancel_noticed. Qed.
Print Assumptions C14_cancel_noticed.

(* ErrorSkipParents: every (transitive) dependent is marked, has no thread, and (being marked, its
   status is never Pending again) never gets one; this does not record an error *)
Theorem C14_skip_parents_blocks :
  forall g cf, (forall p c, In c (children g p) <-> In p (parents g c)) ->
  forall st u p, Inv g cf st -> In u (d_sp st) -> depends_on g p u ->
    In p (d_marked st) /\ d_thread st p = NotSpawned.
Proof. exact skip_parents_blocks. Qed.
Print Assumptions C14_skip_parents_blocks.

Theorem C14_marked_never_launched :
  forall g cf st, Inv g cf st -> forall v, d_thread st v <> NotSpawned -> ~ In v (d_marked st).
Proof. intros g cf st I. exact (t_unmarked g cf st I). Qed.
Print Assumptions C14_marked_never_launched.

(* in-flight tasks are allowed to finish: an executing thread keeps its vertex in progress whatever
   else happens (cancellation, failures elsewhere, skips) *)
Theorem C14_in_flight_continue :
  forall g cf st, Inv g cf st -> forall v, alive (d_thread st v) = true -> d_status st v = InProgress.
Proof. intros g cf st I. exact (t_alive g cf st I). Qed.
Print Assumptions C14_in_flight_continue.

(* the value Run returns is its error list at the moment it returns; it is nil iff that list is
   empty; every finished vertex is accounted for: ran to nil, or an error is recorded, or it was
   skipped through ErrorSkipParents *)
Theorem C14_result :
  forall g cf st st', dstep g cf st LReturn = Some st' -> d_errs st' = d_errs st /\ d_returned st' = true.
Proof. exact return_keeps_errors. Qed.
Print Assumptions C14_result.

Theorem C14_done_accounted :
  forall g cf st, Inv g cf st -> forall c, d_status st c = Done ->
    In c (d_okdone st) \/ d_errs st <> [] \/ In c (d_marked st) \/ In c (d_sp st).
Proof. intros g cf st I. exact (m_done g cf st I). Qed.
Print Assumptions C14_done_accounted.

(* ---- the report: for every graph the construction API can build, every schedule, every state ---- *)

(* when everything is done (the state in which Run returns) every vertex is accounted for: its
   thread ran to the end (it returned nil, or ErrorSkipParents, or its error is in the list) and it is
   not reported as skipped; or it never got a thread, its error is not in the list, and either it
   was skipped through ErrorSkipParents and is NOT reported, or it is reported as skipped *)
Theorem C14_fully_reported :
  forall ops cf ls st,
    let g := build_graph ops in
    dsteps g cf (init_state []) ls = Some st -> all_done g st = true -> forall v, In v (vids g) ->
    (d_thread st v = Gone /\ (In v (d_okdone st) \/ In v (d_sp st) \/ In (XTask v) (d_errs st)) /\ ~ In (XSkipped v) (d_errs st)) \/
    (d_thread st v = NotSpawned /\ ~ In (XTask v) (d_errs st) /\
     ((In v (d_marked st) /\ ~ In (XSkipped v) (d_errs st)) \/ (~ In v (d_marked st) /\ In (XSkipped v) (d_errs st)))).
Proof. exact built_fully_reported. Qed.
Print Assumptions C14_fully_reported.

(* every entry of the list has a cause, and there is one entry per cause: the cancellation once it
   was noticed; a task whose completion was received and that returned neither nil nor
   ErrorSkipParents; a vertex that never got a thread and was not marked by ErrorSkipParents *)
Theorem C14_entries_justified :
  forall ops cf ls st,
    let g := build_graph ops in
    dsteps g cf (init_state []) ls = Some st ->
    NoDup (d_errs st) /\ forall e, In e (d_errs st) ->
      (e = XCancel /\ d_handled st = true) \/
      (exists v, e = XTask v /\ d_thread st v = Gone /\ ~ In v (d_okdone st) /\ ~ In v (d_sp st)) \/
      (exists v, e = XSkipped v /\ d_thread st v = NotSpawned /\ ~ In v (d_marked st) /\ In v (vids g)).
Proof. exact built_entries_justified. Qed.
Print Assumptions C14_entries_justified.

(* Run returns nil exactly when the cancellation was never noticed and every task ran to nil,
   returned ErrorSkipParents, or was skipped through ErrorSkipParents *)
Theorem C14_nil_iff :
  forall ops cf ls st,
    let g := build_graph ops in
    dsteps g cf (init_state []) ls = Some st -> all_done g st = true ->
    (d_errs st = [] <-> d_handled st = false /\ forall v, In v (vids g) -> In v (d_okdone st) \/ In v (d_sp st) \/ In v (d_marked st)).
Proof. exact built_nil_iff. Qed.
Print Assumptions C14_nil_iff.

(* no task that (transitively) depends on a failed task is ever started: in every state in which the
   failure is in the list (it stays there: C14_errors_only_grow) the dependent has no thread *)
Theorem C14_failed_blocks_dependents :
  forall ops cf ls st v p,
    let g := build_graph ops in
    dsteps g cf (init_state []) ls = Some st -> In (XTask v) (d_errs st) -> depends_on g p v -> d_thread st p = NotSpawned.
Proof. exact built_failed_blocks_dependents. Qed.
Print Assumptions C14_failed_blocks_dependents.

Theorem C14_errors_only_grow :
  forall g cf st l st', dstep g cf st l = Some st' -> exists suf, d_errs st' = d_errs st ++ suf.
Proof. exact errs_grow. Qed.
Print Assumptions C14_errors_only_grow.

(* a failed last attempt is recorded when its completion is received; ErrorSkipParents is not *)
Theorem C14_failure_recorded :
  forall g cf st v st',
    dstep g cf st (LRecvReal v) = Some st' -> d_thread st v = Finished OErr -> In (XTask v) (d_errs st').
Proof. exact failure_recorded. Qed.
Print Assumptions C14_failure_recorded.

Theorem C14_skip_parents_is_no_failure :
  forall g cf st v st',
    dstep g cf st (LRecvReal v) = Some st' -> d_thread st v = Finished OSkipParents -> d_errs st' = d_errs st.
Proof. exact skip_parents_is_no_failure. Qed.
Print Assumptions C14_skip_parents_is_no_failure.
