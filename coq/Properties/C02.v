(* C02 — Multi-value options consume the right tokens and keep every value in order. *)
From GO Require Import Base.Str Base.Utf8 Model.Tokenizer Model.Option Model.Tree Model.Parse.
From GO Require Import Proofs.TokLemmas Proofs.ParseLemmas Proofs.Match Proofs.Scalar Proofs.Multi.

(* The option token: the attached value (if any) is saved, the option then has
   i = |attached| values and goes on taking tokens while i < min or i < max. *)
Theorem C02_option_token :
  forall pf md lower ro specs st key e k oid sp os,
    key <> [] -> contains_byte EQ key = false -> starts_with_eq_or_empty e ->
    matches (n_opts (cur st)) key = [(k, oid)] ->
    nth_error specs oid = Some sp -> nth_error (store st) oid = Some os ->
    head pf md lower ro specs st (DASH :: DASH :: key ++ e) =
      bind (save pf lower sp (mkState (o_val os) true k) (attached e)) (fun os2 =>
        Ok (set_ph (with_opt st oid os2) (next_phase oid k (length (attached e)) (os_min sp) (os_max sp)))).
Proof. exact option_token. Qed.
Print Assumptions C02_option_token.

(* below min: the next token is required; option-looking => Parse fails; `--` is accepted here *)
Theorem C02_intake_mandatory :
  forall pf md lower ro specs st oid k i tok sp t,
    ph st = PPend oid k i [] tok -> nth_error specs oid = Some sp -> (i < os_min sp)%nat ->
    step pf md lower ro specs st t =
      if looks_like_option md t then Err (e_arg_with_dash k)
      else bind (save_to pf lower specs st oid [t]) (fun st' =>
             Ok (set_ph st' (next_phase oid k (S i) (os_min sp) (os_max sp)))).
Proof. exact intake_mandatory. Qed.
Print Assumptions C02_intake_mandatory.

(* from min up to max: taken iff not option-looking, not `--`, well-formed for the element type;
   a token that is not taken is interpreted normally (head of the loop) *)
Theorem C02_intake_greedy :
  forall pf md lower ro specs st oid k i tok sp t,
    ph st = PPend oid k i [] tok -> nth_error specs oid = Some sp ->
    (os_min sp <= i)%nat -> (i < os_max sp)%nat ->
    step pf md lower ro specs st t =
      if stops pf md specs oid t then head pf md lower ro specs (set_ph st PHead) t
      else bind (save_to pf lower specs st oid [t]) (fun st' =>
             Ok (set_ph st' (next_phase oid k (S i) (os_min sp) (os_max sp)))).
Proof. exact intake_greedy. Qed.
Print Assumptions C02_intake_greedy.

Theorem C02_stop_rule :
  forall pf md specs oid t sp,
    nth_error specs oid = Some sp ->
    stops pf md specs oid t =
      (looks_like_option md t || str_eqb t DD || negb (wellformed pf (os_kind sp) t))%bool.
Proof. exact stops_spec. Qed.
Print Assumptions C02_stop_rule.

Theorem C02_wellformed :
  forall pf k t,
    wellformed pf k t =
      match k with
      | KIntRep => match atoi t with Some _ => true | None => false end
      | KFloatRep => match pf t with Some _ => true | None => false end
      | KMap => contains_byte 61 t
      | _ => true
      end.
Proof. exact wellformed_spec. Qed.
Print Assumptions C02_wellformed.

(* at most max in total: with max values the parser is back at the head of the loop *)
Theorem C02_full : forall oid k i mn mx, (mn <= i)%nat -> (mx <= i)%nat -> next_phase oid k i mn mx = PHead.
Proof. exact next_phase_full. Qed.
Print Assumptions C02_full.

Theorem C02_more : forall oid k i mn mx, (i < mn \/ i < mx)%nat -> next_phase oid k i mn mx = PPend oid k i [] [].
Proof. exact next_phase_more. Qed.
Print Assumptions C02_more.

(* at least min: end of input below min fails *)
Theorem C02_eof :
  forall pf lower specs st oid k i tok sp,
    ph st = PPend oid k i [] tok -> nth_error specs oid = Some sp ->
    finish pf lower specs st =
      if Nat.ltb i (os_min sp) then Err (e_missing_arg k) else Ok (set_ph st PHead).
Proof. exact intake_eof. Qed.
Print Assumptions C02_eof.

(* stored in command-line order: every save appends *)
Theorem C02_strings_appended :
  forall pf lower sp l c u a,
    os_kind sp = KStrRep -> a <> [] -> valid_ok sp a = true ->
    save pf lower sp (mkState (VStrs l) c u) a = Ok (mkState (VStrs (l ++ a)) c u).
Proof. exact save_strs. Qed.
Print Assumptions C02_strings_appended.

Theorem C02_ints_appended :
  forall pf lower sp l c u a,
    os_kind sp = KIntRep -> a <> [] -> valid_ok sp a = true ->
    save pf lower sp (mkState (VInts l) c u) a =
      bind (conv_ints u a) (fun ii => Ok (mkState (VInts (l ++ ii)) c u)).
Proof. exact save_ints. Qed.
Print Assumptions C02_ints_appended.

Theorem C02_floats_appended :
  forall pf lower sp l c u a,
    os_kind sp = KFloatRep -> a <> [] -> valid_ok sp a = true ->
    save pf lower sp (mkState (VFloats l) c u) a =
      bind (conv_floats pf u a) (fun ff => Ok (mkState (VFloats (l ++ ff)) c u)).
Proof. exact save_floats. Qed.
Print Assumptions C02_floats_appended.

(* an int element is a decimal integer or a range a..b with a < b, expanded inclusively *)
Theorem C02_int_element :
  forall u e,
    conv_ints u [e] =
      match split_dotdot e with
      | Some (n1, n2) =>
          match atoi n1, atoi n2 with
          | Some i1, Some i2 => if Z.ltb i1 i2 then Ok (seqZ i1 i2) else Err (e_conv_int u e)
          | _, _ => Err (e_conv_int u e)
          end
      | None => match atoi e with Some i => Ok [i] | None => Err (e_conv_int u e) end
      end.
Proof. exact conv_ints_one. Qed.
Print Assumptions C02_int_element.

Theorem C02_range_members : forall a b x, (a < b)%Z -> In x (seqZ a b) <-> (a <= x <= b)%Z.
Proof. exact seqZ_In. Qed.
Print Assumptions C02_range_members.

Theorem C02_range_in_order :
  forall a b i, (a < b)%Z -> (Z.of_nat i <= b - a)%Z -> nth_error (seqZ a b) i = Some (a + Z.of_nat i)%Z.
Proof. exact seqZ_nth. Qed.
Print Assumptions C02_range_in_order.

Theorem C02_range_length : forall a b, (a < b)%Z -> Z.of_nat (length (seqZ a b)) = (b - a + 1)%Z.
Proof. exact seqZ_length. Qed.
Print Assumptions C02_range_length.

(* maps: key = text before the first '=', value = everything after it; a repeated key keeps the
   last value, other keys are untouched *)
Theorem C02_map_entry :
  forall pf lower sp m c u e k v,
    os_kind sp = KMap -> valid_ok sp [e] = true -> split_first 61 e = Some (k, v) ->
    save pf lower sp (mkState (VMap m) c u) [e] =
      Ok (mkState (VMap (map_set (if lower then go_lower k else k) v m)) c u).
Proof. exact save_map_one. Qed.
Print Assumptions C02_map_entry.

Theorem C02_map_split :
  forall e k v, split_first 61 e = Some (k, v) -> e = k ++ 61%N :: v /\ contains_byte 61 k = false.
Proof. exact split_first_eq_spec. Qed.
Print Assumptions C02_map_split.

Theorem C02_map_last_wins : forall k v m, map_get k (map_set k v m) = Some v.
Proof. exact map_get_set_same. Qed.
Print Assumptions C02_map_last_wins.

Theorem C02_map_others_kept : forall k k' v m, k' <> k -> map_get k' (map_set k v m) = map_get k' m.
Proof. exact map_get_set_other. Qed.
Print Assumptions C02_map_others_kept.

Theorem C02_map_not_key_value :
  forall pf lower sp m c u e,
    os_kind sp = KMap -> valid_ok sp [e] = true -> split_first 61 e = None ->
    save pf lower sp (mkState (VMap m) c u) [e] = Err (e_not_kv u).
Proof. exact save_map_not_kv. Qed.
Print Assumptions C02_map_not_key_value.
