(* C13 — DAG: a task starts only after all its dependencies have finished successfully. *)
From GO Require Import Base.Str Model.Tree Model.Dag Proofs.DagHold Proofs.DagInv Proofs.DagBuild Proofs.DagOnce Proofs.AcceptSound Proofs.DagReport.
From GO Require Import Run.Check.

(* Graph.Run as a transition system (Model/Dag.v): the scheduler loop, one thread per launched
   vertex, the semaphore, the Task lock, the helper goroutines, the environment (task outcomes,
   cancellation, other graphs).  [Inv] holds in the initial state of the loop and is preserved by
   every transition, hence in every state of every schedule, for every graph whose edges are
   recorded on both ends (checked on every generated construction history), every outcome
   assignment, every limit. *)
Theorem C13_invariant_initial : forall g cf, Inv g cf (init_state []).
Proof. exact inv_init. Qed.
Print Assumptions C13_invariant_initial.

Theorem C13_invariant_preserved :
  forall g cf, (forall p c, In c (children g p) <-> In p (parents g c)) ->
  forall st l st', Inv g cf st -> dstep g cf st l = Some st' -> Inv g cf st'.
Proof. exact inv_step. Qed.
Print Assumptions C13_invariant_preserved.

Theorem C13_invariant_reachable :
  forall g cf, (forall p c, In c (children g p) <-> In p (parents g c)) ->
  forall ls st, dsteps g cf (init_state []) ls = Some st -> Inv g cf st.
Proof. exact inv_reachable. Qed.
Print Assumptions C13_invariant_reachable.

(* the hypothesis is met by every graph the construction API can build (any history of AddTask,
   TaskDependsOn, TaskRetries calls, valid or not): the invariant holds in every state of every
   schedule of every such graph *)
Theorem C13_constructed_graphs_symmetric :
  forall ops p c, In c (children (build_graph ops) p) <-> In p (parents (build_graph ops) c).
Proof. exact build_graph_sym. Qed.
Print Assumptions C13_constructed_graphs_symmetric.

Theorem C13_invariant_every_constructed_graph :
  forall ops cf ls st,
    dsteps (build_graph ops) cf (init_state []) ls = Some st -> Inv (build_graph ops) cf st.
Proof. exact built_reachable. Qed.
Print Assumptions C13_invariant_every_constructed_graph.

(* a task function is entered (LStart) only when every task it depends on has returned nil and
   the scheduler has received that completion *)
Theorem C13_deps_before :
  forall g cf st v st',
    Inv g cf st -> dstep g cf st (LStart v) = Some st' ->
    forall c, In c (children g v) -> In c (d_okdone st).
Proof. exact start_needs_dependencies. Qed.
Print Assumptions C13_deps_before.

(* ... and, transitively, every task it depends on through other tasks: for every graph the API can
   build, every schedule and every state in which the function of v is entered *)
Theorem C13_all_dependencies_before :
  forall ops cf ls st v st',
    let g := build_graph ops in
    dsteps g cf (init_state []) ls = Some st -> dstep g cf st (LStart v) = Some st' ->
    forall u, depends_on g v u -> In u (d_okdone st) /\ d_thread st u = Gone.
Proof. exact built_start_needs_all_dependencies. Qed.
Print Assumptions C13_all_dependencies_before.

(* ... where "okdone" is exactly: the completion of the task's function with nil was received *)
Theorem C13_okdone_means_returned_nil :
  forall g cf st l st' c,
    dstep g cf st l = Some st' -> In c (d_okdone st') -> ~ In c (d_okdone st) ->
    l = LRecvReal c /\ d_thread st c = Finished ONil.
Proof. exact okdone_grows_by_nil. Qed.
Print Assumptions C13_okdone_means_returned_nil.

(* ... and the thread that entered it is gone by then (its function is not running any more) *)
Theorem C13_finished_before :
  forall g cf st, Inv g cf st -> forall c, In c (d_okdone st) -> d_thread st c = Gone.
Proof. intros g cf st I. exact (t_okdone g cf st I). Qed.
Print Assumptions C13_finished_before.

(* attempts: one after another (the thread is in exactly one attempt), attempt k+1 only after
   attempt k returned an error and k < retries, none after a nil *)
Theorem C13_attempts :
  forall g cf st v r st' k,
    dstep g cf st (LExit v r) = Some st' -> d_thread st v = Running k ->
    d_thread st' v = (if match r with ONil => true | _ => Z.leb (retries g v) (Z.of_nat k) end
                      then Finished r else Running (S k)).
Proof. exact attempts. Qed.
Print Assumptions C13_attempts.

(* each task's function is started at most once in a run: no schedule contains two starts of the
   same vertex *)
Theorem C13_started_at_most_once :
  forall g cf, (forall p c, In c (children g p) <-> In p (parents g c)) ->
  forall ls1 ls2 ls3 st0 st v,
    Inv g cf st0 -> dsteps g cf st0 (ls1 ++ LStart v :: ls2 ++ LStart v :: ls3) = Some st -> False.
Proof. exact started_at_most_once. Qed.
Print Assumptions C13_started_at_most_once.

(* the thread of a vertex only moves forward: not spawned, waiting, attempt 0, 1, ..., finished,
   gone; in particular attempts are strictly one after another and none is repeated *)
Theorem C13_thread_only_moves_forward :
  forall g cf, (forall p c, In c (children g p) <-> In p (parents g c)) ->
  forall ls st st' v, Inv g cf st -> dsteps g cf st ls = Some st' ->
    tle (trank (d_thread st v)) (trank (d_thread st' v)).
Proof. exact threads_forward. Qed.
Print Assumptions C13_thread_only_moves_forward.

(* with R retries the attempts are numbered 0..R: at most R+1 entries *)
Theorem C13_attempts_bounded :
  forall g cf ls st v k,
    dsteps g cf (init_state []) ls = Some st -> d_thread st v = Running k -> (Z.of_nat k <= retries g v)%Z.
Proof. exact attempts_bounded. Qed.
Print Assumptions C13_attempts_bounded.

(* ---- the tie, as a theorem about the checker ---- *)

(* The executable acceptor that replays the observed events of the real Graph.Run (Run/Check.v,
   extracted for the correspondence check) only moves along transitions: whatever trace it accepts
   is a run of the transition system ending in the Return transition ... *)
Theorem C13_accepted_trace_is_a_run :
  forall g cf es s fin,
    In s (accept_all g cf [init_state []] es) -> finish_run g cf s = Some fin ->
    exists ls, dsteps g cf (init_state []) ls = Some fin /\ d_returned fin = true.
Proof. exact accepted_trace_is_a_run. Qed.
Print Assumptions C13_accepted_trace_is_a_run.

(* ... and every state it reconstructs for the graph of a construction history satisfies the
   invariant, so C13_deps_before, C14_*, C15_bound, ... apply to every accepted real run *)
Theorem C13_accepted_states_invariant :
  forall ops cf es s,
    In s (accept_all (build_graph ops) cf [init_state []] es) -> Inv (build_graph ops) cf s.
Proof. exact accepted_states_invariant. Qed.
Print Assumptions C13_accepted_states_invariant.

