(* C06 — Aliases interchangeable, Called/CalledAs exact, untouched options keep defaults. *)
From GO Require Import Base.Str Model.Tokenizer Model.Option Model.Tree Model.Parse.
From GO Require Import Proofs.TokLemmas Proofs.ParseLemmas Proofs.Match Proofs.Alias Proofs.SaveFrame.

(* Two keys (name / alias) of the same option: processing a pair under one or the other gives the
   same value, Called, intake counters and the same states for every other option; only CalledAs
   records the key that was used; a failing conversion fails under both with the same error kind. *)
Theorem C06_alias_interchange :
  forall pf lower specs st tok1 tok2 a1 a2 oid args,
    alookup a1 (n_opts (cur st)) = Some oid -> alookup a2 (n_opts (cur st)) = Some oid ->
    match start_pair pf lower specs st tok1 (mkPair a1 args), start_pair pf lower specs st tok2 (mkPair a2 args) with
    | Ok (Some (s1, (o1, k1, i1, mn1, mx1))), Ok (Some (s2, (o2, k2, i2, mn2, mx2))) =>
        o1 = oid /\ o2 = oid /\ k1 = a1 /\ k2 = a2 /\ i1 = i2 /\ mn1 = mn2 /\ mx1 = mx2 /\
        (forall o, o <> oid -> nth_error (store s1) o = nth_error (store s2) o) /\
        (exists os1 os2, nth_error (store s1) oid = Some os1 /\ nth_error (store s2) oid = Some os2 /\
                         o_val os1 = o_val os2 /\ o_called os1 = true /\ o_called os2 = true /\
                         o_used os1 = a1 /\ o_used os2 = a2)
    | Err e1, Err e2 => e_kind e1 = e_kind e2
    | _, _ => False
    end.
Proof. exact alias_same_effect. Qed.
Print Assumptions C06_alias_interchange.

(* Called and CalledAs are written exactly at a match: the matched option becomes Called with
   CalledAs = the full key that matched (the key itself, or the key a unique prefix resolves to) *)
Theorem C06_called_on_match :
  forall pf lower specs st tok p st' oid key i mn mx,
    start_pair pf lower specs st tok p = Ok (Some (st', (oid, key, i, mn, mx))) ->
    matches (n_opts (cur st)) (p_name p) = [(key, oid)] /\
    (exists os', nth_error (store st') oid = Some os' /\ o_called os' = true /\ o_used os' = key) /\
    (forall o, o <> oid -> nth_error (store st') o = nth_error (store st) o) /\
    i = length (p_args p).
Proof. exact start_pair_effect. Qed.
Print Assumptions C06_called_on_match.

(* values arriving later (detached values, greedy intake) keep Called and CalledAs *)
Theorem C06_values_keep_called :
  forall pf lower specs st oid a st',
    save_to pf lower specs st oid a = Ok st' ->
    (forall o, o <> oid -> nth_error (store st') o = nth_error (store st) o) /\
    (forall os, nth_error (store st) oid = Some os ->
       exists os', nth_error (store st') oid = Some os' /\ o_called os' = o_called os /\ o_used os' = o_used os).
Proof. exact save_to_effect. Qed.
Print Assumptions C06_values_keep_called.

(* Frame: a token leaves alone every option that none of its pairs (nor the pairs still pending
   from the previous token, nor the option currently taking values) resolves to — value, Called and
   CalledAs stay what they were (declared default, not called), whatever else is on the command line *)
Theorem C06_frame :
  forall pf md lower ro specs st t st' o,
    step pf md lower ro specs st t = Ok st' ->
    (ph st = PTail \/
     (ph st = PHead /\ none_resolves (n_opts (cur st)) (fst (is_option md t)) o) \/
     (exists oid key i pend tok, ph st = PPend oid key i pend tok /\ o <> oid /\
        none_resolves (n_opts (cur st)) pend o /\
        none_resolves (n_opts (cur st)) (fst (is_option md t)) o)) ->
    nth_error (store st') o = nth_error (store st) o.
Proof. exact step_frame. Qed.
Print Assumptions C06_frame.

(* Called is never taken back *)
Theorem C06_called_kept_by_match :
  forall pf lower specs st tok p st' c o,
    start_pair pf lower specs st tok p = Ok (Some (st', c)) -> called_at st o = true -> called_at st' o = true.
Proof. exact start_pair_called. Qed.
Print Assumptions C06_called_kept_by_match.

Theorem C06_called_kept_by_value :
  forall pf lower specs st oid a st' o,
    save_to pf lower specs st oid a = Ok st' -> called_at st o = true -> called_at st' o = true.
Proof. exact save_to_called. Qed.
Print Assumptions C06_called_kept_by_value.

(* Storing a value - what SetValue does, and what the parser and GetEnv do after their own bookkeeping -
   changes the value only: Called and CalledAs stay as they were.  (The harness checks the real
   SetValue against exactly this after every third parse case.) *)
Theorem C06_storing_keeps_called :
  forall pf lower sp st a st',
    save pf lower sp st a = Ok st' -> o_called st' = o_called st /\ o_used st' = o_used st.
Proof. exact save_keeps_called. Qed.
Print Assumptions C06_storing_keeps_called.
