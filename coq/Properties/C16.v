(* C16 — DAG: Run always finishes, keeps ready tasks running, and rejects cycles up front. *)
From GO Require Import Base.Str Model.Tree Model.Dag Proofs.DagHold Proofs.DagSort Proofs.DagInv.

(* DepthFirstSort, for every iteration order of the vertex map: a successful sort lists every
   vertex it was asked about, none twice, every dependency before its dependent *)
Theorem C16_dfs_sort :
  forall g order l,
    dfs_sort g order = Some (inl l) ->
    NoDup l /\ (forall v, In v order -> In v l) /\
    (forall u, In u l -> forall c, In c (children g u) -> before c u l).
Proof. exact dfs_sort_sound. Qed.
Print Assumptions C16_dfs_sort.

(* a graph with a dependency cycle is never sorted ... *)
Theorem C16_cycle_never_sorted :
  forall g order l v, depends g v v -> In v order -> dfs_sort g order <> Some (inl l).
Proof. exact cyclic_graph_not_sorted. Qed.
Print Assumptions C16_cycle_never_sorted.

(* ... so Run returns before its loop -- before any vertex is picked, any thread created, any task
   function entered --, with ErrorGraphHasCycle when the definition recorded no error *)
Theorem C16_cycle_rejected :
  forall g order v, depends g v v -> In v order -> run_prelude g order <> PreLoop.
Proof. exact cycle_rejected. Qed.
Print Assumptions C16_cycle_rejected.

Theorem C16_cycle_error :
  forall g order v, depends g v v -> In v order -> g_errs g = [] -> g_vs g <> [] -> run_prelude g order = PreCycle.
Proof. exact cycle_error. Qed.
Print Assumptions C16_cycle_error.

(* work conservation, safety half: whatever the scheduler launches was ready (its dependencies
   completed); the liveness half (a ready vertex is launched while capacity remains, Run returns)
   is established per observed run by the acceptor (Run/Check.v: accept / finish_run), see notes *)
Theorem C16_launched_was_ready :
  forall g cf, (forall p c, In c (children g p) <-> In p (parents g c)) ->
  forall ls st, dsteps g cf (init_state []) ls = Some st ->
  forall a, d_thread st a <> NotSpawned -> forall c, In c (children g a) -> In c (d_okdone st).
Proof. exact launched_was_ready. Qed.
Print Assumptions C16_launched_was_ready.
