(* C16 — DAG: Run always finishes, keeps ready tasks running, and rejects cycles up front. *)
From GO Require Import Base.Str Model.Tree Model.Dag Proofs.DagHold Proofs.DagSort Proofs.DagInv Proofs.DagProgress Proofs.DagFuel Proofs.DagTerm Proofs.DagBuild.

(* DepthFirstSort, for every iteration order of the vertex map: a successful sort lists every
   vertex it was asked about, none twice, every dependency before its dependent *)
Theorem C16_dfs_sort :
  forall g order l,
    dfs_sort g order = Some (inl l) ->
    NoDup l /\ (forall v, In v order -> In v l) /\
    (forall u, In u l -> forall c, In c (children g u) -> before c u l).
Proof. exact dfs_sort_sound. Qed.
Print Assumptions C16_dfs_sort.

(* a graph with a dependency cycle is never sorted ... *)
Theorem C16_cycle_never_sorted :
  forall g order l v, depends g v v -> In v order -> dfs_sort g order <> Some (inl l).
Proof. exact cyclic_graph_not_sorted. Qed.
Print Assumptions C16_cycle_never_sorted.

(* ... so Run returns before its loop -- before any vertex is picked, any thread created, any task
   function entered --, with ErrorGraphHasCycle when the definition recorded no error *)
Theorem C16_cycle_rejected :
  forall g order v, depends g v v -> In v order -> run_prelude g order <> PreLoop.
Proof. exact cycle_rejected. Qed.
Print Assumptions C16_cycle_rejected.

Theorem C16_cycle_error :
  forall g order v, depends g v v -> In v order -> g_errs g = [] -> g_vs g <> [] -> run_prelude g order = PreCycle.
Proof. exact cycle_error. Qed.
Print Assumptions C16_cycle_error.

(* work conservation, safety half: whatever the scheduler launches was ready (its dependencies
   completed); the liveness half (a ready vertex is launched while capacity remains, Run returns)
   is established per observed run by the acceptor (Run/Check.v: accept / finish_run), see notes *)
Theorem C16_launched_was_ready :
  forall g cf, (forall p c, In c (children g p) <-> In p (parents g c)) ->
  forall ls st, dsteps g cf (init_state []) ls = Some st ->
  forall a, d_thread st a <> NotSpawned -> forall c, In c (children g a) -> In c (d_okdone st).
Proof. exact launched_was_ready. Qed.
Print Assumptions C16_launched_was_ready.

(* ---- Run always finishes ---- *)

(* Progress (no deadlock, no idle spinning while work remains): in every state of every schedule of
   every graph the construction API can build and DepthFirstSort accepts (this is exactly when Run
   enters its loop), with any limit >= 1 (SetMaxParallel ignores values < 1), as long as Run has
   not returned and no other graph holds a Task lock, some transition other than idling,
   cancellation or a move of another graph is enabled: a completion is received, a waiting thread
   takes a slot, a running task function returns, the scheduler picks a vertex, or Run returns.
   In particular whenever nothing is running or pending and not everything is done, some vertex
   is eligible ("a ready task is started while capacity remains"). *)
Theorem C16_progress :
  forall ops cf ls st,
    let g := build_graph ops in
    dsteps g cf (init_state []) ls = Some st ->
    (exists l, dfs_sort g (vids g) = Some (inl l)) -> (0 < cf_cap cf)%N ->
    d_returned st = false -> (forall v, d_envlock st v = false) ->
    exists l st', productive l = true /\ dstep g cf st l = Some st'.
Proof. exact built_progress_acyclic. Qed.
Print Assumptions C16_progress.

(* the graph-theoretic core: when no vertex is in progress, either all are done or one is eligible *)
Theorem C16_no_stall :
  forall g st l,
    NoDup l -> (forall v, In v (vids g) -> In v l) ->
    (forall u, In u l -> forall c, In c (children g u) -> before c u l) ->
    closed g -> (forall v, In v (vids g) -> d_status st v <> InProgress) ->
    all_done g st = true \/ exists u, In u (vids g) /\ eligible g st u = true.
Proof. exact stall_free. Qed.
Print Assumptions C16_no_stall.

(* the modelled recursion of skipParents never runs out of fuel on such a graph: receiving a
   completion is always defined *)
Theorem C16_receive_defined :
  forall g cf, (forall p c, In c (children g p) <-> In p (parents g c)) ->
  forall l, NoDup l -> (forall v, In v (vids g) -> In v l) ->
    (forall u, In u l -> forall c, In c (children g u) -> before c u l) ->
    (forall v, In v l -> In v (vids g)) ->
  forall st v r real, Inv g cf st -> In v (vids g) -> receive g st v r real <> None.
Proof. exact receive_defined. Qed.
Print Assumptions C16_receive_defined.

(* Termination: every such transition strictly decreases a lexicographic measure (remaining
   thread work incl. retries; vertices still to be picked plus pending reports; not yet returned),
   so no schedule contains infinitely many of them.  With C16_progress: under fairness (task
   functions return, other graphs release Task locks) Run returns. *)
Theorem C16_measure_decreases :
  forall g cf st l st',
    Inv g cf st -> dstep g cf st l = Some st' -> productive l = true -> lex3 (mu g st') (mu g st).
Proof. exact productive_decreases. Qed.
Print Assumptions C16_measure_decreases.

Theorem C16_termination : forall g cf, well_founded (pstep g cf).
Proof. exact productive_steps_terminate. Qed.
Print Assumptions C16_termination.

