(* C03 — Remaining arguments are conserved: nothing lost, invented, altered or duplicated. *)
From GO Require Import Base.Str Model.Tokenizer Model.Option Model.Tree Model.Parse.
From GO Require Import Proofs.ParseLemmas Proofs.Labels.

(* Whenever Parse succeeds, remaining = the argument vector filtered by one ghost label per token
   (kept: positional, token with an unknown option, copied tail).  Being a selection gives original
   order, multiplicity one and verbatim content at once; one label per token gives "nothing lost". *)
Theorem C03_remaining_is_selection :
  forall pf md lower ro specs root st0 args w st rem,
    parse pf md lower ro specs root st0 args = mkRes w (Ok (st, rem)) ->
    rem = select args (labels pf md lower ro specs (init root st0) args) /\
    length (labels pf md lower ro specs (init root st0) args) = length args.
Proof. exact remaining_is_selection. Qed.
Print Assumptions C03_remaining_is_selection.

(* The labels mean what they say: a positional is not option-looking, not `--`, not a subcommand
   of the level current when it is reached. *)
Theorem C03_label_positional :
  forall md ro sh t, head_label md ro sh t = LPos ->
    t <> DD /\ looks_like_option md t = false /\ alookup t (n_cmds (cur sh)) = None /\
    (ro && ni_reqorder (n_info (cur sh)))%bool = false.
Proof. exact head_label_pos. Qed.
Print Assumptions C03_label_positional.

Theorem C03_label_command :
  forall md ro sh t, head_label md ro sh t = LCmd ->
    t <> DD /\ looks_like_option md t = false /\ exists child, alookup t (n_cmds (cur sh)) = Some child.
Proof. exact head_label_cmd. Qed.
Print Assumptions C03_label_command.

Theorem C03_label_terminator : forall md ro sh t, head_label md ro sh t = LTerm -> t = DD.
Proof. exact head_label_term. Qed.
Print Assumptions C03_label_terminator.

Theorem C03_label_known_option :
  forall md ro sh t, head_label md ro sh t = LOpt ->
    looks_like_option md t = true /\
    List.filter (is_unknown (n_opts (cur sh))) (fst (is_option md t)) = [].
Proof. exact head_label_opt. Qed.
Print Assumptions C03_label_known_option.

Theorem C03_label_value :
  forall pf md lower ro specs st t, label_of pf md lower ro specs st t = LVal ->
    exists oid key i pend tok, ph st = PPend oid key i pend tok.
Proof. exact label_val. Qed.
Print Assumptions C03_label_value.

(* every label that is not "consumed as a value" is the head label in the state in which the token
   reaches the head of the argument loop *)
Theorem C03_label_at_head :
  forall pf md lower ro specs st t,
    ph st <> PTail -> label_of pf md lower ro specs st t <> LVal ->
    exists sh, at_head pf md lower specs st t sh /\
               label_of pf md lower ro specs st t = head_label md ro sh t.
Proof. exact label_head. Qed.
Print Assumptions C03_label_at_head.

(* Pass and Warn: a token with an unknown option stays, verbatim, at its position *)
Theorem C03_unknown_tokens_stay :
  forall md ro sh t,
    t <> DD -> looks_like_option md t = true ->
    List.filter (is_unknown (n_opts (cur sh))) (fst (is_option md t)) <> [] ->
    ni_umode (n_info (cur sh)) <> Fail ->
    keep (head_label md ro sh t) = true.
Proof. exact unknown_token_kept. Qed.
Print Assumptions C03_unknown_tokens_stay.
