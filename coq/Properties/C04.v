(* C04 — `--` ends option parsing; everything after it is returned untouched. *)
From GO Require Import Base.Str Model.Tokenizer Model.Option Model.Tree Model.Parse.
From GO Require Import Proofs.ParseLemmas Proofs.Labels Proofs.Tail.

(* A `--` that reaches the head of the argument loop (in every mode, unknown mode, with or without
   require-order): the walk of the whole argument vector ends in the state the walk of the prefix
   ends in, plus the tail appended verbatim to the text; nothing behind it is interpreted. *)
Theorem C04_terminator :
  forall pf md lower specs ro root st0 pre tail st sh,
    run pf md lower ro specs (init root st0) pre = Ok st ->
    at_head pf md lower specs st DD sh ->
    walk pf md lower ro specs root st0 pre = Ok sh /\
    walk pf md lower ro specs root st0 (pre ++ DD :: tail) = Ok (add_text (set_ph sh PTail) tail).
Proof. exact terminator_walk. Qed.
Print Assumptions C04_terminator.

(* the terminator label is exactly this situation *)
Theorem C04_label_terminator :
  forall pf md lower specs ro st t,
    label_of pf md lower ro specs st t = LTerm -> t = DD /\ exists sh, at_head pf md lower specs st t sh.
Proof. exact label_term_at_head. Qed.
Print Assumptions C04_label_terminator.

(* `--` is consumed as a value only while the option still misses a mandatory value: an
   optional-value or greedy multi-value option never swallows it *)
Theorem C04_taken_only_as_mandatory :
  forall pf md lower specs st oid key i mn mx st',
    try_cur pf md lower specs st (oid, key, i, mn, mx) DD = Ok (Some st') -> (i < mn)%nat.
Proof. exact terminator_taken_only_as_mandatory. Qed.
Print Assumptions C04_taken_only_as_mandatory.

(* after the terminator (or the require-order stop) every token is copied *)
Theorem C04_tail_copied :
  forall pf md lower ro specs st l, ph st = PTail -> run pf md lower ro specs st l = Ok (add_text st l).
Proof. exact run_tail. Qed.
Print Assumptions C04_tail_copied.

(* What the user sees: Parse on the whole argument vector returns what Parse on the part before the
   `--` returns - same warnings, same error if any, same option store and selected command - with the
   tokens behind the `--` appended verbatim and in order to remaining. *)
Theorem C04_parse_result :
  forall pf md lower specs ro root st0 pre tail st sh,
    run pf md lower ro specs (init root st0) pre = Ok st ->
    at_head pf md lower specs st DD sh ->
    parse pf md lower ro specs root st0 (pre ++ DD :: tail) =
      extend tail (parse pf md lower ro specs root st0 pre) (add_text (set_ph sh PTail) tail).
Proof. exact terminator_parse. Qed.
Print Assumptions C04_parse_result.

(* "Never sets an option, selects a command, or triggers unknown-option handling": after the whole
   argument vector the option store (values and called marks), the selected command, the levels
   above it and the unknown-option list are exactly those reached just before the `--` - for every
   tail, in every mode, unknown-mode and with or without require-order - and remaining is the text
   so far followed by the tail, verbatim and in order (the `--` itself is dropped). *)
Theorem C04_nothing_set_after_terminator :
  forall pf md lower specs ro root st0 pre tail st sh,
    run pf md lower ro specs (init root st0) pre = Ok st ->
    at_head pf md lower specs st DD sh ->
    exists fin, walk pf md lower ro specs root st0 (pre ++ DD :: tail) = Ok fin /\
      store fin = store sh /\ cur fin = cur sh /\ up fin = up sh /\ unk fin = unk sh /\
      text fin = text sh ++ tail.
Proof. exact terminator_store_frozen. Qed.
Print Assumptions C04_nothing_set_after_terminator.
