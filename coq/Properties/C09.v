(* C09 — Require-order stops at the first non-option and hands the rest over verbatim. *)
From GO Require Import Base.Str Model.Tokenizer Model.Option Model.Tree Model.Parse.
From GO Require Import Proofs.ParseLemmas Proofs.Labels Proofs.Tail.

(* The stop token: reaches the head of the loop at a level with require-order and is neither `--`,
   nor a wholly known option token, nor a subcommand name.  The walk then ends in the state of the
   walk of the prefix, with the stop token and the tail appended verbatim. *)
Theorem C09_stop :
  forall pf md lower specs ro root st0 pre s tail st sh,
    run pf md lower ro specs (init root st0) pre = Ok st ->
    at_head pf md lower specs st s sh ->
    (ro && ni_reqorder (n_info (cur sh)))%bool = true ->
    stops_order md sh s ->
    walk pf md lower ro specs root st0 pre = Ok sh /\
    walk pf md lower ro specs root st0 (pre ++ s :: tail) =
      Ok (add_text (set_ph (add_text sh [s]) PTail) tail).
Proof. exact require_order_stop. Qed.
Print Assumptions C09_stop.

(* Before the stop point the parser behaves exactly as without require-order: [run … true] is the
   real parser, [run … false] the same parser with the require-order flag ignored. *)
Theorem C09_prefix_as_without :
  forall pf md lower specs pre st st',
    run pf md lower true specs st pre = Ok st' -> ph st' <> PTail ->
    run pf md lower false specs st pre = Ok st'.
Proof. exact prefix_as_without_require_order. Qed.
Print Assumptions C09_prefix_as_without.

(* What the user sees: Parse on the whole argument vector returns what Parse on the part before the
   stop point returns - same warnings, same error if any, same option store and selected command -
   with the stop token and everything behind it appended verbatim and in order to remaining. *)
Theorem C09_parse_result :
  forall pf md lower specs ro root st0 pre s tail st sh,
    run pf md lower ro specs (init root st0) pre = Ok st ->
    at_head pf md lower specs st s sh ->
    (ro && ni_reqorder (n_info (cur sh)))%bool = true ->
    stops_order md sh s ->
    parse pf md lower ro specs root st0 (pre ++ s :: tail) =
      extend (s :: tail) (parse pf md lower ro specs root st0 pre)
             (add_text (set_ph (add_text sh [s]) PTail) tail).
Proof. exact require_order_parse. Qed.
Print Assumptions C09_parse_result.

(* "No option occurring after that point is set or marked called": after the whole argument vector
   the option store (values and called marks), the selected command, the levels above it and the
   unknown-option list are exactly those reached just before the stop token - for every tail - and
   remaining is the text so far followed by the stop token and the tail, verbatim and in order. *)
Theorem C09_nothing_set_after_stop :
  forall pf md lower specs ro root st0 pre s tail st sh,
    run pf md lower ro specs (init root st0) pre = Ok st ->
    at_head pf md lower specs st s sh ->
    (ro && ni_reqorder (n_info (cur sh)))%bool = true ->
    stops_order md sh s ->
    exists fin, walk pf md lower ro specs root st0 (pre ++ s :: tail) = Ok fin /\
      store fin = store sh /\ cur fin = cur sh /\ up fin = up sh /\ unk fin = unk sh /\
      text fin = text sh ++ s :: tail.
Proof. exact require_order_store_frozen. Qed.
Print Assumptions C09_nothing_set_after_stop.
