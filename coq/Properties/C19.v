(* C19 — No input makes the library panic or hang. *)
From GO Require Import Base.Str Base.Utf8 Model.Tokenizer Model.Option Model.Tree Model.Parse.
From GO Require Import Proofs.ParseLemmas Proofs.Labels Proofs.Total.

(* The places where the Go code could fault on a bad index or a missing map entry are modelled as
   an explicit internal error.  For every well-formed definition (every table entry points into the
   option table, one state per option; checked on the dump of every generated definition) and every
   argument vector -- any byte strings, any number of tokens -- that error is unreachable, and the
   walk ends in a well-formed state. *)
Theorem C19_parse_never_faults :
  forall pf md lower ro specs root st0 args,
    length st0 = length specs -> wf_node (length specs) root ->
    good (wf_st specs) (walk pf md lower ro specs root st0 args).
Proof. exact walk_never_internal. Qed.
Print Assumptions C19_parse_never_faults.

(* The parser is a fold over the argument vector: exactly one step per token, no fuel, no loop
   that could fail to advance (model-side "no hang"). *)
Theorem C19_one_step_per_token :
  forall pf md lower ro specs args st st',
    run pf md lower ro specs st args = Ok st' ->
    length (labels pf md lower ro specs st args) = length args.
Proof. exact run_steps_once. Qed.
Print Assumptions C19_one_step_per_token.

(* the rune splitter used for bundles terminates having consumed the whole text: the fuel
   (= byte length) suffices *)
Theorem C19_explode_total : forall s, concat (explode s) = s.
Proof. exact explode_concat. Qed.
Print Assumptions C19_explode_total.

(* errors of Save are never the internal one *)
Theorem C19_save_errors_are_user_errors :
  forall pf lower sp os a e, save pf lower sp os a = Err e -> not_internal e.
Proof. exact save_not_internal. Qed.
Print Assumptions C19_save_errors_are_user_errors.

(* a failed Parse carries no remaining list: by the type of the result *)
Theorem C19_failed_parse_has_no_remaining :
  forall (r : presult) e, pr_out r = Err e -> forall st rem, pr_out r <> Ok (st, rem).
Proof. intros r e H st rem. rewrite H. discriminate. Qed.
Print Assumptions C19_failed_parse_has_no_remaining.
