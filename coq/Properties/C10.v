(* C10 — Dispatch runs exactly the addressed command once, with its options and arguments. *)
From GO Require Import Base.Str Model.Tokenizer Model.Option Model.Tree Model.Parse Model.Help Model.Dispatch.
From GO Require Import Proofs.ParseLemmas Proofs.Labels Proofs.DispatchLemmas.

(* Neither help nor a missing required option: Dispatch's result is, by its type, exactly one
   invocation of the selected node's CommandFn with the remaining arguments Parse returned and the
   view of that node -- or, for a node without function, help / the no-function error. *)
Theorem C10_dispatch :
  forall specs root st rem,
    called (store st) (n_opts root) (ni_helpname (n_info (cur st))) = false ->
    required_error specs (store st) (cur st) = None ->
    dispatch specs root st rem =
      match ni_fn (n_info (cur st)) with
      | FnUser id => DRan id rem (view_of (cur st) (store st))
      | FnHelp => run_help specs st rem
      | FnNone =>
          match up st with
          | [] => DRootHelp (help_of_state specs st)
          | _ :: _ =>
              if Nat.ltb 1 (List.length (n_cmds (cur st))) then DHelp (help_of_state specs st)
              else DErr (mkErrA ENoCommandFn [ni_name (n_info (cur st))] (msg_no_command_fn (ni_name (n_info (cur st)))) false)
          end
      end.
Proof. exact dispatch_runs. Qed.
Print Assumptions C10_dispatch.

(* The selected node is the one reached from the root by following exactly the tokens labelled as
   command tokens, in order (deepest command reached; the root when there is none). *)
Theorem C10_selected_node :
  forall pf md lower ro specs root st0 args w st rem,
    parse pf md lower ro specs root st0 args = mkRes w (Ok (st, rem)) ->
    follow root (select_cmds args (labels pf md lower ro specs (init root st0) args)) = Some (cur st).
Proof. exact selected_node. Qed.
Print Assumptions C10_selected_node.

(* A token is a command token only at the head of the loop (so never after `--` or the
   require-order stop, where the phase is PTail, and never when consumed as a value, which is
   labelled LVal), when it is not `--`, not option-looking, and names a child of the current level. *)
Theorem C10_command_token :
  forall md ro sh t, head_label md ro sh t = LCmd ->
    t <> DD /\ looks_like_option md t = false /\ exists child, alookup t (n_cmds (cur sh)) = Some child.
Proof. exact head_label_cmd. Qed.
Print Assumptions C10_command_token.

Theorem C10_command_token_at_head :
  forall pf md lower ro specs st t,
    ph st <> PTail -> label_of pf md lower ro specs st t <> LVal ->
    exists sh, at_head pf md lower specs st t sh /\
               label_of pf md lower ro specs st t = head_label md ro sh t.
Proof. exact label_head. Qed.
Print Assumptions C10_command_token_at_head.

(* The view: every key of the selected node's table, own or inherited, shows the parsed state of the
   option object it refers to. *)
Theorem C10_view :
  forall n store k oid os,
    In (k, oid) (n_opts n) -> nth_error store oid = Some os -> In (k, os) (view_of n store).
Proof. exact view_of_lookup. Qed.
Print Assumptions C10_view.

(* Inheritance as the definition API builds it (copyOptionsFromParent): after the parent's table is
   copied into a child, every parent key resolves in the child to the parent's option object, so
   the child's view shows the value parsed into that object (C10_view). *)
From GO Require Import Model.Build Proofs.Env.
Theorem C10_inherited_keys :
  forall (parent : list (str * nat)) child k oid,
    NoDup (keys parent) -> In (k, oid) parent ->
    alookup k (List.fold_left (fun acc kv => aset (fst kv) (snd kv) acc) parent child) = Some oid.
Proof. exact copy_table_lookup. Qed.
Print Assumptions C10_inherited_keys.

(* End to end: Parse succeeded, no help, nothing required is missing, and the node reached by the
   command tokens has a user function: Dispatch is exactly one run of that function, with the
   remaining arguments Parse returned and that node's view. *)
Theorem C10_parse_then_dispatch :
  forall pf md lower ro specs root st0 args w st rem nd id,
    parse pf md lower ro specs root st0 args = mkRes w (Ok (st, rem)) ->
    follow root (select_cmds args (labels pf md lower ro specs (init root st0) args)) = Some nd ->
    ni_fn (n_info nd) = FnUser id ->
    called (store st) (n_opts root) (ni_helpname (n_info nd)) = false ->
    required_error specs (store st) nd = None ->
    dispatch specs root st rem = DRan id rem (view_of nd (store st)).
Proof. exact parse_then_dispatch. Qed.
Print Assumptions C10_parse_then_dispatch.
