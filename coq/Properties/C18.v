(* C18 — Generated help lists every option, alias, argument and command exactly once. *)
From GO Require Import Base.Str Model.Tokenizer Model.Option Model.Tree Model.Parse Model.Help Model.Dispatch.
From GO Require Import Proofs.ParseLemmas Proofs.HelpLemmas.
From Coq Require Import Sorting.Permutation String.

(* every option available at the level (own or inherited: any table entry) has an entry, whose
   synopsis lists the key among its aliases *)
Theorem C18_every_option_has_entry :
  forall specs n k oid,
    wf_level specs n -> In (k, oid) (n_opts n) ->
    exists sp, nth_error specs oid = Some sp /\ In sp (level_options specs n) /\ In k (os_aliases sp).
Proof. exact every_option_has_entry. Qed.
Print Assumptions C18_every_option_has_entry.

(* exactly once; an alias key never produces an entry of its own *)
Theorem C18_entries_once :
  forall specs n, NoDup (keys (n_opts n)) -> NoDup (List.map os_name (level_options specs n)).
Proof. exact entries_once. Qed.
Print Assumptions C18_entries_once.

Theorem C18_entry_is_name_key :
  forall specs n sp,
    In sp (level_options specs n) <->
    exists oid, In (os_name sp, oid) (n_opts n) /\ nth_error specs oid = Some sp.
Proof. exact level_options_In. Qed.
Print Assumptions C18_entry_is_name_key.

Theorem C18_entry_lists_all_aliases :
  forall sp a, In a (os_aliases sp) -> In (alias_syn a) (List.map alias_syn (os_aliases sp)).
Proof. exact entry_lists_all_aliases. Qed.
Print Assumptions C18_entry_lists_all_aliases.

(* the two option sections hold each option exactly once; REQUIRED PARAMETERS iff required *)
Theorem C18_sections_partition :
  forall opts, Permutation (entries_required opts ++ entries_normal opts) opts.
Proof. exact sections_partition. Qed.
Print Assumptions C18_sections_partition.

Theorem C18_required_section :
  forall opts sp, In sp (entries_required opts) <-> In sp opts /\ os_required sp = true.
Proof. exact required_section_iff. Qed.
Print Assumptions C18_required_section.

Theorem C18_normal_section :
  forall opts sp, In sp (entries_normal opts) <-> In sp opts /\ os_required sp = false.
Proof. exact normal_section_iff. Qed.
Print Assumptions C18_normal_section.

(* the text is the concatenation of the sections, each the concatenation of its entries *)
Theorem C18_render_decomposes :
  forall args opts, exists factor,
    help_option_list args opts =
      (if show_args args then s2l "ARGUMENTS:" ++ [NL] ++ List.concat (List.map (help_arg_entry factor) args) else []) ++
      (match entries_required opts with [] => [] | l => s2l "REQUIRED PARAMETERS:" ++ [NL] ++ List.concat (List.map (help_option_entry factor) l) end) ++
      (match entries_normal opts with [] => [] | l => s2l "OPTIONS:" ++ [NL] ++ List.concat (List.map (help_option_entry factor) l) end).
Proof. exact option_list_decomposes. Qed.
Print Assumptions C18_render_decomposes.

Theorem C18_entry_starts_with_synopsis :
  forall factor sp, exists rest, help_option_entry factor sp = spaces 4 ++ help_synopsis sp ++ rest.
Proof. exact entry_starts_with_synopsis. Qed.
Print Assumptions C18_entry_starts_with_synopsis.

(* default of every non-required option, environment variable of every bound one *)
Theorem C18_default_and_env :
  forall factor sp,
    os_required sp = false ->
    exists pre, help_option_entry factor sp =
      pre ++ s2l "(default: " ++ os_defstr sp ++
      (match os_env sp with [] => [] | e => s2l ", env: " ++ e end) ++ s2l ")" ++ [NL; NL].
Proof. exact entry_default_and_env. Qed.
Print Assumptions C18_default_and_env.

Theorem C18_required_env :
  forall factor sp e0 e',
    os_required sp = true -> os_env sp = e0 :: e' ->
    exists pre, help_option_entry factor sp = pre ++ s2l "(env: " ++ (e0 :: e') ++ s2l ")" ++ [NL; NL].
Proof. exact entry_required_env. Qed.
Print Assumptions C18_required_env.

(* every option is mentioned in the synopsis, in order, required ones unbracketed *)
Theorem C18_synopsis_mentions_all :
  forall name args opts has_cmds, exists n last rest,
    joined n (List.map opt_synopsis (entries_required opts ++ entries_normal opts) ++ [last]) rest /\
    help_synopsis_section name args opts has_cmds = s2l "SYNOPSIS:" ++ [NL] ++ indent name ++ rest ++ [NL].
Proof. exact synopsis_mentions_all. Qed.
Print Assumptions C18_synopsis_mentions_all.

Theorem C18_synopsis_item_shape :
  forall sp, exists l r, opt_synopsis sp = l ++ help_synopsis sp ++ r /\
    ((os_required sp = false /\ l = s2l "[") \/ (os_required sp = true /\ (l = [] \/ l = s2l "<"))).
Proof. exact opt_synopsis_shape. Qed.
Print Assumptions C18_synopsis_item_shape.

(* subcommands: all but the help command, with their descriptions *)
Theorem C18_commands_listed :
  forall n nm d,
    In (nm, d) (listed_commands n) <->
    exists k c, In (k, c) (n_cmds n) /\ ni_name (n_info c) = nm /\ ni_desc (n_info c) = d /\
                nm <> ni_helpname (n_info n).
Proof. exact listed_commands_In. Qed.
Print Assumptions C18_commands_listed.

Theorem C18_commands_sorted_once : forall l, Permutation (sort_cmds l) l.
Proof. exact sort_cmds_perm. Qed.
Print Assumptions C18_commands_sorted_once.

(* one text: help option at a level, help command of that level, Help() on that level *)
Theorem C18_one_text :
  forall specs st child, run_help specs (descend st child) [] = DHelp (help_of_state specs st).
Proof. exact one_help_text. Qed.
Print Assumptions C18_one_text.
