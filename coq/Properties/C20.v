(* C20 — Same definition and input always give the same result and the same text. *)
From GO Require Import Base.Str Base.Sort Model.Tokenizer Model.Option Model.Tree Model.Parse Model.Help Model.Dispatch.
From GO Require Import Proofs.ParseLemmas Proofs.Match Proofs.HelpLemmas Proofs.Perm Proofs.PermParse Proofs.PermRev Proofs.Unknown.
From GO Require Import Run.Check Model.Complete Proofs.CompletePerm Proofs.CompleteE2E Proofs.HelpPerm Proofs.DispatchPerm.
From Coq Require Import Sorting.Permutation Sorting.Sorted.

(* Go's unspecified map iteration order is "any permutation of the association list".  Every place
   where the code ranges over a map is covered by one of the following: the result does not depend
   on the order.  (The model as a whole is deterministic: it is a function.) *)

(* map lookups *)
Theorem C20_lookup : forall (l l' : list (str * nat)) k,
  Permutation l l' -> NoDup (keys l) -> alookup k l = alookup k l'.
Proof. exact (@alookup_perm nat). Qed.
Print Assumptions C20_lookup.

(* option resolution: none / exactly one / ambiguous, and the candidate list of the ambiguity error *)
Theorem C20_resolution :
  forall tbl tbl' e,
    Permutation tbl tbl' -> NoDup (keys tbl) ->
    match matches tbl e with
    | [] => matches tbl' e = []
    | [kv] => matches tbl' e = [kv]
    | ms => sort_strs (keys (matches tbl' e)) = sort_strs (keys ms) /\ (2 <= length (matches tbl' e))%nat
    end.
Proof. exact resolution_order_independent. Qed.
Print Assumptions C20_resolution.

(* the missing-required report: fixed rule = first missing option in key order *)
Theorem C20_required :
  forall specs st i o o' c c',
    Permutation o o' -> NoDup (keys o) ->
    required_error specs st (Node i o c) = required_error specs st (Node i o' c').
Proof. exact required_error_order_independent. Qed.
Print Assumptions C20_required.

Theorem C20_called :
  forall st tbl tbl' name, Permutation tbl tbl' -> NoDup (keys tbl) -> called st tbl name = called st tbl' name.
Proof. exact called_order_independent. Qed.
Print Assumptions C20_called.

(* unknown options: kept in encounter order (a list, not a map), first one reported *)
Theorem C20_unknown_first :
  forall ls1 l ls2 n ns,
    Forall (fun l => ~ failing l) ls1 -> lv_mode l = Fail -> lv_unk l = n :: ns ->
    exists r, policy_levels (ls1 ++ l :: ls2) = (flat_map warnings_of ls1, Some (e_unknown n), r).
Proof. exact policy_levels_fail. Qed.
Print Assumptions C20_unknown_first.

(* help text: options and commands are collected from maps and then sorted by their unique names *)
Theorem C20_help_option_list :
  forall args opts opts',
    Permutation opts opts' -> NoDup (List.map os_name opts) ->
    help_option_list args opts = help_option_list args opts'.
Proof. exact help_option_list_order_independent. Qed.
Print Assumptions C20_help_option_list.

Theorem C20_help_synopsis :
  forall name args opts opts' hc,
    Permutation opts opts' -> NoDup (List.map os_name opts) ->
    help_synopsis_section name args opts hc = help_synopsis_section name args opts' hc.
Proof. exact help_synopsis_order_independent. Qed.
Print Assumptions C20_help_synopsis.

Theorem C20_level_options :
  forall specs i o o' c, Permutation o o' ->
    Permutation (level_options specs (Node i o c)) (level_options specs (Node i o' c)).
Proof. exact level_options_perm. Qed.
Print Assumptions C20_level_options.

Theorem C20_sorted_lists : forall l l', Permutation l l' -> sort_strs l = sort_strs l'.
Proof. exact sorted_output_order_independent. Qed.
Print Assumptions C20_sorted_lists.

(* ---- end to end ---- *)

(* [nsim root root']: the same command tree with the option table and the command table of every
   node in another order (any other iteration order of every Go map).  The whole parse — warnings
   written, the error (kind, arguments, exact message) or the final value / Called / CalledAs of
   every option, the remaining arguments and the selected command path — is the same.  Every mode,
   unknown-mode, require-order setting, every argv. *)
Theorem C20_parse_order_independent :
  forall pf md lower ro specs root root' st0 args,
    nsim root root' ->
    observe (parse pf md lower ro specs root st0 args) = observe (parse pf md lower ro specs root' st0 args).
Proof. exact observe_order_independent. Qed.
Print Assumptions C20_parse_order_independent.

(* ... and the final states are the same trees up to that reordering (so what Dispatch, Help and
   completion read from them is covered by the per-function theorems above) *)
Theorem C20_parse_states_similar :
  forall pf md lower ro specs root root' st0 args,
    nsim root root' ->
    psim (parse pf md lower ro specs root st0 args) (parse pf md lower ro specs root' st0 args).
Proof. exact parse_order_independent. Qed.
Print Assumptions C20_parse_states_similar.

(* an instance: every table of the tree reversed (this is the order the correspondence check also
   evaluates the model on); [wfk]: the keys of every table are distinct, as in a Go map *)
Theorem C20_reversed_tables :
  forall fuel n, wfk n -> nsim n (rev_node fuel n).
Proof. exact nsim_rev_node. Qed.
Print Assumptions C20_reversed_tables.

(* completion: the option candidates offered for a last word (the sorted list and the
   single-candidate hint) do not depend on the order of the level's option table; keys are distinct,
   contain no `=`, and resolve to declared options.  (The command candidates are a sorted list of
   the command keys, static suggestions and function results: C20_sorted_lists.)  This became true
   with the repair of D15: before it the hint read the last entry of the map iteration. *)
Theorem C20_completion_options_order_independent :
  forall specs vfn t i i' tbl tbl' c c' w,
    Permutation tbl tbl' -> NoDup (keys tbl) ->
    (forall k oid, In (k, oid) tbl -> contains_byte 61 k = false /\ exists sp, nth_error specs oid = Some sp) ->
    option_completions specs vfn t (Node i tbl c) w = option_completions specs vfn t (Node i' tbl' c') w.
Proof. exact option_completions_order_independent. Qed.
Print Assumptions C20_completion_options_order_independent.

(* the completion result as a whole: the walk over the earlier words and the candidates for the
   last word, for two trees that differ only in the order of their tables ([wfc]: distinct command
   keys, option keys without `=` that resolve to declared options, at every node) *)
Theorem C20_completion_order_independent :
  forall pf md lower specs vfn afn t root root' st0 words,
    nsim root root' -> wfc specs root -> wfc specs root' ->
    complete pf md lower specs vfn afn t root st0 words = complete pf md lower specs vfn afn t root' st0 words.
Proof. exact complete_order_independent. Qed.
Print Assumptions C20_completion_order_independent.

(* the help text of a level as a whole (name, synopsis, command list, option list, footer) *)
Theorem C20_help_output_order_independent :
  forall specs path is_root n n',
    nsim n n' -> NoDup (keys (n_cmds n)) -> NoDup (keys (n_cmds n')) ->
    NoDup (List.map fst (listed_commands n)) ->
    help_output specs path is_root n = help_output specs path is_root n'.
Proof. exact help_output_order_independent. Qed.
Print Assumptions C20_help_output_order_independent.


(* Dispatch (help interception, missing-required report, the command function that runs, the
   error when a command has no function) on two trees and two parse results that differ only in
   table order: same outcome, the same text, the same arguments; the values the command function
   sees are the same up to the order of the option table ([dsim]).  [allwf]: the current node and
   its ancestor levels are nodes whose command tables have distinct keys and distinct names. *)
Theorem C20_dispatch_order_independent :
  forall specs root root' s s' rem,
    nsim root root' -> ssim s s' -> allwf s -> allwf s' ->
    dsim (dispatch specs root s rem) (dispatch specs root' s' rem).
Proof. exact dispatch_order_independent. Qed.
Print Assumptions C20_dispatch_order_independent.

(* Parse followed by Dispatch, end to end: [allwf] holds of every state the parser returns when
   the tree is well formed ([wfh]), so the only hypotheses left are on the two trees *)
Theorem C20_parse_dispatch_order_independent :
  forall pf md lower ro specs root root' st0 args w s rem w' s' rem',
    nsim root root' -> wfh root -> wfh root' ->
    parse pf md lower ro specs root st0 args = mkRes w (Ok (s, rem)) ->
    parse pf md lower ro specs root' st0 args = mkRes w' (Ok (s', rem')) ->
    rem = rem' /\ dsim (dispatch specs root s rem) (dispatch specs root' s' rem').
Proof. exact parse_dispatch_order_independent. Qed.
Print Assumptions C20_parse_dispatch_order_independent.
