(* C07 — Single-dash modes follow the documented rewriting; long options ignore the mode. *)
From GO Require Import Base.Str Base.Utf8 Model.Tokenizer Model.Option Model.Tree Model.Parse.
From GO Require Import Proofs.TokLemmas Proofs.ParseLemmas Proofs.Match Proofs.Modes.

(* Tokens starting with `--` (and non-dash tokens, and the lone dash) are interpreted identically
   in the three modes: the whole result of Parse agrees. *)
Theorem C07_long_mode_independent :
  forall pf lower ro specs md1 md2 root st0 args,
    Forall not_single_dash args ->
    parse pf md1 lower ro specs root st0 args = parse pf md2 lower ro specs root st0 args.
Proof. exact long_mode_independent. Qed.
Print Assumptions C07_long_mode_independent.

Theorem C07_long_token_split :
  forall md1 md2 r, is_option md1 (DASH :: DASH :: r) = is_option md2 (DASH :: DASH :: r).
Proof. exact is_option_dd_mode_indep. Qed.
Print Assumptions C07_long_token_split.

(* Normal: -name[=v] is processed exactly like --name[=v] (same successor state / same error),
   in every state in which tokens are still interpreted *)
Theorem C07_normal :
  forall pf lower ro specs st name e k oid,
    ph st <> PTail ->
    name <> [] -> no_dash_start name -> contains_byte EQ name = false -> starts_with_eq_or_empty e ->
    matches (n_opts (cur st)) name = [(k, oid)] ->
    step pf Normal lower ro specs st (DASH :: name ++ e) =
    step pf Normal lower ro specs st (DASH :: DASH :: name ++ e).
Proof. exact normal_rewriting. Qed.
Print Assumptions C07_normal.

(* SingleDash: -xREST is --x=REST and -x is --x, x the first letter (rune) *)
Theorem C07_singledash :
  forall pf lower ro specs st name e k oid,
    ph st <> PTail ->
    name <> [] -> no_dash_start name -> contains_byte EQ name = false -> starts_with_eq_or_empty e ->
    let n := first_rune_len name in
    let x := firstn n name in
    let rest := skipn n name ++ e in
    matches (n_opts (cur st)) x = [(k, oid)] ->
    step pf SingleDash lower ro specs st (DASH :: name ++ e) =
    step pf SingleDash lower ro specs st
         (DASH :: DASH :: x ++ match rest with [] => [] | _ => EQ :: rest end).
Proof. exact singledash_rewriting. Qed.
Print Assumptions C07_singledash.

(* Bundling: a bundle whose leading letters are declared flags and whose last letter is any declared
   option is processed exactly like the separate tokens (same successor state, same error) *)
Theorem C07_bundling :
  forall pf lower ro specs md ps st T ts pz tz,
    ph st = PHead -> T <> DD -> tz <> DD ->
    is_option md T = (ps ++ [pz], true) ->
    Forall2 (fun p t => t <> DD /\ is_option md t = ([p], true)) ps ts ->
    is_option md tz = ([pz], true) ->
    Forall (resolved_flag specs (n_opts (cur st))) ps -> resolved (n_opts (cur st)) pz ->
    run pf md lower ro specs st [T] = run pf md lower ro specs st (ts ++ [tz]).
Proof. exact bundle_split. Qed.
Print Assumptions C07_bundling.

(* the pairs of a bundle token: one per letter (rune), the attached value on the last *)
Theorem C07_bundle_pairs :
  forall name e,
    name <> [] -> no_dash_start name -> contains_byte EQ name = false -> starts_with_eq_or_empty e ->
    is_option Bundling (DASH :: name ++ e) =
      (match attached e with
       | [] => List.map (fun o => mkPair o []) (explode name)
       | a => set_last_args (List.map (fun o => mkPair o []) (explode name)) a
       end, true).
Proof. exact is_option_bundling. Qed.
Print Assumptions C07_bundle_pairs.

Theorem C07_explode_concat : forall s, concat (explode s) = s.
Proof. exact explode_concat. Qed.
Print Assumptions C07_explode_concat.

(* two option tokens that split into the same resolvable pair are interchangeable *)
Theorem C07_same_pair :
  forall pf lower ro specs md st t1 t2 p k oid,
    ph st <> PTail -> t1 <> DD -> t2 <> DD ->
    is_option md t1 = ([p], true) -> is_option md t2 = ([p], true) ->
    matches (n_opts (cur st)) (p_name p) = [(k, oid)] ->
    step pf md lower ro specs st t1 = step pf md lower ro specs st t2.
Proof. exact step_same_pair. Qed.
Print Assumptions C07_same_pair.
