(* C12 — Value precedence is command line over environment variable over default. *)
From GO Require Import Base.Str Model.Tokenizer Model.Option Model.Tree Model.Parse Model.Build.
From GO Require Import Proofs.ParseLemmas Proofs.Match Proofs.Scalar Proofs.Env.
From Coq Require Import String.

(* after definition (GetEnv reads the environment then): unset or empty variable, or no binding:
   the declared default, not called *)
Theorem C12_env_absent :
  forall pf env o,
    plain o -> (od_env o = [] \/ getenv env (od_env o) = []) ->
    initial_state pf env o = mkState (od_default o) false [].
Proof. exact env_absent. Qed.
Print Assumptions C12_env_absent.

(* a set variable with text valid for the type: the converted text; Called; CalledAs = the variable's name *)
Theorem C12_env_valid :
  forall pf env o v x,
    plain o -> od_env o <> [] -> getenv env (od_env o) = v -> v <> [] ->
    env_scalar (od_kind o) = true -> od_valid o = [] ->
    conv pf (od_kind o) v = Some x ->
    initial_state pf env o = mkState x true (od_env o).
Proof. exact env_valid. Qed.
Print Assumptions C12_env_valid.

(* text that is not valid for the type leaves the declared default *)
Theorem C12_env_invalid_keeps_default :
  forall pf env o v,
    plain o -> od_env o <> [] -> getenv env (od_env o) = v -> v <> [] ->
    env_scalar (od_kind o) = true -> od_valid o = [] ->
    conv pf (od_kind o) v = None ->
    o_val (initial_state pf env o) = od_default o.
Proof. exact env_invalid_keeps_default. Qed.
Print Assumptions C12_env_invalid_keeps_default.

(* bool: true / false in any letter case; anything else changes nothing *)
Theorem C12_env_bool :
  forall pf env o v (b : bool),
    plain o -> od_env o <> [] -> getenv env (od_env o) = v -> v <> [] ->
    od_kind o = KBool -> od_valid o = [] ->
    to_lower v = (if b then s2l "true" else s2l "false") ->
    initial_state pf env o = mkState (VBool b) true (od_env o).
Proof. exact env_bool. Qed.
Print Assumptions C12_env_bool.

Theorem C12_env_bool_other :
  forall pf env o v,
    plain o -> od_kind o = KBool -> getenv env (od_env o) = v ->
    str_eqb (to_lower v) (s2l "true") = false -> str_eqb (to_lower v) (s2l "false") = false ->
    initial_state pf env o = mkState (od_default o) false [].
Proof. exact env_bool_other. Qed.
Print Assumptions C12_env_bool_other.

Theorem C12_env_unsupported_kind :
  forall pf env o,
    plain o -> env_scalar (od_kind o) = false -> od_kind o <> KBool ->
    initial_state pf env o = mkState (od_default o) false [].
Proof. exact env_unsupported. Qed.
Print Assumptions C12_env_unsupported_kind.

(* the modifiers of a declaration run in the order they are written.  SetCalled written before
   GetEnv does not shadow a bound variable ... *)
Theorem C12_env_valid_after_setcalled :
  forall pf env o v x b,
    od_setcalled o = Some (b, true) -> od_env o <> [] -> getenv env (od_env o) = v -> v <> [] ->
    env_scalar (od_kind o) = true -> od_valid o = [] ->
    conv pf (od_kind o) v = Some x ->
    initial_state pf env o = mkState x true (od_env o).
Proof. exact env_valid_after_setcalled. Qed.
Print Assumptions C12_env_valid_after_setcalled.

(* ... with the variable unset or empty the default stays and Called is what SetCalled says ... *)
Theorem C12_env_absent_setcalled :
  forall pf env o b f,
    od_setcalled o = Some (b, f) -> (od_env o = [] \/ getenv env (od_env o) = []) ->
    initial_state pf env o = mkState (od_default o) b [].
Proof. exact env_absent_setcalled. Qed.
Print Assumptions C12_env_absent_setcalled.

(* ... and SetCalled written after GetEnv overrides only the Called flag *)
Theorem C12_setcalled_after_env :
  forall pf env o b,
    od_setcalled o = Some (b, false) ->
    o_called (initial_state pf env o) = b /\
    o_val (initial_state pf env o) = o_val (env_state pf env o (spec_of o) (mkState (od_default o) false [])).
Proof. exact setcalled_after_env. Qed.
Print Assumptions C12_setcalled_after_env.

(* the command line wins: `--name=v` stores conv v whatever value / Called / CalledAs the definition
   (default or environment) left in the option *)
Theorem C12_cli_overrides :
  forall pf md lower ro specs st key v k oid sp os os',
    key <> [] -> contains_byte EQ key = false -> v <> [] ->
    matches (n_opts (cur st)) key = [(k, oid)] ->
    nth_error specs oid = Some sp ->
    scalar_valued (os_kind sp) = true -> os_max sp = 1%nat -> (os_min sp <= 1)%nat ->
    valid_ok sp [v] = true ->
    nth_error (store st) oid = Some os ->
    head pf md lower ro specs (set_store st (update_nth oid os' (store st))) (DASH :: DASH :: key ++ EQ :: v) =
    match conv pf (os_kind sp) v with
    | Some x => Ok (set_ph (with_opt (set_store st (update_nth oid os' (store st))) oid (mkState x true k)) PHead)
    | None => Err (conv_err (os_kind sp) k v)
    end.
Proof. exact cli_overrides. Qed.
Print Assumptions C12_cli_overrides.
