(* C11 — Required options are enforced before any command runs; help bypasses them. *)
From GO Require Import Base.Str Model.Tokenizer Model.Option Model.Tree Model.Parse Model.Help Model.Dispatch.
From GO Require Import Proofs.ParseLemmas Proofs.Labels Proofs.DispatchLemmas.

(* a missing required option of the selected command: Dispatch returns that error, runs nothing *)
Theorem C11_required_blocks_dispatch :
  forall specs root st rem e,
    called (store st) (n_opts root) (ni_helpname (n_info (cur st))) = false ->
    required_error specs (store st) (cur st) = Some e ->
    dispatch specs root st rem = DErr e.
Proof. exact dispatch_required_blocks. Qed.
Print Assumptions C11_required_blocks_dispatch.

(* ... and for the root, Parse itself returns it *)
Theorem C11_required_blocks_parse :
  forall pf md lower ro specs root st0 args s e,
    walk pf md lower ro specs root st0 args = Ok s -> up s = [] ->
    called (store s) (n_opts root) (ni_helpname (n_info (cur s))) = false ->
    required_error specs (store s) (cur s) = Some e ->
    parse pf md lower ro specs root st0 args = mkRes [] (Err e).
Proof. exact parse_required_root. Qed.
Print Assumptions C11_required_blocks_parse.

(* the error: ErrorParsing class, names a required option that was not called, custom message when declared *)
Theorem C11_required_error_shape :
  forall specs st oid e,
    check_required specs st oid = Some e ->
    e_parsing e = true /\ e_kind e = EMissingRequired /\
    exists sp os, nth_error specs oid = Some sp /\ nth_error st oid = Some os /\
                  os_required sp = true /\ o_called os = false /\
                  e_msg e = match os_reqmsg sp with [] => msg_missing_required (os_name sp) | m => m end.
Proof. exact check_required_shape. Qed.
Print Assumptions C11_required_error_shape.

Theorem C11_required_error_is_missing :
  forall specs st n e,
    required_error specs st n = Some e ->
    exists k oid, alookup k (n_opts n) = Some oid /\ check_required specs st oid = Some e.
Proof. exact required_error_some. Qed.
Print Assumptions C11_required_error_is_missing.

(* all required options supplied (by name, alias, abbreviation or environment: Called is what counts)
   <-> no such error *)
Theorem C11_required_satisfied :
  forall specs st n,
    required_error specs st n = None <->
    (forall k oid, alookup k (n_opts n) = Some oid -> check_required specs st oid = None).
Proof. exact required_error_none. Qed.
Print Assumptions C11_required_satisfied.

(* help wins: the help of the selected level is written, ErrorHelpCalled, no function, no
   missing-required report *)
Theorem C11_help_wins_dispatch :
  forall specs root st rem,
    called (store st) (n_opts root) (ni_helpname (n_info (cur st))) = true ->
    dispatch specs root st rem = DHelp (help_of_state specs st).
Proof. exact dispatch_help_wins. Qed.
Print Assumptions C11_help_wins_dispatch.

Theorem C11_help_wins_parse :
  forall pf md lower ro specs root st0 args s,
    walk pf md lower ro specs root st0 args = Ok s -> up s = [] ->
    called (store s) (n_opts root) (ni_helpname (n_info (cur s))) = true ->
    parse pf md lower ro specs root st0 args =
      let '(w, e, rem) := policy_levels (levels_of s) in
      match e with Some e => mkRes w (Err e) | None => mkRes w (Ok (s, rem)) end.
Proof. exact parse_help_skips_required. Qed.
Print Assumptions C11_help_wins_parse.

(* the help command *)
Theorem C11_help_command :
  forall specs st pl ups,
    up st = pl :: ups ->
    run_help specs st [] =
      DHelp (help_output specs (List.map (fun l => ni_name (n_info (lv_node l))) (rev (up st)))
                         (match ups with [] => true | _ => false end) (lv_node pl)).
Proof. exact help_command_no_topic. Qed.
Print Assumptions C11_help_command.

Theorem C11_help_command_unknown_topic :
  forall specs st pl ups a0 rest,
    up st = pl :: ups ->
    alookup a0 (n_cmds (lv_node pl)) = None ->
    run_help specs st (a0 :: rest) = DErr (mkErrA ENoHelpTopic [a0] (msg_no_help_topic a0) false).
Proof. exact help_command_unknown_topic. Qed.
Print Assumptions C11_help_command_unknown_topic.

(* a topic that is a command of the level (by the name it was declared with: what selects it on the
   command line and what completion offers after `help `) prints that command's help *)
Theorem C11_help_command_topic :
  forall specs st pl ups a0 rest c,
    up st = pl :: ups ->
    alookup a0 (n_cmds (lv_node pl)) = Some c ->
    run_help specs st (a0 :: rest) =
      DHelp (help_output specs (List.map (fun l => ni_name (n_info (lv_node l))) (rev (up st)) ++ [ni_name (n_info c)]) false c).
Proof. exact help_command_topic. Qed.
Print Assumptions C11_help_command_topic.
