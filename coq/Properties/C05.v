(* C05 — Abbreviations: unique prefix = full name, exact name wins, ambiguity errors. *)
From GO Require Import Base.Str Base.Sort Model.Tokenizer Model.Option Model.Tree Model.Parse.
From GO Require Import Proofs.TokLemmas Proofs.ParseLemmas Proofs.Match.
From Coq Require Import Sorting.Permutation Sorting.Sorted.

(* a text that is itself a key selects that entry, whatever else it is a prefix of *)
Theorem C05_exact :
  forall tbl key oid, alookup key tbl = Some oid -> matches tbl key = [(key, oid)].
Proof. exact matches_exact. Qed.
Print Assumptions C05_exact.

(* a unique prefix resolves to the entry of the full key *)
Theorem C05_unique_prefix :
  forall tbl p k oid, NoDup (keys tbl) -> matches tbl p = [(k, oid)] -> matches tbl k = [(k, oid)].
Proof. exact matches_unique_prefix. Qed.
Print Assumptions C05_unique_prefix.

(* ... and the token written with the prefix is processed exactly like the token written with the
   full key: same successor state (values, Called, CalledAs = the full key, pending intake), same error *)
Theorem C05_abbreviation_token :
  forall pf md lower ro specs st n1 n2 e k oid,
    n1 <> [] -> n2 <> [] -> contains_byte EQ n1 = false -> contains_byte EQ n2 = false ->
    starts_with_eq_or_empty e ->
    matches (n_opts (cur st)) n1 = [(k, oid)] -> matches (n_opts (cur st)) n2 = [(k, oid)] ->
    head pf md lower ro specs st (DASH :: DASH :: n1 ++ e) = head pf md lower ro specs st (DASH :: DASH :: n2 ++ e).
Proof. exact head_same_match. Qed.
Print Assumptions C05_abbreviation_token.

(* two or more candidates and not itself a key: an error that lists exactly the candidates, sorted;
   an error carries no state, so no option value changes *)
Theorem C05_ambiguous :
  forall pf lower specs st tok p a,
    alookup p (n_opts (cur st)) = None ->
    (2 <= length (List.filter (pfx p) (n_opts (cur st))))%nat ->
    exists cands,
      start_pair pf lower specs st tok (mkPair p a) = Err (e_ambiguous tok cands) /\
      Sorted sle cands /\
      Permutation cands (keys (List.filter (pfx p) (n_opts (cur st)))).
Proof. exact start_pair_ambiguous. Qed.
Print Assumptions C05_ambiguous.

(* ... and so is the whole command line: at any point where the parser is at the head of its loop
   (not collecting values), writing the abbreviation or the full key gives the same result of Parse:
   option values, Called, CalledAs, remaining, error and warnings *)
Theorem C05_abbreviation_parse :
  forall pf md lower ro specs root st0 pre rest st n1 n2 e k oid,
    run pf md lower ro specs (init root st0) pre = Ok st -> ph st = PHead ->
    n1 <> [] -> n2 <> [] -> contains_byte EQ n1 = false -> contains_byte EQ n2 = false ->
    starts_with_eq_or_empty e ->
    matches (n_opts (cur st)) n1 = [(k, oid)] -> matches (n_opts (cur st)) n2 = [(k, oid)] ->
    parse pf md lower ro specs root st0 (pre ++ (DASH :: DASH :: n1 ++ e) :: rest) =
    parse pf md lower ro specs root st0 (pre ++ (DASH :: DASH :: n2 ++ e) :: rest).
Proof. exact abbreviation_parse. Qed.
Print Assumptions C05_abbreviation_parse.
