(* C17 — Completion offers exactly the applicable commands, options and values. *)
From GO Require Import Base.Str Base.Sort Model.Tokenizer Model.Option Model.Tree Model.Parse Model.Complete.
From GO Require Import Proofs.TokLemmas Proofs.ParseLemmas Proofs.Match Proofs.CompleteLemmas.
From Coq Require Import Sorting.Sorted.

(* Scope (see DESIGN.md 6.17): the candidates are those of the level the last word reaches at the
   head of the argument loop, in the state the parser itself is in after the earlier words (the
   same state machine, the program's own single-dash mode).  A last word that is taken as the value
   of the option before it, or lies behind `--` / the require-order stop, gets nothing. *)
Theorem C17_level_and_last_word :
  forall pf md lower specs vfn afn t root st0 earlier w st,
    run pf md lower true specs (init root st0) earlier = Ok st -> ph st = PHead ->
    complete pf md lower specs vfn afn t root st0 (earlier ++ [w]) = CList (candidates specs vfn afn t st w).
Proof. exact head_offers_candidates. Qed.
Print Assumptions C17_level_and_last_word.

Theorem C17_tail_offers_nothing :
  forall pf md lower specs vfn afn t root st0 earlier w st,
    run pf md lower true specs (init root st0) earlier = Ok st -> ph st = PTail ->
    complete pf md lower specs vfn afn t root st0 (earlier ++ [w]) = CList [].
Proof. exact tail_offers_nothing. Qed.
Print Assumptions C17_tail_offers_nothing.

(* options: precisely the keys of the level (names, aliases, inherited) that start with the typed text *)
Theorem C17_options :
  forall specs vfn t n w c,
    contains_byte 61 (strip_dashes w) = false ->
    (In c (option_base specs vfn t n w) <->
     exists k oid sp, In (k, oid) (n_opts n) /\ nth_error specs oid = Some sp /\
       ((k = [DASH] /\ w = [DASH] /\ c = [DASH]) \/
        (k <> [DASH] /\ prefixb (strip_dashes w) k = true /\ c = opt_word k sp))).
Proof. exact option_candidates. Qed.
Print Assumptions C17_options.

(* values after `--name=`: only the entry whose key is the text written before the `=` contributes,
   and it contributes precisely that option's suggested/valid values and value-function results
   that extend the typed word *)
Theorem C17_values :
  forall vfn t w k sp,
    k <> [DASH] -> prefixb (strip_dashes w) k = false ->
    opt_entry vfn t w (strip_dashes w) k sp =
      if prefixb (k ++ [61%N]) (strip_dashes w) then
        let cand e := [DASH; DASH] ++ k ++ [61%N] ++ e in
        List.map (render t) (List.filter (fun c => prefixb w c) (List.map cand (os_suggested sp))) ++
        match os_sfn sp with
        | Some f => List.map (render t) (List.filter (fun c => prefixb w c) (List.map cand (vfn f t (after_eq w))))
        | None => []
        end
      else [].
Proof. exact value_candidates. Qed.
Print Assumptions C17_values.

(* commands: precisely the subcommands (the built-in help command is one of the keys) and static
   suggestions that start with the typed word, plus whatever the level's functions return *)
Theorem C17_commands :
  forall afn t n prev w c,
    In c (command_base afn t n prev w) <->
    (In c (keys (n_cmds n)) /\ prefixb w c = true) \/
    (In c (ni_suggestions (n_info n)) /\ prefixb w c = true) \/
    (exists f, In f (ni_sfns (n_info n)) /\ In c (afn f t prev w)).
Proof. exact command_candidates. Qed.
Print Assumptions C17_commands.

Theorem C17_commands_shape :
  forall afn t n prev w,
    command_completions afn t n prev w =
      match command_base afn t n prev w, t with
      | [c], Bash => [c ++ [32%N]]
      | l, _ => l
      end.
Proof. exact command_completions_shape. Qed.
Print Assumptions C17_commands_shape.

(* sorted *)
Theorem C17_options_sorted : forall specs vfn t n w, Sorted sle (option_completions specs vfn t n w).
Proof. exact option_completions_sorted. Qed.
Print Assumptions C17_options_sorted.

Theorem C17_commands_sorted : forall afn t n prev w, Sorted sle (command_completions afn t n prev w).
Proof. exact command_completions_sorted. Qed.
Print Assumptions C17_commands_sorted.

(* accepted by the parser at that position *)
Theorem C17_offered_option_accepted :
  forall specs vfn t n w c,
    NoDup (keys (n_opts n)) ->
    contains_byte 61 (strip_dashes w) = false -> In c (option_base specs vfn t n w) -> c <> [DASH] ->
    exists k oid sp, c = opt_word k sp /\ matches (n_opts n) k = [(k, oid)] /\ nth_error specs oid = Some sp.
Proof. exact offered_option_is_key. Qed.
Print Assumptions C17_offered_option_accepted.

Theorem C17_offered_command_accepted :
  forall n c, In c (keys (n_cmds n)) -> exists child, alookup c (n_cmds n) = Some child.
Proof. exact offered_command_is_child. Qed.
Print Assumptions C17_offered_command_accepted.

(* no command function, always the exit path *)
Theorem C17_no_function_and_exit :
  forall r : cresult, (exists l, r = CList l) \/ (exists e, r = CErr e).
Proof. exact complete_result_shape. Qed.
Print Assumptions C17_no_function_and_exit.
