(* C01 — Scalar option values reach the program exactly as written. *)
From GO Require Import Base.Str Model.Tokenizer Model.Option Model.Tree Model.Parse.
From GO Require Import Proofs.TokLemmas Proofs.ParseLemmas Proofs.Match Proofs.Scalar.

(* `--name=v`, for every byte string v <> "" (leading dashes, '=', blanks, newlines included) and
   every name text that resolves (exactly or as a unique prefix) to the key k of a scalar option:
   the value stored is exactly conv v — v itself for strings, strconv.Atoi for ints, the
   ParseFloat oracle for floats —, Called is set, CalledAs is k, no other option changes, no
   following token is consumed; text that does not convert is an error, never a default or a
   partially converted value.  Uniform in the single-dash mode (a `--` token). *)
Theorem C01_attached :
  forall pf md lower ro specs st key v k oid sp os,
    key <> [] -> contains_byte EQ key = false -> v <> [] ->
    matches (n_opts (cur st)) key = [(k, oid)] ->
    nth_error specs oid = Some sp -> nth_error (store st) oid = Some os ->
    scalar_valued (os_kind sp) = true -> os_max sp = 1%nat -> (os_min sp <= 1)%nat ->
    valid_ok sp [v] = true ->
    head pf md lower ro specs st (DASH :: DASH :: key ++ EQ :: v) =
      match conv pf (os_kind sp) v with
      | Some x => Ok (set_ph (with_opt st oid (mkState x true k)) PHead)
      | None => Err (conv_err (os_kind sp) k v)
      end.
Proof. exact attached_value. Qed.
Print Assumptions C01_attached.

(* `--name v`: the option token marks the option called and waits for exactly one value ... *)
Theorem C01_detached_option :
  forall pf md lower ro specs st key k oid sp os,
    key <> [] -> contains_byte EQ key = false ->
    matches (n_opts (cur st)) key = [(k, oid)] ->
    nth_error specs oid = Some sp -> nth_error (store st) oid = Some os ->
    scalar_valued (os_kind sp) = true -> os_max sp = 1%nat ->
    head pf md lower ro specs st (DASH :: DASH :: key) =
      Ok (set_ph (with_opt st oid (mkState (o_val os) true k)) (PPend oid k 0 [] [])).
Proof. exact detached_option. Qed.
Print Assumptions C01_detached_option.

(* ... which is the next token whenever that token does not look like an option *)
Theorem C01_detached_value :
  forall pf md lower ro specs st oid k v sp os,
    ph st = PPend oid k 0 [] [] ->
    nth_error specs oid = Some sp -> nth_error (store st) oid = Some os ->
    scalar_valued (os_kind sp) = true -> os_max sp = 1%nat -> os_min sp = 1%nat ->
    valid_ok sp [v] = true -> looks_like_option md v = false ->
    step pf md lower ro specs st v =
      match conv pf (os_kind sp) v with
      | Some x => Ok (set_ph (with_opt st oid (mkState x (o_called os) (o_used os))) PHead)
      | None => Err (conv_err (os_kind sp) (o_used os) v)
      end.
Proof. exact detached_value. Qed.
Print Assumptions C01_detached_value.

Theorem C01_detached_dash_rejected :
  forall pf md lower ro specs st oid k v sp,
    ph st = PPend oid k 0 [] [] -> nth_error specs oid = Some sp -> os_min sp = 1%nat ->
    looks_like_option md v = true ->
    step pf md lower ro specs st v = Err (e_arg_with_dash k).
Proof. exact detached_dash_rejected. Qed.
Print Assumptions C01_detached_dash_rejected.

Theorem C01_detached_missing :
  forall pf lower specs st oid k sp,
    ph st = PPend oid k 0 [] [] -> nth_error specs oid = Some sp -> os_min sp = 1%nat ->
    finish pf lower specs st = Err (e_missing_arg k).
Proof. exact detached_missing. Qed.
Print Assumptions C01_detached_missing.

(* an optional-value option given without a value keeps its value and is reported as called
   (Called was set by C01_detached_option's step) *)
Theorem C01_optional_no_value_eof :
  forall pf lower specs st oid k sp,
    ph st = PPend oid k 0 [] [] -> nth_error specs oid = Some sp -> os_min sp = 0%nat ->
    finish pf lower specs st = Ok (set_ph st PHead).
Proof. exact optional_without_value_eof. Qed.
Print Assumptions C01_optional_no_value_eof.

Theorem C01_optional_no_value_next :
  forall pf md lower ro specs st oid k sp t,
    ph st = PPend oid k 0 [] [] -> nth_error specs oid = Some sp ->
    os_min sp = 0%nat -> os_max sp = 1%nat ->
    (looks_like_option md t = true \/ t = DD) ->
    step pf md lower ro specs st t = head pf md lower ro specs (set_ph st PHead) t.
Proof. exact optional_without_value_next. Qed.
Print Assumptions C01_optional_no_value_next.

(* a bool option passed without attached value reads the negation of its default (idempotent,
   hence for any number of occurrences); an increment option adds one per occurrence *)
Theorem C01_bool :
  forall pf md lower ro specs st key k oid sp os,
    key <> [] -> contains_byte EQ key = false ->
    matches (n_opts (cur st)) key = [(k, oid)] ->
    nth_error specs oid = Some sp -> nth_error (store st) oid = Some os ->
    os_kind sp = KBool -> os_min sp = 0%nat -> os_max sp = 0%nat ->
    head pf md lower ro specs st (DASH :: DASH :: key) =
      Ok (set_ph (with_opt st oid (mkState (VBool (negb (os_booldef sp))) true k)) PHead).
Proof. exact bool_flag. Qed.
Print Assumptions C01_bool.

Theorem C01_increment :
  forall pf md lower ro specs st key k oid sp os z,
    key <> [] -> contains_byte EQ key = false ->
    matches (n_opts (cur st)) key = [(k, oid)] ->
    nth_error specs oid = Some sp -> nth_error (store st) oid = Some os ->
    os_kind sp = KIncr -> o_val os = VInt z -> os_min sp = 0%nat -> os_max sp = 0%nat ->
    head pf md lower ro specs st (DASH :: DASH :: key) =
      Ok (set_ph (with_opt st oid (mkState (VInt (z + 1)) true k)) PHead).
Proof. exact increment_flag. Qed.
Print Assumptions C01_increment.

(* the splitter: `--name=v` is the pair (name, [v]) for every v, in every mode *)
Theorem C01_token_split :
  forall md name e,
    name <> [] -> contains_byte EQ name = false -> starts_with_eq_or_empty e ->
    is_option md (DASH :: DASH :: name ++ e) = ([mkPair name (attached e)], true).
Proof. exact is_option_long. Qed.
Print Assumptions C01_token_split.
