(* C15 — DAG: concurrency never exceeds the configured bound; serial means one at a time. *)
From GO Require Import Base.Str Model.Tree Model.Dag Proofs.DagHold Proofs.DagInv.

(* in every reachable state, any set of distinct vertices whose task function is executing has at
   most as many members as the limit given to SetMaxParallel *)
Theorem C15_bound :
  forall g cf st (l : list vid),
    Inv g cf st -> NoDup l -> (forall v, In v l -> thread_running (d_thread st v) = true) ->
    (N.of_nat (length l) <= cf_cap cf)%N.
Proof. exact running_bounded. Qed.
Print Assumptions C15_bound.

(* serial mode: at most one task function executes, whatever the limit *)
Theorem C15_serial :
  forall g cf st u v,
    Inv g cf st -> cf_serial cf = true ->
    thread_running (d_thread st u) = true -> thread_running (d_thread st v) = true -> u = v.
Proof. exact serial_one_at_a_time. Qed.
Print Assumptions C15_serial.

(* consecutive executions are separated by the scheduler receiving the earlier completion (channel
   rendezvous) and spawning the later thread (go statement): a vertex gets its thread only when
   everything it depends on was received *)
Theorem C15_serial_ordering :
  forall g cf st, Inv g cf st -> forall a, d_thread st a <> NotSpawned ->
    forall c, In c (children g a) -> In c (d_okdone st).
Proof. intros g cf st I. exact (t_down g cf st I). Qed.
Print Assumptions C15_serial_ordering.

(* a Task held by another graph (environment transitions LEnvLock / LEnvUnlock follow the same
   lock protocol) is never executing here at the same time *)
Theorem C15_task_mutex :
  forall g cf st v, Inv g cf st -> d_envlock st v = true -> thread_running (d_thread st v) = false.
Proof. exact task_mutex. Qed.
Print Assumptions C15_task_mutex.

(* the holders of semaphore slots are exactly the threads between acquiring and releasing *)
Theorem C15_slots :
  forall g cf st, Inv g cf st -> forall v, In v (d_holders st) <-> thread_holds (d_thread st v) = true.
Proof. intros g cf st I. exact (h_iff g cf st I). Qed.
Print Assumptions C15_slots.
