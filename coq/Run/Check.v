(* Correspondence runner: cases carry the inputs given to the real library and what it showed;
   [mismatches] evaluates the model on the inputs and returns the indices of the cases whose
   projected observables differ. *)
From GO Require Import Base.Str Model.Tokenizer Model.Option Model.Tree Model.Parse.
Open Scope N_scope.

Record pcase := mkCase {
  c_md : mode;
  c_lower : bool;
  c_specs : list ospec;
  c_root : node;
  c_st0 : list ostate;
  c_args : list str;
  c_ftab : list (str * option N);   (* strconv.ParseFloat on every candidate text of the case *)
  (* observed *)
  c_err : option (str * bool * ekind * list str);   (* message, errors.Is(err, ErrorParsing), kind as classified by the harness *)
  c_rem : list str;
  c_st1 : list ostate;
  c_warn : str
}.

Definition pf_of (tab : list (str * option N)) (s : str) : option N :=
  match alookup s tab with Some r => r | None => None end.

(* what is compared *)
Record mask := mkMask {
  m_err : bool;      (* error presence, ErrorParsing class and kind *)
  m_args : bool;     (* arguments of the error message format (option key, value text, candidates...) *)
  m_msg : bool;      (* exact error message *)
  m_rem : bool;      (* remaining *)
  m_val : bool;      (* option values *)
  m_called : bool;   (* Called / CalledAs *)
  m_warn : bool;     (* Writer *)
  m_perm : bool      (* the model gives the same result on the tree with every table reversed *)
}.
Definition mask_all := mkMask true true true true true true true true.

(* maps are compared as sorted association lists (keys are unique) *)
Fixpoint insert_kv (x : str * str) (l : list (str * str)) : list (str * str) :=
  match l with
  | [] => [x]
  | y :: l' => if str_leb (fst x) (fst y) then x :: l else y :: insert_kv x l'
  end.
Fixpoint sort_kv (l : list (str * str)) : list (str * str) :=
  match l with [] => [] | x :: l' => insert_kv x (sort_kv l') end.

Definition kv_eqb (a b : str * str) : bool := str_eqb (fst a) (fst b) && str_eqb (snd a) (snd b).

Definition value_eqb (a b : value) : bool :=
  match a, b with
  | VBool x, VBool y => Bool.eqb x y
  | VInt x, VInt y => Z.eqb x y
  | VStr x, VStr y => str_eqb x y
  | VFloat x, VFloat y => N.eqb x y
  | VStrs x, VStrs y => strs_eqb x y
  | VInts x, VInts y => list_eqb Z.eqb x y
  | VFloats x, VFloats y => list_eqb N.eqb x y
  | VMap x, VMap y => list_eqb kv_eqb (sort_kv x) (sort_kv y)
  | _, _ => false
  end.

Definition state_eqb (m : mask) (a b : ostate) : bool :=
  (negb (m_val m) || value_eqb (o_val a) (o_val b)) &&
  (negb (m_called m) || (Bool.eqb (o_called a) (o_called b) && str_eqb (o_used a) (o_used b))).

Definition run_case (c : pcase) : presult :=
  parse (pf_of (c_ftab c)) (c_md c) (c_lower c) true (c_specs c) (c_root c) (c_st0 c) (c_args c).

(* well-formedness of the dumped definition: the hypotheses of the totality theorems *)
Fixpoint wf_nodeb (fuel : nat) (n : nat) (nd : node) : bool :=
  match fuel with
  | O => false
  | S f => forallb (fun kv => Nat.ltb (snd kv) n) (n_opts nd) &&
           forallb (fun kc => wf_nodeb f n (snd kc)) (n_cmds nd)
  end.

Definition wf_caseb (c : pcase) : bool :=
  Nat.eqb (List.length (c_st0 c)) (List.length (c_specs c)) && wf_nodeb 64 (List.length (c_specs c)) (c_root c).

(* every table of the tree in reverse order: one fixed permutation of every Go map *)
Fixpoint rev_node (fuel : nat) (nd : node) : node :=
  match fuel with
  | O => nd
  | S f => Node (n_info nd) (rev (n_opts nd)) (rev (List.map (fun kc => (fst kc, rev_node f (snd kc))) (n_cmds nd)))
  end.

Definition err_eqb (a b : err) : bool :=
  ekind_eqb (e_kind a) (e_kind b) && strs_eqb (e_args a) (e_args b) && str_eqb (e_msg a) (e_msg b) &&
  Bool.eqb (e_parsing a) (e_parsing b).

Definition presult_eqb (a b : presult) : bool :=
  strs_eqb (pr_warn a) (pr_warn b) &&
  match pr_out a, pr_out b with
  | Ok (s1, r1), Ok (s2, r2) => strs_eqb r1 r2 && list_eqb (state_eqb (mkMask true true true true true true true true)) (store s1) (store s2)
  | Err e1, Err e2 => err_eqb e1 e2
  | _, _ => false
  end.

Definition perm_ok (c : pcase) : bool :=
  presult_eqb (run_case c)
    (parse (pf_of (c_ftab c)) (c_md c) (c_lower c) true (c_specs c) (rev_node 64 (c_root c)) (c_st0 c) (c_args c)).

Definition check_case (m : mask) (c : pcase) : bool :=
  let r := run_case c in
  wf_caseb c && (negb (m_perm m) || perm_ok c) &&
  (negb (m_warn m) || str_eqb (concat (pr_warn r)) (c_warn c)) &&
  match pr_out r, c_err c with
  | Err e, Some (msg, parsing, k, args) =>
      (negb (m_err m) || (Bool.eqb (e_parsing e) parsing && ekind_eqb (e_kind e) k)) &&
      (negb (m_args m) || strs_eqb (e_args e) args) &&
      (negb (m_msg m) || str_eqb (e_msg e) msg)
  | Ok (st, rem), None =>
      (negb (m_rem m) || strs_eqb rem (c_rem c)) &&
      list_eqb (state_eqb m) (store st) (c_st1 c)
  | _, _ => false   (* success on one side, failure on the other *)
  end.

Fixpoint mismatches_from (i : nat) (m : mask) (cs : list pcase) : list nat :=
  match cs with
  | [] => []
  | c :: cs' => if check_case m c then mismatches_from (S i) m cs' else i :: mismatches_from (S i) m cs'
  end.

Definition mismatches := mismatches_from 0.

(* for replays: the model's view of one case, in a compact printable form *)
Definition model_view (c : pcase) :=
  let r := run_case c in
  (pr_warn r,
   match pr_out r with
   | Err e => (Some (e_kind e, e_msg e, e_parsing e), [], [])
   | Ok (st, rem) => (None, rem, store st)
   end).

(* ---- tokenizer correspondence (isOption through the VerifIsOption hook) ---- *)
Record tcase := mkTCase { t_md : mode; t_s : str; t_pairs : list (str * list str); t_is : bool }.

Definition pair_eqb (a b : str * list str) : bool :=
  str_eqb (fst a) (fst b) && strs_eqb (snd a) (snd b).

Definition check_tcase (c : tcase) : bool :=
  let '(ps, is) := is_option (t_md c) (t_s c) in
  Bool.eqb is (t_is c) && list_eqb pair_eqb (List.map (fun p => (p_name p, p_args p)) ps) (t_pairs c).

Fixpoint tmismatches_from (i : nat) (cs : list tcase) : list nat :=
  match cs with
  | [] => []
  | c :: cs' => if check_tcase c then tmismatches_from (S i) cs' else i :: tmismatches_from (S i) cs'
  end.
Definition tmismatches := tmismatches_from 0.

(* constructor-like helper used by the generated case files *)
Definition E (m : str) (p : bool) (k : ekind) (a : list str) : str * bool * ekind * list str := (m, p, k, a).

(* ---- Dispatch and Help correspondence ---- *)
From GO Require Import Model.Help Model.Dispatch.

Record dcase := mkDCase {
  d_base : pcase;                                          (* definition, argv and what Parse showed *)
  d_ran : list (nat * list str * list (str * ostate));     (* user CommandFn invocations: id, args, view *)
  d_err : option (str * bool * bool);                      (* error of Dispatch: message, is ErrorHelpCalled, is ErrorParsing *)
  d_writer : str;                                          (* bytes written to Writer by Dispatch *)
  d_help : str                                             (* opt.Help() after Parse *)
}.

Record dmask := mkDMask {
  dm_fn : bool;     (* which function ran, how often *)
  dm_args : bool;   (* the arguments it received *)
  dm_view : bool;   (* the option view it saw *)
  dm_err : bool;    (* error class and message of Dispatch *)
  dm_writer : bool; (* what Dispatch wrote *)
  dm_help : bool    (* Help() text *)
}.
Definition dmask_all := mkDMask true true true true true true.

Definition view_eqb (a b : list (str * ostate)) : bool :=
  list_eqb (fun x y => str_eqb (fst x) (fst y) && state_eqb mask_all (snd x) (snd y)) a b.

Definition run_dcase (c : dcase) : option (dresult * str) :=
  let b := d_base c in
  match pr_out (run_case b) with
  | Ok (st, rem) => Some (dispatch (c_specs b) (c_root b) st rem, help_of_state (c_specs b) st)
  | Err _ => None
  end.

Definition check_dcase (pm : mask) (m : dmask) (c : dcase) : bool :=
  check_case pm (d_base c) &&
  match run_dcase c with
  | None => true   (* Parse failed: nothing dispatched (the harness does not call Dispatch then) *)
  | Some (r, h) =>
      (negb (dm_help m) || str_eqb h (d_help c)) &&
      match r with
      | DRan id args view =>
          match d_ran c with
          | [(id', args', view')] =>
              (negb (dm_fn m) || Nat.eqb id id') &&
              (negb (dm_args m) || strs_eqb args args') &&
              (negb (dm_view m) || view_eqb view view') &&
              (negb (dm_err m) || match d_err c with None => true | Some _ => false end) &&
              (negb (dm_writer m) || str_eqb [] (d_writer c))
          | _ => negb (dm_fn m)
          end
      | DHelp txt =>
          (negb (dm_fn m) || match d_ran c with [] => true | _ => false end) &&
          (negb (dm_err m) || match d_err c with Some (_, true, _) => true | _ => false end) &&
          (negb (dm_writer m) || str_eqb txt (d_writer c))
      | DRootHelp txt =>
          (negb (dm_fn m) || match d_ran c with [] => true | _ => false end) &&
          (negb (dm_err m) || match d_err c with None => true | _ => false end) &&
          (negb (dm_writer m) || str_eqb txt (d_writer c))
      | DErr e =>
          (negb (dm_fn m) || match d_ran c with [] => true | _ => false end) &&
          (negb (dm_err m) || match d_err c with
                              | Some (msg, false, p) => str_eqb msg (e_msg e) && Bool.eqb p (e_parsing e)
                              | _ => false
                              end) &&
          (negb (dm_writer m) || str_eqb [] (d_writer c))
      end
  end.

Fixpoint dmismatches_from (i : nat) (pm : mask) (m : dmask) (cs : list dcase) : list nat :=
  match cs with
  | [] => []
  | c :: cs' => if check_dcase pm m c then dmismatches_from (S i) pm m cs' else i :: dmismatches_from (S i) pm m cs'
  end.
Definition dmismatches := dmismatches_from 0.

Definition D3 (m : str) (h p : bool) : str * bool * bool := (m, h, p).
Definition R3 (id : nat) (args : list str) (view : list (str * ostate)) : nat * list str * list (str * ostate) := (id, args, view).

(* ---- builder correspondence: the tree built by the model from the operation list against the
        dump of the tree the real API built ---- *)
From GO Require Import Model.Build.

Record bcase := mkBCase {
  bc_name : str; bc_desc : str;
  bc_ops : list bop;
  bc_env : list (str * str);
  bc_ftab : list (str * option N);
  bc_panics : bool;            (* the real definition panicked *)
  bc_specs : list ospec;       (* dump of the real tree *)
  bc_root : node;
  bc_store : list ostate
}.

Definition opt_eqb {A} (f : A -> A -> bool) (a b : option A) : bool :=
  match a, b with Some x, Some y => f x y | None, None => true | _, _ => false end.

Definition umode_eqb (a b : umode) : bool :=
  match a, b with Fail, Fail | Warn, Warn | Pass, Pass => true | _, _ => false end.

Definition fnref_eqb (a b : fnref) : bool :=
  match a, b with
  | FnNone, FnNone | FnHelp, FnHelp => true
  | FnUser x, FnUser y => Nat.eqb x y
  | _, _ => false
  end.

Definition pair_str_eqb (a b : str * str) : bool := str_eqb (fst a) (fst b) && str_eqb (snd a) (snd b).

(* Which fields of the definition tree are compared depends on what the property reads from it:
   every check compares what the parser uses (keys and ids, kinds, bounds, valid values, defaults,
   environment, unknown mode, require order); [bm_help] adds what only the help text shows
   (descriptions, argument names, default texts, the displayed alias list, synopsis arguments),
   [bm_compl] what only completion uses (suggestions and their functions), [bm_req] what Dispatch
   uses (required flag and message, command functions, help command name). *)
Record bmask := mkBMask { bm_help : bool; bm_compl : bool; bm_req : bool }.
Definition bmask_all := mkBMask true true true.

Definition on (b : bool) (t : bool) : bool := negb b || t.

(* the order of the argument suggestions is not observable (completions are sorted): compare sorted *)
Definition info_eqb (m : bmask) (a b : ninfo) : bool :=
  str_eqb (ni_name a) (ni_name b) && umode_eqb (ni_umode a) (ni_umode b) &&
  Bool.eqb (ni_reqorder a) (ni_reqorder b) &&
  on (bm_help m) (str_eqb (ni_desc a) (ni_desc b) && list_eqb pair_str_eqb (ni_synargs a) (ni_synargs b)) &&
  on (bm_req m) (str_eqb (ni_helpname a) (ni_helpname b) && fnref_eqb (ni_fn a) (ni_fn b)) &&
  on (bm_compl m) (strs_eqb (sort_strs (ni_suggestions a)) (sort_strs (ni_suggestions b)) &&
                   list_eqb Nat.eqb (ni_sfns a) (ni_sfns b)).

Fixpoint node_eqb (m : bmask) (fuel : nat) (a b : node) : bool :=
  match fuel with
  | O => false
  | S f =>
      info_eqb m (n_info a) (n_info b) &&
      list_eqb (fun x y => str_eqb (fst x) (fst y) && Nat.eqb (snd x) (snd y)) (n_opts a) (n_opts b) &&
      list_eqb (fun x y => str_eqb (fst x) (fst y) && node_eqb m f (snd x) (snd y)) (n_cmds a) (n_cmds b)
  end.

Definition spec_eqb (m : bmask) (a b : ospec) : bool :=
  str_eqb (os_name a) (os_name b) && kind_eqb (os_kind a) (os_kind b) &&
  Nat.eqb (os_min a) (os_min b) && Nat.eqb (os_max a) (os_max b) &&
  strs_eqb (os_valid a) (os_valid b) && str_eqb (os_validq a) (os_validq b) &&
  Bool.eqb (os_booldef a) (os_booldef b) && str_eqb (os_env a) (os_env b) &&
  on (bm_req m) (Bool.eqb (os_required a) (os_required b) && str_eqb (os_reqmsg a) (os_reqmsg b)) &&
  on (bm_help m) (strs_eqb (os_aliases a) (os_aliases b) && str_eqb (os_defstr a) (os_defstr b) &&
                  str_eqb (os_desc a) (os_desc b) && str_eqb (os_argname a) (os_argname b)) &&
  on (bm_compl m) (strs_eqb (os_suggested a) (os_suggested b) && opt_eqb Nat.eqb (os_sfn a) (os_sfn b)).

Definition run_bcase (c : bcase) : option (node * list ospec * list ostate) :=
  match build (pf_of (bc_ftab c)) (bc_env c) (bc_name c) (bc_desc c) (bc_ops c) with
  | None => None
  | Some b => Some (canon (to_node 64 (b_root b)) (b_specs b) (b_store b))
  end.

Definition check_bcase_with (m : bmask) (c : bcase) : bool :=
  match run_bcase c with
  | None => bc_panics c
  | Some (r, sp, st) =>
      negb (bc_panics c) &&
      let '(r', sp', st') := canon (bc_root c) (bc_specs c) (bc_store c) in
      node_eqb m 64 r r' && list_eqb (spec_eqb m) sp sp' && list_eqb (state_eqb mask_all) st st'
  end.

Definition check_bcase (c : bcase) : bool := check_bcase_with bmask_all c.

Fixpoint bmismatches_from (i : nat) (m : bmask) (cs : list bcase) : list nat :=
  match cs with
  | [] => []
  | c :: cs' => if check_bcase_with m c then bmismatches_from (S i) m cs' else i :: bmismatches_from (S i) m cs'
  end.
Definition bmismatches := bmismatches_from 0.

(* ---- completion correspondence ---- *)
From GO Require Import Model.Complete.

Record ccase := mkCCase {
  cc_md : mode; cc_lower : bool; cc_specs : list ospec; cc_root : node; cc_st0 : list ostate;
  cc_ftab : list (str * option N);
  cc_zsh : bool;                 (* ZSHELL set *)
  cc_line : str;                 (* COMP_LINE *)
  cc_args : list str;            (* the arguments given to Parse (bash: command, current word, previous word) *)
  cc_stdout : str;               (* bytes on the completion writer *)
  cc_stderr : str;               (* bytes on Writer *)
  cc_exits : list nat;           (* codes passed to the exit function *)
  cc_fns : nat                   (* user CommandFn invocations (must be 0) *)
}.

Definition run_ccase (c : ccase) : cresult :=
  complete (pf_of (cc_ftab c)) (cc_md c) (cc_lower c) (cc_specs c) fam_vfn fam_afn
           (if cc_zsh c then Zsh else Bash) (cc_root c) (cc_st0 c) (comp_words (cc_line c) (cc_args c)).

Definition check_ccase (c : ccase) : bool :=
  let r := run_ccase c in
  str_eqb (comp_stdout r) (cc_stdout c) && str_eqb (comp_stderr r) (cc_stderr c) &&
  list_eqb Nat.eqb (cc_exits c) [124%nat] && Nat.eqb (cc_fns c) 0 &&
  Nat.eqb (List.length (cc_st0 c)) (List.length (cc_specs c)) && wf_nodeb 64 (List.length (cc_specs c)) (cc_root c).

Fixpoint cmismatches_from (i : nat) (cs : list ccase) : list nat :=
  match cs with
  | [] => []
  | c :: cs' => if check_ccase c then cmismatches_from (S i) cs' else i :: cmismatches_from (S i) cs'
  end.
Definition cmismatches := cmismatches_from 0.

(* ---- DAG correspondence: construction history, DepthFirstSort, and acceptance of the observed
        controlled-schedule trace by the transition system ---- *)
From GO Require Import Model.Dag.

Inductive oevent :=
| OEnter (v : vid) (k : nat)
| OExit (v : vid) (k : nat) (r : outcome)
| OCancel
| OQuiet.      (* the harness saw no event for the grace period *)

Record gcase := mkGCase {
  gc_ops : list gop;
  gc_serial : bool;
  gc_cap : N;
  gc_dot : str;                     (* Graph.String() *)
  gc_dfs : option (list vid);       (* DepthFirstSort: Some order | None = cycle error *)
  gc_events : list oevent;
  gc_nil : bool;                    (* Run returned nil *)
  gc_result : list gerr;            (* entries of the *Errors value otherwise *)
  gc_hang : bool
}.

Definition gerr_eqb (a b : gerr) : bool :=
  match a, b with
  | XNilTask, XNilTask | XMissingID, XMissingID | XCycle, XCycle | XCancel, XCancel => true
  | XMissingFn x, XMissingFn y | XTask x, XTask y | XSkipped x, XSkipped y | XNotFound x, XNotFound y => str_eqb x y
  | XDupDep a1 b1, XDupDep a2 b2 => str_eqb a1 a2 && str_eqb b1 b2
  | _, _ => false
  end.

(* multiset equality of error entries *)
Fixpoint remove_gerr (x : gerr) (l : list gerr) : option (list gerr) :=
  match l with
  | [] => None
  | y :: r => if gerr_eqb x y then Some r else match remove_gerr x r with Some r' => Some (y :: r') | None => None end
  end.
Fixpoint gerrs_same (a b : list gerr) : bool :=
  match a with
  | [] => match b with [] => true | _ => false end
  | x :: a' => match remove_gerr x b with Some b' => gerrs_same a' b' | None => false end
  end.

Section Accept.
  Variable g : graph.
  Variable cf : config.
  Notation dstep := (dstep g cf).

  Definition try_label (st : dstate) (l : label) : dstate * bool :=
    match dstep st l with Some st' => (st', true) | None => (st, false) end.

  (* one round of what the scheduler does without any task function being involved: receive
     finished threads and helper goroutines, launch vertices that do not get a real thread
     (skipped ones, or any while errors are recorded), notice a cancellation *)
  Definition first_some {A} (f : vid -> option A) (l : list vid) : option A :=
    List.fold_left (fun acc v => match acc with Some _ => acc | None => f v end) l None.

  Definition pseudo_pick (st : dstate) (v : vid) : option dstate :=
    if eligible g st v && (status_eqb (d_status st v) Skip ||
                           match d_errs (ctx_check st) with [] => false | _ => true end)
    then dstep st (LPick v) else None.

  (* a vertex with negative retries never enters its function (the attempt loop runs zero times):
     its thread takes a slot and reports nil without any observable event *)
  Definition silent (v : vid) : bool := Z.ltb (retries g v) 0.
  Definition silent_start (st : dstate) (v : vid) : option dstate :=
    if silent v then match d_thread st v with Waiting => dstep st (LStart v) | _ => None end else None.
  Definition silent_pick (st : dstate) (v : vid) : option dstate :=
    if silent v && eligible g st v then dstep st (LPick v) else None.

  (* the moves the scheduler makes without any observable event, in the order it makes them *)
  Definition drain_step (st : dstate) : option dstate :=
    match first_some (fun v => dstep st (LRecvReal v)) (vids g) with
    | Some s => Some s
    | None =>
        match d_pseudo st with
        | (v, b) :: _ => dstep st (LRecvPseudo v b)
        | [] =>
            match first_some (pseudo_pick st) (vids g) with
            | Some s => Some s
            | None =>
                match first_some (silent_pick st) (vids g) with
                | Some s => Some s
                | None => if d_cancelled st && negb (d_handled st) then dstep st LIdle else None
                end
            end
        end
    end.

  Fixpoint drain (fuel : nat) (st : dstate) : dstate :=
    match fuel with
    | O => st
    | S f => match drain_step st with Some s => drain f s | None => st end
    end.

  Definition FUEL : nat := 4 * List.length (vids g) * List.length (vids g) + 16.

  (* When a silent thread takes its slot relative to the observable starts is not visible in the
     trace: [variants] lists the drained state with 0, 1, 2, ... silent threads started (each start
     followed by the scheduler's reaction); [eager] is the last of them, the only one possible at
     a quiescent point. *)
  Fixpoint variants (fuel : nat) (st : dstate) : list dstate :=
    let s0 := drain FUEL st in
    match fuel with
    | O => [s0]
    | S f => match first_some (silent_start s0) (vids g) with
             | Some s1 => s0 :: variants f s1
             | None => [s0]
             end
    end.

  Fixpoint eager (fuel : nat) (st : dstate) : dstate :=
    let s0 := drain FUEL st in
    match fuel with
    | O => s0
    | S f => match first_some (silent_start s0) (vids g) with
             | Some s1 => eager f s1
             | None => s0
             end
    end.

  Definition VF : nat := S (List.length (vids g)).

  (* at a quiescent point every vertex the scheduler can launch has been launched *)
  Fixpoint pick_all (fuel : nat) (st : dstate) : dstate :=
    match fuel with
    | O => st
    | S f => match first_some (fun v => dstep st (LPick v)) (vids g) with
             | Some s => pick_all f (eager VF s)
             | None => st
             end
    end.

  (* a waiting thread that could take a slot means the implementation is not work conserving *)
  Definition startable (st : dstate) : bool :=
    existsb (fun v => match dstep st (LStart v) with Some _ => true | None => false end) (vids g).

  Inductive averdict := AOk (st : dstate) | ABad (why : nat).
  (* why: 1 Enter not allowed (dependencies / errors / cancellation), 2 Enter without capacity,
     3 attempt numbering, 4 Exit of a task that is not running, 5 ready task not started,
     6 the trace ends but the model cannot return, 7 result differs, 8 no placement of the
     unobservable (negative-retries) tasks fits the trace *)

  (* one event from one drained state *)
  Definition enter_from (st1 : dstate) (v : vid) : averdict :=
    let st2 := match d_thread st1 v with
               | Waiting => Some st1
               | _ => dstep st1 (LPick v)
               end in
    match st2 with
    | None => ABad 1
    | Some s2 =>
        match d_thread s2 v with
        | Waiting => match dstep s2 (LStart v) with Some s3 => AOk s3 | None => ABad 2 end
        | _ => ABad 1
        end
    end.

  Definition accept_event (st : dstate) (e : oevent) : list averdict :=
    match e with
    | OEnter v O => List.map (fun st1 => enter_from st1 v) (variants VF st)
    | OEnter v (S k) =>
        [match d_thread st v with Running k' => if Nat.eqb k' (S k) then AOk st else ABad 3 | _ => ABad 3 end]
    | OExit v k r =>
        [match d_thread st v with
         | Running k' => if Nat.eqb k k' then match dstep st (LExit v r) with Some s => AOk s | None => ABad 4 end else ABad 3
         | _ => ABad 4
         end]
    | OCancel => [match dstep st LCancel with Some s => AOk (eager VF s) | None => AOk st end]
    | OQuiet =>
        let st1 := pick_all FUEL (eager VF st) in
        [if startable st1 then ABad 5 else AOk st1]
    end.

  Definition oks (l : list averdict) : list dstate :=
    flat_map (fun a => match a with AOk s => [s] | ABad _ => [] end) l.

  (* all states the trace can lead to (bounded: at most 64 are kept) *)
  Fixpoint accept_all (sts : list dstate) (es : list oevent) : list dstate :=
    match es with
    | [] => sts
    | e :: r => accept_all (firstn 64 (oks (flat_map (fun st => accept_event st e) sts))) r
    end.

  (* the first reason on the path that starts every silent thread as late as possible *)
  Fixpoint accept (st : dstate) (es : list oevent) : averdict :=
    match es with
    | [] => AOk st
    | e :: r => match accept_event st e with
                | AOk s :: _ => accept s r
                | ABad w :: _ => ABad w
                | [] => ABad 8
                end
    end.

  (* why no path accepts the trace: at the first event that no surviving state can take, the
     verdict "a ready task was not started" (5, the one a premature quiescent point produces) if any
     state gave it, otherwise the first verdict; 0 when some path accepts every event *)
  Fixpoint accept_why (sts : list dstate) (es : list oevent) : nat :=
    match es with
    | [] => 0%nat
    | e :: r =>
        let rs := flat_map (fun st => accept_event st e) sts in
        match firstn 64 (oks rs) with
        | [] =>
            if existsb (fun a => match a with ABad 5 => true | _ => false end) rs then 5%nat
            else match flat_map (fun a => match a with ABad w => [w] | AOk _ => [] end) rs with
                 | w :: _ => w
                 | [] => 8%nat
                 end
        | sts' => accept_why sts' r
        end
    end.

  (* after the last event: everything left is skipped by the scheduler, then Run returns *)
  Definition finish_run (st : dstate) : option dstate :=
    let st1 := pick_all FUEL (eager VF st) in
    dstep st1 LReturn.
End Accept.

(* direct trace predicates (no transition system): the properties read off the observed events *)
Definition final_ok_before (es : list oevent) (v : vid) : bool :=
  existsb (fun e => match e with OExit u _ ONil => str_eqb u v | _ => false end) es.

Fixpoint p13_deps (g : graph) (seen : list oevent) (es : list oevent) : bool :=
  match es with
  | [] => true
  | e :: r =>
      (match e with
       | OEnter v _ => forallb (fun c => final_ok_before seen c || Z.ltb (v_retries (vget g c)) 0) (v_children (vget g v))
       | _ => true
       end) && p13_deps g (seen ++ [e]) r
  end.

Fixpoint p15_bound (cap : N) (running : nat) (es : list oevent) : bool :=
  match es with
  | [] => true
  | OEnter _ _ :: r => N.leb (N.of_nat (S running)) cap && p15_bound cap (S running) r
  | OExit _ _ _ :: r => p15_bound cap (Nat.pred running) r
  | _ :: r => p15_bound cap running r
  end.

(* Run returned before the loop: no task function may have been entered *)
Definition no_task_events (es : list oevent) : bool :=
  forallb (fun e => match e with OEnter _ _ | OExit _ _ _ => false | _ => true end) es.

Definition check_gcase (c : gcase) : bool :=
  let g := build_graph (gc_ops c) in
  let cf := mkConfig (gc_serial c) (gc_cap c) in
  (* construction history: the dot text lists every vertex and edge in creation order *)
  str_eqb (dot_text [103] g) (gc_dot c) &&
  (* DepthFirstSort: an error exactly when the model finds a cycle; otherwise a valid order *)
  (match gc_dfs c, dfs_sort g (keys (g_vs g)) with
   | Some l, Some (inl _) => valid_topo g l
   | None, Some (inr _) => true
   | _, _ => false
   end) &&
  negb (gc_hang c) &&
  match run_prelude g (keys (g_vs g)) with
  | PreErrs errs => no_task_events (gc_events c) && negb (gc_nil c) && gerrs_same errs (gc_result c)
  | PreNil => no_task_events (gc_events c) && gc_nil c
  | PreCycle => no_task_events (gc_events c) && negb (gc_nil c) && gerrs_same [XCycle] (gc_result c)
  | PreLoop =>
      p13_deps g [] (gc_events c) &&
      p15_bound (if gc_serial c then 1 else gc_cap c) 0 (gc_events c) &&
      existsb (fun st =>
          match finish_run g cf st with
          | None => false
          | Some fin =>
              match d_errs fin with
              | [] => gc_nil c
              | errs => negb (gc_nil c) && gerrs_same errs (gc_result c)
              end
          end) (accept_all g cf [init_state []] (gc_events c))
  end.

Definition explain_gcase (c : gcase) : nat :=
  let g := build_graph (gc_ops c) in
  let cf := mkConfig (gc_serial c) (gc_cap c) in
  if negb (str_eqb (dot_text [103] g) (gc_dot c)) then 20
  else if gc_hang c then 21
  else match run_prelude g (keys (g_vs g)) with
       | PreLoop =>
           if negb (p13_deps g [] (gc_events c)) then 13
           else if negb (p15_bound (if gc_serial c then 1 else gc_cap c) 0 (gc_events c)) then 15
           else match accept_all g cf [init_state []] (gc_events c) with
                | [] => match accept_why g cf [init_state []] (gc_events c) with O => 8 | w => w end
                | sts => if existsb (fun st => match finish_run g cf st with Some _ => true | None => false end) sts then 7 else 6
                end
       | _ => 22
       end.

Fixpoint gmismatches_from (i : nat) (cs : list gcase) : list nat :=
  match cs with
  | [] => []
  | c :: cs' => if check_gcase c then gmismatches_from (S i) cs' else i :: gmismatches_from (S i) cs'
  end.
Definition gmismatches := gmismatches_from 0.
