(* Extraction of the executable model for the correspondence driver.
   Only ExtrOcamlBasic: bool, option, unit, list, prod, sumbool, sumor map to OCaml's own types;
   nat, positive, N, Z, ascii, string stay the extracted inductive types. *)
From Coq Require Import ExtrOcamlBasic.
From GO Require Import Base.Str Model.Tokenizer Model.Option Model.Tree Model.Parse Model.Build Model.Complete Model.Dag Run.Check.
Extraction Language OCaml.
Extraction "model.ml" check_case check_tcase check_dcase run_dcase dmask_all check_bcase check_bcase_with mkBMask run_bcase canon check_ccase run_ccase comp_stdout comp_stderr check_gcase explain_gcase model_view mask_all mkMask is_option N.of_nat N.mul N.add Z.mul Z.add Z.opp Z.of_N N.to_nat.
