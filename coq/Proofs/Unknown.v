(* Unknown options are never silently dropped (C08). *)
From GO Require Import Base.Str Base.Utf8 Model.Tokenizer Model.Option Model.Tree Model.Parse.
From GO Require Import Proofs.TokLemmas Proofs.ParseLemmas Proofs.Labels.
Open Scope N_scope.

(* ---- the policy applied after the walk ---- *)

Definition lv_mode (l : level) : umode := ni_umode (n_info (lv_node l)).

Definition failing (l : level) : Prop := lv_mode l = Fail /\ lv_unk l <> [].

Definition warnings_of (l : level) : list str :=
  match lv_mode l with Warn => List.map msg_warn_unknown (lv_unk l) | _ => [] end.

Lemma unknown_policy_fail names :
  unknown_policy Fail names = ([], match names with [] => None | n :: _ => Some (e_unknown n) end).
Proof. destruct names; reflexivity. Qed.

Lemma unknown_policy_warn names : unknown_policy Warn names = (List.map msg_warn_unknown names, None).
Proof. induction names as [|n r IH]; simpl; [reflexivity|]. rewrite IH. reflexivity. Qed.

Lemma unknown_policy_pass names : unknown_policy Pass names = ([], None).
Proof. induction names as [|n r IH]; simpl; auto. Qed.

Lemma unknown_policy_level l :
  unknown_policy (lv_mode l) (lv_unk l) =
    (warnings_of l,
     match lv_mode l, lv_unk l with Fail, n :: _ => Some (e_unknown n) | _, _ => None end).
Proof.
  unfold warnings_of. destruct (lv_mode l).
  - rewrite unknown_policy_fail. destruct (lv_unk l); reflexivity.
  - rewrite unknown_policy_warn. destruct (lv_unk l); reflexivity.
  - rewrite unknown_policy_pass. destruct (lv_unk l); reflexivity.
Qed.

(* success: no level in Fail mode saw an unknown option; the warnings are exactly those of the Warn
   levels, in command-line order *)
Lemma policy_levels_ok ls : forall w r,
  policy_levels ls = (w, None, r) ->
  Forall (fun l => ~ failing l) ls /\ w = flat_map warnings_of ls.
Proof.
  induction ls as [|l ls IH]; intros w r H; simpl in H.
  - inv H. split; [constructor | reflexivity].
  - fold (lv_mode l) in H. rewrite unknown_policy_level in H.
    assert (NF : match lv_mode l, lv_unk l with Fail, _ :: _ => False | _, _ => True end -> ~ failing l).
    { unfold failing. intros X [A B]. rewrite A in X. destruct (lv_unk l); [apply B; reflexivity | exact X]. }
    destruct (lv_mode l) eqn:Md; destruct (lv_unk l) as [|n ns] eqn:U; try discriminate;
      destruct (policy_levels ls) as [[w2 e2] r2] eqn:E; inv H;
      destruct (IH _ _ eq_refl) as [F W];
      (split; [constructor; [apply NF; exact I | exact F] | simpl; rewrite W; reflexivity]).
Qed.

(* failure: the first level (root first = command-line order) in Fail mode with an unknown option
   decides, and the error names the first unknown option recorded there *)
Lemma policy_levels_fail ls1 : forall l ls2 n ns,
  Forall (fun l => ~ failing l) ls1 -> lv_mode l = Fail -> lv_unk l = n :: ns ->
  exists r, policy_levels (ls1 ++ l :: ls2) = (flat_map warnings_of ls1, Some (e_unknown n), r).
Proof.
  induction ls1 as [|a ls1 IH]; intros l ls2 n ns F Md U; simpl.
  - fold (lv_mode l). rewrite unknown_policy_level, Md, U. unfold warnings_of. rewrite Md. eauto.
  - inversion F as [|? ? Na F']; subst. fold (lv_mode a). rewrite unknown_policy_level.
    destruct (IH l ls2 n ns F' Md U) as [r Hr]. rewrite Hr.
    destruct (lv_mode a) eqn:Ma; destruct (lv_unk a) eqn:Ua; simpl; eauto.
    exfalso. apply Na. split; [exact Ma | rewrite Ua; discriminate].
Qed.

Section Unknown.
  Variable pf : str -> option N.
  Variable md : mode.
  Variable lower : bool.
  Variable ro_on : bool.
  Variable specs : list ospec.

  Notation head := (head pf md lower ro_on specs).
  Notation step := (step pf md lower ro_on specs).
  Notation run := (run pf md lower ro_on specs).
  Notation finish := (finish pf lower specs).
  Notation walk := (walk pf md lower ro_on specs).
  Notation parse := (parse pf md lower ro_on specs).
  Notation label_of := (label_of pf md lower ro_on specs).
  Notation head_label := (head_label md ro_on).

  Definition cur_level (st : pst) : level := mkLevel (cur st) (text st) (unk st).

  (* some level in Fail mode has recorded an unknown option *)
  Definition has_failing (st : pst) : Prop := failing (cur_level st) \/ Exists failing (up st).

  Lemma has_failing_frame a b : same_frame a b -> has_failing a -> has_failing b.
  Proof.
    unfold has_failing, cur_level, failing, lv_mode. intros (H1 & H2 & H3 & H4). simpl.
    rewrite H1, H2, H4. tauto.
  Qed.

  Lemma has_failing_levels st : has_failing st <-> Exists failing (levels_of st).
  Proof.
    unfold has_failing, levels_of, cur_level. simpl rev.
    rewrite Exists_app, Exists_cons, Exists_nil. split.
    - intros [H|H]; [right; left; exact H | left; apply Exists_rev; exact H].
    - intros [H|[H|[]]]; [right | left; exact H]. apply Exists_rev in H. rewrite rev_involutive in H. exact H.
  Qed.

  Lemma failing_add_text st l : failing (cur_level st) -> failing (cur_level (add_text st l)).
  Proof. unfold failing, cur_level, lv_mode. simpl. tauto. Qed.

  Lemma failing_add_unk st l : failing (cur_level st) -> failing (cur_level (add_unk st l)).
  Proof.
    unfold failing, cur_level, lv_mode. simpl. intros [A B]. split; [exact A|].
    destruct (unk st); [congruence | discriminate].
  Qed.

  (* the head of the loop: a Fail-mode level keeps its record, and a token labelled LDropped creates one *)
  Lemma head_failing st t st' :
    head st t = Ok st' -> (has_failing st \/ head_label st t = LDropped) -> has_failing st'.
  Proof.
    unfold Parse.head, Labels.head_label. intros H.
    destruct (str_eqb t DD).
    { inv H. intros [F|D]; [|discriminate]. eapply has_failing_frame; [|exact F]. auto with frame. }
    destruct (is_option md t) as [pairs is]. destruct is.
    - destruct (List.filter (is_unknown (n_opts (cur st))) pairs) as [|u us] eqn:U.
      + intros [F|D]; [|discriminate]. eapply has_failing_frame; [eapply advance_frame; exact H | exact F].
      + destruct (ro_on && ni_reqorder (n_info (cur st)))%bool.
        * inv H. intros [[F|F]|D]; [left | right | discriminate]; simpl; auto.
        * destruct (ni_umode (n_info (cur st))) eqn:Md; intros HF;
            (eapply has_failing_frame; [eapply advance_frame; exact H|]).
          -- (* Fail: the names are recorded at this level *)
             left. unfold failing, cur_level, lv_mode. simpl. split; [exact Md|].
             destruct (unk st); simpl; discriminate.
          -- destruct HF as [[F|F]|D]; [left | right | discriminate]; auto.
             unfold failing, cur_level, lv_mode in *. simpl in *. destruct F as [A B]. congruence.
          -- destruct HF as [[F|F]|D]; [left | right | discriminate]; auto.
             unfold failing, cur_level, lv_mode in *. simpl in *. destruct F as [A B]. congruence.
    - destruct (alookup t (n_cmds (cur st))) as [child|].
      + inv H. intros [[F|F]|D]; [| |discriminate]; right; simpl; [left; exact F | right; exact F].
      + destruct (ro_on && ni_reqorder (n_info (cur st)))%bool; inv H; intros [[F|F]|D];
          try discriminate; [left | right | left | right]; simpl; auto.
  Qed.

  Lemma step_failing st t st' :
    step st t = Ok st' -> (has_failing st \/ label_of st t = LDropped) -> has_failing st'.
  Proof.
    unfold Parse.step, Labels.label_of. intros H. destruct (ph st) as [|oid key i pend tok|].
    - apply head_failing; exact H.
    - destruct (nth_error specs oid) as [sp|]; [|discriminate].
      destruct (try_cur pf md lower specs st _ t) as [[s1|]|] eqn:E1; try discriminate.
      + intros [F|D]; [|discriminate]. apply try_cur_frame in E1 as [F1 _]. apply settle_frame in H.
        eapply has_failing_frame; [exact H|]. eapply has_failing_frame; [exact F1 | exact F].
      + destruct (offer pf md lower specs st tok pend t) as [[s2 b]|] eqn:E2; [|discriminate].
        pose proof E2 as E2'. apply offer_frame in E2'. destruct b.
        * inv H. intros [F|D]; [|discriminate]. eapply has_failing_frame; eauto.
        * intros HF. eapply head_failing; [exact H|]. destruct HF as [F|D]; [left | right; exact D].
          eapply has_failing_frame; eauto.
    - inv H. intros [[F|F]|D]; [left | right | discriminate]; simpl; auto.
  Qed.

  Lemma run_failing args : forall st st',
    run st args = Ok st' -> (has_failing st \/ In LDropped (labels pf md lower ro_on specs st args)) -> has_failing st'.
  Proof.
    induction args as [|t r IH]; intros st st' H HF; simpl in *.
    - inv H. destruct HF as [F|[]]. exact F.
    - destruct (step st t) as [s1|] eqn:E; [|discriminate].
      apply (IH s1 st' H). destruct HF as [F|[D|I]].
      + left. eapply step_failing; eauto.
      + left. eapply step_failing; eauto.
      + right. exact I.
  Qed.

  (* C08, Fail mode: a token with an unknown option reaching the head of the loop at a level in Fail
     mode (label LDropped) makes Parse fail — it never returns a remaining list *)
  Theorem unknown_in_fail_mode_fails root st0 args :
    In LDropped (labels pf md lower ro_on specs (init root st0) args) ->
    exists w e, parse root st0 args = mkRes w (Err e).
  Proof.
    intros I. unfold Parse.parse.
    destruct (walk root st0 args) as [s|e] eqn:W; [|eauto].
    unfold Parse.walk in W. apply bind_ok in W as (s1 & R & F).
    assert (HF : has_failing s).
    { eapply has_failing_frame; [eapply finish_frame; exact F|]. eapply run_failing; [exact R|]. right; exact I. }
    destruct (match up s with [] => _ | _ => _ end); [eauto|].
    apply has_failing_levels in HF.
    destruct (policy_levels (levels_of s)) as [[w' e] r] eqn:P.
    destruct e; [eauto|]. exfalso.
    apply policy_levels_ok in P as [Fa _]. rewrite Forall_forall in Fa. rewrite Exists_exists in HF.
    destruct HF as (l & Il & Fl). exact (Fa l Il Fl).
  Qed.

  (* C08, what a successful Parse wrote: exactly the warnings of the Warn-mode levels *)
  Theorem warnings_of_success root st0 args w st rem :
    parse root st0 args = mkRes w (Ok (st, rem)) ->
    w = flat_map warnings_of (levels_of st) /\ Forall (fun l => ~ failing l) (levels_of st).
  Proof.
    unfold Parse.parse. intros H.
    destruct (walk root st0 args) as [s|] eqn:W; [|discriminate].
    destruct (match up s with [] => _ | _ => _ end); [discriminate|].
    destruct (policy_levels (levels_of s)) as [[w' e] r] eqn:P.
    destruct e; [discriminate|]. inv H.
    apply policy_levels_ok in P as [F Wn]. auto.
  Qed.

  (* C08: the unknown names of a token are recorded at the level it is given at, in order *)
  Theorem unknown_recorded st t st' :
    head st t = Ok st' -> t <> DD -> looks_like_option md t = true ->
    (ro_on && ni_reqorder (n_info (cur st)))%bool = false ->
    unk st' = unk st ++ List.map p_name (List.filter (is_unknown (n_opts (cur st))) (fst (is_option md t))).
  Proof.
    unfold Parse.head, looks_like_option. intros H D L RO.
    apply str_eqb_neq in D. rewrite D in H.
    destruct (is_option md t) as [pairs is]. simpl in *. subst is. rewrite RO in H.
    destruct (List.filter (is_unknown (n_opts (cur st))) pairs) as [|u us].
    - apply advance_frame in H as (_ & _ & _ & U). rewrite <- U, app_nil_r. reflexivity.
    - destruct (ni_umode (n_info (cur st))); apply advance_frame in H as (_ & _ & _ & U); rewrite <- U; reflexivity.
  Qed.
End Unknown.
