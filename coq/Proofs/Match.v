(* Option lookup: exact names, abbreviations, ambiguity, aliases (C05, C06). *)
From GO Require Import Base.Str Base.Sort Base.Utf8 Model.Tokenizer Model.Option Model.Tree Model.Parse.
From GO Require Import Proofs.TokLemmas Proofs.ParseLemmas.
From Coq Require Import Sorting.Permutation Sorting.Sorted.
Open Scope N_scope.

Definition pfx (p : str) (kv : str * nat) : bool := prefixb p (fst kv).

Lemma matches_exact tbl key oid : alookup key tbl = Some oid -> matches tbl key = [(key, oid)].
Proof. unfold matches. intros ->. reflexivity. Qed.

Lemma matches_prefix tbl p : alookup p tbl = None -> matches tbl p = List.filter (pfx p) tbl.
Proof. unfold matches. intros ->. reflexivity. Qed.

Lemma matches_sub tbl e kv : In kv (matches tbl e) -> In kv tbl /\ prefixb e (fst kv) = true.
Proof.
  unfold matches. destruct (alookup e tbl) as [oid|] eqn:E.
  - intros [<-|[]]. split; [apply alookup_In; exact E | apply prefixb_refl].
  - intros H. apply filter_In in H. exact H.
Qed.

(* a unique prefix resolves to the same table entry as the full key *)
Lemma matches_unique_prefix tbl p k oid :
  NoDup (keys tbl) -> matches tbl p = [(k, oid)] -> matches tbl k = [(k, oid)].
Proof.
  intros ND H. apply matches_exact. apply alookup_NoDup; [exact ND|].
  assert (I : In (k, oid) (matches tbl p)) by (rewrite H; left; reflexivity).
  apply matches_sub in I. tauto.
Qed.

(* all aliases of an option are exact keys *)
Lemma matches_key_wins tbl key oid others :
  alookup key tbl = Some oid ->
  (* even when the key is a prefix of other keys *)
  List.filter (pfx key) tbl = (key, oid) :: others \/ True ->
  matches tbl key = [(key, oid)].
Proof. intros H _. apply matches_exact; exact H. Qed.

Section Match.
  Variable pf : str -> option N.
  Variable md : mode.
  Variable lower : bool.
  Variable ro_on : bool.
  Variable specs : list ospec.

  Notation start_pair := (start_pair pf lower specs).
  Notation advance := (advance pf lower specs).
  Notation head := (head pf md lower ro_on specs).
  Notation step := (step pf md lower ro_on specs).

  (* start_pair looks at the pair's name only through [matches] and at the token only for the
     ambiguity message *)
  Lemma start_pair_same_match st tok1 tok2 n1 n2 a k oid :
    matches (n_opts (cur st)) n1 = [(k, oid)] -> matches (n_opts (cur st)) n2 = [(k, oid)] ->
    start_pair st tok1 (mkPair n1 a) = start_pair st tok2 (mkPair n2 a).
  Proof. unfold Parse.start_pair. simpl. intros -> ->. reflexivity. Qed.

  (* C05: ambiguity *)
  Theorem start_pair_ambiguous st tok p a :
    alookup p (n_opts (cur st)) = None ->
    (2 <= length (List.filter (pfx p) (n_opts (cur st))))%nat ->
    exists cands,
      start_pair st tok (mkPair p a) = Err (e_ambiguous tok cands) /\
      Sorted sle cands /\
      Permutation cands (keys (List.filter (pfx p) (n_opts (cur st)))).
  Proof.
    intros Hn Hl. unfold Parse.start_pair. simpl. rewrite (matches_prefix _ _ Hn).
    destruct (List.filter (pfx p) (n_opts (cur st))) as [|kv1 [|kv2 rest]] eqn:E; simpl in Hl; try lia.
    destruct kv1 as [k1 o1].
    exists (sort_strs (keys ((k1, o1) :: kv2 :: rest))). split; [reflexivity|].
    split; [apply sort_strs_sorted | apply sort_strs_perm].
  Qed.

  Lemma advance_single st tok1 tok2 p1 p2 :
    start_pair st tok1 p1 = start_pair st tok2 p2 ->
    advance st tok1 [p1] = advance st tok2 [p2].
  Proof.
    intros H. simpl. rewrite H. destruct (start_pair st tok2 p2) as [[[s c]|]|]; reflexivity.
  Qed.

  Lemma is_unknown_matches tbl n a k oid : matches tbl n = [(k, oid)] -> is_unknown tbl (mkPair n a) = false.
  Proof. unfold is_unknown. simpl. intros ->. reflexivity. Qed.

  (* C05/C06 at token level: two long-option tokens whose names resolve to the same table entry
     (an abbreviation and the full key it abbreviates) are processed identically, state for state *)
  Theorem head_same_match st n1 n2 e k oid :
    n1 <> [] -> n2 <> [] -> contains_byte EQ n1 = false -> contains_byte EQ n2 = false ->
    starts_with_eq_or_empty e ->
    matches (n_opts (cur st)) n1 = [(k, oid)] -> matches (n_opts (cur st)) n2 = [(k, oid)] ->
    head st (DASH :: DASH :: n1 ++ e) = head st (DASH :: DASH :: n2 ++ e).
  Proof.
    intros N1 N2 C1 C2 He M1 M2. unfold Parse.head.
    assert (D1 : str_eqb (DASH :: DASH :: n1 ++ e) DD = false).
    { apply str_eqb_neq. destruct n1; [congruence | discriminate]. }
    assert (D2 : str_eqb (DASH :: DASH :: n2 ++ e) DD = false).
    { apply str_eqb_neq. destruct n2; [congruence | discriminate]. }
    rewrite D1, D2. rewrite (is_option_long md n1 e N1 C1 He), (is_option_long md n2 e N2 C2 He).
    simpl List.filter. rewrite (is_unknown_matches _ _ _ _ _ M1), (is_unknown_matches _ _ _ _ _ M2).
    apply advance_single. eapply start_pair_same_match; eassumption.
  Qed.

  (* ... and so is the whole command line: replacing, at the head of the loop, an abbreviation by the
     full key (or any two spellings that resolve to the same entry) does not change the result of
     Parse: values, Called, CalledAs, remaining, error, warnings *)
  Theorem abbreviation_parse root st0 pre rest st n1 n2 e k oid :
    run pf md lower ro_on specs (init root st0) pre = Ok st -> ph st = PHead ->
    n1 <> [] -> n2 <> [] -> contains_byte EQ n1 = false -> contains_byte EQ n2 = false ->
    starts_with_eq_or_empty e ->
    matches (n_opts (cur st)) n1 = [(k, oid)] -> matches (n_opts (cur st)) n2 = [(k, oid)] ->
    parse pf md lower ro_on specs root st0 (pre ++ (DASH :: DASH :: n1 ++ e) :: rest) =
    parse pf md lower ro_on specs root st0 (pre ++ (DASH :: DASH :: n2 ++ e) :: rest).
  Proof.
    intros R P N1 N2 C1 C2 He M1 M2.
    assert (W : walk pf md lower ro_on specs root st0 (pre ++ (DASH :: DASH :: n1 ++ e) :: rest) =
                walk pf md lower ro_on specs root st0 (pre ++ (DASH :: DASH :: n2 ++ e) :: rest)).
    { unfold Parse.walk. rewrite !run_app, R. cbn [bind run].
      assert (S1 : forall t, step st t = head st t) by (intros t; unfold Parse.step; rewrite P; reflexivity).
      rewrite !S1. rewrite (head_same_match st n1 n2 e k oid N1 N2 C1 C2 He M1 M2). reflexivity. }
    unfold Parse.parse. rewrite W. reflexivity.
  Qed.

  (* ---- effect of a matched pair on the store ---- *)

  Lemma save_keeps_called sp os a os' :
    save pf lower sp os a = Ok os' -> o_called os' = o_called os /\ o_used os' = o_used os.
  Proof.
    unfold save. intros H.
    destruct a as [|a0 a'].
    - destruct (os_kind sp), (o_val os); inv H; auto.
    - destruct (negb (valid_ok sp (a0 :: a'))); [discriminate|].
      destruct (os_kind sp), (o_val os); try (inv H; auto; fail);
      repeat (match type of H with
              | context [match ?x with _ => _ end] => destruct x eqn:?
              | context [if ?x then _ else _] => destruct x eqn:?
              end; try discriminate);
      try (inv H; auto; fail);
      try (apply bind_ok in H as (x & _ & H); inv H; auto).
  Qed.

  Lemma nth_error_update_eq {A} n (x : A) l : (n < length l)%nat -> nth_error (update_nth n x l) n = Some x.
  Proof.
    revert n; induction l as [|y l IH]; intros [|n] H; simpl in *; try lia; auto. apply IH. lia.
  Qed.

  Lemma nth_error_update_neq {A} n m (x : A) l : n <> m -> nth_error (update_nth n x l) m = nth_error l m.
  Proof.
    revert n m; induction l as [|y l IH]; intros [|n] [|m] H; simpl; try congruence; auto.
  Qed.

  Lemma update_nth_length {A} n (x : A) l : length (update_nth n x l) = length l.
  Proof. revert n; induction l as [|y l IH]; intros [|n]; simpl; auto. Qed.

  (* a matched pair marks exactly its option called, under the key that matched *)
  Lemma start_pair_effect st tok p st' oid key i mn mx :
    start_pair st tok p = Ok (Some (st', (oid, key, i, mn, mx))) ->
    matches (n_opts (cur st)) (p_name p) = [(key, oid)] /\
    (exists os', nth_error (store st') oid = Some os' /\ o_called os' = true /\ o_used os' = key) /\
    (forall o, o <> oid -> nth_error (store st') o = nth_error (store st) o) /\
    i = length (p_args p).
  Proof.
    unfold Parse.start_pair. intros H.
    destruct (matches (n_opts (cur st)) (p_name p)) as [|[k o] [|]] eqn:M; try discriminate.
    destruct (nth_error specs o) as [sp|] eqn:S; [|discriminate].
    destruct (nth_error (store st) o) as [os|] eqn:O; [|discriminate].
    apply bind_ok in H as (os2 & Sv & H). inv H.
    apply save_keeps_called in Sv as [C U]. simpl in *.
    split; [reflexivity|]. split; [|split; [|reflexivity]].
    - exists os2. split; [|auto]. apply nth_error_update_eq. apply nth_error_Some. congruence.
    - intros o' Hn. apply nth_error_update_neq. congruence.
  Qed.

  (* values saved later keep the Called flag and the recorded alias *)
  Lemma save_to_effect st oid a st' :
    save_to pf lower specs st oid a = Ok st' ->
    (forall o, o <> oid -> nth_error (store st') o = nth_error (store st) o) /\
    (forall os, nth_error (store st) oid = Some os ->
       exists os', nth_error (store st') oid = Some os' /\ o_called os' = o_called os /\ o_used os' = o_used os).
  Proof.
    unfold Parse.save_to. intros H.
    destruct (nth_error specs oid) as [sp|]; [|discriminate].
    destruct (nth_error (store st) oid) as [os|] eqn:O; [|discriminate].
    apply bind_ok in H as (os2 & Sv & H). inv H. simpl. split.
    - intros o Hn. apply nth_error_update_neq. congruence.
    - intros os0 E. inv E. exists os2. split; [|apply save_keeps_called in Sv; exact Sv].
      apply nth_error_update_eq. apply nth_error_Some. congruence.
  Qed.
End Match.
