(* The tree with every table reversed (what the correspondence check evaluates the model on, mask
   character `o`) is an instance of PermParse.nsim for every tree whose tables have distinct keys. *)
From GO Require Import Base.Str Base.Utf8 Base.Sort Model.Tokenizer Model.Option Model.Tree Model.Parse Proofs.Perm Proofs.PermParse Run.Check.
From Coq Require Import Permutation Lia.
Open Scope nat_scope.

Fixpoint nsize (n : node) : nat :=
  match n with Node _ _ c => S (list_sum (List.map (fun kc => nsize (snd kc)) c)) end.

Lemma nsize_child i o c k a : In (k, a) c -> nsize a < nsize (Node i o c).
Proof.
  simpl. induction c as [|[k' a'] c IH]; intros H; [contradiction|]. simpl.
  destruct H as [E|H]; [inversion E; subst; lia|]. specialize (IH H). lia.
Qed.

(* distinct keys in every table of the tree *)
Inductive wfk : node -> Prop :=
| wfk_intro i o c : NoDup (keys o) -> NoDup (keys c) -> (forall k a, In (k, a) c -> wfk a) -> wfk (Node i o c).

Lemma nsim_refl_bound m : forall n, nsize n <= m -> wfk n -> nsim n n.
Proof.
  induction m as [|m IH]; intros n Hs W; [destruct n; simpl in Hs; lia|].
  destruct W as [i o c No Nc Wc]. apply nsim_intro; [apply Permutation_refl | exact No | | auto].
  intros k a H. exists a. split; [exact H|]. apply alookup_In in H.
  apply IH; [|eapply Wc; eauto]. pose proof (nsize_child i o c k a H). lia.
Qed.

Lemma nsim_refl n : wfk n -> nsim n n.
Proof. apply (nsim_refl_bound (nsize n)). lia. Qed.

Lemma alookup_app_nodup {V} k (l1 l2 : list (str * V)) :
  alookup k (l1 ++ l2) = match alookup k l1 with Some v => Some v | None => alookup k l2 end.
Proof. induction l1 as [|[k' v'] l1 IH]; simpl; [reflexivity|]. destruct (str_eqb k k'); auto. Qed.

Lemma alookup_rev {V} k (l : list (str * V)) : NoDup (keys l) -> alookup k (rev l) = alookup k l.
Proof.
  induction l as [|[k' v'] l IH]; intros ND; simpl; [reflexivity|].
  inversion ND as [|? ? Nk ND']; subst. rewrite alookup_app_nodup, (IH ND'). simpl.
  destruct (str_eqb_spec k k') as [->|N].
  - apply (proj2 (alookup_None k' l)) in Nk. rewrite Nk. reflexivity.
  - destruct (alookup k l); reflexivity.
Qed.

Lemma alookup_map {V W} (f : V -> W) k (l : list (str * V)) :
  alookup k (List.map (fun kc => (fst kc, f (snd kc))) l) = option_map f (alookup k l).
Proof. induction l as [|[k' v'] l IH]; simpl; [reflexivity|]. destruct (str_eqb k k'); auto. Qed.

Lemma keys_map {V W} (f : V -> W) (l : list (str * V)) : keys (List.map (fun kc => (fst kc, f (snd kc))) l) = keys l.
Proof. unfold keys. rewrite List.map_map. reflexivity. Qed.

Lemma nsim_rev_bound m : forall fuel n, nsize n <= m -> wfk n -> nsim n (rev_node fuel n).
Proof.
  induction m as [|m IH]; intros fuel n Hs W; [destruct n; simpl in Hs; lia|].
  destruct fuel as [|f]; [apply nsim_refl; exact W|].
  destruct W as [i o c No Nc Wc]. simpl. apply nsim_intro; [apply Permutation_rev | exact No | |].
  - intros k a H. rewrite alookup_rev by (rewrite keys_map; exact Nc).
    rewrite alookup_map, H. simpl. eexists. split; [reflexivity|].
    apply alookup_In in H. apply IH; [|eapply Wc; eauto]. pose proof (nsize_child i o c k a H). lia.
  - intros k H. rewrite alookup_rev by (rewrite keys_map; exact Nc). rewrite alookup_map, H. reflexivity.
Qed.

Theorem nsim_rev_node fuel n : wfk n -> nsim n (rev_node fuel n).
Proof. apply (nsim_rev_bound (nsize n)). lia. Qed.
