(* C20 for the help text as a whole: helpOutput of a level does not depend on the order of its
   option table or of its command table. *)
From GO Require Import Base.Str Base.Utf8 Base.Sort Model.Tokenizer Model.Option Model.Tree Model.Parse Model.Help Model.Dispatch.
From GO Require Import Proofs.HelpLemmas Proofs.Perm Proofs.PermParse.
From Coq Require Import Permutation Sorting.Sorted Lia.
Open Scope N_scope.

(* ---- sorting the command list by a unique name gives one result ---- *)
Definition sle_cmd (a b : str * str) : Prop := str_leb (fst a) (fst b) = true.

Lemma insert_cmd_perm x l : Permutation (insert_cmd x l) (x :: l).
Proof.
  induction l as [|y l IH]; simpl; [apply Permutation_refl|].
  destruct (str_leb (fst x) (fst y)); [apply Permutation_refl|].
  etransitivity; [apply perm_skip; exact IH | apply perm_swap].
Qed.

Lemma sort_cmds_perm' l : Permutation (sort_cmds l) l.
Proof. induction l as [|x l IH]; simpl; [constructor|]. etransitivity; [apply insert_cmd_perm | apply perm_skip; exact IH]. Qed.

Lemma insert_cmd_sorted x l : Sorted sle_cmd l -> Sorted sle_cmd (insert_cmd x l).
Proof.
  induction l as [|y l IH]; intros H; simpl.
  - repeat constructor.
  - destruct (str_leb (fst x) (fst y)) eqn:E.
    + constructor; [exact H | constructor; exact E].
    + inversion H as [|? ? Hs Hh]; subst. constructor; [apply IH; exact Hs|].
      assert (Hyx : sle_cmd y x).
      { unfold sle_cmd. destruct (str_leb_total (fst x) (fst y)) as [T|T]; congruence. }
      destruct l as [|z l]; simpl; [constructor; exact Hyx|].
      destruct (str_leb (fst x) (fst z)); constructor; [exact Hyx|].
      inversion Hh; subst. assumption.
Qed.

Lemma sort_cmds_sorted l : Sorted sle_cmd (sort_cmds l).
Proof. induction l as [|x l IH]; simpl; [constructor|]. apply insert_cmd_sorted. exact IH. Qed.

Lemma sle_cmd_trans : Relations_1.Transitive sle_cmd.
Proof. intros a b c. apply str_leb_trans. Qed.

Lemma sorted_cmds_unique l1 : forall l2,
  Sorted sle_cmd l1 -> Sorted sle_cmd l2 -> Permutation l1 l2 -> NoDup (List.map fst l1) -> l1 = l2.
Proof.
  induction l1 as [|x l1 IH]; intros l2 S1 S2 P ND.
  - apply Permutation_nil in P. auto.
  - destruct l2 as [|y l2]; [apply Permutation_sym, Permutation_nil in P; discriminate|].
    apply Sorted_StronglySorted in S1; [|exact sle_cmd_trans].
    apply Sorted_StronglySorted in S2; [|exact sle_cmd_trans].
    inversion S1 as [|? ? S1' F1]; subst. inversion S2 as [|? ? S2' F2]; subst.
    assert (Hxy : x = y).
    { assert (Ix : In x (y :: l2)) by (eapply Permutation_in; [exact P | left; reflexivity]).
      assert (Iy : In y (x :: l1)) by (eapply Permutation_in; [apply Permutation_sym; exact P | left; reflexivity]).
      destruct Ix as [->|Ix]; [reflexivity|]. destruct Iy as [->|Iy]; [reflexivity|].
      rewrite Forall_forall in F1, F2.
      assert (En : fst x = fst y) by (apply str_leb_antisym; [apply F1 | apply F2]; assumption).
      exfalso. simpl in ND. inversion ND as [|? ? Hn _]; subst. apply Hn. rewrite En. apply in_map. exact Iy. }
    subst y. f_equal. apply IH.
    + apply StronglySorted_Sorted; assumption.
    + apply StronglySorted_Sorted; assumption.
    + eapply Permutation_cons_inv; eassumption.
    + simpl in ND. inversion ND; assumption.
Qed.

Lemma sort_cmds_order_independent l l' :
  Permutation l l' -> NoDup (List.map fst l) -> sort_cmds l = sort_cmds l'.
Proof.
  intros P ND. apply sorted_cmds_unique; try apply sort_cmds_sorted.
  - etransitivity; [apply sort_cmds_perm'|]. etransitivity; [exact P|]. apply Permutation_sym, sort_cmds_perm'.
  - eapply Permutation_NoDup; [|exact ND]. apply Permutation_map. apply Permutation_sym. apply sort_cmds_perm'.
Qed.

Lemma help_command_list_order_independent l l' :
  Permutation l l' -> NoDup (List.map fst l) -> help_command_list l = help_command_list l'.
Proof.
  intros P ND. unfold help_command_list.
  destruct l as [|x l0]; [apply Permutation_nil in P; subst; reflexivity|].
  destruct l' as [|y l0']; [apply Permutation_sym, Permutation_nil in P; discriminate|].
  rewrite (max_len_perm _ _ (Permutation_map fst P)).
  rewrite (sort_cmds_order_independent _ _ P ND). reflexivity.
Qed.

Section HelpSim.
  Variable specs : list ospec.

  (* the command table as (key, info) pairs *)
  Definition cmd_infos (c : list (str * node)) : list (str * ninfo) :=
    List.map (fun kc => (fst kc, n_info (snd kc))) c.

  Lemma cmd_infos_keys c : List.map fst (cmd_infos c) = keys c.
  Proof. unfold cmd_infos, keys. rewrite List.map_map. reflexivity. Qed.

  Lemma cmd_infos_perm n n' :
    nsim n n' -> NoDup (keys (n_cmds n)) -> NoDup (keys (n_cmds n')) ->
    Permutation (cmd_infos (n_cmds n)) (cmd_infos (n_cmds n')).
  Proof.
    intros S ND ND'. pose proof (fun k => nsim_cmd n n' k S) as L.
    apply NoDup_Permutation.
    - apply (NoDup_map_inv fst). rewrite cmd_infos_keys. exact ND.
    - apply (NoDup_map_inv fst). rewrite cmd_infos_keys. exact ND'.
    - intros [k i]. unfold cmd_infos. rewrite !in_map_iff. specialize (L k). split.
      + intros ([k1 a] & E & I). simpl in E. inversion E; subst. apply (alookup_NoDup _ _ _ ND) in I. rewrite I in L.
        destruct (alookup k (n_cmds n')) as [b|] eqn:B; [|contradiction].
        exists (k, b). simpl. rewrite (nsim_info _ _ L). split; [reflexivity | apply alookup_In; exact B].
      + intros ([k1 b] & E & I). simpl in E. inversion E; subst. apply (alookup_NoDup _ _ _ ND') in I. rewrite I in L.
        destruct (alookup k (n_cmds n)) as [a|] eqn:A; [|contradiction].
        exists (k, a). simpl. rewrite <- (nsim_info _ _ L). split; [reflexivity | apply alookup_In; exact A].
  Qed.

  Lemma listed_commands_infos n :
    listed_commands n =
    flat_map (fun ki => if str_eqb (ni_name (snd ki)) (ni_helpname (n_info n)) then [] else [(ni_name (snd ki), ni_desc (snd ki))])
             (cmd_infos (n_cmds n)).
  Proof.
    unfold listed_commands, cmd_infos. induction (n_cmds n) as [|kc c IH]; simpl; [reflexivity|]. rewrite IH. reflexivity.
  Qed.

  (* what helpOutput needs of a level: distinct option keys (from nsim), distinct command keys on
     both sides, and distinct names among the commands it lists *)
  Theorem help_output_order_independent path is_root n n' :
    nsim n n' -> NoDup (keys (n_cmds n)) -> NoDup (keys (n_cmds n')) ->
    NoDup (List.map fst (listed_commands n)) ->
    help_output specs path is_root n = help_output specs path is_root n'.
  Proof.
    intros S ND ND' NDl. unfold help_output. rewrite <- (nsim_info _ _ S).
    assert (PO : Permutation (level_options specs n) (level_options specs n')).
    { destruct S as [i o o' c c' P _ _ _]. unfold level_options. simpl. apply flat_map_perm. exact P. }
    assert (NDo : NoDup (List.map os_name (level_options specs n))).
    { apply entries_once. destruct S; simpl; assumption. }
    assert (PC : Permutation (listed_commands n) (listed_commands n')).
    { rewrite !listed_commands_infos. rewrite <- (nsim_info _ _ S). apply flat_map_perm. apply cmd_infos_perm; assumption. }
    assert (LEN : List.length (n_cmds n) = List.length (n_cmds n')).
    { pose proof (Permutation_length (cmd_infos_perm n n' S ND ND')) as E. unfold cmd_infos in E. rewrite !map_length in E. exact E. }
    rewrite <- LEN.
    rewrite (help_synopsis_order_independent _ _ _ _ (match listed_commands n with [] => false | _ => true end) PO NDo).
    rewrite (help_option_list_order_independent _ _ _ PO NDo).
    assert (NE : match listed_commands n with [] => false | _ => true end = match listed_commands n' with [] => false | _ => true end).
    { pose proof (Permutation_length PC) as E. destruct (listed_commands n), (listed_commands n'); simpl in E; try discriminate; reflexivity. }
    rewrite NE.
    destruct (listed_commands n) as [|x l] eqn:E1.
    - apply Permutation_nil in PC. rewrite PC. reflexivity.
    - destruct (listed_commands n') as [|y l'] eqn:E2; [apply Permutation_sym, Permutation_nil in PC; discriminate|].
      rewrite (help_command_list_order_independent _ _ PC NDl). reflexivity.
  Qed.
End HelpSim.
