(* Storing a value (Option.Save: what the parser, GetEnv and SetValue all call) changes the value
   only: Called and CalledAs are left as they are.  They are set by the parser's bookkeeping of an
   occurrence, by GetEnv and by SetCalled, never by storing. *)
From GO Require Import Base.Str Base.Utf8 Model.Tokenizer Model.Option.
Open Scope N_scope.

Lemma save_keeps_called pf lower sp st a st' :
  save pf lower sp st a = Ok st' -> o_called st' = o_called st /\ o_used st' = o_used st.
Proof.
  unfold save. intros H.
  destruct a as [|a0 r].
  - destruct (os_kind sp); destruct (o_val st); inversion H; subst; auto.
  - destruct (negb (valid_ok sp (a0 :: r))); [discriminate|].
    destruct (os_kind sp); destruct (o_val st);
      repeat match goal with
      | H : match ?x with _ => _ end = Ok _ |- _ => destruct x eqn:?; try discriminate
      | H : bind ?x _ = Ok _ |- _ => destruct x eqn:?; simpl in H; try discriminate
      | H : (if ?c then _ else _) = Ok _ |- _ => destruct c
      end; inversion H; subst; auto.
Qed.
