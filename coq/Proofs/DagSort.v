(* DepthFirstSort (C16): a successful sort lists every vertex it was asked about exactly once, every
   dependency before its dependent -- for every iteration order of the vertex map; hence a graph
   with a dependency cycle never passes the check that precedes the run loop. *)
From GO Require Import Base.Str Base.Utf8 Base.Sort Model.Tree Model.Dag Proofs.DagHold.
Open Scope N_scope.

Lemma sget_sset_same st k x : sget (sset k x st) k = x.
Proof.
  unfold sget. induction st as [|[k' v'] st IH]; simpl.
  - rewrite str_eqb_refl. reflexivity.
  - destruct (str_eqb k k') eqn:E; simpl; rewrite ?str_eqb_refl, ?E; auto.
Qed.

Lemma sget_sset_other st k x k' : k' <> k -> sget (sset k x st) k' = sget st k'.
Proof.
  unfold sget. intros H. induction st as [|[k2 v2] st IH]; simpl.
  - apply str_eqb_neq in H. rewrite H. reflexivity.
  - destruct (str_eqb_spec k k2) as [->|N]; simpl.
    + apply str_eqb_neq in H. rewrite H. reflexivity.
    + destruct (str_eqb k' k2); auto.
Qed.

Local Arguments sget : simpl never.
Local Arguments sset : simpl never.

Lemma NoDup_snoc (l : list vid) v : NoDup l -> ~ In v l -> NoDup (l ++ [v]).
Proof.
  induction l as [|x l IH]; intros ND N; simpl; [constructor; [tauto | constructor]|].
  inversion ND; subst. constructor.
  - intros I. apply in_app_or in I as [I|[<-|[]]]; [contradiction | apply N; left; reflexivity].
  - apply IH; [assumption | intros I; apply N; right; exact I].
Qed.

Definition before (c u : vid) (l : list vid) : Prop := exists l1 l2, l = l1 ++ u :: l2 /\ In c l1.

Lemma before_app c u l ext : before c u l -> before c u (l ++ ext).
Proof. intros (l1 & l2 & -> & I). exists l1, (l2 ++ ext). split; [|exact I]. rewrite <- app_assoc. reflexivity. Qed.

Section Sort.
  Variable g : graph.
  Notation children := (children g).

  Record J (acc : dfs_acc) : Prop := mkJ {
    j_iff : forall u, sget (snd acc) u = Traversed <-> In u (fst acc);
    j_nodup : NoDup (fst acc);
    j_deps : forall u, In u (fst acc) -> forall c, In c (children u) -> before c u (fst acc)
  }.

  Lemma J_init : J ([], []).
  Proof. constructor; simpl; [intros u; split; [discriminate | tauto] | constructor | tauto]. Qed.

  (* what a successful visit guarantees *)
  Definition good_visit (acc acc' : dfs_acc) (v : vid) : Prop :=
    J acc' /\ sget (snd acc') v = Traversed /\
    (exists ext, fst acc' = fst acc ++ ext) /\
    (forall u, sget (snd acc) u = Traversed -> sget (snd acc') u = Traversed) /\
    (forall u, sget (snd acc) u = Visited -> sget (snd acc') u = Visited) /\
    (forall u, sget (snd acc') u = Visited -> sget (snd acc) u = Visited).

  Lemma visit_good fuel : forall acc v acc',
    J acc -> visit fuel g acc v = Some (inl acc') -> good_visit acc acc' v.
  Proof.
    induction fuel as [|f IH]; intros acc v acc' Jacc H; simpl in H; [discriminate|].
    destruct acc as [sorted st]. destruct (sget st v) eqn:Sv; [| discriminate |].
    - (* unvisited: mark, visit the children, append *)
      set (loop := fix children (cs : list vid) (a : dfs_acc) : option (dfs_acc + vid) :=
                     match cs with
                     | [] => Some (inl a)
                     | c :: cs' => match visit f g a c with Some (inl a') => children cs' a' | other => other end
                     end) in H.
      assert (LOOP : forall cs a a', J a -> sget (snd a) v = Visited -> loop cs a = Some (inl a') ->
                J a' /\ sget (snd a') v = Visited /\ (exists ext, fst a' = fst a ++ ext) /\
                (forall u, sget (snd a) u = Traversed -> sget (snd a') u = Traversed) /\
                (forall u, sget (snd a) u = Visited -> sget (snd a') u = Visited) /\
                (forall u, sget (snd a') u = Visited -> sget (snd a) u = Visited) /\
                (forall c, In c cs -> sget (snd a') c = Traversed)).
      { induction cs as [|c cs IHc]; intros a a' Ja Va L; simpl in L.
        - inversion L; subst. split; [exact Ja|]. split; [exact Va|]. split; [exists []; rewrite app_nil_r; reflexivity|].
          split; [auto|]. split; [auto|]. split; [auto|]. intros c [].
        - destruct (visit f g a c) as [[a1|w]|] eqn:Vc; try discriminate.
          destruct (IH a c a1 Ja Vc) as (J1 & T1 & [e1 E1] & M1 & K1 & N1).
          destruct (IHc a1 a' J1 (K1 v Va) L) as (J2 & V2 & [e2 E2] & M2 & K2 & N2 & A2).
          split; [exact J2|]. split; [exact V2|]. split; [exists (e1 ++ e2); rewrite E2, E1, app_assoc; reflexivity|].
          split; [auto|]. split; [auto|]. split; [auto|].
          intros c0 [<-|I0]; [apply M2; exact T1 | apply A2; exact I0]. }
      destruct (loop (v_children (vget g v)) (sorted, sset v Visited st)) as [[[sorted' st']|w]|] eqn:L; try discriminate.
      inversion H; subst; clear H.
      assert (J0 : J (sorted, sset v Visited st)).
      { destruct Jacc as [Ji Jn Jd]. simpl in *. constructor; simpl; auto.
        intros u. destruct (str_eq_dec u v) as [->|N].
        - rewrite sget_sset_same. split; [discriminate|]. intros I. apply Ji in I. congruence.
        - rewrite (sget_sset_other _ _ _ _ N). apply Ji. }
      destruct (LOOP _ _ _ J0 (sget_sset_same st v Visited) L) as (J1 & V1 & [ext E1] & M1 & K1 & N1 & A1).
      simpl in *. destruct J1 as [Ji Jn Jd]. simpl in *.
      assert (Nv : ~ In v sorted') by (intros I; apply Ji in I; congruence).
      unfold good_visit. simpl. split; [constructor; simpl|].
      + intros u. destruct (str_eq_dec u v) as [->|N].
        * rewrite sget_sset_same. split; [intros _; apply in_or_app; right; left; reflexivity | reflexivity].
        * rewrite (sget_sset_other _ _ _ _ N). rewrite Ji. rewrite in_app_iff. simpl. split; [auto|].
          intros [I|[E|[]]]; [exact I | congruence].
      + apply NoDup_snoc; assumption.
      + intros u Iu c Ic. apply in_app_or in Iu as [Iu|[<-|[]]].
        * apply before_app. apply Jd; assumption.
        * exists sorted', []. split; [reflexivity|]. apply Ji. apply A1. exact Ic.
      + split; [apply sget_sset_same|]. split; [exists (ext ++ [v]); rewrite E1, app_assoc; reflexivity|]. split.
        * intros u Tu. destruct (str_eq_dec u v) as [->|N]; [apply sget_sset_same|].
          rewrite (sget_sset_other _ _ _ _ N). apply M1. rewrite (sget_sset_other _ _ _ _ N). exact Tu.
        * split.
          -- intros u Vu. destruct (str_eq_dec u v) as [->|N]; [congruence|].
             rewrite (sget_sset_other _ _ _ _ N). apply K1. rewrite (sget_sset_other _ _ _ _ N). exact Vu.
          -- intros u Vu. destruct (str_eq_dec u v) as [->|N]; [rewrite sget_sset_same in Vu; discriminate|].
             rewrite (sget_sset_other _ _ _ _ N) in Vu. apply N1 in Vu. rewrite (sget_sset_other _ _ _ _ N) in Vu. exact Vu.
    - (* already traversed *)
      inversion H; subst. unfold good_visit. split; [exact Jacc|]. split; [exact Sv|].
      split; [exists []; rewrite app_nil_r; reflexivity|]. auto.
  Qed.

  Definition no_visited (acc : dfs_acc) : Prop := forall u, sget (snd acc) u <> Visited.

  Lemma dfs_from_good fuel : forall order acc acc',
    J acc -> no_visited acc -> dfs_from fuel g order acc = Some (inl acc') ->
    J acc' /\ no_visited acc' /\ (forall v, In v order -> In v (fst acc')) /\
    (forall u, sget (snd acc) u = Traversed -> sget (snd acc') u = Traversed).
  Proof.
    induction order as [|v rest IH]; intros acc acc' Ja NV H; simpl in H.
    - inversion H; subst. split; [exact Ja|]. split; [exact NV|]. split; [intros v []|auto].
    - destruct (sget (snd acc) v) eqn:Sv.
      + destruct (visit fuel g acc v) as [[a1|w]|] eqn:Vv; try discriminate.
        destruct (visit_good fuel acc v a1 Ja Vv) as (J1 & T1 & _ & M1 & _ & N1).
        assert (NV1 : no_visited a1) by (intros u Vu; apply (NV u); apply N1; exact Vu).
        destruct (IH a1 acc' J1 NV1 H) as (J2 & NV2 & A2 & M2). split; [exact J2|]. split; [exact NV2|]. split; [|auto].
        intros u [<-|I]; [apply (j_iff _ J2); apply M2; exact T1 | apply A2; exact I].
      + exfalso. exact (NV v Sv).
      + destruct (IH acc acc' Ja NV H) as (J2 & NV2 & A2 & M2). split; [exact J2|]. split; [exact NV2|]. split; [|auto].
        intros u [<-|I]; [apply (j_iff _ J2); apply M2; exact Sv | apply A2; exact I].
  Qed.

  (* C16: DepthFirstSort, for every iteration order of the vertex map: every vertex of the order
     exactly once, every dependency before its dependent *)
  Theorem dfs_sort_sound order l :
    dfs_sort g order = Some (inl l) ->
    NoDup l /\ (forall v, In v order -> In v l) /\
    (forall u, In u l -> forall c, In c (children u) -> before c u l).
  Proof.
    unfold dfs_sort. intros H.
    destruct (dfs_from (S (List.length (g_vs g))) g order ([], [])) as [[[sorted st]|w]|] eqn:D; try discriminate.
    inversion H; subst; clear H.
    assert (NV0 : no_visited ([], [])) by (intros u; unfold sget; simpl; discriminate).
    destruct (dfs_from_good _ order ([], []) (l, st) J_init NV0 D) as (J1 & _ & A & _).
    destruct J1 as [Ji Jn Jd]. simpl in *. auto.
  Qed.

  (* ---- a cycle is never sorted ---- *)

  Inductive depends (p : vid) : vid -> Prop :=
  | depends_edge c : In c (children p) -> depends p c
  | depends_trans m c : In m (children p) -> depends m c -> depends p c.

  Lemma split_unique (b : vid) l1 : forall l2 x y,
    NoDup (l1 ++ b :: l2) -> l1 ++ b :: l2 = x ++ b :: y -> l1 = x.
  Proof.
    induction l1 as [|a l1 IH]; intros l2 x y ND E.
    - destruct x as [|a' x]; [reflexivity|]. simpl in *. inversion E; subst. exfalso.
      inversion ND as [|? ? Hn _]; subst. apply Hn. apply in_or_app. right. left. reflexivity.
    - destruct x as [|a' x]; simpl in *.
      + inversion E; subst. exfalso. inversion ND as [|? ? Hn _]; subst. apply Hn. apply in_or_app. right. left. reflexivity.
      + inversion E; subst. f_equal. inversion ND; subst. eapply IH; eauto.
  Qed.

  Lemma before_trans a b c l : NoDup l -> before a b l -> before b c l -> before a c l.
  Proof.
    intros ND (l1 & l2 & E1 & Ia) (m1 & m2 & E2 & Ib).
    apply in_split in Ib as (x & y & ->).
    assert (E3 : l = x ++ b :: (y ++ c :: m2)) by (rewrite E2, <- app_assoc; reflexivity).
    assert (l1 = x) by (eapply split_unique; [rewrite <- E1; exact ND | rewrite <- E1; exact E3]).
    subst x. exists (l1 ++ b :: y), m2. split; [exact E2|]. apply in_or_app. left. exact Ia.
  Qed.

  Lemma before_irrefl a l : NoDup l -> ~ before a a l.
  Proof.
    intros ND (l1 & l2 & E & I). subst l. apply NoDup_remove_2 in ND. apply ND. apply in_or_app. left. exact I.
  Qed.

  Theorem cyclic_graph_not_sorted order l v :
    depends v v -> In v order -> dfs_sort g order <> Some (inl l).
  Proof.
    intros C Iv H. destruct (dfs_sort_sound order l H) as (ND & A & B).
    assert (G : forall p c, depends p c -> In p l -> before c p l /\ In c l).
    { intros p c D. induction D as [p c E|p m c E D IH]; intros Ip.
      - pose proof (B p Ip c E) as Bc. split; [exact Bc|]. destruct Bc as (l1 & l2 & -> & I). apply in_or_app. left. exact I.
      - pose proof (B p Ip m E) as Bm. assert (Im : In m l) by (destruct Bm as (l1 & l2 & -> & I); apply in_or_app; left; exact I).
        destruct (IH Im) as [Bc Ic]. split; [eapply before_trans; eauto | exact Ic]. }
    destruct (G v v C (A v Iv)) as [Bv _]. exact (before_irrefl v l ND Bv).
  Qed.

  Theorem cycle_rejected order v : depends v v -> In v order -> run_prelude g order <> PreLoop.
  Proof.
    intros C I. unfold run_prelude. destruct (g_errs g) as [|e0 es]; [|discriminate].
    destruct (g_vs g) as [|kv vs]; [discriminate|].
    destruct (dfs_sort g order) as [[srt|w]|] eqn:D; try discriminate.
    exfalso. exact (cyclic_graph_not_sorted order srt v C I D).
  Qed.

  Theorem cycle_error order v :
    depends v v -> In v order -> g_errs g = [] -> g_vs g <> [] -> run_prelude g order = PreCycle.
  Proof.
    intros C I E V. unfold run_prelude. rewrite E. destruct (g_vs g) as [|kv vs]; [congruence|].
    destruct (dfs_sort g order) as [[srt|w]|] eqn:D; try reflexivity.
    exfalso. exact (cyclic_graph_not_sorted order srt v C I D).
  Qed.
End Sort.
