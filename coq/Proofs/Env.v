(* Value precedence: command line over environment variable over default (C12), and what the
   definition API builds for option inheritance (C10). *)
From GO Require Import Base.Str Base.Utf8 Model.Tokenizer Model.Option Model.Tree Model.Parse Model.Build.
From GO Require Import Proofs.ParseLemmas Proofs.Match Proofs.Scalar.
From Coq Require Import String.
Open Scope N_scope.

Section Env.
  Variable pf : str -> option N.
  Variable env : list (str * str).

  Notation initial_state := (initial_state pf env).
  Notation env_state := (env_state pf env).
  Notation getenv := (getenv env).

  Definition plain (o : optdef) : Prop := od_setcalled o = None.

  (* unset or empty variable, or no binding: the declared default, not called *)
  Theorem env_absent o :
    plain o -> (od_env o = [] \/ getenv (od_env o) = []) ->
    initial_state o = mkState (od_default o) false [].
  Proof.
    unfold plain, Build.initial_state, Build.env_state, Build.apply_setcalled. intros -> H.
    destruct (od_env o) as [|c n] eqn:E; [reflexivity|].
    destruct H as [H|H]; [discriminate|]. rewrite H. reflexivity.
  Qed.

  (* the kinds GetEnv supports besides bool *)
  Definition env_scalar (k : kind) : bool :=
    match k with KStr | KInt | KFloat | KStrOpt | KIntOpt | KFloatOpt => true | _ => false end.

  (* a set variable with text valid for the type: the converted text, Called, CalledAs = the variable *)
  Theorem env_valid o v x :
    plain o -> od_env o <> [] -> getenv (od_env o) = v -> v <> [] ->
    env_scalar (od_kind o) = true -> od_valid o = [] ->
    conv pf (od_kind o) v = Some x ->
    initial_state o = mkState x true (od_env o).
  Proof.
    unfold plain, Build.initial_state, Build.env_state, Build.apply_setcalled. intros -> Ne Gv Nv K Vd Cv.
    destruct (od_env o) as [|c n] eqn:E; [congruence|]. rewrite Gv.
    destruct v as [|v0 v']; [congruence|].
    assert (Sv : save pf false (spec_of o) (mkState (od_default o) false []) [v0 :: v'] = Ok (mkState x false [])).
    { rewrite (save_scalar pf false (spec_of o) _ (v0 :: v')).
      - simpl os_kind. rewrite Cv. reflexivity.
      - simpl. destruct (od_kind o); try discriminate; reflexivity.
      - unfold valid_ok. simpl os_valid. rewrite Vd. reflexivity. }
    destruct (od_kind o); try discriminate; rewrite Sv; reflexivity.
  Qed.

  (* text that is not valid for the type: the value stays the declared default
     (the library also marks the option called in that case; C12 does not constrain it) *)
  Theorem env_invalid_keeps_default o v :
    plain o -> od_env o <> [] -> getenv (od_env o) = v -> v <> [] ->
    env_scalar (od_kind o) = true -> od_valid o = [] ->
    conv pf (od_kind o) v = None ->
    o_val (initial_state o) = od_default o.
  Proof.
    unfold plain, Build.initial_state, Build.env_state, Build.apply_setcalled. intros -> Ne Gv Nv K Vd Cv.
    destruct (od_env o) as [|c n] eqn:E; [congruence|]. rewrite Gv.
    destruct v as [|v0 v']; [congruence|].
    assert (Sv : exists e : err, save pf false (spec_of o) (mkState (od_default o) false []) [v0 :: v'] = Err e).
    { rewrite (save_scalar pf false (spec_of o) _ (v0 :: v')).
      - simpl os_kind. rewrite Cv. eauto.
      - simpl. destruct (od_kind o); try discriminate; reflexivity.
      - unfold valid_ok. simpl os_valid. rewrite Vd. reflexivity. }
    destruct Sv as [e Sv]. destruct (od_kind o); try discriminate; rewrite Sv; reflexivity.
  Qed.

  (* bool: only true / false in any letter case *)
  Theorem env_bool o v (b : bool) :
    plain o -> od_env o <> [] -> getenv (od_env o) = v -> v <> [] ->
    od_kind o = KBool -> od_valid o = [] ->
    to_lower v = (if b then s2l "true" else s2l "false") ->
    initial_state o = mkState (VBool b) true (od_env o).
  Proof.
    unfold plain, Build.initial_state, Build.env_state, Build.apply_setcalled. intros -> Ne Gv Nv K Vd L.
    destruct (od_env o) as [|c n] eqn:E; [congruence|]. rewrite Gv.
    destruct v as [|v0 v']; [congruence|]. rewrite K, L.
    destruct b; simpl; unfold save, valid_ok; simpl os_valid; rewrite Vd; simpl; rewrite K; reflexivity.
  Qed.

  Theorem env_bool_other o v :
    plain o -> od_kind o = KBool ->
    getenv (od_env o) = v ->
    str_eqb (to_lower v) (s2l "true") = false -> str_eqb (to_lower v) (s2l "false") = false ->
    initial_state o = mkState (od_default o) false [].
  Proof.
    unfold plain, Build.initial_state, Build.env_state, Build.apply_setcalled. intros -> K Gv T F.
    destruct (od_env o) as [|c n] eqn:E; [reflexivity|]. rewrite Gv.
    destruct v as [|v0 v']; [reflexivity|]. rewrite K, T, F. reflexivity.
  Qed.

  (* kinds GetEnv does not support: a no-op *)
  Theorem env_unsupported o :
    plain o -> env_scalar (od_kind o) = false -> od_kind o <> KBool ->
    initial_state o = mkState (od_default o) false [].
  Proof.
    unfold plain, Build.initial_state, Build.env_state, Build.apply_setcalled. intros -> K NB.
    destruct (od_env o) as [|c n]; [reflexivity|].
    destruct (getenv (c :: n)); [reflexivity|].
    destruct (od_kind o); try discriminate; try congruence; reflexivity.
  Qed.
  (* modifier order.  SetCalled written BEFORE GetEnv does not shadow a bound variable: the
     variable's text, Called and CalledAs are what the definition leaves ... *)
  Theorem env_valid_after_setcalled o v x b :
    od_setcalled o = Some (b, true) -> od_env o <> [] -> getenv (od_env o) = v -> v <> [] ->
    env_scalar (od_kind o) = true -> od_valid o = [] ->
    conv pf (od_kind o) v = Some x ->
    initial_state o = mkState x true (od_env o).
  Proof.
    unfold Build.initial_state, Build.env_state, Build.apply_setcalled. intros -> Ne Gv Nv K Vd Cv. cbn [Bool.eqb o_val o_used o_called].
    destruct (od_env o) as [|c n] eqn:E; [congruence|]. rewrite Gv.
    destruct v as [|v0 v']; [congruence|].
    assert (Sv : save pf false (spec_of o) (mkState (od_default o) b []) [v0 :: v'] = Ok (mkState x b [])).
    { rewrite (save_scalar pf false (spec_of o) _ (v0 :: v')).
      - simpl os_kind. rewrite Cv. reflexivity.
      - simpl. destruct (od_kind o); try discriminate; reflexivity.
      - unfold valid_ok. simpl os_valid. rewrite Vd. reflexivity. }
    destruct (od_kind o); try discriminate; rewrite Sv; reflexivity.
  Qed.

  (* ... and when the variable is unset or empty the SetCalled value stands, with the default *)
  Theorem env_absent_setcalled o b f :
    od_setcalled o = Some (b, f) -> (od_env o = [] \/ getenv (od_env o) = []) ->
    initial_state o = mkState (od_default o) b [].
  Proof.
    unfold Build.initial_state, Build.env_state, Build.apply_setcalled. intros -> H.
    destruct (od_env o) as [|c n] eqn:E; [destruct f; reflexivity|].
    destruct H as [H|H]; [discriminate|]. rewrite H. destruct f; reflexivity.
  Qed.

  (* SetCalled written AFTER GetEnv overrides the Called flag; the variable's value stays *)
  Theorem setcalled_after_env o b :
    od_setcalled o = Some (b, false) ->
    o_called (initial_state o) = b /\ o_val (initial_state o) = o_val (env_state o (spec_of o) (mkState (od_default o) false [])).
  Proof. unfold Build.initial_state, Build.apply_setcalled. intros ->. cbn [Bool.eqb o_val o_used o_called]. split; reflexivity. Qed.
End Env.

(* the command line wins: whatever state the definition left, `--name=v` overwrites the value
   (this is C01_attached, whose result does not mention the previous value) *)
Theorem cli_overrides pf md lower ro specs st key v k oid sp os os' :
  key <> [] -> contains_byte EQ key = false -> v <> [] ->
  matches (n_opts (cur st)) key = [(k, oid)] ->
  nth_error specs oid = Some sp ->
  scalar_valued (os_kind sp) = true -> os_max sp = 1%nat -> (os_min sp <= 1)%nat ->
  valid_ok sp [v] = true ->
  nth_error (store st) oid = Some os ->
  (* same state with another previous value / Called / CalledAs of that option *)
  head pf md lower ro specs (set_store st (update_nth oid os' (store st))) (DASH :: DASH :: key ++ EQ :: v) =
  match conv pf (os_kind sp) v with
  | Some x => Ok (set_ph (with_opt (set_store st (update_nth oid os' (store st))) oid (mkState x true k)) PHead)
  | None => Err (conv_err (os_kind sp) k v)
  end.
Proof.
  intros N C V M HS K Mx Mn Val O.
  apply (attached_value pf md lower ro specs _ key v k oid sp os'); auto.
  simpl. apply nth_error_update_eq. apply nth_error_Some. congruence.
Qed.

(* ---- inheritance: copyOptionsFromParent ---- *)

Lemma alookup_aset_same {V} k (v : V) l : alookup k (aset k v l) = Some v.
Proof.
  induction l as [|[k' v'] l IH]; simpl.
  - rewrite str_eqb_refl. reflexivity.
  - destruct (str_eqb k k') eqn:E; simpl; rewrite ?str_eqb_refl, ?E; auto.
Qed.

Lemma alookup_aset_other {V} k k' (v : V) l : k' <> k -> alookup k' (aset k v l) = alookup k' l.
Proof.
  intros H. induction l as [|[k2 v2] l IH]; simpl.
  - apply str_eqb_neq in H. rewrite H. reflexivity.
  - destruct (str_eqb_spec k k2) as [->|N]; simpl.
    + apply str_eqb_neq in H. rewrite H. reflexivity.
    + destruct (str_eqb k' k2); auto.
Qed.

(* assigning all the parent's entries: every parent key then resolves, in the child, to the
   parent's option object *)
Lemma copy_table_lookup (parent : list (str * nat)) : forall child k oid,
  NoDup (keys parent) -> In (k, oid) parent ->
  alookup k (List.fold_left (fun acc kv => aset (fst kv) (snd kv) acc) parent child) = Some oid.
Proof.
  induction parent as [|[k0 o0] parent IH]; intros child k oid ND I; [contradiction|].
  simpl. inversion ND as [|? ? Hn ND']; subst. destruct I as [E|I].
  - inversion E; subst. clear E.
    assert (G : forall l acc, ~ In k (keys l) -> alookup k acc = Some oid ->
                alookup k (List.fold_left (fun acc kv => aset (fst kv) (snd kv) acc) l acc) = Some oid).
    { induction l as [|[k1 o1] l IHl]; intros acc Hk A; simpl; [exact A|].
      apply IHl; [intros X; apply Hk; right; exact X|].
      simpl. rewrite alookup_aset_other; [exact A|]. intros ->. apply Hk. left. reflexivity. }
    apply G; [exact Hn | apply alookup_aset_same].
  - apply IH; assumption.
Qed.
