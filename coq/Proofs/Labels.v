(* Ghost labels: what the parser did with each token, as a pure function of the state before the
   token and the token; and the conservation law for the remaining arguments (C03). *)
From GO Require Import Base.Str Base.Utf8 Model.Tokenizer Model.Option Model.Tree Model.Parse.
From GO Require Import Proofs.ParseLemmas.
Open Scope N_scope.

Inductive label :=
| LOpt      (* option token, every option of it known at the current level *)
| LPartial  (* option token with an unknown option, Pass/Warn: stays in remaining *)
| LDropped  (* option token with an unknown option, Fail: the parse ends with an error *)
| LVal      (* consumed as the value of an option *)
| LCmd      (* selects a subcommand *)
| LTerm     (* the `--` reached at the head of the loop: dropped *)
| LPos      (* positional argument *)
| LTail.    (* copied after the terminator or from the require-order stop point on *)

Definition keep (l : label) : bool :=
  match l with LPartial | LPos | LTail => true | _ => false end.

Fixpoint select (args : list str) (ls : list label) : list str :=
  match args, ls with
  | a :: args', l :: ls' => (if keep l then [a] else []) ++ select args' ls'
  | _, _ => []
  end.

Section Labels.
  Variable pf : str -> option N.
  Variable md : mode.
  Variable lower : bool.
  Variable ro_on : bool.
  Variable specs : list ospec.

  Notation try_cur := (try_cur pf md lower specs).
  Notation offer := (offer pf md lower specs).
  Notation advance := (advance pf lower specs).
  Notation head := (head pf md lower ro_on specs).
  Notation step := (step pf md lower ro_on specs).
  Notation run := (run pf md lower ro_on specs).
  Notation finish := (finish pf lower specs).
  Notation walk := (walk pf md lower ro_on specs).
  Notation parse := (parse pf md lower ro_on specs).

  Definition head_label (st : pst) (t : str) : label :=
    if str_eqb t DD then LTerm
    else
      let '(pairs, is) := is_option md t in
      let ni := n_info (cur st) in
      let reqorder := ro_on && ni_reqorder ni in
      if is then
        match List.filter (is_unknown (n_opts (cur st))) pairs with
        | [] => LOpt
        | _ :: _ => if reqorder then LTail
                    else match ni_umode ni with Fail => LDropped | _ => LPartial end
        end
      else
        match alookup t (n_cmds (cur st)) with
        | Some _ => LCmd
        | None => if reqorder then LTail else LPos
        end.

  Definition label_of (st : pst) (t : str) : label :=
    match ph st with
    | PTail => LTail
    | PHead => head_label st t
    | PPend oid key i pend tok =>
        match nth_error specs oid with
        | None => LVal
        | Some sp =>
            match try_cur st (oid, key, i, os_min sp, os_max sp) t with
            | Ok (Some _) => LVal
            | Ok None =>
                match offer st tok pend t with
                | Ok (st', false) => head_label st' t
                | _ => LVal
                end
            | Err _ => LVal
            end
        end
    end.

  Fixpoint labels (st : pst) (args : list str) : list label :=
    match args with
    | [] => []
    | t :: r => label_of st t :: match step st t with Ok st' => labels st' r | Err _ => [] end
    end.

  Lemma head_text st t st' :
    head st t = Ok st' ->
    all_text st' = all_text st ++ (if keep (head_label st t) then [t] else []).
  Proof.
    unfold Parse.head, head_label. intros H.
    destruct (str_eqb t DD).
    - inv H. simpl. rewrite app_nil_r. reflexivity.
    - destruct (is_option md t) as [pairs is]. destruct is.
      + destruct (List.filter (is_unknown (n_opts (cur st))) pairs) as [|u us].
        * apply advance_frame in H. apply all_text_frame in H. rewrite <- H. simpl.
          rewrite app_nil_r. reflexivity.
        * destruct (ro_on && ni_reqorder (n_info (cur st)))%bool.
          -- inv H. simpl. rewrite all_text_set_ph, all_text_add. reflexivity.
          -- destruct (ni_umode (n_info (cur st))); apply advance_frame in H; apply all_text_frame in H;
               rewrite <- H; simpl.
             ++ rewrite all_text_add_unk, app_nil_r. reflexivity.
             ++ rewrite all_text_add, all_text_add_unk. reflexivity.
             ++ rewrite all_text_add, all_text_add_unk. reflexivity.
      + destruct (alookup t (n_cmds (cur st))).
        * inv H. rewrite all_text_descend. simpl. rewrite app_nil_r. reflexivity.
        * destruct (ro_on && ni_reqorder (n_info (cur st)))%bool; inv H; simpl.
          -- rewrite all_text_set_ph, all_text_add. reflexivity.
          -- rewrite all_text_add. reflexivity.
  Qed.

  Lemma step_text st t st' :
    step st t = Ok st' ->
    all_text st' = all_text st ++ (if keep (label_of st t) then [t] else []).
  Proof.
    unfold Parse.step, label_of. intros H. destruct (ph st) as [|oid key i pend tok|].
    - apply head_text. exact H.
    - destruct (nth_error specs oid) as [sp|]; [|discriminate].
      destruct (try_cur st (oid, key, i, os_min sp, os_max sp) t) as [[s1|]|] eqn:E1; try discriminate.
      + apply try_cur_frame in E1 as [F1 _]. apply settle_frame in H.
        rewrite <- (all_text_frame _ _ H), <- (all_text_frame _ _ F1). simpl. rewrite app_nil_r. reflexivity.
      + destruct (offer st tok pend t) as [[s2 b]|] eqn:E2; [|discriminate].
        apply offer_frame in E2. destruct b.
        * inv H. rewrite <- (all_text_frame _ _ E2). simpl. rewrite app_nil_r. reflexivity.
        * apply head_text in H. rewrite H, <- (all_text_frame _ _ E2). reflexivity.
    - inv H. rewrite all_text_add. reflexivity.
  Qed.

  Lemma run_text args : forall st st',
    run st args = Ok st' ->
    all_text st' = all_text st ++ select args (labels st args) /\ length (labels st args) = length args.
  Proof.
    induction args as [|t r IH]; intros st st' H; simpl in H.
    - inv H. simpl. rewrite app_nil_r. auto.
    - destruct (step st t) as [s1|] eqn:E; [|discriminate].
      simpl. rewrite E. destruct (IH _ _ H) as [H1 H2]. split; [|simpl; congruence].
      rewrite H1. rewrite (step_text _ _ _ E). rewrite <- app_assoc. reflexivity.
  Qed.

  (* C03: whenever Parse succeeds, the remaining list is the selection of the argument vector by
     the labels: original order, each selected token once, byte for byte. *)
  Theorem remaining_is_selection root st0 args w st rem :
    parse root st0 args = mkRes w (Ok (st, rem)) ->
    rem = select args (labels (init root st0) args) /\
    length (labels (init root st0) args) = length args.
  Proof.
    unfold Parse.parse. intros H.
    destruct (walk root st0 args) as [s|] eqn:W; [|discriminate].
    unfold Parse.walk in W. apply bind_ok in W as (s1 & R & F).
    apply run_text in R as [R1 R2]. apply finish_frame in F. apply all_text_frame in F.
    destruct (match up s with [] => _ | _ => _ end); [discriminate|].
    destruct (policy_levels (levels_of s)) as [[w' e] r] eqn:P.
    destruct e; [discriminate|]. inv H.
    apply policy_levels_text in P. rewrite levels_of_text in P.
    split; [|exact R2]. rewrite P, <- F, R1. reflexivity.
  Qed.

  (* ---- the labels mean what they say ---- *)

  (* the state in which a token that is not consumed as a value reaches the head of the loop *)
  Definition at_head (st : pst) (t : str) (sh : pst) : Prop :=
    (ph st = PHead /\ sh = st) \/
    (exists oid key i pend tok sp,
        ph st = PPend oid key i pend tok /\ nth_error specs oid = Some sp /\
        try_cur st (oid, key, i, os_min sp, os_max sp) t = Ok None /\
        offer st tok pend t = Ok (sh, false)).

  Lemma at_head_frame st t sh : at_head st t sh -> same_frame st sh.
  Proof.
    intros [[_ ->]|(oid & key & i & pend & tok & sp & _ & _ & _ & O)]; [apply same_frame_refl|].
    eapply offer_frame; eauto.
  Qed.

  Definition is_head_label (l : label) : bool :=
    match l with LVal => false | _ => true end.

  (* a label other than LVal/LTail-by-phase is the head label in the head state *)
  Lemma label_head st t :
    ph st <> PTail -> label_of st t <> LVal ->
    exists sh, at_head st t sh /\ label_of st t = head_label sh t.
  Proof.
    unfold label_of. intros HT HV. destruct (ph st) as [|oid key i pend tok|] eqn:P.
    - exists st. split; [left; auto | reflexivity].
    - destruct (nth_error specs oid) as [sp|] eqn:S; [|congruence].
      destruct (try_cur st (oid, key, i, os_min sp, os_max sp) t) as [[s1|]|] eqn:E1; try congruence.
      destruct (offer st tok pend t) as [[s2 b]|] eqn:E2; [|congruence].
      destruct b; [congruence|].
      exists s2. split; [|reflexivity]. right. exists oid, key, i, pend, tok, sp. auto.
    - congruence.
  Qed.

  Lemma head_label_pos sh t :
    head_label sh t = LPos ->
    t <> DD /\ looks_like_option md t = false /\ alookup t (n_cmds (cur sh)) = None /\
    (ro_on && ni_reqorder (n_info (cur sh)))%bool = false.
  Proof.
    unfold head_label, looks_like_option. destruct (str_eqb_spec t DD); [discriminate|].
    destruct (is_option md t) as [pairs is]. simpl. destruct is.
    - destruct (List.filter _ pairs); [discriminate|].
      destruct (ro_on && _)%bool; [discriminate|]. destruct (ni_umode _); discriminate.
    - destruct (alookup t (n_cmds (cur sh))); [discriminate|].
      destruct (ro_on && _)%bool; [discriminate|]. auto.
  Qed.

  Lemma head_label_cmd sh t :
    head_label sh t = LCmd ->
    t <> DD /\ looks_like_option md t = false /\ exists child, alookup t (n_cmds (cur sh)) = Some child.
  Proof.
    unfold head_label, looks_like_option. destruct (str_eqb_spec t DD); [discriminate|].
    destruct (is_option md t) as [pairs is]. simpl. destruct is.
    - destruct (List.filter _ pairs); [discriminate|].
      destruct (ro_on && _)%bool; [discriminate|]. destruct (ni_umode _); discriminate.
    - destruct (alookup t (n_cmds (cur sh))); [eauto|].
      destruct (ro_on && _)%bool; discriminate.
  Qed.

  Lemma head_label_term sh t : head_label sh t = LTerm -> t = DD.
  Proof.
    unfold head_label. destruct (str_eqb_spec t DD); [auto|].
    destruct (is_option md t) as [pairs is]. destruct is.
    - destruct (List.filter _ pairs); [discriminate|].
      destruct (ro_on && _)%bool; [discriminate|]. destruct (ni_umode _); discriminate.
    - destruct (alookup t (n_cmds (cur sh))); [discriminate|].
      destruct (ro_on && _)%bool; discriminate.
  Qed.

  Lemma head_label_opt sh t :
    head_label sh t = LOpt ->
    looks_like_option md t = true /\
    List.filter (is_unknown (n_opts (cur sh))) (fst (is_option md t)) = [].
  Proof.
    unfold head_label, looks_like_option. destruct (str_eqb_spec t DD); [discriminate|].
    destruct (is_option md t) as [pairs is]. simpl. destruct is.
    - destruct (List.filter _ pairs); [auto|].
      destruct (ro_on && _)%bool; [discriminate|]. destruct (ni_umode _); discriminate.
    - destruct (alookup t (n_cmds (cur sh))); [discriminate|].
      destruct (ro_on && _)%bool; discriminate.
  Qed.

  (* C03, second sentence: a token with an unknown option that reaches the head of the loop is
     kept whenever the level does not fail on unknown options *)
  Lemma unknown_token_kept sh t :
    t <> DD -> looks_like_option md t = true ->
    List.filter (is_unknown (n_opts (cur sh))) (fst (is_option md t)) <> [] ->
    ni_umode (n_info (cur sh)) <> Fail ->
    keep (head_label sh t) = true.
  Proof.
    unfold head_label, looks_like_option. intros Ht Hl Hu Hm.
    destruct (str_eqb_spec t DD); [congruence|].
    destruct (is_option md t) as [pairs is]. simpl in *. subst is.
    destruct (List.filter _ pairs); [congruence|].
    destruct (ro_on && _)%bool; [reflexivity|]. destruct (ni_umode _); [congruence | reflexivity | reflexivity].
  Qed.

  (* tokens labelled LVal are consumed while an option is taking values *)
  Lemma label_val st t : label_of st t = LVal -> exists oid key i pend tok, ph st = PPend oid key i pend tok.
  Proof.
    unfold label_of. destruct (ph st) as [|oid key i pend tok|]; [|eauto 6|discriminate].
    unfold head_label. destruct (str_eqb t DD); [discriminate|].
    destruct (is_option md t) as [pairs is]. destruct is.
    - destruct (List.filter _ pairs); [discriminate|].
      destruct (ro_on && _)%bool; [discriminate|]. destruct (ni_umode _); discriminate.
    - destruct (alookup t (n_cmds (cur st))); [discriminate|].
      destruct (ro_on && _)%bool; discriminate.
  Qed.
End Labels.
