(* The terminator `--` (C04) and the require-order stop point (C09). *)
From GO Require Import Base.Str Base.Utf8 Model.Tokenizer Model.Option Model.Tree Model.Parse.
From GO Require Import Proofs.TokLemmas Proofs.ParseLemmas Proofs.Labels.
Open Scope N_scope.

Section Tail.
  Variable pf : str -> option N.
  Variable md : mode.
  Variable lower : bool.
  Variable specs : list ospec.

  Notation try_cur := (try_cur pf md lower specs).
  Notation offer := (offer pf md lower specs).
  Notation advance_eof := (advance_eof pf lower specs).
  Notation finish := (finish pf lower specs).

  (* `--` is only ever taken as a value while an option still misses a mandatory one *)
  Lemma terminator_taken_only_as_mandatory st oid key i mn mx st' :
    try_cur st (oid, key, i, mn, mx) DD = Ok (Some st') -> (i < mn)%nat.
  Proof.
    unfold Parse.try_cur. destruct (Nat.ltb_spec i mn); [auto|].
    destruct (Nat.ltb i mx); [|discriminate].
    unfold stops. rewrite str_eqb_refl, Bool.orb_true_r. simpl. discriminate.
  Qed.

  Lemma try_cur_none_min st oid key i mn mx t :
    try_cur st (oid, key, i, mn, mx) t = Ok None -> Nat.ltb i mn = false.
  Proof.
    unfold Parse.try_cur. destruct (Nat.ltb i mn); [|auto].
    destruct (looks_like_option md t); [discriminate|].
    destruct (save_to pf lower specs st oid [t]); discriminate.
  Qed.

  (* if the later pairs of a token let a lookahead token pass, they are complete at end of input too *)
  Lemma offer_pass_eof tok pend t : forall st sh,
    offer st tok pend t = Ok (sh, false) -> advance_eof st tok pend = Ok sh.
  Proof.
    induction pend as [|p pend IH]; intros st sh H; simpl in *.
    - inv H. reflexivity.
    - destruct (start_pair pf lower specs st tok p) as [[[s c]|]|]; try discriminate; [|auto].
      destruct c as [[[[oid key] i] mn] mx].
      destruct (try_cur s (oid, key, i, mn, mx) t) as [[s2|]|] eqn:E; try discriminate.
      + destruct (settle pf lower specs s2 _ pend tok); discriminate.
      + rewrite (try_cur_none_min _ _ _ _ _ _ _ E). auto.
  Qed.

  Section RO.
    Variable ro_on : bool.
    Notation step := (step pf md lower ro_on specs).
    Notation run := (run pf md lower ro_on specs).
    Notation head := (head pf md lower ro_on specs).
    Notation walk := (walk pf md lower ro_on specs).
    Notation at_head := (at_head pf md lower specs).
    Notation label_of := (label_of pf md lower ro_on specs).
    Notation head_label := (head_label md ro_on).

    (* a token that reaches the head of the loop does so in the state the walk would end in *)
    Lemma at_head_finish st t sh : at_head st t sh -> finish st = Ok sh.
    Proof.
      intros [[P ->]|(oid & key & i & pend & tok & sp & P & S & T & O)]; unfold Parse.finish; rewrite P.
      - reflexivity.
      - rewrite S. rewrite (try_cur_none_min _ _ _ _ _ _ _ T). eapply offer_pass_eof; eauto.
    Qed.

    Lemma at_head_step st t sh : at_head st t sh -> step st t = head sh t.
    Proof.
      intros [[P ->]|(oid & key & i & pend & tok & sp & P & S & T & O)]; unfold Parse.step; rewrite P.
      - reflexivity.
      - rewrite S, T, O. reflexivity.
    Qed.

    (* C04: a `--` that reaches the head of the loop ends all interpretation *)
    Theorem terminator_run st tail sh :
      at_head st DD sh ->
      run st (DD :: tail) = Ok (add_text (set_ph sh PTail) tail).
    Proof.
      intros H. simpl. rewrite (at_head_step _ _ _ H). unfold Parse.head. rewrite str_eqb_refl.
      apply run_tail. reflexivity.
    Qed.

    Theorem terminator_walk root st0 pre tail st sh :
      run (init root st0) pre = Ok st -> at_head st DD sh ->
      walk root st0 pre = Ok sh /\
      walk root st0 (pre ++ DD :: tail) = Ok (add_text (set_ph sh PTail) tail).
    Proof.
      intros R H. unfold Parse.walk. rewrite run_app, R. simpl bind. split.
      - eapply at_head_finish; eauto.
      - change (match step st DD with Ok st' => run st' tail | Err e => Err e end) with (run st (DD :: tail)).
        rewrite (terminator_run _ tail _ H). reflexivity.
    Qed.

    (* C04, "never sets an option, selects a command, or triggers unknown-option handling": the
       option store, selected command, upper levels and unknown list after the whole argument
       vector are those reached just before the `--`, whatever follows it; the `--` itself is
       not in remaining *)
    Theorem terminator_store_frozen root st0 pre tail st sh :
      run (init root st0) pre = Ok st -> at_head st DD sh ->
      exists fin, walk root st0 (pre ++ DD :: tail) = Ok fin /\
        store fin = store sh /\ cur fin = cur sh /\ up fin = up sh /\ unk fin = unk sh /\
        text fin = text sh ++ tail.
    Proof.
      intros R H. destruct (terminator_walk root st0 pre tail st sh R H) as [_ W2].
      eexists. split; [exact W2|]. unfold add_text, set_ph. cbn. auto.
    Qed.

    Lemma label_term_at_head st t : label_of st t = LTerm -> t = DD /\ exists sh, at_head st t sh.
    Proof.
      intros L. assert (HT : ph st <> PTail).
      { intros P. unfold Labels.label_of in L. rewrite P in L. discriminate. }
      destruct (label_head pf md lower ro_on specs st t HT) as (sh & A & E); [congruence|].
      rewrite E in L. apply head_label_term in L. eauto.
    Qed.

    (* C09: the require-order stop *)
    Definition stops_order (sh : pst) (s : str) : Prop :=
      s <> DD /\
      ((looks_like_option md s = false /\ alookup s (n_cmds (cur sh)) = None) \/
       (looks_like_option md s = true /\
        List.filter (is_unknown (n_opts (cur sh))) (fst (is_option md s)) <> [])).

    Lemma head_stop sh s :
      (ro_on && ni_reqorder (n_info (cur sh)))%bool = true -> stops_order sh s ->
      head sh s = Ok (set_ph (add_text sh [s]) PTail).
    Proof.
      intros RO [Hd H]. unfold Parse.head, looks_like_option in *.
      destruct (str_eqb_spec s DD); [congruence|].
      destruct (is_option md s) as [pairs is]. simpl in *. rewrite RO.
      destruct H as [[-> C]|[-> U]].
      - rewrite C. reflexivity.
      - destruct (List.filter _ pairs); [congruence | reflexivity].
    Qed.

    Theorem require_order_stop root st0 pre s tail st sh :
      run (init root st0) pre = Ok st -> at_head st s sh ->
      (ro_on && ni_reqorder (n_info (cur sh)))%bool = true -> stops_order sh s ->
      walk root st0 pre = Ok sh /\
      walk root st0 (pre ++ s :: tail) = Ok (add_text (set_ph (add_text sh [s]) PTail) tail).
    Proof.
      intros R H RO S. unfold Parse.walk. rewrite run_app, R. simpl bind. split.
      - eapply at_head_finish; eauto.
      - rewrite (at_head_step _ _ _ H), (head_stop _ _ RO S).
        rewrite run_tail by reflexivity. reflexivity.
    Qed.
    (* ---- what the user sees (C04, C09): the result of Parse on the whole argument vector is the
       result of Parse on the part before the stop point, with everything from the stop point on
       appended verbatim to remaining: same warnings, same error, same option store and selected
       command ---- *)
    Definition extend (extra : list str) (r : presult) (st' : pst) : presult :=
      match pr_out r with
      | Ok (_, rem) => mkRes (pr_warn r) (Ok (st', rem ++ extra))
      | Err e => r
      end.

    Lemma policy_levels_text ls n t u extra :
      policy_levels (ls ++ [mkLevel n (t ++ extra) u]) =
        (let '(w, e, r) := policy_levels (ls ++ [mkLevel n t u]) in
         match e with None => (w, e, r ++ extra) | Some _ => (w, e, r) end).
    Proof.
      induction ls as [|l ls IH]; simpl.
      - destruct (unknown_policy (ni_umode (n_info n)) u) as [w e]. destruct e; [reflexivity|].
        simpl. rewrite !app_nil_r. reflexivity.
      - destruct (unknown_policy (ni_umode (n_info (lv_node l))) (lv_unk l)) as [w e]. destruct e; [reflexivity|].
        rewrite IH. destruct (policy_levels (ls ++ [mkLevel n t u])) as [[w' e'] r']. destruct e'; [reflexivity|].
        rewrite app_assoc. reflexivity.
    Qed.

    Lemma parse_extend root st0 args1 args2 sh extra p' :
      walk root st0 args1 = Ok sh ->
      walk root st0 args2 = Ok (mkPst (cur sh) (up sh) (text sh ++ extra) (unk sh) (store sh) p') ->
      parse pf md lower ro_on specs root st0 args2 =
        extend extra (parse pf md lower ro_on specs root st0 args1)
               (mkPst (cur sh) (up sh) (text sh ++ extra) (unk sh) (store sh) p').
    Proof.
      intros W1 W2. unfold Parse.parse. rewrite W1, W2. cbn [cur up store text unk].
      destruct (match up sh with [] => _ | _ :: _ => None end) as [e|]; [reflexivity|].
      unfold levels_of. cbn [cur up text unk rev]. rewrite policy_levels_text.
      destruct (policy_levels (rev (up sh) ++ [mkLevel (cur sh) (text sh) (unk sh)])) as [[w e] r].
      destruct e; reflexivity.
    Qed.

    Theorem terminator_parse root st0 pre tail st sh :
      run (init root st0) pre = Ok st -> at_head st DD sh ->
      parse pf md lower ro_on specs root st0 (pre ++ DD :: tail) =
        extend tail (parse pf md lower ro_on specs root st0 pre) (add_text (set_ph sh PTail) tail).
    Proof.
      intros R H. destruct (terminator_walk root st0 pre tail st sh R H) as [W1 W2].
      exact (parse_extend root st0 pre (pre ++ DD :: tail) sh tail PTail W1 W2).
    Qed.

    Theorem require_order_parse root st0 pre s tail st sh :
      run (init root st0) pre = Ok st -> at_head st s sh ->
      (ro_on && ni_reqorder (n_info (cur sh)))%bool = true -> stops_order sh s ->
      parse pf md lower ro_on specs root st0 (pre ++ s :: tail) =
        extend (s :: tail) (parse pf md lower ro_on specs root st0 pre) (add_text (set_ph (add_text sh [s]) PTail) tail).
    Proof.
      intros R H RO S. destruct (require_order_stop root st0 pre s tail st sh R H RO S) as [W1 W2].
      assert (E : add_text (set_ph (add_text sh [s]) PTail) tail =
                  mkPst (cur sh) (up sh) (text sh ++ s :: tail) (unk sh) (store sh) PTail).
      { unfold add_text, set_ph. simpl. rewrite <- app_assoc. reflexivity. }
      rewrite E in *. exact (parse_extend root st0 pre (pre ++ s :: tail) sh (s :: tail) PTail W1 W2).
    Qed.

    (* C09, "no option occurring after that point is set or marked called": the option store, the
       selected command, the levels above it and the unknown list after the whole argument vector
       are those reached just before the stop token, whatever the tail contains *)
    Theorem require_order_store_frozen root st0 pre s tail st sh :
      run (init root st0) pre = Ok st -> at_head st s sh ->
      (ro_on && ni_reqorder (n_info (cur sh)))%bool = true -> stops_order sh s ->
      exists fin, walk root st0 (pre ++ s :: tail) = Ok fin /\
        store fin = store sh /\ cur fin = cur sh /\ up fin = up sh /\ unk fin = unk sh /\
        text fin = text sh ++ s :: tail.
    Proof.
      intros R H RO S. destruct (require_order_stop root st0 pre s tail st sh R H RO S) as [_ W2].
      eexists. split; [exact W2|]. unfold add_text, set_ph. cbn.
      rewrite <- app_assoc. cbn. auto.
    Qed.
  End RO.

  (* C09, last sentence: up to the stop point the parser behaves as without require-order.
     [run true] is the real parser, [run false] the same parser with require-order ignored. *)
  Lemma head_ro_irrelevant st t st1 :
    head pf md lower true specs st t = Ok st1 -> ph st1 <> PTail ->
    head pf md lower false specs st t = Ok st1.
  Proof.
    unfold Parse.head. intros H P.
    destruct (str_eqb t DD); [exact H|].
    destruct (is_option md t) as [pairs is]. simpl andb in *. destruct is.
    - destruct (List.filter _ pairs); [exact H|].
      destruct (ni_reqorder (n_info (cur st))); [|exact H].
      inv H. simpl in P. congruence.
    - destruct (alookup t (n_cmds (cur st))); [exact H|].
      destruct (ni_reqorder (n_info (cur st))); [|exact H].
      inv H. simpl in P. congruence.
  Qed.

  Lemma step_ro_irrelevant st t st1 :
    step pf md lower true specs st t = Ok st1 -> ph st1 <> PTail ->
    step pf md lower false specs st t = Ok st1.
  Proof.
    unfold Parse.step. intros H P. destruct (ph st) as [|oid key i pend tok|].
    - apply head_ro_irrelevant; assumption.
    - destruct (nth_error specs oid); [|exact H].
      destruct (try_cur st _ t) as [[s1|]|]; try exact H.
      destruct (offer st tok pend t) as [[s2 b]|]; [|exact H].
      destruct b; [exact H|]. apply head_ro_irrelevant; assumption.
    - exact H.
  Qed.

  Lemma run_tail_ph ro st l st' : ph st = PTail -> run pf md lower ro specs st l = Ok st' -> ph st' = PTail.
  Proof. intros P R. rewrite (run_tail pf md lower ro specs st l P) in R. inv R. exact P. Qed.

  Theorem prefix_as_without_require_order pre : forall st st',
    run pf md lower true specs st pre = Ok st' -> ph st' <> PTail ->
    run pf md lower false specs st pre = Ok st'.
  Proof.
    induction pre as [|t r IH]; intros st st' R P; simpl in *; [exact R|].
    destruct (step pf md lower true specs st t) as [s1|] eqn:E; [|discriminate].
    assert (P1 : ph s1 <> PTail).
    { intros Q. apply P. eapply run_tail_ph; eauto. }
    rewrite (step_ro_irrelevant _ _ _ E P1). auto.
  Qed.
End Tail.
