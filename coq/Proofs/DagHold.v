(* Small lemmas used by the invariants of the DAG transition system. *)
From GO Require Import Base.Str Base.Utf8 Base.Sort Model.Tree Model.Dag.
Open Scope N_scope.

Lemma upd_same {A} (f : vid -> A) k v : upd f k v k = v.
Proof. unfold upd. rewrite str_eqb_refl. reflexivity. Qed.

Lemma upd_other {A} (f : vid -> A) k v k' : k' <> k -> upd f k v k' = f k'.
Proof. unfold upd. intros H. apply str_eqb_neq in H. rewrite H. reflexivity. Qed.

Lemma remove_str_In x v l : NoDup l -> (In x (remove_str v l) <-> In x l /\ x <> v).
Proof.
  induction l as [|y l IH]; intros ND; simpl; [tauto|].
  inversion ND as [|? ? Hn ND']; subst. destruct (str_eqb_spec v y) as [->|N].
  - split.
    + intros I. split; [right; exact I|]. intros ->. contradiction.
    + intros [[->|I] Nx]; [congruence | exact I].
  - simpl. rewrite (IH ND'). split.
    + intros [->|[I Nx]]; [split; [left; reflexivity | congruence] | split; [right; exact I | exact Nx]].
    + intros [[->|I] Nx]; [left; reflexivity | right; split; assumption].
Qed.

Lemma remove_str_NoDup v l : NoDup l -> NoDup (remove_str v l).
Proof.
  induction l as [|y l IH]; intros ND; simpl; [constructor|].
  inversion ND as [|? ? Hn ND']; subst. destruct (str_eqb v y); [exact ND'|].
  constructor; [|apply IH; exact ND']. intros I. apply (remove_str_In y v l ND') in I. tauto.
Qed.

Lemma remove_str_length v l : (length (remove_str v l) <= length l)%nat.
Proof. induction l as [|y l IH]; simpl; [lia|]. destruct (str_eqb v y); simpl; lia. Qed.


Definition status_eq_dec (a b : status) : {a = b} + {a <> b}.
Proof. decide equality. Defined.

Definition thread_eq_dec_ns (t : thread) : {t = NotSpawned} + {t <> NotSpawned}.
Proof. destruct t; try (right; discriminate). left; reflexivity. Defined.
