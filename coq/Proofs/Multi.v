(* Multi-value options: which tokens an occurrence consumes and what is stored (C02). *)
From GO Require Import Base.Str Base.Utf8 Model.Tokenizer Model.Option Model.Tree Model.Parse.
From GO Require Import Proofs.TokLemmas Proofs.ParseLemmas Proofs.Match Proofs.Scalar.
Open Scope N_scope.

(* ---- range expansion and map assignment ---- *)

Lemma seqZ_n_length a n : length (seqZ_n a n) = n.
Proof. revert a; induction n; intros a; simpl; auto. Qed.

Lemma seqZ_n_nth a n i : (i < n)%nat -> nth_error (seqZ_n a n) i = Some (a + Z.of_nat i)%Z.
Proof.
  revert a i; induction n as [|n IH]; intros a i H; [lia|].
  destruct i as [|i]; simpl.
  - f_equal. lia.
  - rewrite IH by lia. f_equal. lia.
Qed.

(* a..b with a < b: b - a + 1 consecutive integers starting at a, ending at b *)
Lemma seqZ_length a b : (a < b)%Z -> Z.of_nat (length (seqZ a b)) = (b - a + 1)%Z.
Proof. intros H. unfold seqZ. rewrite seqZ_n_length. lia. Qed.

Lemma seqZ_nth a b i : (a < b)%Z -> (Z.of_nat i <= b - a)%Z -> nth_error (seqZ a b) i = Some (a + Z.of_nat i)%Z.
Proof. intros H Hi. unfold seqZ. apply seqZ_n_nth. lia. Qed.

Lemma seqZ_In a b x : (a < b)%Z -> In x (seqZ a b) <-> (a <= x <= b)%Z.
Proof.
  intros H. split.
  - intros I. apply In_nth_error in I as [i Hi].
    assert (L : (i < length (seqZ a b))%nat) by (apply nth_error_Some; congruence).
    pose proof (seqZ_length a b H). rewrite seqZ_nth in Hi by lia. inversion Hi. lia.
  - intros Hx. apply nth_error_In with (n := Z.to_nat (x - a)).
    rewrite seqZ_nth by lia. f_equal. lia.
Qed.

Lemma map_get_set_same k v m : map_get k (map_set k v m) = Some v.
Proof.
  induction m as [|[k' v'] m IH]; simpl.
  - rewrite str_eqb_refl. reflexivity.
  - destruct (str_eqb k k') eqn:E; simpl; rewrite ?str_eqb_refl, ?E; auto.
Qed.

Lemma map_get_set_other k k' v m : k' <> k -> map_get k' (map_set k v m) = map_get k' m.
Proof.
  intros H. induction m as [|[k2 v2] m IH]; simpl.
  - apply str_eqb_neq in H. rewrite H. reflexivity.
  - destruct (str_eqb_spec k k2) as [->|N]; simpl.
    + apply str_eqb_neq in H. rewrite H. reflexivity.
    + destruct (str_eqb k' k2); auto.
Qed.

(* the key is the text before the first '=', the value everything after it *)
Lemma split_first_eq_spec e k v :
  split_first 61 e = Some (k, v) -> e = k ++ 61 :: v /\ contains_byte 61 k = false.
Proof. apply split_first_spec. Qed.

Section Multi.
  Variable pf : str -> option N.
  Variable md : mode.
  Variable lower : bool.
  Variable ro_on : bool.
  Variable specs : list ospec.

  Notation head := (head pf md lower ro_on specs).
  Notation step := (step pf md lower ro_on specs).
  Notation finish := (finish pf lower specs).
  Notation save := (save pf lower).
  Notation save_to := (save_to pf lower specs).
  Notation stops := (stops pf md specs).

  Definition next_phase (oid : nat) (k : str) (i mn mx : nat) : phase :=
    if (Nat.ltb i mn || Nat.ltb i mx)%bool then PPend oid k i [] [] else PHead.

  (* the option token of any valued option, with or without attached value *)
  Theorem option_token st key e k oid sp os :
    key <> [] -> contains_byte EQ key = false -> starts_with_eq_or_empty e ->
    matches (n_opts (cur st)) key = [(k, oid)] ->
    nth_error specs oid = Some sp -> nth_error (store st) oid = Some os ->
    head st (DASH :: DASH :: key ++ e) =
      bind (save sp (mkState (o_val os) true k) (attached e)) (fun os2 =>
        Ok (set_ph (with_opt st oid os2) (next_phase oid k (length (attached e)) (os_min sp) (os_max sp)))).
  Proof.
    intros N C He M HS O.
    rewrite (head_long_known pf md lower ro_on specs st key e k oid N C He M).
    simpl Parse.advance.
    rewrite (start_pair_known pf lower specs st _ (mkPair key (attached e)) k oid sp os M HS O). simpl p_args.
    destruct (save sp (mkState (o_val os) true k) (attached e)) as [os2|]; simpl; [|reflexivity].
    unfold next_phase, wants, with_opt.
    destruct (Nat.ltb (length (attached e)) (os_min sp) || Nat.ltb (length (attached e)) (os_max sp))%bool; reflexivity.
  Qed.

  Lemma step_pend_single st oid k i tok sp t :
    ph st = PPend oid k i [] tok -> nth_error specs oid = Some sp ->
    step st t =
      match try_cur pf md lower specs st (oid, k, i, os_min sp, os_max sp) t with
      | Err e => Err e
      | Ok (Some st') => Ok (set_ph st' (next_phase oid k (S i) (os_min sp) (os_max sp)))
      | Ok None => head (set_ph st PHead) t
      end.
  Proof.
    intros P HS. unfold Parse.step. rewrite P, HS.
    destruct (try_cur pf md lower specs st (oid, k, i, os_min sp, os_max sp) t) as [[s1|]|]; try reflexivity.
    unfold Parse.settle, bump, wants, next_phase, mk_pend. simpl.
    destruct (Nat.ltb (S i) (os_min sp) || Nat.ltb (S i) (os_max sp))%bool; reflexivity.
  Qed.

  (* while a mandatory value is missing the next token is taken, whatever it is (`--` included),
     unless it looks like an option: then Parse fails *)
  Theorem intake_mandatory st oid k i tok sp t :
    ph st = PPend oid k i [] tok -> nth_error specs oid = Some sp -> (i < os_min sp)%nat ->
    step st t =
      if looks_like_option md t then Err (e_arg_with_dash k)
      else bind (save_to st oid [t]) (fun st' =>
             Ok (set_ph st' (next_phase oid k (S i) (os_min sp) (os_max sp)))).
  Proof.
    intros P HS L. rewrite (step_pend_single st oid k i tok sp t P HS).
    unfold Parse.try_cur. apply Nat.ltb_lt in L. rewrite L.
    destruct (looks_like_option md t); [reflexivity|].
    destruct (save_to st oid [t]); reflexivity.
  Qed.

  (* beyond the minimum and below the maximum: the token is taken iff it does not look like an
     option, is not `--` and is well-formed for the element type *)
  Theorem intake_greedy st oid k i tok sp t :
    ph st = PPend oid k i [] tok -> nth_error specs oid = Some sp ->
    (os_min sp <= i)%nat -> (i < os_max sp)%nat ->
    step st t =
      if stops oid t then head (set_ph st PHead) t
      else bind (save_to st oid [t]) (fun st' =>
             Ok (set_ph st' (next_phase oid k (S i) (os_min sp) (os_max sp)))).
  Proof.
    intros P HS L1 L2. rewrite (step_pend_single st oid k i tok sp t P HS).
    unfold Parse.try_cur. apply Nat.ltb_ge in L1. apply Nat.ltb_lt in L2. rewrite L1, L2.
    destruct (stops oid t); [reflexivity|].
    destruct (save_to st oid [t]); reflexivity.
  Qed.

  (* once max values are in, the parser is back at the head of the loop: the next token is
     interpreted normally *)
  Lemma next_phase_full oid k i mn mx : (mn <= i)%nat -> (mx <= i)%nat -> next_phase oid k i mn mx = PHead.
  Proof.
    intros H1 H2. unfold next_phase. apply Nat.ltb_ge in H1, H2. rewrite H1, H2. reflexivity.
  Qed.

  Lemma next_phase_more oid k i mn mx : (i < mn \/ i < mx)%nat -> next_phase oid k i mn mx = PPend oid k i [] [].
  Proof.
    intros H. unfold next_phase.
    assert (E : (Nat.ltb i mn || Nat.ltb i mx)%bool = true).
    { destruct H as [H|H]; apply Nat.ltb_lt in H; rewrite H; auto using Bool.orb_true_r. }
    rewrite E. reflexivity.
  Qed.

  (* end of input *)
  Theorem intake_eof st oid k i tok sp :
    ph st = PPend oid k i [] tok -> nth_error specs oid = Some sp ->
    finish st = if Nat.ltb i (os_min sp) then Err (e_missing_arg k)
                else Ok (set_ph st PHead).
  Proof. intros P HS. unfold Parse.finish. rewrite P, HS. reflexivity. Qed.

  (* the stop rule spelled out *)
  Lemma stops_spec oid t sp :
    nth_error specs oid = Some sp ->
    stops oid t = (looks_like_option md t || str_eqb t DD || negb (wellformed pf (os_kind sp) t))%bool.
  Proof. intros HS. unfold Parse.stops, kind_of. rewrite HS. reflexivity. Qed.

  Lemma wellformed_spec k t :
    wellformed pf k t =
      match k with
      | KIntRep => match atoi t with Some _ => true | None => false end
      | KFloatRep => match pf t with Some _ => true | None => false end
      | KMap => contains_byte 61 t
      | _ => true
      end.
  Proof. reflexivity. Qed.

  (* ---- what is stored: command-line order, converted ---- *)

  Lemma save_strs sp l c u a :
    os_kind sp = KStrRep -> a <> [] -> valid_ok sp a = true ->
    save sp (mkState (VStrs l) c u) a = Ok (mkState (VStrs (l ++ a)) c u).
  Proof.
    intros K N V. unfold Option.save. destruct a as [|a0 a']; [congruence|].
    rewrite V, K. reflexivity.
  Qed.

  Lemma save_ints sp l c u a :
    os_kind sp = KIntRep -> a <> [] -> valid_ok sp a = true ->
    save sp (mkState (VInts l) c u) a =
      bind (conv_ints u a) (fun ii => Ok (mkState (VInts (l ++ ii)) c u)).
  Proof.
    intros K N V. unfold Option.save. destruct a as [|a0 a']; [congruence|].
    rewrite V, K. reflexivity.
  Qed.

  Lemma save_floats sp l c u a :
    os_kind sp = KFloatRep -> a <> [] -> valid_ok sp a = true ->
    save sp (mkState (VFloats l) c u) a =
      bind (conv_floats pf u a) (fun ff => Ok (mkState (VFloats (l ++ ff)) c u)).
  Proof.
    intros K N V. unfold Option.save. destruct a as [|a0 a']; [congruence|].
    rewrite V, K. reflexivity.
  Qed.

  Lemma save_map_one sp m c u e k v :
    os_kind sp = KMap -> valid_ok sp [e] = true -> split_first 61 e = Some (k, v) ->
    save sp (mkState (VMap m) c u) [e] =
      Ok (mkState (VMap (map_set (if lower then go_lower k else k) v m)) c u).
  Proof.
    intros K V Sp. unfold Option.save. rewrite V, K. simpl. rewrite Sp. reflexivity.
  Qed.

  Lemma save_map_not_kv sp m c u e :
    os_kind sp = KMap -> valid_ok sp [e] = true -> split_first 61 e = None ->
    save sp (mkState (VMap m) c u) [e] = Err (e_not_kv u).
  Proof.
    intros K V Sp. unfold Option.save. rewrite V, K. simpl. rewrite Sp. reflexivity.
  Qed.

  (* one int element: a plain integer, or a range a..b with a < b expanded inclusively *)
  Lemma conv_ints_one u e :
    conv_ints u [e] =
      match split_dotdot e with
      | Some (n1, n2) =>
          match atoi n1, atoi n2 with
          | Some i1, Some i2 => if Z.ltb i1 i2 then Ok (seqZ i1 i2) else Err (e_conv_int u e)
          | _, _ => Err (e_conv_int u e)
          end
      | None => match atoi e with Some i => Ok [i] | None => Err (e_conv_int u e) end
      end.
  Proof.
    unfold conv_ints. destruct (split_dotdot e) as [[n1 n2]|].
    - destruct (atoi n1), (atoi n2); simpl; try reflexivity.
      destruct (Z.ltb z z0); simpl; [rewrite app_nil_r|]; reflexivity.
    - destruct (atoi e); simpl; reflexivity.
  Qed.
End Multi.
