(* Aliases, Called / CalledAs, and the frame property of the store (C06). *)
From GO Require Import Base.Str Base.Utf8 Model.Tokenizer Model.Option Model.Tree Model.Parse.
From GO Require Import Proofs.TokLemmas Proofs.ParseLemmas Proofs.Match.
Open Scope N_scope.

Section Alias.
  Variable pf : str -> option N.
  Variable md : mode.
  Variable lower : bool.
  Variable ro_on : bool.
  Variable specs : list ospec.

  Notation save := (save pf lower).
  Notation start_pair := (start_pair pf lower specs).
  Notation save_to := (save_to pf lower specs).
  Notation try_cur := (try_cur pf md lower specs).
  Notation advance := (advance pf lower specs).
  Notation settle := (settle pf lower specs).
  Notation offer := (offer pf md lower specs).
  Notation advance_eof := (advance_eof pf lower specs).
  Notation head := (head pf md lower ro_on specs).
  Notation step := (step pf md lower ro_on specs).
  Notation run := (run pf md lower ro_on specs).
  Notation finish := (finish pf lower specs).

  (* ---- the recorded alias only shows in error messages ---- *)

  Lemma conv_ints_used u1 u2 a :
    match conv_ints u1 a, conv_ints u2 a with
    | Ok l1, Ok l2 => l1 = l2
    | Err e1, Err e2 => e_kind e1 = e_kind e2
    | _, _ => False
    end.
  Proof.
    induction a as [|e a IH]; simpl; [reflexivity|].
    destruct (split_dotdot e) as [[n1 n2]|].
    - destruct (atoi n1), (atoi n2); simpl; try reflexivity.
      destruct (Z.ltb z z0); simpl; [|reflexivity].
      destruct (conv_ints u1 a), (conv_ints u2 a); simpl; try contradiction; congruence.
    - destruct (atoi e); simpl; [|reflexivity].
      destruct (conv_ints u1 a), (conv_ints u2 a); simpl; try contradiction; congruence.
  Qed.

  Lemma conv_floats_used u1 u2 a :
    match conv_floats pf u1 a, conv_floats pf u2 a with
    | Ok l1, Ok l2 => l1 = l2
    | Err e1, Err e2 => e_kind e1 = e_kind e2
    | _, _ => False
    end.
  Proof.
    induction a as [|e a IH]; simpl; [reflexivity|].
    destruct (pf e); [|reflexivity].
    destruct (conv_floats pf u1 a), (conv_floats pf u2 a); simpl; try contradiction; congruence.
  Qed.

  Lemma save_map_used u1 u2 a : forall m,
    match save_map lower u1 m a, save_map lower u2 m a with
    | (m1, None), (m2, None) => m1 = m2
    | (_, Some e1), (_, Some e2) => e_kind e1 = e_kind e2
    | _, _ => False
    end.
  Proof.
    induction a as [|e a IH]; intros m; simpl; [reflexivity|].
    destruct (split_first 61 e) as [[k v]|]; [apply IH | reflexivity].
  Qed.

  (* same value and Called, whatever alias is recorded; errors of the same kind *)
  Definition same_but_used (r1 r2 : result ostate) : Prop :=
    match r1, r2 with
    | Ok a, Ok b => o_val a = o_val b /\ o_called a = o_called b
    | Err e1, Err e2 => e_kind e1 = e_kind e2
    | _, _ => False
    end.

  Local Opaque conv_ints conv_floats save_map.
  Lemma save_used_indep sp v c u1 u2 a :
    same_but_used (save sp (mkState v c u1) a) (save sp (mkState v c u2) a).
  Proof.
    unfold Option.save, same_but_used. destruct a as [|a0 a'].
    - destruct (os_kind sp), v; simpl; auto.
    - destruct (negb (valid_ok sp (a0 :: a'))); [reflexivity|]. simpl o_val. simpl o_called. simpl o_used.
      destruct (os_kind sp) eqn:K; destruct v; simpl; auto;
        try (destruct (atoi a0); simpl; auto; fail);
        try (destruct (pf a0); simpl; auto; fail);
        try (destruct (str_eqb a0 _); simpl; auto; destruct (str_eqb a0 _); simpl; auto; fail).
      all: match goal with
           | |- context [conv_ints ?x1 ?a] =>
               pose proof (conv_ints_used u1 u2 a) as H;
               destruct (conv_ints u1 a), (conv_ints u2 a); simpl; try contradiction; auto; subst; auto
           | |- context [conv_floats pf ?x1 ?a] =>
               pose proof (conv_floats_used u1 u2 a) as H;
               destruct (conv_floats pf u1 a), (conv_floats pf u2 a); simpl; try contradiction; auto; subst; auto
           | |- context [save_map lower ?x1 ?m ?a] =>
               pose proof (save_map_used u1 u2 a m) as H;
               destruct (save_map lower u1 m a) as [m1 [e1|]], (save_map lower u2 m a) as [m2 [e2|]];
               simpl; try contradiction; auto; subst; auto
           end.
  Qed.  Local Transparent conv_ints conv_floats save_map.


  (* C06: two keys of the same option have the same effect; only CalledAs records which was used *)
  Theorem alias_same_effect st tok1 tok2 a1 a2 oid args :
    alookup a1 (n_opts (cur st)) = Some oid -> alookup a2 (n_opts (cur st)) = Some oid ->
    match start_pair st tok1 (mkPair a1 args), start_pair st tok2 (mkPair a2 args) with
    | Ok (Some (s1, (o1, k1, i1, mn1, mx1))), Ok (Some (s2, (o2, k2, i2, mn2, mx2))) =>
        o1 = oid /\ o2 = oid /\ k1 = a1 /\ k2 = a2 /\ i1 = i2 /\ mn1 = mn2 /\ mx1 = mx2 /\
        (forall o, o <> oid -> nth_error (store s1) o = nth_error (store s2) o) /\
        (exists os1 os2, nth_error (store s1) oid = Some os1 /\ nth_error (store s2) oid = Some os2 /\
                         o_val os1 = o_val os2 /\ o_called os1 = true /\ o_called os2 = true /\
                         o_used os1 = a1 /\ o_used os2 = a2)
    | Err e1, Err e2 => e_kind e1 = e_kind e2
    | _, _ => False
    end.
  Proof.
    intros L1 L2. unfold Parse.start_pair. simpl p_name. simpl p_args.
    rewrite (matches_exact _ _ _ L1), (matches_exact _ _ _ L2).
    destruct (nth_error specs oid) as [sp|] eqn:S; [|reflexivity].
    destruct (nth_error (store st) oid) as [os|] eqn:O; [|reflexivity].
    pose proof (save_used_indep sp (o_val os) true a1 a2 args) as H. unfold same_but_used in H.
    destruct (save sp (mkState (o_val os) true a1) args) as [r1|e1] eqn:E1;
      destruct (save sp (mkState (o_val os) true a2) args) as [r2|e2] eqn:E2; simpl; try contradiction; auto.
    destruct H as [Hv Hc].
    apply save_keeps_called in E1 as [C1 U1]. apply save_keeps_called in E2 as [C2 U2]. simpl in *.
    assert (Lt : (oid < length (store st))%nat) by (apply nth_error_Some; congruence).
    repeat split; auto.
    - intros o Ho. rewrite !nth_error_update_neq by congruence. reflexivity.
    - exists r1, r2. rewrite !nth_error_update_eq by exact Lt. repeat split; auto.
  Qed.

  (* ---- frame: an option no pair resolves to is left alone ---- *)

  Definition resolves (tbl : list (str * nat)) (p : pair) (o : nat) : Prop :=
    exists k, matches tbl (p_name p) = [(k, o)].

  Definition untouched (o : nat) (a b : pst) : Prop := nth_error (store b) o = nth_error (store a) o.

  Lemma untouched_refl o a : untouched o a a. Proof. reflexivity. Qed.
  Lemma untouched_trans o a b c : untouched o a b -> untouched o b c -> untouched o a c.
  Proof. unfold untouched. congruence. Qed.

  Lemma start_pair_untouched st tok p st' c o :
    start_pair st tok p = Ok (Some (st', c)) -> ~ resolves (n_opts (cur st)) p o -> untouched o st st'.
  Proof.
    destruct c as [[[[oid key] i] mn] mx]. intros H N.
    apply start_pair_effect in H as (M & _ & F & _). apply F.
    intros ->. apply N. exists key. exact M.
  Qed.

  Lemma save_to_untouched st oid a st' o : save_to st oid a = Ok st' -> o <> oid -> untouched o st st'.
  Proof. intros H N. apply save_to_effect in H as [F _]. apply F. exact N. Qed.

  Lemma try_cur_untouched st oid key i mn mx t st' o :
    try_cur st (oid, key, i, mn, mx) t = Ok (Some st') -> o <> oid -> untouched o st st'.
  Proof.
    unfold Parse.try_cur. intros H N.
    repeat dmatch H; try discriminate;
      apply bind_ok in H as (s & Hs & H); inv H; eapply save_to_untouched; eauto.
  Qed.

  Definition none_resolves (tbl : list (str * nat)) (pend : list pair) (o : nat) : Prop :=
    forall p, In p pend -> ~ resolves tbl p o.

  Lemma advance_untouched tok o pend : forall st st',
    advance st tok pend = Ok st' -> none_resolves (n_opts (cur st)) pend o -> untouched o st st'.
  Proof.
    induction pend as [|p pend IH]; intros st st' H N; simpl in H.
    - inv H. reflexivity.
    - destruct (start_pair st tok p) as [[[s c]|]|] eqn:E; try discriminate.
      + assert (U : untouched o st s).
        { eapply start_pair_untouched; eauto. apply N. left; reflexivity. }
        apply start_pair_frame in E as [[Fc _] _].
        destruct (wants c).
        * destruct c as [[[[oid key] i] mn] mx]. inv H. exact U.
        * eapply untouched_trans; [exact U|]. apply IH; [exact H|].
          rewrite <- Fc. intros q Hq. apply N. right; exact Hq.
      + apply IH; [exact H|]. intros q Hq. apply N. right; exact Hq.
  Qed.

  Lemma settle_untouched st c pend tok st' o :
    settle st c pend tok = Ok st' -> none_resolves (n_opts (cur st)) pend o -> untouched o st st'.
  Proof.
    unfold Parse.settle. destruct (wants c).
    - destruct c as [[[[oid key] i] mn] mx]. intros H _; inv H. reflexivity.
    - apply advance_untouched.
  Qed.

  Lemma offer_untouched tok t o pend : forall st st' b,
    offer st tok pend t = Ok (st', b) -> none_resolves (n_opts (cur st)) pend o -> untouched o st st'.
  Proof.
    induction pend as [|p pend IH]; intros st st' b H N; simpl in H.
    - inv H. reflexivity.
    - destruct (start_pair st tok p) as [[[s c]|]|] eqn:E; try discriminate.
      + assert (U : untouched o st s).
        { eapply start_pair_untouched; eauto. apply N. left; reflexivity. }
        assert (R : ~ resolves (n_opts (cur st)) p o) by (apply N; left; reflexivity).
        pose proof E as E'. apply start_pair_frame in E' as [[Fc _] _].
        destruct c as [[[[oid key] i] mn] mx].
        assert (Ho : o <> oid).
        { intros ->. apply R. apply start_pair_effect in E as (M & _). exists key. exact M. }
        destruct (try_cur s (oid, key, i, mn, mx) t) as [[s2|]|] eqn:E2; try discriminate.
        * apply bind_ok in H as (s3 & H3 & H). inv H.
          pose proof E2 as E2'. apply try_cur_frame in E2' as [[Fc2 _] _].
          eapply untouched_trans; [exact U|]. eapply untouched_trans; [eapply try_cur_untouched; eauto|].
          eapply settle_untouched; [exact H3|]. rewrite <- Fc2, <- Fc. intros q Hq. apply N. right; exact Hq.
        * eapply untouched_trans; [exact U|]. eapply IH; [exact H|].
          rewrite <- Fc. intros q Hq. apply N. right; exact Hq.
      + eapply IH; [exact H|]. intros q Hq. apply N. right; exact Hq.
  Qed.

  Lemma advance_eof_untouched tok o pend : forall st st',
    advance_eof st tok pend = Ok st' -> none_resolves (n_opts (cur st)) pend o -> untouched o st st'.
  Proof.
    induction pend as [|p pend IH]; intros st st' H N; simpl in H.
    - inv H. reflexivity.
    - destruct (start_pair st tok p) as [[[s c]|]|] eqn:E; try discriminate.
      + assert (U : untouched o st s).
        { eapply start_pair_untouched; eauto. apply N. left; reflexivity. }
        apply start_pair_frame in E as [[Fc _] _]. destruct c as [[[[oid key] i] mn] mx].
        destruct (Nat.ltb i mn); [discriminate|].
        eapply untouched_trans; [exact U|]. apply IH; [exact H|].
        rewrite <- Fc. intros q Hq. apply N. right; exact Hq.
      + apply IH; [exact H|]. intros q Hq. apply N. right; exact Hq.
  Qed.

  Lemma head_untouched st t st' o :
    head st t = Ok st' -> none_resolves (n_opts (cur st)) (fst (is_option md t)) o -> untouched o st st'.
  Proof.
    unfold Parse.head. intros H N. destruct (str_eqb t DD); [inv H; reflexivity|].
    destruct (is_option md t) as [pairs is]. simpl in N. destruct is.
    - destruct (List.filter _ pairs).
      + eapply advance_untouched; eauto.
      + destruct (ro_on && _)%bool; [inv H; reflexivity|].
        destruct (ni_umode _); (eapply (advance_untouched _ o pairs) in H; [exact H | exact N]).
    - destruct (alookup t (n_cmds (cur st))); [inv H; reflexivity|].
      destruct (ro_on && _)%bool; inv H; reflexivity.
  Qed.

  (* the options a token may touch, given the state it arrives in *)
  Definition mentions (st : pst) (t : str) (o : nat) : Prop :=
    match ph st with
    | PTail => False
    | PHead => ~ none_resolves (n_opts (cur st)) (fst (is_option md t)) o
    | PPend oid _ _ pend _ =>
        o = oid \/ ~ none_resolves (n_opts (cur st)) pend o \/
        ~ none_resolves (n_opts (cur st)) (fst (is_option md t)) o
    end.

  (* C06, last sentence, one step: an option that the token does not mention keeps value, Called
     and CalledAs *)
  Theorem step_frame st t st' o :
    step st t = Ok st' ->
    (ph st = PTail \/
     (ph st = PHead /\ none_resolves (n_opts (cur st)) (fst (is_option md t)) o) \/
     (exists oid key i pend tok, ph st = PPend oid key i pend tok /\ o <> oid /\
        none_resolves (n_opts (cur st)) pend o /\
        none_resolves (n_opts (cur st)) (fst (is_option md t)) o)) ->
    untouched o st st'.
  Proof.
    unfold Parse.step. intros H [P|[[P N]|(oid & key & i & pend & tok & P & No & Np & Nt)]]; rewrite P in H.
    - inv H. reflexivity.
    - eapply head_untouched; eauto.
    - destruct (nth_error specs oid) as [sp|]; [|discriminate].
      destruct (try_cur st (oid, key, i, os_min sp, os_max sp) t) as [[s1|]|] eqn:E1; try discriminate.
      + pose proof E1 as E1'. apply try_cur_frame in E1' as [[Fc _] _].
        eapply untouched_trans; [eapply try_cur_untouched; eauto|].
        eapply settle_untouched; [exact H|]. rewrite <- Fc. exact Np.
      + destruct (offer st tok pend t) as [[s2 b]|] eqn:E2; [|discriminate].
        pose proof E2 as E2'. apply offer_frame in E2' as [Fc _].
        assert (U : untouched o st s2) by (eapply offer_untouched; eauto).
        destruct b; [inv H; exact U|].
        eapply untouched_trans; [exact U|]. eapply head_untouched; [exact H|]. rewrite <- Fc. exact Nt.
  Qed.

  (* Called is never taken back, CalledAs of a called option stays non-accidental: every step keeps
     Called true where it was true *)
  Definition called_at (st : pst) (o : nat) : bool :=
    match nth_error (store st) o with Some os => o_called os | None => false end.

  Lemma update_called_mono st oid os' o :
    (forall os, nth_error (store st) oid = Some os -> o_called os = true -> o_called os' = true) ->
    called_at st o = true -> called_at (set_store st (update_nth oid os' (store st))) o = true.
  Proof.
    unfold called_at. simpl. intros H C.
    destruct (Nat.eq_dec oid o) as [->|N].
    - destruct (nth_error (store st) o) as [os|] eqn:E; [|discriminate].
      rewrite nth_error_update_eq by (apply nth_error_Some; congruence). eauto.
    - rewrite nth_error_update_neq by exact N. exact C.
  Qed.

  Lemma save_to_called st oid a st' o : save_to st oid a = Ok st' -> called_at st o = true -> called_at st' o = true.
  Proof.
    unfold Parse.save_to. intros H C.
    destruct (nth_error specs oid) as [sp|]; [|discriminate].
    destruct (nth_error (store st) oid) as [os|] eqn:O; [|discriminate].
    apply bind_ok in H as (os2 & Sv & H). inv H. apply save_keeps_called in Sv as [Cc _].
    apply update_called_mono; [|exact C]. intros os0 E. inv E. congruence.
  Qed.

  Lemma start_pair_called st tok p st' c o :
    start_pair st tok p = Ok (Some (st', c)) -> called_at st o = true -> called_at st' o = true.
  Proof.
    unfold Parse.start_pair. intros H C.
    destruct (matches (n_opts (cur st)) (p_name p)) as [|[k oid] [|]]; try discriminate.
    destruct (nth_error specs oid) as [sp|]; [|discriminate].
    destruct (nth_error (store st) oid) as [os|] eqn:O; [|discriminate].
    apply bind_ok in H as (os2 & Sv & H). inv H. apply save_keeps_called in Sv as [Cc _]. simpl in Cc.
    apply update_called_mono; [|exact C]. intros; exact Cc.
  Qed.
End Alias.
