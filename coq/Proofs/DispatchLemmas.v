(* Dispatch (C10), required options and help (C11). *)
From GO Require Import Base.Str Base.Sort Base.Utf8 Model.Tokenizer Model.Option Model.Tree Model.Parse Model.Help Model.Dispatch.
From GO Require Import Proofs.ParseLemmas Proofs.Labels.
Open Scope N_scope.

(* ---- which node is selected: exactly the tokens labelled LCmd descend ---- *)

Fixpoint follow (n : node) (names : list str) : option node :=
  match names with
  | [] => Some n
  | c :: r => match alookup c (n_cmds n) with Some child => follow child r | None => None end
  end.

Fixpoint select_cmds (args : list str) (ls : list label) : list str :=
  match args, ls with
  | a :: args', l :: ls' => (match l with LCmd => [a] | _ => [] end) ++ select_cmds args' ls'
  | _, _ => []
  end.

Lemma follow_app n a b : follow n (a ++ b) = match follow n a with Some m => follow m b | None => None end.
Proof.
  revert n; induction a as [|c a IH]; intros n; simpl; [reflexivity|].
  destruct (alookup c (n_cmds n)); auto.
Qed.

Section DispatchLemmas.
  Variable pf : str -> option N.
  Variable md : mode.
  Variable lower : bool.
  Variable ro_on : bool.
  Variable specs : list ospec.

  Notation head := (head pf md lower ro_on specs).
  Notation step := (step pf md lower ro_on specs).
  Notation run := (run pf md lower ro_on specs).
  Notation finish := (finish pf lower specs).
  Notation walk := (walk pf md lower ro_on specs).
  Notation parse := (parse pf md lower ro_on specs).
  Notation label_of := (label_of pf md lower ro_on specs).
  Notation labels := (labels pf md lower ro_on specs).
  Notation head_label := (head_label md ro_on).

  Lemma head_cur st t st' :
    head st t = Ok st' ->
    follow (cur st) (match head_label st t with LCmd => [t] | _ => [] end) = Some (cur st').
  Proof.
    unfold Parse.head, Labels.head_label. intros H.
    destruct (str_eqb t DD); [inv H; reflexivity|].
    destruct (is_option md t) as [pairs is]. destruct is.
    - assert (C : cur st' = cur st).
      { destruct (List.filter _ pairs).
        - apply advance_frame in H as [C _]. congruence.
        - destruct (ro_on && _)%bool; [inv H; reflexivity|].
          destruct (ni_umode _); apply advance_frame in H as [C _]; simpl in C; congruence. }
      destruct (List.filter _ pairs); [|destruct (ro_on && _)%bool; [|destruct (ni_umode _)]];
        simpl; congruence.
    - destruct (alookup t (n_cmds (cur st))) as [child|] eqn:E.
      + inv H. simpl. rewrite E. reflexivity.
      + destruct (ro_on && _)%bool; inv H; reflexivity.
  Qed.

  Lemma step_cur st t st' :
    step st t = Ok st' ->
    follow (cur st) (match label_of st t with LCmd => [t] | _ => [] end) = Some (cur st').
  Proof.
    unfold Parse.step, Labels.label_of. intros H. destruct (ph st) as [|oid key i pend tok|].
    - apply head_cur; exact H.
    - destruct (nth_error specs oid) as [sp|]; [|discriminate].
      destruct (try_cur pf md lower specs st _ t) as [[s1|]|] eqn:E1; try discriminate.
      + apply try_cur_frame in E1 as [[C1 _] _]. apply settle_frame in H as [C2 _]. simpl. congruence.
      + destruct (offer pf md lower specs st tok pend t) as [[s2 b]|] eqn:E2; [|discriminate].
        apply offer_frame in E2 as [C2 _]. destruct b.
        * inv H. simpl. congruence.
        * apply head_cur in H. rewrite C2. exact H.
    - inv H. reflexivity.
  Qed.

  Lemma run_cur args : forall st st',
    run st args = Ok st' -> follow (cur st) (select_cmds args (labels st args)) = Some (cur st').
  Proof.
    induction args as [|t r IH]; intros st st' H; simpl in H.
    - inv H. reflexivity.
    - destruct (step st t) as [s1|] eqn:E; [|discriminate]. simpl. rewrite E.
      rewrite follow_app. rewrite (step_cur _ _ _ E). apply IH. exact H.
  Qed.

  (* C10: the node whose function Dispatch addresses is the one reached from the root by following,
     in order, exactly the tokens labelled as command tokens *)
  Theorem selected_node root st0 args w st rem :
    parse root st0 args = mkRes w (Ok (st, rem)) ->
    follow root (select_cmds args (labels (init root st0) args)) = Some (cur st).
  Proof.
    unfold Parse.parse. intros H.
    destruct (walk root st0 args) as [s|] eqn:W; [|discriminate].
    unfold Parse.walk in W. apply bind_ok in W as (s1 & R & F).
    apply run_cur in R. apply finish_frame in F as [C _].
    destruct (match up s with [] => _ | _ => _ end); [discriminate|].
    destruct (policy_levels (levels_of s)) as [[w' e] r] eqn:P. destruct e; [discriminate|]. inv H.
    simpl in R. congruence.
  Qed.

  (* ---- what Dispatch does ---- *)

  (* C10: no help, no missing required option: exactly one user function, with the remaining
     arguments Parse returned and the view of the selected node; a node without function prints help
     (root, or command with more than one child) or reports the missing function *)
  Theorem dispatch_runs root st rem :
    called (store st) (n_opts root) (ni_helpname (n_info (cur st))) = false ->
    required_error specs (store st) (cur st) = None ->
    dispatch specs root st rem =
      match ni_fn (n_info (cur st)) with
      | FnUser id => DRan id rem (view_of (cur st) (store st))
      | FnHelp => run_help specs st rem
      | FnNone =>
          match up st with
          | [] => DRootHelp (help_of_state specs st)
          | _ :: _ =>
              if Nat.ltb 1 (List.length (n_cmds (cur st))) then DHelp (help_of_state specs st)
              else DErr (mkErrA ENoCommandFn [ni_name (n_info (cur st))] (msg_no_command_fn (ni_name (n_info (cur st)))) false)
          end
      end.
  Proof. unfold dispatch. intros -> ->. reflexivity. Qed.

  (* C10: the view resolves every key of the selected node's table -- own and inherited alike -- to
     the option object's parsed state *)
  Lemma view_of_lookup n store k oid os :
    In (k, oid) (n_opts n) -> nth_error store oid = Some os -> In (k, os) (view_of n store).
  Proof.
    intros I E. unfold view_of. apply in_flat_map. exists (k, oid). split; [exact I|].
    simpl. rewrite E. left. reflexivity.
  Qed.

  (* C11: a missing required option blocks every function; the error is in the ErrorParsing class
     and carries the custom message when one was declared *)
  Theorem dispatch_required_blocks root st rem e :
    called (store st) (n_opts root) (ni_helpname (n_info (cur st))) = false ->
    required_error specs (store st) (cur st) = Some e ->
    dispatch specs root st rem = DErr e.
  Proof. unfold dispatch. intros -> ->. reflexivity. Qed.

  Lemma check_required_shape st oid e :
    check_required specs st oid = Some e ->
    e_parsing e = true /\ e_kind e = EMissingRequired /\
    exists sp os, nth_error specs oid = Some sp /\ nth_error st oid = Some os /\
                  os_required sp = true /\ o_called os = false /\
                  e_msg e = match os_reqmsg sp with [] => msg_missing_required (os_name sp) | m => m end.
  Proof.
    unfold check_required. destruct (nth_error specs oid) as [sp|]; [|discriminate].
    destruct (nth_error st oid) as [os|]; [|discriminate].
    destruct (os_required sp) eqn:R; [|discriminate]. destruct (o_called os) eqn:C; [discriminate|].
    simpl. intros H. inv H. repeat split; auto. exists sp, os. auto.
  Qed.

  Lemma first_missing_some st tbl ks e :
    first_missing specs st tbl ks = Some e ->
    exists k oid, In k ks /\ alookup k tbl = Some oid /\ check_required specs st oid = Some e.
  Proof.
    induction ks as [|k ks IH]; simpl; [discriminate|].
    destruct (alookup k tbl) as [oid|] eqn:L.
    - destruct (check_required specs st oid) as [e'|] eqn:C.
      + intros H; inv H. exists k, oid. auto.
      + intros H. destruct (IH H) as (k' & o' & I & L' & C'). exists k', o'. auto.
    - intros H. destruct (IH H) as (k' & o' & I & L' & C'). exists k', o'. auto.
  Qed.

  Lemma first_missing_none st tbl ks :
    first_missing specs st tbl ks = None ->
    forall k oid, In k ks -> alookup k tbl = Some oid -> check_required specs st oid = None.
  Proof.
    induction ks as [|k0 ks IH]; simpl; intros H k oid I L; [contradiction|].
    destruct (alookup k0 tbl) as [o0|] eqn:L0.
    - destruct (check_required specs st o0) eqn:C; [discriminate|].
      destruct I as [->|I]; [congruence | eauto].
    - destruct I as [->|I]; [congruence | eauto].
  Qed.

  (* the required scan reports a missing option iff the selected level has one *)
  Theorem required_error_none st n :
    required_error specs st n = None <->
    (forall k oid, alookup k (n_opts n) = Some oid -> check_required specs st oid = None).
  Proof.
    unfold required_error. split.
    - intros H k oid L. eapply first_missing_none; eauto.
      apply sort_strs_In. eapply alookup_Some_key; eauto.
    - intros H. destruct (first_missing specs st (n_opts n) (sort_strs (keys (n_opts n)))) as [e|] eqn:E; [|reflexivity].
      apply first_missing_some in E as (k & oid & _ & L & C). rewrite (H k oid L) in C. discriminate.
  Qed.

  Theorem required_error_some st n e :
    required_error specs st n = Some e ->
    exists k oid, alookup k (n_opts n) = Some oid /\ check_required specs st oid = Some e.
  Proof.
    unfold required_error. intros H. apply first_missing_some in H as (k & oid & _ & L & C). eauto.
  Qed.

  (* C11: help wins -- whatever is missing, the help of the selected level is written, the
     result is ErrorHelpCalled, no user function runs *)
  Theorem dispatch_help_wins root st rem :
    called (store st) (n_opts root) (ni_helpname (n_info (cur st))) = true ->
    dispatch specs root st rem = DHelp (help_of_state specs st).
  Proof. unfold dispatch. intros ->. reflexivity. Qed.

  (* C11 at Parse: with help requested at the root, Parse does not report missing required options *)
  Theorem parse_help_skips_required root st0 args s :
    walk root st0 args = Ok s -> up s = [] ->
    called (store s) (n_opts root) (ni_helpname (n_info (cur s))) = true ->
    parse root st0 args =
      let '(w, e, rem) := policy_levels (levels_of s) in
      match e with Some e => mkRes w (Err e) | None => mkRes w (Ok (s, rem)) end.
  Proof. unfold Parse.parse. intros -> -> ->. reflexivity. Qed.

  (* C11 at Parse: the root's required options are checked by Parse itself *)
  Theorem parse_required_root root st0 args s e :
    walk root st0 args = Ok s -> up s = [] ->
    called (store s) (n_opts root) (ni_helpname (n_info (cur s))) = false ->
    required_error specs (store s) (cur s) = Some e ->
    parse root st0 args = mkRes [] (Err e).
  Proof. unfold Parse.parse. intros -> -> -> ->. reflexivity. Qed.

  (* C11: the help command: the help of the level it was invoked at, or of the named subcommand;
     an unknown topic is an error *)
  Theorem help_command_no_topic st pl ups :
    up st = pl :: ups ->
    run_help specs st [] =
      DHelp (help_output specs (List.map (fun l => ni_name (n_info (lv_node l))) (rev (up st)))
                         (match ups with [] => true | _ => false end) (lv_node pl)).
  Proof. unfold run_help. intros ->. reflexivity. Qed.

  (* the topic of the help command is looked up among the commands of the level by the name they
     were declared with - the names the command line selects them by and completion offers after
     `help ` (repair of D17) - and the help printed is that command's *)
  Theorem help_command_topic st pl ups a0 rest c :
    up st = pl :: ups ->
    alookup a0 (n_cmds (lv_node pl)) = Some c ->
    run_help specs st (a0 :: rest) =
      DHelp (help_output specs (List.map (fun l => ni_name (n_info (lv_node l))) (rev (up st)) ++ [ni_name (n_info c)]) false c).
  Proof. unfold run_help. intros -> ->. reflexivity. Qed.

  Theorem help_command_unknown_topic st pl ups a0 rest :
    up st = pl :: ups ->
    alookup a0 (n_cmds (lv_node pl)) = None ->
    run_help specs st (a0 :: rest) = DErr (mkErrA ENoHelpTopic [a0] (msg_no_help_topic a0) false).
  Proof. unfold run_help. intros -> ->. reflexivity. Qed.

  (* C10, end to end: Parse succeeded, no help, nothing required is missing, and the node reached by
     the command tokens has a user function: Dispatch is exactly one run of that function with the
     remaining arguments Parse returned and that node's view *)
  Theorem parse_then_dispatch root st0 args w st rem nd id :
    parse root st0 args = mkRes w (Ok (st, rem)) ->
    follow root (select_cmds args (labels (init root st0) args)) = Some nd ->
    ni_fn (n_info nd) = FnUser id ->
    called (store st) (n_opts root) (ni_helpname (n_info nd)) = false ->
    required_error specs (store st) nd = None ->
    dispatch specs root st rem = DRan id rem (view_of nd (store st)).
  Proof.
    intros P F U H R. pose proof (selected_node root st0 args w st rem P) as S.
    rewrite S in F. inversion F; subst nd. rewrite (dispatch_runs root st rem H R). rewrite U. reflexivity.
  Qed.
End DispatchLemmas.
