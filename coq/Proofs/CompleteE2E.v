(* C20 / C17: the completion result as a whole — the walk over the earlier words and the candidates
   for the last word — does not depend on the order of any table of the tree. *)
From GO Require Import Base.Str Base.Utf8 Base.Sort Model.Tokenizer Model.Option Model.Tree Model.Parse Model.Complete.
From GO Require Import Proofs.ParseLemmas Proofs.Labels Proofs.DispatchLemmas Proofs.Perm Proofs.PermParse Proofs.CompleteLemmas Proofs.CompletePerm.
From Coq Require Import Permutation Lia.
Open Scope N_scope.

Section E2E.
  Variable pf : str -> option N.
  Variable md : mode.
  Variable lower : bool.
  Variable specs : list ospec.
  Variable vfn : nat -> target -> str -> list str.
  Variable afn : nat -> target -> list str -> str -> list str.

  (* every table of the tree is a Go map of declared options / commands: distinct command keys,
     option keys without `=` that resolve to declared options *)
  Inductive wfc : node -> Prop :=
  | wfc_intro i o c :
      (forall k oid, In (k, oid) o -> contains_byte 61 k = false /\ exists sp, nth_error specs oid = Some sp) ->
      NoDup (keys c) -> (forall k a, In (k, a) c -> wfc a) -> wfc (Node i o c).

  Lemma wfc_follow path : forall n n', wfc n -> follow n path = Some n' -> wfc n'.
  Proof.
    induction path as [|c r IH]; intros n n' W F; simpl in F; [inversion F; subst; exact W|].
    destruct (alookup c (n_cmds n)) as [child|] eqn:A; [|discriminate].
    apply (IH child n'); [|exact F]. destruct W as [i o cs _ _ Wc]. simpl in A. apply alookup_In in A. eapply Wc; eauto.
  Qed.

  Lemma cmd_keys_perm n n' : nsim n n' -> wfc n -> wfc n' -> Permutation (keys (n_cmds n)) (keys (n_cmds n')).
  Proof.
    intros S W W'. pose proof (fun k => nsim_cmd n n' k S) as L.
    destruct W as [i o c _ ND _]. destruct W' as [i' o' c' _ ND' _]. simpl in *.
    apply NoDup_Permutation; [exact ND | exact ND'|]. intros k. specialize (L k).
    destruct (alookup k c) as [a|] eqn:A, (alookup k c') as [b|] eqn:B; try contradiction.
    - split; intros _; eapply alookup_Some_key; eauto.
    - apply alookup_None in A. apply alookup_None in B. tauto.
  Qed.

  Lemma command_completions_sim t n n' prev w :
    nsim n n' -> wfc n -> wfc n' -> command_completions afn t n prev w = command_completions afn t n' prev w.
  Proof.
    intros S W W'. unfold Complete.command_completions. rewrite <- (nsim_info _ _ S).
    assert (E : sort_strs (List.filter (prefixb w) (keys (n_cmds n)) ++ List.filter (prefixb w) (ni_suggestions (n_info n)) ++
                           flat_map (fun f => afn f t prev w) (ni_sfns (n_info n))) =
                sort_strs (List.filter (prefixb w) (keys (n_cmds n')) ++ List.filter (prefixb w) (ni_suggestions (n_info n)) ++
                           flat_map (fun f => afn f t prev w) (ni_sfns (n_info n)))).
    { apply sort_strs_perm_eq. apply Permutation_app_tail. apply filter_perm. apply cmd_keys_perm; assumption. }
    rewrite E. reflexivity.
  Qed.

  Lemma option_completions_sim t n n' w :
    nsim n n' -> wfc n -> option_completions specs vfn t n w = option_completions specs vfn t n' w.
  Proof.
    intros S W. destruct S as [i o o' c c' P ND _ _]. inversion W as [i0 o0 c0 Wo NDc Wc]; subst.
    apply option_completions_order_independent; assumption.
  Qed.

  Lemma candidates_sim t sh sh' w :
    ssim sh sh' -> wfc (cur sh) -> wfc (cur sh') ->
    candidates specs vfn afn t sh w = candidates specs vfn afn t sh' w.
  Proof.
    intros (A & _ & T & _) W W'. unfold Complete.candidates. rewrite <- T.
    destruct w as [|c0 w']; [apply command_completions_sim; assumption|].
    destruct (N.eqb c0 DASH); [apply option_completions_sim; assumption | apply command_completions_sim; assumption].
  Qed.

  Lemma run_wfc root st0 args st :
    wfc root -> run pf md lower true specs (init root st0) args = Ok st -> wfc (cur st).
  Proof.
    intros W R. apply (run_cur pf md lower true specs) in R. simpl in R. eapply wfc_follow; eauto.
  Qed.

  Theorem complete_order_independent t root root' st0 words :
    nsim root root' -> wfc root -> wfc root' ->
    complete pf md lower specs vfn afn t root st0 words = complete pf md lower specs vfn afn t root' st0 words.
  Proof.
    intros S W W'. unfold Complete.complete.
    destruct (rev words) as [|w rearlier].
    - f_equal. apply candidates_sim; [apply init_sim; exact S | exact W | exact W'].
    - pose proof (run_sim pf md lower true specs (rev rearlier) _ _ (init_sim root root' st0 S)) as R.
      destruct (run pf md lower true specs (init root st0) (rev rearlier)) as [st|e] eqn:R1,
               (run pf md lower true specs (init root' st0) (rev rearlier)) as [st'|e'] eqn:R2; simpl in R; try contradiction.
      2:{ subst. reflexivity. }
      pose proof (run_wfc _ _ _ _ W R1) as Wc. pose proof (run_wfc _ _ _ _ W' R2) as Wc'.
      pose proof R as (_ & _ & _ & _ & _ & Ph). rewrite <- Ph.
      (* the "consumed as a value" continuation gives the same outcome on both sides *)
      assert (CONS : match bind (step pf md lower true specs st w) (finish pf lower specs) with
                     | Err e => CErr e | Ok _ => CList [] end =
                     match bind (step pf md lower true specs st' w) (finish pf lower specs) with
                     | Err e => CErr e | Ok _ => CList [] end).
      { pose proof (step_sim pf md lower true specs st st' w R) as ST.
        destruct (step pf md lower true specs st w) as [s1|e1], (step pf md lower true specs st' w) as [s1'|e1']; simpl in ST; try contradiction.
        - simpl. pose proof (finish_sim pf lower specs s1 s1' ST) as F.
          destruct (finish pf lower specs s1), (finish pf lower specs s1'); simpl in F; try contradiction; [reflexivity | subst; reflexivity].
        - subst. reflexivity. }
      destruct (ph st) as [|oid key i pend tok|]; [| |reflexivity].
      + f_equal. apply candidates_sim; assumption.
      + destruct (nth_error specs oid) as [sp|]; [|reflexivity].
        pose proof (try_cur_sim pf md lower specs st st' (oid, key, i, os_min sp, os_max sp) w R) as TC.
        destruct (try_cur pf md lower specs st (oid, key, i, os_min sp, os_max sp) w) as [[s1|]|e1],
                 (try_cur pf md lower specs st' (oid, key, i, os_min sp, os_max sp) w) as [[s1'|]|e1']; simpl in TC; try contradiction.
        * exact CONS.
        * pose proof (offer_sim pf md lower specs pend st st' tok w R) as OF.
          destruct (offer pf md lower specs st tok pend w) as [[sh b]|e2] eqn:O1,
                   (offer pf md lower specs st' tok pend w) as [[sh' b']|e2'] eqn:O2; simpl in OF; try contradiction.
          -- destruct OF as [SS Eb]. simpl in SS, Eb. subst b'. destruct b; [exact CONS|].
             f_equal. apply candidates_sim; [exact SS | |].
             ++ apply (offer_frame pf md lower specs) in O1 as [C _]. rewrite <- C. exact Wc.
             ++ apply (offer_frame pf md lower specs) in O2 as [C _]. rewrite <- C. exact Wc'.
          -- subst. reflexivity.
        * subst. reflexivity.
  Qed.
End E2E.
