(* Progress of Graph.Run (C16): in no reachable state of an acyclic, closed graph is the scheduler
   stuck — some transition other than idling is enabled, unless another graph holds a Task lock. *)
From GO Require Import Base.Str Base.Utf8 Base.Sort Model.Tree Model.Dag Proofs.DagHold Proofs.DagInv Proofs.DagSort.
From Coq Require Import Lia.
Open Scope N_scope.

Section Progress.
  Variable g : graph.
  Variable cf : config.
  Notation dstep := (dstep g cf).
  Notation children := (children g).
  Notation parents := (parents g).
  Notation vids := (vids g).
  Hypothesis SYM : forall p c, In c (children p) <-> In p (parents c).

  (* a vertex marked runInProgress is being worked on: its thread exists, or a helper goroutine
     is about to report it *)
  Definition Live (st : dstate) : Prop :=
    forall v, d_status st v = InProgress ->
      alive (d_thread st v) = true \/ exists b, In (v, b) (d_pseudo st).

  Lemma live_init : Live (init_state []).
  Proof. intros v H. simpl in H. discriminate. Qed.

  Lemma remove_pseudo_other x l r y :
    remove_pseudo x l = Some r -> In y l -> fst y <> fst x -> In y r.
  Proof.
    revert r. induction l as [|z l IH]; intros r H I N; simpl in *; [contradiction|].
    destruct (str_eqb (fst x) (fst z) && Bool.eqb (snd x) (snd z))%bool eqn:E.
    - inversion H; subst. destruct I as [->|I]; [|exact I].
      apply andb_prop in E as [E _]. apply str_eqb_eq in E. congruence.
    - destruct (remove_pseudo x l) as [r'|]; [|discriminate]. inversion H; subst.
      destruct I as [->|I]; [left; reflexivity | right; apply IH; auto].
  Qed.

  Lemma live_ctx_check st : Live st -> Live (ctx_check st).
  Proof.
    unfold Live, ctx_check. intros L v H.
    destruct (d_cancelled st && negb (d_handled st))%bool; simpl in *; auto.
  Qed.

  Lemma live_step st l st' : Inv g cf st -> Live st -> dstep st l = Some st' -> Live st'.
  Proof.
    intros I L S. unfold Dag.dstep in S. destruct (d_returned st); [discriminate|]. destruct l.
    - (* LRecvReal *)
      destruct (d_thread st v) eqn:T; try discriminate.
      destruct (receive g st v r true) as [st1|] eqn:R; [|discriminate]. inversion S; subst; clear S.
      intros u H. simpl in *.
      assert (U : u <> v /\ d_status st u = InProgress /\ d_pseudo st1 = d_pseudo st /\ d_thread st1 = d_thread st).
      { unfold receive in R. destruct r.
        - inversion R; subst; simpl in *. destruct (str_eq_dec u v) as [->|N]; [rewrite upd_same in H; discriminate|].
          rewrite (upd_other _ _ _ _ N) in H. auto.
        - inversion R; subst; simpl in *. destruct (str_eq_dec u v) as [->|N]; [rewrite upd_same in H; discriminate|].
          rewrite (upd_other _ _ _ _ N) in H. auto.
        - destruct (skip_parents g (length vids) v (upd (d_status st) v Done, d_marked st)) as [s2 mk] eqn:SP.
          destruct (up_closed g v mk); [|discriminate]. inversion R; subst; simpl in *.
          pose proof (skip_parents_spec g (length vids) v (upd (d_status st) v Done, d_marked st)) as [A _].
          rewrite SP in A. simpl in A. destruct (A u) as [Eq|[Sk _]]; [|congruence].
          rewrite Eq in H. destruct (str_eq_dec u v) as [->|N]; [rewrite upd_same in H; discriminate|].
          rewrite (upd_other _ _ _ _ N) in H. auto. }
      destruct U as (N & Hu & -> & ->). rewrite (upd_other _ _ _ _ N). apply L. exact Hu.
    - (* LRecvPseudo *)
      destruct (remove_pseudo (v, skipped) (d_pseudo st)) as [ps|] eqn:RP; [|discriminate].
      destruct (receive g st v (if skipped then OErr else ONil) false) as [st1|] eqn:R; [|discriminate].
      inversion S; subst; clear S. intros u H. simpl in *.
      assert (U : u <> v /\ d_status st u = InProgress /\ d_thread st1 = d_thread st).
      { unfold receive in R. destruct skipped; inversion R; subst; simpl in *;
          (destruct (str_eq_dec u v) as [->|N]; [rewrite upd_same in H; discriminate|]);
          rewrite (upd_other _ _ _ _ N) in H; auto. }
      destruct U as (N & Hu & ->). destruct (L u Hu) as [A|[b Ib]]; [left; exact A|].
      right. exists b. eapply remove_pseudo_other; eauto.
    - (* LPick *)
      destruct (mem_str v vids && negb (serial_blocked g cf st) && eligible g st v)%bool; [|discriminate].
      pose proof (live_ctx_check st L) as L1. set (st1 := ctx_check st) in *.
      destruct (status_eqb (d_status st1 v) Skip).
      + inversion S; subst; clear S. intros u H. simpl in *.
        destruct (str_eq_dec u v) as [->|N]; [right; exists false; apply in_or_app; right; left; reflexivity|].
        rewrite (upd_other _ _ _ _ N) in H. destruct (L1 u H) as [A|[b Ib]]; [left; exact A|].
        right. exists b. apply in_or_app. left. exact Ib.
      + destruct (d_errs st1).
        * inversion S; subst; clear S. intros u H. simpl in *.
          destruct (str_eq_dec u v) as [->|N]; [left; rewrite upd_same; reflexivity|].
          rewrite (upd_other _ _ _ _ N) in H. rewrite (upd_other _ _ _ _ N). apply L1. exact H.
        * inversion S; subst; clear S. intros u H. simpl in *.
          destruct (str_eq_dec u v) as [->|N]; [right; exists true; apply in_or_app; right; left; reflexivity|].
          rewrite (upd_other _ _ _ _ N) in H. destruct (L1 u H) as [A|[b Ib]]; [left; exact A|].
          right. exists b. apply in_or_app. left. exact Ib.
    - (* LIdle *)
      destruct ((serial_blocked g cf st || negb (existsb (eligible g st) vids)) && _)%bool; [|discriminate].
      inversion S; subst. apply live_ctx_check. exact L.
    - (* LReturn *)
      destruct (negb (serial_blocked g cf st) && _ && _)%bool; [|discriminate].
      inversion S; subst. intros u H. simpl in *. apply L. exact H.
    - (* LStart *)
      destruct (d_thread st v) eqn:T; try discriminate.
      destruct (N.ltb (N.of_nat (length (d_holders st))) (cf_cap cf) && negb (d_envlock st v))%bool; [|discriminate].
      inversion S; subst; clear S. intros u H. simpl in *.
      destruct (str_eq_dec u v) as [->|N].
      + left. rewrite upd_same. destruct (Z.ltb _ 0); reflexivity.
      + rewrite (upd_other _ _ _ _ N). apply L. exact H.
    - (* LExit *)
      destruct (d_thread st v) eqn:T; try discriminate. inversion S; subst; clear S.
      intros u H. unfold set_thread in *. simpl in *.
      destruct (str_eq_dec u v) as [->|N].
      + left. rewrite upd_same. destruct (match r with ONil => true | _ => Z.leb (retries g v) (Z.of_nat k) end); reflexivity.
      + rewrite (upd_other _ _ _ _ N). apply L. exact H.
    - (* LCancel *) inversion S; subst. intros u H. simpl in *. apply L. exact H.
    - (* LEnvLock *)
      destruct (negb (d_envlock st v) && negb (thread_holds (d_thread st v)))%bool; [|discriminate].
      inversion S; subst. intros u H. simpl in *. apply L. exact H.
    - (* LEnvUnlock *)
      destruct (d_envlock st v); [|discriminate]. inversion S; subst. intros u H. simpl in *. apply L. exact H.
  Qed.

  (* ---- no stall: when nothing is in progress, something is eligible or everything is done ---- *)

  Definition closed : Prop := forall p c, In p vids -> In c (children p) -> In c vids.

  Lemma first_such (P : vid -> bool) (l : list vid) :
    (forall x, In x l -> P x = false) \/
    exists l1 u l2, l = l1 ++ u :: l2 /\ P u = true /\ forall x, In x l1 -> P x = false.
  Proof.
    induction l as [|a l IH]; [left; intros x []|].
    destruct (P a) eqn:Pa.
    - right. exists [], a, l. split; [reflexivity|]. split; [exact Pa | intros x []].
    - destruct IH as [H|(l1 & u & l2 & -> & Pu & H)].
      + left. intros x [<-|I]; auto.
      + right. exists (a :: l1), u, l2. split; [reflexivity|]. split; [exact Pu|].
        intros x [<-|I]; auto.
  Qed.

  Definition undone (st : dstate) (u : vid) : bool :=
    mem_str u vids && negb (status_eqb (d_status st u) Done).

  Lemma status_eqb_eq a b : status_eqb a b = true <-> a = b.
  Proof. destruct a, b; simpl; split; intros H; try reflexivity; try discriminate. Qed.

  Lemma stall_free st l :
    NoDup l -> (forall v, In v vids -> In v l) ->
    (forall u, In u l -> forall c, In c (children u) -> before c u l) ->
    closed -> (forall v, In v vids -> d_status st v <> InProgress) ->
    all_done g st = true \/ exists u, In u vids /\ eligible g st u = true.
  Proof.
    intros ND All Bef Cl NoIP.
    destruct (first_such (undone st) l) as [H|(l1 & u & l2 & E & Pu & H)].
    - left. unfold all_done. apply forallb_forall. intros x Ix.
      specialize (H x (All x Ix)). unfold undone in H.
      apply (proj2 (mem_str_In x vids)) in Ix. rewrite Ix in H. simpl in H.
      destruct (status_eqb (d_status st x) Done); [reflexivity | discriminate].
    - right. exists u. unfold undone in Pu. apply andb_prop in Pu as [Iu Nd].
      apply mem_str_In in Iu. split; [exact Iu|].
      unfold eligible. apply andb_true_intro. split.
      + specialize (NoIP u Iu). destruct (d_status st u); simpl in *; try reflexivity; [congruence | discriminate].
      + apply forallb_forall. intros c Ic.
        assert (Iul : In u l) by (rewrite E; apply in_or_app; right; left; reflexivity).
        destruct (Bef u Iul c Ic) as (x & y & E2 & Icx).
        assert (l1 = x).
        { rewrite E in E2. rewrite E in ND. eapply split_unique; eauto. }
        subst x. specialize (H c Icx). unfold undone in H.
        pose proof (Cl u c Iu Ic) as Icv. apply (proj2 (mem_str_In c vids)) in Icv. rewrite Icv in H. simpl in H.
        destruct (status_eqb (d_status st c) Done) eqn:D; [|discriminate].
        apply status_eqb_eq in D. rewrite D. reflexivity.
  Qed.

  (* ---- progress ---- *)

  Definition productive (l : label) : bool :=
    match l with LIdle | LCancel | LEnvLock _ | LEnvUnlock _ => false | _ => true end.

  Definition is_finished (t : thread) : bool := match t with Finished _ => true | _ => false end.
  Definition is_waiting (t : thread) : bool := match t with Waiting => true | _ => false end.

  Lemma outside_unspawned st v : Inv g cf st -> ~ In v vids -> d_thread st v = NotSpawned.
  Proof.
    intros I N. destruct (thread_eq_dec_ns (d_thread st v)) as [E|E]; [exact E|].
    exfalso. apply N. exact (t_vids g cf st I v E).
  Qed.

  Theorem progress st :
    Inv g cf st -> Live st -> closed ->
    (exists l, dfs_sort g vids = Some (inl l)) -> 0 < cf_cap cf ->
    d_returned st = false -> (forall v, d_envlock st v = false) ->
    (forall v r, d_thread st v = Finished r -> receive g st v r true <> None) ->
    exists l st', productive l = true /\ dstep st l = Some st'.
  Proof.
    intros I L Cl [l Topo] Cap NR NoLock Fuel.
    destruct (dfs_sort_sound g vids l Topo) as (ND & All & Bef).
    (* 1. a finished thread is received *)
    destruct (find (fun v => is_finished (d_thread st v)) vids) as [v|] eqn:F1.
    { apply find_some in F1 as [_ Fv]. destruct (d_thread st v) as [| | |r|] eqn:T; try discriminate.
      destruct (receive g st v r true) as [st1|] eqn:R; [|exfalso; eapply Fuel; eauto].
      exists (LRecvReal v). eexists. split; [reflexivity|].
      unfold Dag.dstep. rewrite NR, T, R. reflexivity. }
    pose proof (find_none _ _ F1) as NF. simpl in NF.
    (* 2. a helper goroutine's report is received *)
    destruct (d_pseudo st) as [|[v b] ps] eqn:P.
    2:{ destruct b; [exists (LRecvPseudo v true) | exists (LRecvPseudo v false)]; eexists; (split; [reflexivity|]);
        unfold Dag.dstep; rewrite NR, P; simpl; rewrite str_eqb_refl; simpl; unfold receive; reflexivity. }
    (* 3. a running task function returns *)
    destruct (find (fun v => thread_running (d_thread st v)) vids) as [v|] eqn:F2.
    { apply find_some in F2 as [_ Rv]. destruct (d_thread st v) as [| |k| |] eqn:T; try discriminate.
      exists (LExit v ONil). eexists. split; [reflexivity|].
      unfold Dag.dstep. rewrite NR, T. reflexivity. }
    pose proof (find_none _ _ F2) as NRn. simpl in NRn.
    assert (NoHold : d_holders st = []).
    { destruct (d_holders st) as [|x hs] eqn:H; [reflexivity|]. exfalso.
      assert (Hx : thread_holds (d_thread st x) = true) by (apply (h_iff g cf st I); rewrite H; left; reflexivity).
      assert (Ix : In x vids).
      { apply (t_vids g cf st I). intros E. rewrite E in Hx. discriminate. }
      specialize (NF x Ix). specialize (NRn x Ix).
      destruct (d_thread st x); simpl in *; discriminate. }
    (* 4. a waiting thread takes a slot *)
    destruct (find (fun v => is_waiting (d_thread st v)) vids) as [v|] eqn:F3.
    { apply find_some in F3 as [_ Wv]. destruct (d_thread st v) eqn:T; try discriminate.
      exists (LStart v). eexists. split; [reflexivity|].
      unfold Dag.dstep. rewrite NR, T, NoHold, (NoLock v). simpl.
      destruct (N.ltb_spec 0 (cf_cap cf)) as [_|Ge]; [reflexivity | lia]. }
    pose proof (find_none _ _ F3) as NW. simpl in NW.
    (* 5. nothing is alive: the scheduler picks a vertex or returns *)
    assert (NoAlive : forall v, alive (d_thread st v) = false).
    { intros v. destruct (in_dec str_eq_dec v vids) as [Iv|Nv].
      - specialize (NF v Iv). specialize (NRn v Iv). specialize (NW v Iv).
        destruct (d_thread st v); simpl in *; try reflexivity; discriminate.
      - rewrite (outside_unspawned st v I Nv). reflexivity. }
    assert (NoIP : forall v, d_status st v <> InProgress).
    { intros v H. destruct (L v H) as [A|[b Ib]]; [rewrite NoAlive in A; discriminate|].
      rewrite P in Ib. destruct Ib. }
    assert (SB : serial_blocked g cf st = false).
    { unfold serial_blocked, any_in_progress.
      assert (X : existsb (fun v => status_eqb (d_status st v) InProgress) vids = false).
      { apply Bool.not_true_is_false. intros X. apply existsb_exists in X as (x & _ & Hx).
        apply status_eqb_eq in Hx. exact (NoIP x Hx). }
      rewrite X. apply Bool.andb_false_r. }
    destruct (stall_free st l ND All Bef Cl (fun v _ => NoIP v)) as [AD|(u & Iu & Eu)].
    - exists LReturn. eexists. split; [reflexivity|].
      unfold Dag.dstep. rewrite NR, SB, AD. simpl.
      assert (X : existsb (eligible g st) vids = false).
      { apply Bool.not_true_is_false. intros X. apply existsb_exists in X as (x & Ix & Hx).
        unfold all_done in AD. rewrite forallb_forall in AD. specialize (AD x Ix).
        apply status_eqb_eq in AD. unfold eligible in Hx. rewrite AD in Hx. discriminate. }
      rewrite X. reflexivity.
    - exists (LPick u).
      apply (proj2 (mem_str_In u vids)) in Iu.
      unfold Dag.dstep. rewrite NR, Iu, SB, Eu. simpl.
      destruct (status_eqb (d_status (ctx_check st) u) Skip); [eexists; split; reflexivity|].
      destruct (d_errs (ctx_check st)); eexists; split; reflexivity.
  Qed.

  Lemma inv_live_steps ls : forall st st', Inv g cf st -> Live st -> dsteps g cf st ls = Some st' -> Inv g cf st' /\ Live st'.
  Proof.
    induction ls as [|l ls IH]; intros st st' I L S; simpl in S; [inversion S; subst; auto|].
    destruct (dstep st l) as [s1|] eqn:E; [|discriminate].
    eapply IH; [| |exact S]; [eapply (inv_step g cf SYM); eauto | eapply live_step; eauto].
  Qed.
End Progress.
