(* Scalar options: what one occurrence stores (C01), precedence pieces (C12). *)
From GO Require Import Base.Str Base.Utf8 Model.Tokenizer Model.Option Model.Tree Model.Parse.
From GO Require Import Proofs.TokLemmas Proofs.ParseLemmas Proofs.Match.
Open Scope N_scope.

Section Scalar.
  Variable pf : str -> option N.
  Variable md : mode.
  Variable lower : bool.
  Variable ro_on : bool.
  Variable specs : list ospec.

  Notation start_pair := (start_pair pf lower specs).
  Notation advance := (advance pf lower specs).
  Notation head := (head pf md lower ro_on specs).
  Notation step := (step pf md lower ro_on specs).
  Notation run := (run pf md lower ro_on specs).
  Notation finish := (finish pf lower specs).
  Notation save := (save pf lower).

  (* the conversion Go applies to a scalar option's text *)
  Definition conv (k : kind) (v : str) : option value :=
    match k with
    | KStr | KStrOpt => Some (VStr v)
    | KInt | KIntOpt => match atoi v with Some i => Some (VInt i) | None => None end
    | KFloat | KFloatOpt => match pf v with Some f => Some (VFloat f) | None => None end
    | _ => None
    end.

  Definition conv_err (k : kind) (used v : str) : err :=
    match k with
    | KFloat | KFloatOpt => e_conv_float used v
    | _ => e_conv_int used v
    end.

  Definition scalar_valued (k : kind) : bool :=
    match k with KStr | KInt | KFloat | KStrOpt | KIntOpt | KFloatOpt => true | _ => false end.

  Lemma save_scalar sp os v :
    scalar_valued (os_kind sp) = true -> valid_ok sp [v] = true ->
    save sp os [v] =
      match conv (os_kind sp) v with
      | Some x => Ok (mkState x (o_called os) (o_used os))
      | None => Err (conv_err (os_kind sp) (o_used os) v)
      end.
  Proof.
    intros K V. unfold Option.save. rewrite V. simpl negb. cbv iota.
    destruct (os_kind sp); try discriminate; simpl;
      try reflexivity;
      try (destruct (atoi v); reflexivity);
      try (destruct (pf v); reflexivity).
  Qed.

  (* saving nothing leaves valued options alone *)
  Lemma save_nothing_valued sp os :
    is_flag_kind (os_kind sp) = false -> save sp os [] = Ok os.
  Proof. unfold Option.save. destruct (os_kind sp); try discriminate; intros _; reflexivity. Qed.

  Lemma save_bool sp os :
    os_kind sp = KBool -> save sp os [] = Ok (mkState (VBool (negb (os_booldef sp))) (o_called os) (o_used os)).
  Proof. unfold Option.save. intros ->. reflexivity. Qed.

  Lemma save_incr sp os z :
    os_kind sp = KIncr -> o_val os = VInt z ->
    save sp os [] = Ok (mkState (VInt (z + 1)) (o_called os) (o_used os)).
  Proof. unfold Option.save. intros -> ->. reflexivity. Qed.

  (* a known pair: what start_pair does *)
  Lemma start_pair_known st tok p k oid sp os :
    matches (n_opts (cur st)) (p_name p) = [(k, oid)] ->
    nth_error specs oid = Some sp -> nth_error (store st) oid = Some os ->
    start_pair st tok p =
      bind (save sp (mkState (o_val os) true k) (p_args p)) (fun os2 =>
        Ok (Some (set_store st (update_nth oid os2 (store st)),
                  (oid, k, length (p_args p), os_min sp, os_max sp)))).
  Proof. unfold Parse.start_pair. intros -> -> ->. reflexivity. Qed.

  (* a long option token whose name resolves: the head of the loop processes its single pair *)
  Lemma head_long_known st key e k oid :
    key <> [] -> contains_byte EQ key = false -> starts_with_eq_or_empty e ->
    matches (n_opts (cur st)) key = [(k, oid)] ->
    head st (DASH :: DASH :: key ++ e) =
      advance st (DASH :: DASH :: key ++ e) [mkPair key (attached e)].
  Proof.
    intros N C He M. unfold Parse.head.
    assert (D : str_eqb (DASH :: DASH :: key ++ e) DD = false).
    { apply str_eqb_neq. destruct key; [congruence | discriminate]. }
    rewrite D, (is_option_long md key e N C He). simpl List.filter.
    rewrite (is_unknown_matches _ _ _ _ _ M). reflexivity.
  Qed.

  Definition with_opt (st : pst) (oid : nat) (os : ostate) : pst :=
    set_store st (update_nth oid os (store st)).

  (* C01, `--name=v`: exactly the converted text is stored, Called is set, CalledAs is the full
     key, nothing else in the store changes, no following token is consumed; text that does not
     convert is an error *)
  Theorem attached_value st key v k oid sp os :
    key <> [] -> contains_byte EQ key = false -> v <> [] ->
    matches (n_opts (cur st)) key = [(k, oid)] ->
    nth_error specs oid = Some sp -> nth_error (store st) oid = Some os ->
    scalar_valued (os_kind sp) = true -> os_max sp = 1%nat -> (os_min sp <= 1)%nat ->
    valid_ok sp [v] = true ->
    head st (DASH :: DASH :: key ++ EQ :: v) =
      match conv (os_kind sp) v with
      | Some x => Ok (set_ph (with_opt st oid (mkState x true k)) PHead)
      | None => Err (conv_err (os_kind sp) k v)
      end.
  Proof.
    intros N C V M S O K Mx Mn Val.
    assert (He : starts_with_eq_or_empty (EQ :: v)) by (right; eauto).
    rewrite (head_long_known st key (EQ :: v) k oid N C He M).
    assert (A : attached (EQ :: v) = [v]).
    { unfold attached. rewrite N.eqb_refl. destruct v; [congruence | reflexivity]. }
    rewrite A. simpl advance.
    rewrite (start_pair_known st _ (mkPair key [v]) k oid sp os M S O). simpl p_args.
    rewrite (save_scalar sp _ v K Val). simpl o_called. simpl o_used.
    destruct (conv (os_kind sp) v) as [x|]; simpl; [|reflexivity].
    unfold wants. rewrite Mx. simpl length.
    assert (L : Nat.ltb 1 (os_min sp) = false) by (apply Nat.ltb_ge; lia).
    rewrite L. reflexivity.
  Qed.

  (* C01, `--name v`: the option token alone marks the option called and waits for one value *)
  Theorem detached_option st key k oid sp os :
    key <> [] -> contains_byte EQ key = false ->
    matches (n_opts (cur st)) key = [(k, oid)] ->
    nth_error specs oid = Some sp -> nth_error (store st) oid = Some os ->
    scalar_valued (os_kind sp) = true -> os_max sp = 1%nat ->
    head st (DASH :: DASH :: key) =
      Ok (set_ph (with_opt st oid (mkState (o_val os) true k)) (PPend oid k 0 [] [])).
  Proof.
    intros N C M S O K Mx.
    assert (He : starts_with_eq_or_empty []) by (left; reflexivity).
    pose proof (head_long_known st key [] k oid N C He M) as H. rewrite app_nil_r in H. rewrite H.
    simpl attached. simpl advance.
    rewrite (start_pair_known st _ (mkPair key []) k oid sp os M S O). simpl p_args.
    rewrite save_nothing_valued by (destruct (os_kind sp); try discriminate; reflexivity).
    simpl. unfold wants. rewrite Mx. simpl. rewrite Bool.orb_true_r. reflexivity.
  Qed.

  (* ... and the next token is its value when that token does not look like an option *)
  Theorem detached_value st oid k v sp os :
    ph st = PPend oid k 0 [] [] ->
    nth_error specs oid = Some sp -> nth_error (store st) oid = Some os ->
    scalar_valued (os_kind sp) = true -> os_max sp = 1%nat -> os_min sp = 1%nat ->
    valid_ok sp [v] = true -> looks_like_option md v = false ->
    step st v =
      match conv (os_kind sp) v with
      | Some x => Ok (set_ph (with_opt st oid (mkState x (o_called os) (o_used os))) PHead)
      | None => Err (conv_err (os_kind sp) (o_used os) v)
      end.
  Proof.
    intros P S O K Mx Mn Val L. unfold Parse.step. rewrite P, S, Mn, Mx.
    unfold Parse.try_cur. simpl Nat.ltb. rewrite L.
    unfold Parse.save_to. rewrite S, O. rewrite (save_scalar sp os v K Val).
    destruct (conv (os_kind sp) v) as [x|]; simpl; [|reflexivity].
    unfold Parse.settle, wants, bump. simpl. reflexivity.
  Qed.

  (* a dash-looking detached value of a mandatory-value option is an error, never a value *)
  Theorem detached_dash_rejected st oid k v sp :
    ph st = PPend oid k 0 [] [] -> nth_error specs oid = Some sp -> os_min sp = 1%nat ->
    looks_like_option md v = true ->
    step st v = Err (e_arg_with_dash k).
  Proof.
    intros P S Mn L. unfold Parse.step. rewrite P, S, Mn.
    unfold Parse.try_cur. simpl Nat.ltb. rewrite L. reflexivity.
  Qed.

  (* ... and a missing one too *)
  Theorem detached_missing st oid k sp :
    ph st = PPend oid k 0 [] [] -> nth_error specs oid = Some sp -> os_min sp = 1%nat ->
    finish st = Err (e_missing_arg k).
  Proof. intros P S Mn. unfold Parse.finish. rewrite P, S, Mn. reflexivity. Qed.

  (* C01, optional-value option without a value (end of input, or an option / `--` follows):
     keeps its value, is reported as called *)
  Theorem optional_without_value_eof st oid k sp :
    ph st = PPend oid k 0 [] [] -> nth_error specs oid = Some sp -> os_min sp = 0%nat ->
    finish st = Ok (set_ph st PHead).
  Proof. intros P S Mn. unfold Parse.finish. rewrite P, S, Mn. reflexivity. Qed.

  Theorem optional_without_value_next st oid k sp t :
    ph st = PPend oid k 0 [] [] -> nth_error specs oid = Some sp ->
    os_min sp = 0%nat -> os_max sp = 1%nat ->
    (looks_like_option md t = true \/ t = DD) ->
    step st t = head (set_ph st PHead) t.
  Proof.
    intros P S Mn Mx L. unfold Parse.step. rewrite P, S, Mn, Mx.
    unfold Parse.try_cur. simpl Nat.ltb. unfold stops.
    assert (St : (looks_like_option md t || str_eqb t DD)%bool = true).
    { destruct L as [->| ->]; [reflexivity | rewrite str_eqb_refl; apply Bool.orb_true_r]. }
    rewrite St. simpl. reflexivity.
  Qed.

  (* C01, flags *)
  Theorem bool_flag st key k oid sp os :
    key <> [] -> contains_byte EQ key = false ->
    matches (n_opts (cur st)) key = [(k, oid)] ->
    nth_error specs oid = Some sp -> nth_error (store st) oid = Some os ->
    os_kind sp = KBool -> os_min sp = 0%nat -> os_max sp = 0%nat ->
    head st (DASH :: DASH :: key) =
      Ok (set_ph (with_opt st oid (mkState (VBool (negb (os_booldef sp))) true k)) PHead).
  Proof.
    intros N C M S O K Mn Mx.
    assert (He : starts_with_eq_or_empty []) by (left; reflexivity).
    pose proof (head_long_known st key [] k oid N C He M) as H. rewrite app_nil_r in H. rewrite H.
    simpl attached. simpl advance.
    rewrite (start_pair_known st _ (mkPair key []) k oid sp os M S O). simpl p_args.
    rewrite (save_bool sp _ K). simpl. unfold wants. rewrite Mn, Mx. reflexivity.
  Qed.

  Theorem increment_flag st key k oid sp os z :
    key <> [] -> contains_byte EQ key = false ->
    matches (n_opts (cur st)) key = [(k, oid)] ->
    nth_error specs oid = Some sp -> nth_error (store st) oid = Some os ->
    os_kind sp = KIncr -> o_val os = VInt z -> os_min sp = 0%nat -> os_max sp = 0%nat ->
    head st (DASH :: DASH :: key) =
      Ok (set_ph (with_opt st oid (mkState (VInt (z + 1)) true k)) PHead).
  Proof.
    intros N C M S O K Vz Mn Mx.
    assert (He : starts_with_eq_or_empty []) by (left; reflexivity).
    pose proof (head_long_known st key [] k oid N C He M) as H. rewrite app_nil_r in H. rewrite H.
    simpl attached. simpl advance.
    rewrite (start_pair_known st _ (mkPair key []) k oid sp os M S O). simpl p_args.
    rewrite (save_incr sp (mkState (o_val os) true k) z K Vz). simpl. unfold wants. rewrite Mn, Mx. reflexivity.
  Qed.
End Scalar.
