(* Termination of Graph.Run (C16): every transition other than idling, cancellation and the moves
   of other graphs strictly decreases a lexicographic measure, so no schedule contains infinitely
   many of them; together with DagProgress.progress, Run returns on every fair schedule. *)
From GO Require Import Base.Str Base.Utf8 Base.Sort Model.Tree Model.Dag Proofs.DagHold Proofs.DagInv Proofs.DagProgress.
From Coq Require Import Lia Wellfounded.
Open Scope nat_scope.

Definition lex3 (x y : nat * nat * nat) : Prop :=
  let '(a', b', c') := x in let '(a, b, c) := y in
  a' < a \/ (a' = a /\ (b' < b \/ (b' = b /\ c' < c))).

Lemma lex3_wf : well_founded lex3.
Proof.
  intros [[a b] c]. revert b c.
  induction a as [a IHa] using lt_wf_ind. intros b.
  induction b as [b IHb] using lt_wf_ind. intros c.
  induction c as [c IHc] using lt_wf_ind.
  constructor. intros [[a' b'] c'] H. simpl in H.
  destruct H as [H|[-> [H|[-> H]]]]; auto.
Qed.

Fixpoint sum_over (f : vid -> nat) (l : list vid) : nat :=
  match l with [] => 0 | x :: r => f x + sum_over f r end.

Lemma sum_le f f' l : (forall u, In u l -> f' u <= f u) -> sum_over f' l <= sum_over f l.
Proof.
  induction l as [|x r IH]; intros H; simpl; [lia|].
  pose proof (H x (or_introl eq_refl)). pose proof (IH (fun u I => H u (or_intror I))). lia.
Qed.

Lemma sum_lt f f' l v : In v l -> (forall u, In u l -> f' u <= f u) -> f' v < f v -> sum_over f' l < sum_over f l.
Proof.
  induction l as [|x r IH]; intros I H Lt; simpl; [contradiction|].
  pose proof (H x (or_introl eq_refl)) as Hx.
  pose proof (sum_le f f' r (fun u Iu => H u (or_intror Iu))) as Hr.
  destruct I as [->|I]; [lia|].
  pose proof (IH I (fun u Iu => H u (or_intror Iu)) Lt). lia.
Qed.

Lemma sum_ext f f' l : (forall u, In u l -> f' u = f u) -> sum_over f' l = sum_over f l.
Proof.
  induction l as [|x r IH]; intros H; simpl; [reflexivity|].
  rewrite (H x (or_introl eq_refl)), (IH (fun u I => H u (or_intror I))). reflexivity.
Qed.

Lemma sum_drop2 f f' l v :
  In v l -> (forall u, u <> v -> f' u = f u) -> f' v + 2 <= f v -> sum_over f' l + 2 <= sum_over f l.
Proof.
  intros I Oth Dv.
  assert (Le : forall u, f' u <= f u).
  { intros u. destruct (str_eq_dec u v) as [->|N]; [lia | rewrite (Oth u N); lia]. }
  induction l as [|x r IH]; [contradiction|]. simpl.
  pose proof (sum_le f f' r (fun u _ => Le u)) as Hr.
  destruct I as [->|I]; [lia|].
  specialize (IH I). pose proof (Le x). lia.
Qed.

Section Term.
  Variable g : graph.
  Variable cf : config.
  Notation dstep := (dstep g cf).
  Notation vids := (vids g).

  Definition R (v : vid) : nat := Z.to_nat (retries g v).

  Definition tw (st : dstate) (v : vid) : nat :=
    match d_thread st v with
    | NotSpawned => R v + 5
    | Waiting => R v + 4
    | Running k => (R v - k) + 3
    | Finished _ => 2
    | Gone => 0
    end.

  Definition sw (st : dstate) (v : vid) : nat :=
    match d_status st v with Pending | Skip => 3 | InProgress => 1 | Done => 0 end.

  Definition mu (st : dstate) : nat * nat * nat :=
    (sum_over (tw st) vids, sum_over (sw st) vids + length (d_pseudo st), if d_returned st then 0 else 1).

  Lemma remove_pseudo_length x l r : remove_pseudo x l = Some r -> length l = Datatypes.S (length r).
  Proof.
    revert r. induction l as [|y l IH]; intros r H; simpl in H; [discriminate|].
    destruct (str_eqb (fst x) (fst y) && Bool.eqb (snd x) (snd y))%bool.
    - inversion H; subst. reflexivity.
    - destruct (remove_pseudo x l) as [r'|]; [|discriminate]. inversion H; subst. simpl. rewrite (IH r' eq_refl). reflexivity.
  Qed.

  Lemma ctx_check_mu st : mu (ctx_check st) = mu st.
  Proof. unfold mu, ctx_check, tw, sw. destruct (d_cancelled st && negb (d_handled st))%bool; reflexivity. Qed.

  Theorem productive_decreases st l st' :
    Inv g cf st -> dstep st l = Some st' -> productive l = true -> lex3 (mu st') (mu st).
  Proof.
    intros I HS P. unfold Dag.dstep in HS. destruct (d_returned st) eqn:NR; [discriminate|].
    destruct l; try discriminate P.
    - (* LRecvReal: the thread weight drops from 2 to 0 *)
      destruct (d_thread st v) eqn:T; try discriminate.
      destruct (receive g st v r true) as [st1|] eqn:Rc; [|discriminate]. inversion HS; subst; clear HS.
      assert (Th : d_thread st1 = d_thread st).
      { unfold receive in Rc. destruct r; try (inversion Rc; subst; reflexivity).
        destruct (skip_parents g (length vids) v (upd (d_status st) v Done, d_marked st)) as [s2 mk].
        destruct (up_closed g v mk); [|discriminate]. inversion Rc; subst. reflexivity. }
      unfold mu, lex3. simpl. left.
      assert (Iv : In v vids) by (apply (t_vids g cf st I); rewrite T; discriminate).
      apply (sum_lt _ _ _ v Iv).
      + intros u _. unfold tw. simpl. rewrite Th. destruct (str_eq_dec u v) as [->|N].
        * rewrite upd_same, T. lia.
        * rewrite (upd_other _ _ _ _ N). lia.
      + unfold tw. simpl. rewrite upd_same, T. lia.
    - (* LRecvPseudo: one report fewer, no status weight grows *)
      destruct (remove_pseudo (v, skipped) (d_pseudo st)) as [ps|] eqn:RP; [|discriminate].
      destruct (receive g st v (if skipped then OErr else ONil) false) as [st1|] eqn:Rc; [|discriminate].
      inversion HS; subst; clear HS.
      assert (F : d_thread st1 = d_thread st /\ d_status st1 = upd (d_status st) v Done /\ d_returned st1 = d_returned st).
      { unfold receive in Rc. destruct skipped; inversion Rc; subst; auto. }
      destruct F as (Th & St & Rt).
      unfold mu, lex3. simpl. right. split.
      + apply sum_ext. intros u _. unfold tw. simpl. rewrite Th. reflexivity.
      + left. rewrite (remove_pseudo_length _ _ _ RP).
        assert (sum_over (sw {| d_status := d_status st1; d_thread := d_thread st1; d_pseudo := ps; d_errs := d_errs st1;
                               d_cancelled := d_cancelled st1; d_handled := d_handled st1; d_holders := d_holders st1;
                               d_envlock := d_envlock st1; d_returned := d_returned st1; d_okdone := d_okdone st1;
                               d_marked := d_marked st1; d_sp := d_sp st1 |}) vids <= sum_over (sw st) vids).
        { apply sum_le. intros u _. unfold sw. simpl. rewrite St. destruct (str_eq_dec u v) as [->|N].
          - rewrite upd_same. lia.
          - rewrite (upd_other _ _ _ _ N). lia. }
        lia.
    - (* LPick *)
      destruct (mem_str v vids && negb (serial_blocked g cf st) && eligible g st v)%bool eqn:G; [|discriminate].
      apply andb_prop in G as [G El]. apply andb_prop in G as [Mv _]. apply mem_str_In in Mv.
      pose proof (ctx_check_mu st) as CM.
      assert (CS : d_status (ctx_check st) = d_status st /\ d_thread (ctx_check st) = d_thread st /\
                   d_pseudo (ctx_check st) = d_pseudo st /\ d_returned (ctx_check st) = d_returned st).
      { unfold ctx_check. destruct (d_cancelled st && negb (d_handled st))%bool; auto. }
      destruct CS as (CS1 & CS2 & CS3 & CS4).
      assert (W3 : sw st v = 3).
      { unfold eligible in El. apply andb_prop in El as [El _]. unfold sw.
        destruct (d_status st v); simpl in El; try reflexivity; discriminate. }
      assert (TN : d_thread st v = NotSpawned).
      { destruct (thread_eq_dec_ns (d_thread st v)) as [E|E]; [exact E|]. exfalso.
        unfold sw in W3. destruct (d_status st v) eqn:Sv; try discriminate.
        - exact (t_notpending g cf st I v E Sv).
        - exact (t_unmarked g cf st I v E (m_skip g cf st I v Sv)). }
      set (st1 := ctx_check st) in *.
      destruct (status_eqb (d_status st1 v) Skip).
      + inversion HS; subst; clear HS. unfold mu, lex3. simpl. right. split.
        * apply sum_ext. intros u _. unfold tw. simpl. rewrite CS2. reflexivity.
        * left. rewrite app_length. simpl. rewrite <- CS3.
          assert (X : sum_over (sw {| d_status := upd (d_status st1) v InProgress; d_thread := d_thread st1;
                                 d_pseudo := d_pseudo st1 ++ [(v, false)]; d_errs := d_errs st1; d_cancelled := d_cancelled st1;
                                 d_handled := d_handled st1; d_holders := d_holders st1; d_envlock := d_envlock st1;
                                 d_returned := d_returned st1; d_okdone := d_okdone st1; d_marked := d_marked st1; d_sp := d_sp st1 |}) vids
                  + 2 <= sum_over (sw st) vids).
          { apply (sum_drop2 _ _ _ v Mv).
            - intros u N. unfold sw. simpl. rewrite CS1, (upd_other _ _ _ _ N). reflexivity.
            - rewrite W3. unfold sw. simpl. rewrite upd_same. lia. }
          lia.
      + destruct (d_errs st1).
        * (* a real thread is created: the thread weight drops *)
          inversion HS; subst; clear HS. unfold mu, lex3. simpl. left.
          apply (sum_lt _ _ _ v Mv).
          -- intros u _. unfold tw. simpl. rewrite CS2. destruct (str_eq_dec u v) as [->|N].
             ++ rewrite upd_same, TN. lia.
             ++ rewrite (upd_other _ _ _ _ N). lia.
          -- unfold tw. simpl. rewrite upd_same, TN. lia.
        * inversion HS; subst; clear HS. unfold mu, lex3. simpl. right. split.
          -- apply sum_ext. intros u _. unfold tw. simpl. rewrite CS2. reflexivity.
          -- left. rewrite app_length. simpl. rewrite <- CS3.
             assert (X : sum_over (sw {| d_status := upd (d_status st1) v InProgress; d_thread := d_thread st1;
                                 d_pseudo := d_pseudo st1 ++ [(v, true)]; d_errs := g0 :: l; d_cancelled := d_cancelled st1;
                                 d_handled := d_handled st1; d_holders := d_holders st1; d_envlock := d_envlock st1;
                                 d_returned := d_returned st1; d_okdone := d_okdone st1; d_marked := d_marked st1; d_sp := d_sp st1 |}) vids
                  + 2 <= sum_over (sw st) vids).
             { apply (sum_drop2 _ _ _ v Mv).
               - intros u N. unfold sw. simpl. rewrite CS1, (upd_other _ _ _ _ N). reflexivity.
               - rewrite W3. unfold sw. simpl. rewrite upd_same. lia. }
             lia.
    - (* LReturn *)
      destruct (negb (serial_blocked g cf st) && _ && _)%bool; [|discriminate].
      inversion HS; subst; clear HS. unfold mu, lex3. simpl. rewrite NR. right. split; [reflexivity|]. right. split; [reflexivity | lia].
    - (* LStart *)
      destruct (d_thread st v) eqn:T; try discriminate.
      destruct (N.ltb (N.of_nat (length (d_holders st))) (cf_cap cf) && negb (d_envlock st v))%bool; [|discriminate].
      inversion HS; subst; clear HS. unfold mu, lex3. simpl. left.
      assert (Iv : In v vids) by (apply (t_vids g cf st I); rewrite T; discriminate).
      apply (sum_lt _ _ _ v Iv).
      + intros u _. unfold tw. simpl. destruct (str_eq_dec u v) as [->|N].
        * rewrite upd_same, T. destruct (Z.ltb (retries g v) 0); lia.
        * rewrite (upd_other _ _ _ _ N). lia.
      + unfold tw. simpl. rewrite upd_same, T. destruct (Z.ltb (retries g v) 0); lia.
    - (* LExit *)
      destruct (d_thread st v) eqn:T; try discriminate. inversion HS; subst; clear HS.
      unfold mu, lex3, set_thread. simpl. left.
      assert (Iv : In v vids) by (apply (t_vids g cf st I); rewrite T; discriminate).
      assert (D : match (if match r with ONil => true | _ => Z.leb (retries g v) (Z.of_nat k) end then Finished r else Running (Datatypes.S k)) with
                  | NotSpawned => R v + 5 | Waiting => R v + 4 | Running k0 => R v - k0 + 3 | Finished _ => 2 | Gone => 0 end
                  < R v - k + 3).
      { destruct (match r with ONil => true | _ => Z.leb (retries g v) (Z.of_nat k) end) eqn:Fin; [lia|].
        assert (k < R v).
        { unfold R. destruct r; try discriminate; apply Z.leb_gt in Fin; lia. }
        lia. }
      apply (sum_lt _ _ _ v Iv).
      + intros u _. unfold tw. simpl. destruct (str_eq_dec u v) as [->|N].
        * rewrite upd_same, T. lia.
        * rewrite (upd_other _ _ _ _ N). lia.
      + unfold tw. simpl. rewrite upd_same, T. exact D.
  Qed.

  (* the productive-step relation on states satisfying the invariant is well-founded: no schedule
     contains infinitely many productive transitions *)
  Definition pstep (s' s : dstate) : Prop :=
    Inv g cf s /\ exists l, productive l = true /\ dstep s l = Some s'.

  Theorem productive_steps_terminate : well_founded pstep.
  Proof.
    apply (wf_incl _ _ (fun s' s => lex3 (mu s') (mu s))).
    - intros s' s (I & l & P & S). exact (productive_decreases s l s' I S P).
    - apply (wf_inverse_image _ _ lex3 mu). exact lex3_wf.
  Qed.
End Term.
