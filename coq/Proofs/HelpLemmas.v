(* The help document (C18). *)
From GO Require Import Base.Str Base.Sort Base.Utf8 Model.Tokenizer Model.Option Model.Tree Model.Parse Model.Help Model.Dispatch.
From GO Require Import Proofs.ParseLemmas.
From Coq Require Import Sorting.Permutation String.
Open Scope N_scope.

Lemma insert_spec_perm x l : Permutation (insert_spec x l) (x :: l).
Proof.
  induction l as [|y l IH]; simpl; [reflexivity|].
  destruct (str_leb (os_name x) (os_name y)); [reflexivity|]. rewrite IH. apply perm_swap.
Qed.

(* sorting the entries of a section neither drops nor duplicates an option *)
Lemma sort_specs_perm l : Permutation (sort_specs l) l.
Proof.
  induction l as [|x l IH]; simpl; [reflexivity|]. rewrite insert_spec_perm. constructor. exact IH.
Qed.

Lemma insert_cmd_perm x l : Permutation (insert_cmd x l) (x :: l).
Proof.
  induction l as [|y l IH]; simpl; [reflexivity|].
  destruct (str_leb (fst x) (fst y)); [reflexivity|]. rewrite IH. apply perm_swap.
Qed.

Lemma sort_cmds_perm l : Permutation (sort_cmds l) l.
Proof.
  induction l as [|x l IH]; simpl; [reflexivity|]. rewrite insert_cmd_perm. constructor. exact IH.
Qed.

(* required and non-required options partition the level's options *)
Lemma filter_partition {A} (f : A -> bool) l :
  Permutation (List.filter f l ++ List.filter (fun x => negb (f x)) l) l.
Proof.
  induction l as [|x l IH]; simpl; [reflexivity|]. destruct (f x); simpl.
  - constructor. exact IH.
  - rewrite <- Permutation_middle. constructor. exact IH.
Qed.

(* ---- the option entries of a level ---- *)

Section HelpLemmas.
  Variable specs : list ospec.

  (* well-formed level: keys unique; every key belongs to the aliases of the option it points to;
     the option's Name is itself a key of the same option *)
  Definition wf_level (n : node) : Prop :=
    NoDup (keys (n_opts n)) /\
    forall k oid, In (k, oid) (n_opts n) ->
      exists sp, nth_error specs oid = Some sp /\ In k (os_aliases sp) /\ In (os_name sp, oid) (n_opts n).

  Lemma level_options_In n sp :
    In sp (level_options specs n) <->
    exists oid, In (os_name sp, oid) (n_opts n) /\ nth_error specs oid = Some sp.
  Proof.
    unfold level_options. rewrite in_flat_map. split.
    - intros ([k oid] & I & H). simpl in H. destruct (nth_error specs oid) as [sp'|] eqn:E; [|contradiction].
      destruct (str_eqb_spec k (os_name sp')); [|contradiction]. destruct H as [<-|[]]. subst k. eauto.
    - intros (oid & I & E). exists (os_name sp, oid). split; [exact I|]. simpl. rewrite E, str_eqb_refl. left; reflexivity.
  Qed.

  (* C18: every option of the level (own or inherited: anything in the table) has an entry *)
  Theorem every_option_has_entry n k oid :
    wf_level n -> In (k, oid) (n_opts n) ->
    exists sp, nth_error specs oid = Some sp /\ In sp (level_options specs n) /\ In k (os_aliases sp).
  Proof.
    intros [_ W] I. destruct (W k oid I) as (sp & E & A & Nm). exists sp. split; [exact E|]. split; [|exact A].
    apply level_options_In. eauto.
  Qed.

  (* C18: exactly once, and never an entry for an alias key: the entries' names are pairwise
     distinct and every entry is the option's own Name key *)
  Theorem entries_once n : NoDup (keys (n_opts n)) -> NoDup (List.map os_name (level_options specs n)).
  Proof.
    unfold level_options. generalize (n_opts n) as tbl. induction tbl as [|[k oid] tbl IH]; intros ND; simpl.
    - constructor.
    - inversion ND as [|? ? Hn ND']; subst. rewrite map_app. simpl.
      destruct (nth_error specs oid) as [sp|]; [|apply IH; exact ND'].
      destruct (str_eqb_spec k (os_name sp)); [|apply IH; exact ND'].
      simpl. constructor; [|apply IH; exact ND'].
      intros I. apply Hn. apply in_map_iff in I as (sp' & En & I').
      apply in_flat_map in I' as ([k' oid'] & It & H). simpl in H.
      destruct (nth_error specs oid') as [sp2|]; [|contradiction].
      destruct (str_eqb_spec k' (os_name sp2)); [|contradiction]. destruct H as [<-|[]].
      subst. rewrite <- En. apply (in_map fst) in It. exact It.
  Qed.

  (* the entry's synopsis string lists every alias of the option *)
  Theorem entry_lists_all_aliases sp a :
    In a (os_aliases sp) -> In (alias_syn a) (List.map alias_syn (os_aliases sp)).
  Proof. apply in_map. Qed.

  (* ---- sections ---- *)

  Definition entries_required (opts : list ospec) : list ospec := sort_specs (List.filter os_required opts).
  Definition entries_normal (opts : list ospec) : list ospec := sort_specs (List.filter (fun o => negb (os_required o)) opts).

  (* C18: the two option sections together hold each option of the level exactly once; an option
     is under REQUIRED PARAMETERS exactly when it is required *)
  Theorem sections_partition opts : Permutation (entries_required opts ++ entries_normal opts) opts.
  Proof.
    unfold entries_required, entries_normal. rewrite !sort_specs_perm. apply filter_partition.
  Qed.

  Theorem required_section_iff opts sp : In sp (entries_required opts) <-> In sp opts /\ os_required sp = true.
  Proof.
    unfold entries_required. split.
    - intros I. apply (Permutation_in _ (sort_specs_perm _)) in I. apply filter_In in I. exact I.
    - intros H. apply (Permutation_in _ (Permutation_sym (sort_specs_perm _))). apply filter_In. exact H.
  Qed.

  Theorem normal_section_iff opts sp : In sp (entries_normal opts) <-> In sp opts /\ os_required sp = false.
  Proof.
    unfold entries_normal. split.
    - intros I. apply (Permutation_in _ (sort_specs_perm _)) in I. apply filter_In in I.
      destruct I as [I R]. apply Bool.negb_true_iff in R. auto.
    - intros [I R]. apply (Permutation_in _ (Permutation_sym (sort_specs_perm _))). apply filter_In.
      split; [exact I | rewrite R; reflexivity].
  Qed.

  (* the rendering is the concatenation of the section renderings, each the concatenation of its
     entries' renderings, each entry starting with the indentation and the option's synopsis *)
  Theorem option_list_decomposes args opts :
    exists factor,
      help_option_list args opts =
        (if show_args args then s2l "ARGUMENTS:" ++ [NL] ++ List.concat (List.map (help_arg_entry factor) args) else []) ++
        (match entries_required opts with [] => [] | l => s2l "REQUIRED PARAMETERS:" ++ [NL] ++ List.concat (List.map (help_option_entry factor) l) end) ++
        (match entries_normal opts with [] => [] | l => s2l "OPTIONS:" ++ [NL] ++ List.concat (List.map (help_option_entry factor) l) end).
  Proof.
    unfold help_option_list, entries_required, entries_normal. cbv zeta. eexists.
    destruct (sort_specs (List.filter os_required opts));
      destruct (sort_specs (List.filter (fun o => negb (os_required o)) opts)); reflexivity.
  Qed.

  Theorem entry_starts_with_synopsis factor sp :
    exists rest, help_option_entry factor sp = spaces 4 ++ help_synopsis sp ++ rest.
  Proof.
    unfold help_option_entry, indent, pad.
    destruct (negb (os_required sp) || nonempty (os_desc sp) || nonempty (os_env sp))%bool;
      rewrite <- ?app_assoc; eexists; reflexivity.
  Qed.

  (* a non-required entry shows its default, a bound one its environment variable *)
  Theorem entry_default_and_env factor sp :
    os_required sp = false ->
    exists pre, help_option_entry factor sp =
      pre ++ s2l "(default: " ++ os_defstr sp ++
      (match os_env sp with [] => [] | e => s2l ", env: " ++ e end) ++ s2l ")" ++ [NL; NL].
  Proof.
    intros R. unfold help_option_entry. rewrite R. simpl negb. cbv iota.
    eexists. rewrite !app_assoc. reflexivity.
  Qed.

  Theorem entry_required_env factor sp e0 e' :
    os_required sp = true -> os_env sp = e0 :: e' ->
    exists pre, help_option_entry factor sp = pre ++ s2l "(env: " ++ (e0 :: e') ++ s2l ")" ++ [NL; NL].
  Proof.
    intros R E. unfold help_option_entry. rewrite R, E. eexists. rewrite !app_assoc. reflexivity.
  Qed.

  (* ---- synopsis ---- *)

  Lemma syn_add_text n out line syn :
    exists sep, fst (syn_add n (out, line) syn) ++ snd (syn_add n (out, line) syn) = out ++ line ++ sep ++ syn /\
                (sep = [SP] \/ sep = NL :: spaces n ++ [SP]).
  Proof.
    unfold syn_add. destruct (Nat.ltb 80 (blen line + blen syn)); simpl.
    - exists (NL :: spaces n ++ [SP]). split; [|right; reflexivity].
      rewrite <- !app_assoc. simpl. rewrite <- !app_assoc. reflexivity.
    - exists [SP]. split; [|left; reflexivity]. reflexivity.
  Qed.

  (* text of the synopsis after adding the items: every item occurs, in order, each preceded by a
     blank (or a line break and the continuation indentation) *)
  Inductive joined (n : nat) : list str -> str -> Prop :=
  | joined_nil : joined n [] []
  | joined_cons sep item items rest :
      (sep = [SP] \/ sep = NL :: spaces n ++ [SP]) -> joined n items rest ->
      joined n (item :: items) (sep ++ item ++ rest).

  Lemma fold_syn_add n items : forall out line,
    exists rest, joined n items rest /\
      fst (List.fold_left (syn_add n) items (out, line)) ++ snd (List.fold_left (syn_add n) items (out, line))
      = out ++ line ++ rest.
  Proof.
    induction items as [|it items IH]; intros out line.
    - exists []. split; [constructor | simpl; rewrite app_nil_r; reflexivity].
    - change (List.fold_left (syn_add n) (it :: items) (out, line))
        with (List.fold_left (syn_add n) items (syn_add n (out, line) it)).
      destruct (syn_add_text n out line it) as (sep & E & S).
      destruct (syn_add n (out, line) it) as [o1 l1]. simpl fst in E. simpl snd in E.
      destruct (IH o1 l1) as (rest & J & F). exists (sep ++ it ++ rest). split; [constructor; assumption|].
      rewrite F. rewrite app_assoc, E. rewrite <- !app_assoc. reflexivity.
  Qed.

  (* C18: every option of the level is mentioned in the synopsis, required ones unbracketed *)
  Theorem synopsis_mentions_all name args opts has_cmds :
    exists n last rest,
      joined n (List.map opt_synopsis (entries_required opts ++ entries_normal opts) ++ [last]) rest /\
      help_synopsis_section name args opts has_cmds = s2l "SYNOPSIS:" ++ [NL] ++ indent name ++ rest ++ [NL].
  Proof.
    unfold help_synopsis_section, entries_required, entries_normal.
    set (n := blen (indent name)).
    set (items := List.map opt_synopsis _).
    set (last := (if has_cmds then _ else _) ++ _).
    destruct (fold_syn_add n (items ++ [last]) [] (indent name)) as (rest & J & F).
    rewrite fold_left_app in F. cbn [List.fold_left] in F.
    exists n, last, rest. split; [exact J|].
    destruct (syn_add n (List.fold_left (syn_add n) items ([], indent name)) last) as [out line] eqn:A.
    assert (F' : out ++ line = indent name ++ rest).
    { change (out ++ line) with (fst (out, line) ++ snd (out, line)). rewrite <- A. exact F. }
    f_equal. f_equal. rewrite (app_assoc out line). rewrite F'. rewrite <- app_assoc. reflexivity.
  Qed.

  Theorem opt_synopsis_shape sp :
    exists l r, opt_synopsis sp = l ++ help_synopsis sp ++ r /\
                ((os_required sp = false /\ l = s2l "[") \/
                 (os_required sp = true /\ (l = [] \/ l = s2l "<"))).
  Proof.
    unfold opt_synopsis. destruct (os_kind sp), (os_required sp);
      try (exists [], []; rewrite app_nil_r; split; [reflexivity | right; auto]; fail);
      try (exists (s2l "["), (s2l "]"); split; [reflexivity | left; auto]; fail);
      try (exists (s2l "<"), (s2l ">..."); split; [rewrite <- !app_assoc; reflexivity | right; auto]; fail);
      try (exists (s2l "["), (s2l "]..."); split; [rewrite <- !app_assoc; reflexivity | left; auto]; fail).
  Qed.

  (* ---- commands ---- *)

  (* C18: every subcommand except the help command is listed, exactly once (keys are unique) *)
  Theorem listed_commands_In n nm d :
    In (nm, d) (listed_commands n) <->
    exists k c, In (k, c) (n_cmds n) /\ ni_name (n_info c) = nm /\ ni_desc (n_info c) = d /\
                nm <> ni_helpname (n_info n).
  Proof.
    unfold listed_commands. rewrite in_flat_map. split.
    - intros ([k c] & I & H). simpl in H.
      destruct (str_eqb_spec (ni_name (n_info c)) (ni_helpname (n_info n))); [contradiction|].
      destruct H as [H|[]]. inversion H; subst. exists k, c. auto.
    - intros (k & c & I & <- & <- & N). exists (k, c). split; [exact I|]. simpl.
      destruct (str_eqb_spec (ni_name (n_info c)) (ni_helpname (n_info n))); [contradiction | left; reflexivity].
  Qed.

  Theorem listed_commands_length n : (List.length (listed_commands n) <= List.length (n_cmds n))%nat.
  Proof.
    unfold listed_commands. induction (n_cmds n) as [|[k c] l IH]; simpl; [lia|].
    destruct (str_eqb _ _); simpl; lia.
  Qed.

  (* ---- one text ---- *)

  (* C18: the text written for the help option at a level, the text the help command of that level
     writes, and Help() on that level are the same term *)
  Theorem one_help_text st child :
    run_help specs (descend st child) [] = DHelp (help_of_state specs st).
  Proof.
    unfold run_help, help_of_state, descend, path_of. simpl.
    rewrite map_app. simpl. reflexivity.
  Qed.
End HelpLemmas.
