(* Independence of map iteration order (C20): every place where the Go code ranges over a map is a
   fold over an association list here; these lemmas show the result does not depend on the order. *)
From GO Require Import Base.Str Base.Sort Base.Utf8 Model.Tokenizer Model.Option Model.Tree Model.Parse Model.Help Model.Dispatch.
From GO Require Import Proofs.ParseLemmas Proofs.Match Proofs.HelpLemmas.
From Coq Require Import Sorting.Permutation Sorting.Sorted.
Open Scope N_scope.

Lemma keys_perm {V} (l l' : list (str * V)) : Permutation l l' -> Permutation (keys l) (keys l').
Proof. apply Permutation_map. Qed.

Lemma NoDup_keys_perm {V} (l l' : list (str * V)) : Permutation l l' -> NoDup (keys l) -> NoDup (keys l').
Proof. intros P. apply Permutation_NoDup. apply keys_perm. exact P. Qed.

(* map lookup *)
Lemma alookup_perm {V} (l l' : list (str * V)) k :
  Permutation l l' -> NoDup (keys l) -> alookup k l = alookup k l'.
Proof.
  intros P ND. destruct (alookup k l) as [v|] eqn:E.
  - symmetry. apply alookup_NoDup; [eapply NoDup_keys_perm; eauto|].
    eapply Permutation_in; [exact P|]. apply alookup_In. exact E.
  - symmetry. apply alookup_None. apply alookup_None in E. intros I. apply E.
    eapply Permutation_in; [apply Permutation_sym, keys_perm; exact P | exact I].
Qed.

Lemma filter_perm {A} (f : A -> bool) l l' : Permutation l l' -> Permutation (List.filter f l) (List.filter f l').
Proof.
  induction 1 as [|x l l' P IH|x y l|l l1 l2 P1 IH1 P2 IH2]; simpl.
  - constructor.
  - destruct (f x); [constructor|]; exact IH.
  - destruct (f x), (f y); try reflexivity. apply perm_swap.
  - etransitivity; eassumption.
Qed.

(* the candidates of a name: the same set whatever the table order *)
Lemma matches_perm tbl tbl' e :
  Permutation tbl tbl' -> NoDup (keys tbl) -> Permutation (matches tbl e) (matches tbl' e).
Proof.
  intros P ND. unfold matches. rewrite <- (alookup_perm tbl tbl' e P ND).
  destruct (alookup e tbl); [reflexivity|]. apply filter_perm. exact P.
Qed.

(* ... so resolution (none / one / ambiguous) and the sorted candidate list of the ambiguity error
   do not depend on it *)
Lemma perm_nil {A} (l : list A) : Permutation [] l -> l = [].
Proof. apply Permutation_nil. Qed.

Lemma perm_single {A} (x : A) l : Permutation [x] l -> l = [x].
Proof. apply Permutation_length_1_inv. Qed.

Theorem resolution_order_independent tbl tbl' e :
  Permutation tbl tbl' -> NoDup (keys tbl) ->
  match matches tbl e with
  | [] => matches tbl' e = []
  | [kv] => matches tbl' e = [kv]
  | ms => sort_strs (keys (matches tbl' e)) = sort_strs (keys ms) /\ (2 <= length (matches tbl' e))%nat
  end.
Proof.
  intros P ND. pose proof (matches_perm tbl tbl' e P ND) as M.
  destruct (matches tbl e) as [|kv [|kv2 r]] eqn:E.
  - apply perm_nil. exact M.
  - apply perm_single. exact M.
  - split.
    + apply sort_strs_perm_eq. apply keys_perm. apply Permutation_sym. exact M.
    + apply Permutation_length in M. simpl in M. lia.
Qed.

Section PermSpecs.
  Variable specs : list ospec.

  (* the required-option scan visits the keys in sorted order: its result does not depend on the
     table order (this is what the repair of the random "missing required" report establishes) *)
  Lemma first_missing_tbl st tbl tbl' ks :
    Permutation tbl tbl' -> NoDup (keys tbl) ->
    first_missing specs st tbl ks = first_missing specs st tbl' ks.
  Proof.
    intros P ND. induction ks as [|k ks IH]; simpl; [reflexivity|].
    rewrite <- (alookup_perm tbl tbl' k P ND). destruct (alookup k tbl); [|exact IH].
    destruct (check_required specs st n); [reflexivity | exact IH].
  Qed.

  Theorem required_error_order_independent st i o o' c c' :
    Permutation o o' -> NoDup (keys o) ->
    required_error specs st (Node i o c) = required_error specs st (Node i o' c').
  Proof.
    intros P ND. unfold required_error. simpl.
    rewrite (sort_strs_perm_eq (keys o) (keys o') (keys_perm _ _ P)).
    apply first_missing_tbl; assumption.
  Qed.

  (* Called(name) *)
  Theorem called_order_independent st tbl tbl' name :
    Permutation tbl tbl' -> NoDup (keys tbl) -> called st tbl name = called st tbl' name.
  Proof.
    intros P ND. unfold called. destruct name; [reflexivity|].
    rewrite <- (alookup_perm tbl tbl' _ P ND). reflexivity.
  Qed.

  (* ---- help ---- *)

  Lemma flat_map_perm {A B} (f : A -> list B) l l' : Permutation l l' -> Permutation (flat_map f l) (flat_map f l').
  Proof.
    induction 1 as [|x l l' P IH|x y l|l l1 l2 P1 IH1 P2 IH2]; simpl.
    - constructor.
    - apply Permutation_app_head. exact IH.
    - rewrite !app_assoc. apply Permutation_app_tail. apply Permutation_app_comm.
    - etransitivity; eassumption.
  Qed.

  Lemma level_options_perm i o o' c : Permutation o o' ->
    Permutation (level_options specs (Node i o c)) (level_options specs (Node i o' c)).
  Proof. intros P. unfold level_options. simpl. apply flat_map_perm. exact P. Qed.

  Lemma listed_commands_perm i o c c' : Permutation c c' ->
    Permutation (listed_commands (Node i o c)) (listed_commands (Node i o c')).
  Proof. intros P. unfold listed_commands. simpl. apply flat_map_perm. exact P. Qed.

  (* sorting by a key that is unique gives one result for every input order *)
  Definition sle_spec (a b : ospec) : Prop := str_leb (os_name a) (os_name b) = true.

  Lemma insert_spec_sorted x l : Sorted sle_spec l -> Sorted sle_spec (insert_spec x l).
  Proof.
    induction l as [|y l IH]; intros H; simpl.
    - repeat constructor.
    - destruct (str_leb (os_name x) (os_name y)) eqn:E.
      + constructor; [exact H | constructor; exact E].
      + inversion H as [|? ? Hs Hh]; subst. constructor; [apply IH; exact Hs|].
        assert (Hyx : sle_spec y x).
        { unfold sle_spec. destruct (str_leb_total (os_name x) (os_name y)) as [T|T]; congruence. }
        destruct l as [|z l]; simpl; [constructor; exact Hyx|].
        destruct (str_leb (os_name x) (os_name z)); constructor; [exact Hyx|].
        inversion Hh; subst. assumption.
  Qed.

  Lemma sort_specs_sorted l : Sorted sle_spec (sort_specs l).
  Proof. induction l as [|x l IH]; simpl; [constructor|]. apply insert_spec_sorted. exact IH. Qed.

  Lemma sle_spec_trans : Relations_1.Transitive sle_spec.
  Proof. intros a b c. apply str_leb_trans. Qed.

  Lemma sorted_specs_unique l1 : forall l2,
    Sorted sle_spec l1 -> Sorted sle_spec l2 -> Permutation l1 l2 ->
    NoDup (List.map os_name l1) -> l1 = l2.
  Proof.
    induction l1 as [|x l1 IH]; intros l2 S1 S2 P ND.
    - apply Permutation_nil in P. auto.
    - destruct l2 as [|y l2]; [apply Permutation_sym, Permutation_nil in P; discriminate|].
      apply Sorted_StronglySorted in S1; [|exact sle_spec_trans].
      apply Sorted_StronglySorted in S2; [|exact sle_spec_trans].
      inversion S1 as [|? ? S1' F1]; subst. inversion S2 as [|? ? S2' F2]; subst.
      assert (Hxy : x = y).
      { assert (Ix : In x (y :: l2)) by (eapply Permutation_in; [exact P | left; reflexivity]).
        assert (Iy : In y (x :: l1)) by (eapply Permutation_in; [apply Permutation_sym; exact P | left; reflexivity]).
        destruct Ix as [->|Ix]; [reflexivity|]. destruct Iy as [->|Iy]; [reflexivity|].
        rewrite Forall_forall in F1, F2.
        assert (En : os_name x = os_name y) by (apply str_leb_antisym; [apply F1 | apply F2]; assumption).
        (* two entries with the same name: impossible, names are unique *)
        exfalso. simpl in ND. inversion ND as [|? ? Hn _]; subst. apply Hn. rewrite En.
        apply in_map. exact Iy. }
      subst y. f_equal. apply IH.
      + apply StronglySorted_Sorted; assumption.
      + apply StronglySorted_Sorted; assumption.
      + eapply Permutation_cons_inv; eassumption.
      + simpl in ND. inversion ND; assumption.
  Qed.

  Theorem sort_specs_order_independent l l' :
    Permutation l l' -> NoDup (List.map os_name l) -> sort_specs l = sort_specs l'.
  Proof.
    intros P ND. apply sorted_specs_unique; try apply sort_specs_sorted.
    - rewrite !sort_specs_perm. exact P.
    - eapply Permutation_NoDup; [|exact ND]. apply Permutation_map. apply Permutation_sym. apply sort_specs_perm.
  Qed.

  Lemma max_len_perm l l' : Permutation l l' -> max_len l = max_len l'.
  Proof.
    induction 1 as [|x l l' P IH|x y l|l l1 l2 P1 IH1 P2 IH2]; simpl; try lia.
  Qed.

  Lemma NoDup_filter_map {A B} (g : A -> B) (f : A -> bool) l : NoDup (List.map g l) -> NoDup (List.map g (List.filter f l)).
  Proof.
    induction l as [|x l IH]; simpl; intros ND; [constructor|]. inversion ND as [|? ? Hn ND']; subst.
    destruct (f x); simpl; [constructor|]; auto.
    intros I. apply Hn. apply in_map_iff in I as (y & E & Iy). apply filter_In in Iy as [Iy _].
    rewrite <- E. apply in_map. exact Iy.
  Qed.

  (* the option part of the help text does not depend on the order of the option table *)
  Theorem help_option_list_order_independent args opts opts' :
    Permutation opts opts' -> NoDup (List.map os_name opts) ->
    help_option_list args opts = help_option_list args opts'.
  Proof.
    intros P ND. unfold help_option_list.
    rewrite (max_len_perm (List.map help_synopsis opts) (List.map help_synopsis opts') (Permutation_map _ P)).
    rewrite (sort_specs_order_independent (List.filter os_required opts) (List.filter os_required opts'));
      [|apply filter_perm; exact P | apply NoDup_filter_map; exact ND].
    rewrite (sort_specs_order_independent (List.filter (fun o => negb (os_required o)) opts)
                                          (List.filter (fun o => negb (os_required o)) opts'));
      [|apply filter_perm; exact P | apply NoDup_filter_map; exact ND].
    reflexivity.
  Qed.

  Theorem help_synopsis_order_independent name args opts opts' hc :
    Permutation opts opts' -> NoDup (List.map os_name opts) ->
    help_synopsis_section name args opts hc = help_synopsis_section name args opts' hc.
  Proof.
    intros P ND. unfold help_synopsis_section.
    rewrite (sort_specs_order_independent (List.filter os_required opts) (List.filter os_required opts'));
      [|apply filter_perm; exact P | apply NoDup_filter_map; exact ND].
    rewrite (sort_specs_order_independent (List.filter (fun o => negb (os_required o)) opts)
                                          (List.filter (fun o => negb (os_required o)) opts'));
      [|apply filter_perm; exact P | apply NoDup_filter_map; exact ND].
    reflexivity.
  Qed.
End PermSpecs.

(* candidate lists are sorted before they are shown: a sorted list is determined by its elements *)
Theorem sorted_output_order_independent l l' : Permutation l l' -> sort_strs l = sort_strs l'.
Proof. exact (sort_strs_perm_eq l l'). Qed.
