(* Lemmas about the token splitter. *)
From GO Require Import Base.Str Base.Utf8 Model.Tokenizer.
Open Scope N_scope.

Lemma span_not_spec c a b :
  contains_byte c a = false -> (b = [] \/ exists r, b = c :: r) -> span_not c (a ++ b) = (a, b).
Proof.
  intros Ha Hb. induction a as [|x a IH]; simpl in *.
  - destruct Hb as [->|[r ->]]; simpl; auto. rewrite N.eqb_refl. reflexivity.
  - apply Bool.orb_false_iff in Ha as [Hx Ha]. rewrite Hx. rewrite (IH Ha). reflexivity.
Qed.

Definition starts_with_eq_or_empty (e : str) : Prop := e = [] \/ exists r, e = EQ :: r.

(* a token "--name" or "--name=value" *)
Lemma regex_match_long name e :
  name <> [] -> contains_byte EQ name = false -> starts_with_eq_or_empty e ->
  regex_match (DASH :: DASH :: name ++ e) = Some (true, name, e).
Proof.
  intros Hn Hc He. unfold regex_match. rewrite !N.eqb_refl.
  rewrite (span_not_spec EQ name e Hc He).
  destruct name; [congruence | reflexivity].
Qed.

Lemma is_option_long md name e :
  name <> [] -> contains_byte EQ name = false -> starts_with_eq_or_empty e ->
  is_option md (DASH :: DASH :: name ++ e) = ([mkPair name (attached e)], true).
Proof.
  intros Hn Hc He. unfold is_option.
  rewrite (regex_match_long name e Hn Hc He).
  destruct name as [|x name]; [congruence|].
  assert (H1 : str_eqb (DASH :: DASH :: (x :: name) ++ e) [DASH; DASH] = false).
  { apply str_eqb_neq. intros E. discriminate. }
  assert (H2 : str_eqb (DASH :: DASH :: (x :: name) ++ e) [DASH] = false).
  { apply str_eqb_neq. intros E. discriminate. }
  rewrite H1, H2. reflexivity.
Qed.

(* every token that starts with two dashes is split the same way in all modes *)
Lemma is_option_dd_mode_indep md1 md2 r : is_option md1 (DASH :: DASH :: r) = is_option md2 (DASH :: DASH :: r).
Proof.
  unfold is_option.
  destruct (str_eqb (DASH :: DASH :: r) [DASH; DASH]); [reflexivity|].
  destruct (str_eqb (DASH :: DASH :: r) [DASH]); [reflexivity|].
  unfold regex_match. rewrite !N.eqb_refl.
  destruct (span_not EQ r) as [g2 g3].
  destruct g2.
  - destruct (span_not EQ (DASH :: r)). reflexivity.
  - reflexivity.
Qed.

(* also the two special tokens *)
Lemma is_option_dash_mode_indep md1 md2 : is_option md1 [DASH] = is_option md2 [DASH].
Proof. reflexivity. Qed.

(* a token that does not start with a dash is never an option *)
Lemma is_option_no_dash md s : (forall r, s <> DASH :: r) -> is_option md s = ([], false).
Proof.
  intros H. unfold is_option.
  destruct (str_eqb_spec s [DASH; DASH]) as [->|_]; [exfalso; eapply H; reflexivity|].
  destruct (str_eqb_spec s [DASH]) as [->|_]; [exfalso; eapply H; reflexivity|].
  unfold regex_match. destruct s as [|c s]; [reflexivity|].
  destruct (N.eqb_spec c DASH) as [->|_]; [exfalso; eapply H; reflexivity | reflexivity].
Qed.

(* single dash, name not starting with dash *)
Definition no_dash_start (n : str) : Prop := forall r, n <> DASH :: r.

Lemma regex_match_short name e :
  name <> [] -> no_dash_start name -> contains_byte EQ name = false -> starts_with_eq_or_empty e ->
  regex_match (DASH :: name ++ e) = Some (false, name, e).
Proof.
  intros Hn Hd Hc He. unfold regex_match. rewrite N.eqb_refl.
  destruct name as [|x name]; [congruence|]. simpl app.
  destruct (N.eqb_spec x DASH) as [->|Hx]; [exfalso; eapply Hd; reflexivity|].
  change (x :: name ++ e) with ((x :: name) ++ e).
  rewrite (span_not_spec EQ (x :: name) e Hc He).
  destruct (N.eqb x DASH) eqn:E; [apply N.eqb_eq in E; congruence | reflexivity].
Qed.

(* Normal mode: -name[=v] is split exactly like --name[=v] *)
Lemma is_option_normal_single name e :
  name <> [] -> no_dash_start name -> contains_byte EQ name = false -> starts_with_eq_or_empty e ->
  is_option Normal (DASH :: name ++ e) = is_option Normal (DASH :: DASH :: name ++ e).
Proof.
  intros Hn Hd Hc He. rewrite (is_option_long Normal name e Hn Hc He).
  unfold is_option. rewrite (regex_match_short name e Hn Hd Hc He).
  destruct name as [|x name]; [congruence|]. simpl app.
  destruct (N.eqb_spec x DASH) as [->|Hx]; [exfalso; eapply Hd; reflexivity|].
  assert (H1 : str_eqb (DASH :: x :: name ++ e) [DASH; DASH] = false).
  { apply str_eqb_neq. intros E. injection E as E1 E2. congruence. }
  assert (H2 : str_eqb (DASH :: x :: name ++ e) [DASH] = false).
  { apply str_eqb_neq. intros E. discriminate. }
  rewrite H1, H2. reflexivity.
Qed.

(* Bundling: one pair per rune of the name, the attached value on the last *)
Lemma is_option_bundling name e :
  name <> [] -> no_dash_start name -> contains_byte EQ name = false -> starts_with_eq_or_empty e ->
  is_option Bundling (DASH :: name ++ e) =
    (match attached e with
     | [] => List.map (fun o => mkPair o []) (explode name)
     | a => set_last_args (List.map (fun o => mkPair o []) (explode name)) a
     end, true).
Proof.
  intros Hn Hd Hc He. unfold is_option. rewrite (regex_match_short name e Hn Hd Hc He).
  destruct name as [|x name]; [congruence|]. simpl app.
  destruct (N.eqb_spec x DASH) as [->|Hx]; [exfalso; eapply Hd; reflexivity|].
  assert (H1 : str_eqb (DASH :: x :: name ++ e) [DASH; DASH] = false).
  { apply str_eqb_neq. intros E. injection E as E1 E2. congruence. }
  assert (H2 : str_eqb (DASH :: x :: name ++ e) [DASH] = false).
  { apply str_eqb_neq. intros E. discriminate. }
  rewrite H1, H2. reflexivity.
Qed.

(* SingleDash: first rune is the option, everything else its value *)
Lemma is_option_singledash name e :
  name <> [] -> no_dash_start name -> contains_byte EQ name = false -> starts_with_eq_or_empty e ->
  is_option SingleDash (DASH :: name ++ e) =
    (let n := first_rune_len name in
     match skipn n name, e with
     | [], [] => [mkPair (firstn n name) []]
     | rest, _ => [mkPair (firstn n name) [rest ++ e]]
     end, true).
Proof.
  intros Hn Hd Hc He. unfold is_option. rewrite (regex_match_short name e Hn Hd Hc He).
  assert (H1 : str_eqb (DASH :: name ++ e) [DASH; DASH] = false).
  { apply str_eqb_neq. intros E. injection E as E.
    destruct name as [|x name]; [congruence|]. injection E as E1 E2. eapply Hd. rewrite E1. reflexivity. }
  assert (H2 : str_eqb (DASH :: name ++ e) [DASH] = false).
  { apply str_eqb_neq. intros E. injection E as E. destruct name; [congruence | discriminate]. }
  rewrite H1, H2. cbv zeta.
  generalize (first_rune_len name). intros k.
  destruct (skipn k name); destruct e; reflexivity.
Qed.

(* the terminator is never classified as an option *)
Lemma is_option_terminator md : snd (is_option md [DASH; DASH]) = false.
Proof. reflexivity. Qed.

(* an option-looking token starts with a dash *)
Lemma looks_like_option_dash md s : looks_like_option md s = true -> exists r, s = DASH :: r.
Proof.
  unfold looks_like_option. intros H.
  destruct s as [|c s].
  - rewrite is_option_no_dash in H; [discriminate | intros r; discriminate].
  - destruct (N.eqb_spec c DASH) as [->|Hc]; [eauto|].
    rewrite is_option_no_dash in H; [discriminate|]. intros r E. injection E as E1 E2. congruence.
Qed.

Lemma looks_like_option_mode_indep md1 md2 s : looks_like_option md1 s = looks_like_option md2 s.
Proof.
  unfold looks_like_option, is_option.
  destruct (str_eqb s [DASH; DASH]); [reflexivity|].
  destruct (str_eqb s [DASH]); [reflexivity|].
  destruct (regex_match s) as [[[two g2] g3]|]; [|reflexivity].
  destruct two; [reflexivity|]. destruct md1, md2; reflexivity.
Qed.
