(* C20 for Dispatch: which function runs, with which arguments, the help text written, the error —
   independent of the order of every table of the tree (the option view handed to the function is
   a Go map: equal up to order). *)
From GO Require Import Base.Str Base.Utf8 Base.Sort Model.Tokenizer Model.Option Model.Tree Model.Parse Model.Help Model.Dispatch.
From GO Require Import Proofs.HelpLemmas Proofs.Perm Proofs.PermParse Proofs.HelpPerm.
From Coq Require Import Permutation Lia.
Open Scope N_scope.

Definition dsim (a b : dresult) : Prop :=
  match a, b with
  | DRan i r v, DRan i' r' v' => i = i' /\ r = r' /\ Permutation v v'
  | DHelp t, DHelp t' => t = t'
  | DRootHelp t, DRootHelp t' => t = t'
  | DErr e, DErr e' => e = e'
  | _, _ => False
  end.

(* the command table of every node is a Go map keyed by the commands' own, distinct names *)
Inductive wfh : node -> Prop :=
| wfh_intro i o c :
    NoDup (keys c) -> NoDup (List.map (fun kc => ni_name (n_info (snd kc))) c) ->
    (forall k a, In (k, a) c -> wfh a) -> wfh (Node i o c).

Lemma wfh_keys n : wfh n -> NoDup (keys (n_cmds n)).
Proof. intros H. destruct H. simpl. assumption. Qed.

Lemma wfh_names n : wfh n -> NoDup (List.map (fun kc => ni_name (n_info (snd kc))) (n_cmds n)).
Proof. intros H. destruct H. simpl. assumption. Qed.

Lemma wfh_child n k a : wfh n -> In (k, a) (n_cmds n) -> wfh a.
Proof. intros H I. destruct H as [i o c _ _ W]. simpl in I. eapply W; eauto. Qed.

Lemma listed_names_nodup n : wfh n -> NoDup (List.map fst (listed_commands n)).
Proof.
  intros W. pose proof (wfh_names n W) as ND. unfold listed_commands.
  induction (n_cmds n) as [|kc c IH]; simpl in *; [constructor|].
  inversion ND as [|? ? Hn ND']; subst.
  destruct (str_eqb (ni_name (n_info (snd kc))) (ni_helpname (n_info n))); simpl; [apply IH; exact ND'|].
  constructor; [|apply IH; exact ND'].
  intros I. apply Hn. apply in_map_iff in I as ([nm d] & E & I). simpl in E. subst nm.
  apply in_flat_map in I as (kc' & I' & H').
  destruct (str_eqb (ni_name (n_info (snd kc'))) (ni_helpname (n_info n))); [contradiction|].
  destruct H' as [H'|[]]. inversion H'; subst. apply in_map_iff. exists kc'. auto.
Qed.

Section DSim.
  Variable specs : list ospec.

  Lemma help_output_sim path r n n' :
    nsim n n' -> wfh n -> wfh n' -> help_output specs path r n = help_output specs path r n'.
  Proof.
    intros S W W'. apply help_output_order_independent; auto using wfh_keys, listed_names_nodup.
  Qed.

  Lemma up_names_sim (u u' : list level) : Forall2 lsim u u' ->
    List.map (fun l => ni_name (n_info (lv_node l))) u = List.map (fun l => ni_name (n_info (lv_node l))) u'.
  Proof. induction 1 as [|l l' ls ls' (N & _) _ IH]; simpl; [reflexivity|]. rewrite (nsim_info _ _ N), IH. reflexivity. Qed.

  Lemma Forall2_rev' {A B} (R : A -> B -> Prop) l l' : Forall2 R l l' -> Forall2 R (rev l) (rev l').
  Proof. induction 1; simpl; [constructor|]. apply Forall2_app; [assumption | constructor; [assumption | constructor]]. Qed.

  Lemma path_of_sim s s' : ssim s s' -> path_of s = path_of s'.
  Proof.
    intros (A & B & _). unfold path_of. rewrite (nsim_info _ _ A). f_equal. apply up_names_sim. apply Forall2_rev'. exact B.
  Qed.

  Lemma help_of_state_sim s s' : ssim s s' -> wfh (cur s) -> wfh (cur s') -> help_of_state specs s = help_of_state specs s'.
  Proof.
    intros H W W'. pose proof H as (A & B & _). unfold help_of_state. rewrite (path_of_sim _ _ H).
    assert (E : match up s with [] => true | _ => false end = match up s' with [] => true | _ => false end)
      by (destruct B; reflexivity).
    rewrite E. apply help_output_sim; assumption.
  Qed.


  Definition allwf (s : pst) : Prop := wfh (cur s) /\ Forall (fun l => wfh (lv_node l)) (up s).

  Theorem dispatch_order_independent root root' s s' rem :
    nsim root root' -> ssim s s' -> allwf s -> allwf s' ->
    dsim (dispatch specs root s rem) (dispatch specs root' s' rem).
  Proof.
    intros N H [Wc Wu] [Wc' Wu']. pose proof H as (A & B & T & U & E & F).
    unfold dispatch. rewrite <- (nsim_info _ _ A), <- E.
    destruct (nsim_opts _ _ N) as [P ND].
    rewrite <- (called_order_independent (store s) _ _ (ni_helpname (n_info (cur s))) P ND).
    destruct (called (store s) (n_opts root) (ni_helpname (n_info (cur s)))).
    { simpl. apply help_of_state_sim; assumption. }
    assert (RQ : required_error specs (store s) (cur s) = required_error specs (store s) (cur s')).
    { destruct A as [i o o' c c' Po NDo _ _]. apply required_error_order_independent; assumption. }
    rewrite <- RQ. destruct (required_error specs (store s) (cur s)) as [e|]; [simpl; reflexivity|].
    destruct (ni_fn (n_info (cur s))) as [|id|].
    - (* no CommandFn *)
      assert (LEN : List.length (n_cmds (cur s)) = List.length (n_cmds (cur s'))).
      { pose proof (Permutation_length (cmd_infos_perm _ _ A (wfh_keys _ Wc) (wfh_keys _ Wc'))) as X.
        unfold cmd_infos in X. rewrite !map_length in X. exact X. }
      rewrite <- LEN. destruct B as [|l l' ls ls' _ _]; simpl.
      + apply help_of_state_sim; [exact H | exact Wc | exact Wc'].
      + destruct (Nat.ltb 1 (List.length (n_cmds (cur s)))); simpl; [|reflexivity].
        apply help_of_state_sim; [exact H | exact Wc | exact Wc'].
    - (* a user function: same function, same arguments, the same view up to order *)
      simpl. split; [reflexivity|]. split; [reflexivity|].
      unfold view_of. apply flat_map_perm. destruct A; simpl; assumption.
    - (* the help command *)
      unfold run_help.
      assert (PP : List.map (fun l => ni_name (n_info (lv_node l))) (rev (up s)) =
                   List.map (fun l => ni_name (n_info (lv_node l))) (rev (up s'))).
      { apply up_names_sim. apply Forall2_rev'. exact B. }
      rewrite <- PP. destruct B as [|pl pl' ups ups' (Np & _) Bu]; [simpl; reflexivity|].
      inversion Wu as [|? ? Wp _]; subst. inversion Wu' as [|? ? Wp' _]; subst.
      assert (EU : match ups with [] => true | _ => false end = match ups' with [] => true | _ => false end)
        by (destruct Bu; reflexivity).
      destruct rem as [|a0 rest].
      + simpl. rewrite <- EU. apply help_output_sim; assumption.
      + pose proof (nsim_cmd (lv_node pl) (lv_node pl') a0 Np) as FB.
        destruct (alookup a0 (n_cmds (lv_node pl))) as [c|] eqn:LA,
                 (alookup a0 (n_cmds (lv_node pl'))) as [c'|] eqn:LA';
          try contradiction; [|simpl; reflexivity].
        apply alookup_In in LA. apply alookup_In in LA'.
        simpl. rewrite <- (nsim_info _ _ FB). apply help_output_sim;
          [exact FB | exact (wfh_child _ _ _ Wp LA) | exact (wfh_child _ _ _ Wp' LA')].
  Qed.
End DSim.

(* every state the parser reaches from a well-formed root is well formed (its current node and all
   its ancestor levels are nodes of the tree) *)
From GO Require Import Proofs.ParseLemmas.

Section AllWf.
  Variable pf : str -> option N.
  Variable md : mode.
  Variable lower : bool.
  Variable ro : bool.
  Variable specs : list ospec.

  Lemma allwf_frame a b : same_frame a b -> allwf a -> allwf b.
  Proof. intros (C & U & _) [W Wu]. unfold allwf. rewrite <- C, <- U. auto. Qed.

  Lemma head_allwf st t st' : allwf st -> head pf md lower ro specs st t = Ok st' -> allwf st'.
  Proof.
    intros W H. unfold Parse.head in H.
    destruct (str_eqb t DD); [inversion H; subst; exact W|].
    destruct (is_option md t) as [pairs is]. destruct is.
    - destruct (List.filter _ pairs).
      + apply advance_frame in H. eapply allwf_frame; eauto.
      + destruct (ro && _)%bool; [inversion H; subst; exact W|].
        destruct (ni_umode _); apply advance_frame in H; eapply allwf_frame; try exact H; exact W.
    - destruct (alookup t (n_cmds (cur st))) as [child|] eqn:E.
      + inversion H; subst. destruct W as [Wc Wu]. unfold allwf, descend. simpl. split.
        * apply alookup_In in E. eapply wfh_child; eauto.
        * constructor; [exact Wc | exact Wu].
      + destruct (ro && _)%bool; inversion H; subst; exact W.
  Qed.

  Lemma step_allwf st t st' : allwf st -> step pf md lower ro specs st t = Ok st' -> allwf st'.
  Proof.
    intros W H. unfold Parse.step in H. destruct (ph st) as [|oid key i pend tok|].
    - eapply head_allwf; eauto.
    - destruct (nth_error specs oid) as [sp|]; [|discriminate].
      destruct (try_cur pf md lower specs st _ t) as [[s1|]|] eqn:E1; try discriminate.
      + apply try_cur_frame in E1 as [F1 _]. apply settle_frame in H. eapply allwf_frame; [exact H|]. eapply allwf_frame; eauto.
      + destruct (offer pf md lower specs st tok pend t) as [[s2 b]|] eqn:E2; [|discriminate].
        apply offer_frame in E2. destruct b.
        * inversion H; subst. eapply allwf_frame; eauto.
        * eapply head_allwf; [|exact H]. eapply allwf_frame; eauto.
    - inversion H; subst. exact W.
  Qed.

  Lemma run_allwf args : forall st st', allwf st -> run pf md lower ro specs st args = Ok st' -> allwf st'.
  Proof.
    induction args as [|t r IH]; intros st st' W H; simpl in H; [inversion H; subst; exact W|].
    destruct (step pf md lower ro specs st t) as [s1|] eqn:E; [|discriminate].
    eapply IH; [eapply step_allwf; eauto | exact H].
  Qed.

  Lemma walk_allwf root st0 args st : wfh root -> walk pf md lower ro specs root st0 args = Ok st -> allwf st.
  Proof.
    intros W H. unfold walk in H.
    destruct (run pf md lower ro specs (init root st0) args) as [s1|] eqn:R; [|discriminate]. simpl in H.
    apply finish_frame in H. eapply allwf_frame; [exact H|].
    eapply run_allwf; [|exact R]. unfold allwf, init. simpl. split; [exact W | constructor].
  Qed.

  (* Parse followed by Dispatch, end to end *)
  Theorem parse_dispatch_order_independent root root' st0 args w s rem w' s' rem' :
    nsim root root' -> wfh root -> wfh root' ->
    parse pf md lower ro specs root st0 args = mkRes w (Ok (s, rem)) ->
    parse pf md lower ro specs root' st0 args = mkRes w' (Ok (s', rem')) ->
    rem = rem' /\ dsim (dispatch specs root s rem) (dispatch specs root' s' rem').
  Proof.
    intros N W W' P P'.
    pose proof (parse_order_independent pf md lower ro specs root root' st0 args N) as [_ O].
    rewrite P, P' in O. simpl in O. destruct O as [S R]. simpl in S, R. subst rem'. split; [reflexivity|].
    assert (A : allwf s /\ allwf s').
    { unfold parse in P, P'.
      destruct (walk pf md lower ro specs root st0 args) as [x|] eqn:Wk; [|inversion P].
      destruct (walk pf md lower ro specs root' st0 args) as [x'|] eqn:Wk'; [|inversion P'].
      assert (X : x = s).
      { destruct (match up x with [] => _ | _ => None end); [inversion P|].
        destruct (policy_levels (levels_of x)) as [[ww ee] rr]. destruct ee; inversion P; reflexivity. }
      assert (X' : x' = s').
      { destruct (match up x' with [] => _ | _ => None end); [inversion P'|].
        destruct (policy_levels (levels_of x')) as [[ww ee] rr]. destruct ee; inversion P'; reflexivity. }
      subst. split; [exact (walk_allwf root st0 args _ W Wk) | exact (walk_allwf root' st0 args _ W' Wk')]. }
    destruct A as [As As']. apply dispatch_order_independent; assumption.
  Qed.
End AllWf.
