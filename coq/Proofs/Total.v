(* C19 on the model: the explicitly modelled failure point (an option id outside the option table:
   the place where the Go code would dereference a missing map entry) is unreachable for
   well-formed definitions; the parser consumes exactly one token per step (no fuel anywhere). *)
From GO Require Import Base.Str Base.Utf8 Model.Tokenizer Model.Option Model.Tree Model.Parse.
From GO Require Import Proofs.ParseLemmas Proofs.Match Proofs.Labels.
Open Scope N_scope.

(* every option id in every table of the tree is below n *)
Inductive wf_node (n : nat) : node -> Prop :=
| wf_node_intro i opts cmds :
    (forall k o, In (k, o) opts -> (o < n)%nat) ->
    (forall k c, In (k, c) cmds -> wf_node n c) ->
    wf_node n (Node i opts cmds).

Lemma wf_node_opts n nd k o : wf_node n nd -> In (k, o) (n_opts nd) -> (o < n)%nat.
Proof. intros W. inversion W; subst. simpl. eauto. Qed.

Lemma wf_node_child n nd k c : wf_node n nd -> alookup k (n_cmds nd) = Some c -> wf_node n c.
Proof. intros W L. inversion W; subst. simpl in L. apply alookup_In in L. eauto. Qed.

Section Total.
  Variable pf : str -> option N.
  Variable md : mode.
  Variable lower : bool.
  Variable ro_on : bool.
  Variable specs : list ospec.

  Notation save_to := (save_to pf lower specs).
  Notation start_pair := (start_pair pf lower specs).
  Notation try_cur := (try_cur pf md lower specs).
  Notation advance := (advance pf lower specs).
  Notation settle := (settle pf lower specs).
  Notation offer := (offer pf md lower specs).
  Notation advance_eof := (advance_eof pf lower specs).
  Notation head := (head pf md lower ro_on specs).
  Notation step := (step pf md lower ro_on specs).
  Notation run := (run pf md lower ro_on specs).
  Notation finish := (finish pf lower specs).
  Notation walk := (walk pf md lower ro_on specs).

  Definition wf_st (st : pst) : Prop :=
    length (store st) = length specs /\ wf_node (length specs) (cur st) /\
    match ph st with PPend oid _ _ _ _ => (oid < length specs)%nat | _ => True end.

  Definition not_internal (e : err) : Prop := e_kind e <> EUser.

  Definition good {A} (P : A -> Prop) (r : result A) : Prop :=
    match r with Ok a => P a | Err e => not_internal e end.

  Lemma save_not_internal sp os a e : save pf lower sp os a = Err e -> not_internal e.
  Proof.
    unfold save, not_internal. intros H.
    assert (CI : forall u l e, conv_ints u l = Err e -> e_kind e = EConvInt).
    { intros u l. induction l as [|x l IH]; intros e0 E; simpl in E; [discriminate|].
      destruct (split_dotdot x) as [[n1 n2]|].
      - destruct (atoi n1), (atoi n2); simpl in E; try (inv E; reflexivity).
        destruct (Z.ltb z z0); simpl in E; [|inv E; reflexivity].
        destruct (conv_ints u l); simpl in E; [discriminate|]. inv E. eauto.
      - destruct (atoi x); simpl in E; [|inv E; reflexivity].
        destruct (conv_ints u l); simpl in E; [discriminate|]. inv E. eauto. }
    assert (CF : forall u l e, conv_floats pf u l = Err e -> e_kind e = EConvFloat).
    { intros u l. induction l as [|x l IH]; intros e0 E; simpl in E; [discriminate|].
      destruct (pf x); [|inv E; reflexivity].
      destruct (conv_floats pf u l); simpl in E; [discriminate|]. inv E. eauto. }
    assert (SM : forall u l m m' e, save_map lower u m l = (m', Some e) -> e_kind e = ENotKeyValue).
    { intros u l. induction l as [|x l IH]; intros m m' e0 E; simpl in E; [discriminate|].
      destruct (split_first 61 x) as [[k v]|]; [eauto|]. inv E. reflexivity. }
    destruct a as [|a0 a'].
    - destruct (os_kind sp), (o_val os); discriminate.
    - destruct (negb (valid_ok sp (a0 :: a'))); [inv H; simpl; discriminate|].
      destruct (os_kind sp), (o_val os); try discriminate;
        repeat (match type of H with
                | context [match ?x with _ => _ end] => destruct x eqn:?
                | context [if ?x then _ else _] => destruct x eqn:?
                end; try discriminate);
        try (inv H; simpl; discriminate).
      + destruct (conv_ints (o_used os) (a0 :: a')) eqn:E; simpl in H; [discriminate|]. inv H.
        rewrite (CI _ _ _ E). discriminate.
      + destruct (conv_floats pf (o_used os) (a0 :: a')) eqn:E; simpl in H; [discriminate|]. inv H.
        rewrite (CF _ _ _ E). discriminate.
      + destruct (save_map lower (o_used os) m (a0 :: a')) as [m' [e'|]] eqn:E; [|discriminate].
        pose proof (SM _ _ _ _ _ E) as K. assert (e = e') by congruence. subst e. rewrite K. discriminate.
  Qed.

  Lemma save_to_good st oid a :
    wf_st st -> (oid < length specs)%nat -> good wf_st (save_to st oid a).
  Proof.
    intros (L & W & P) Ho. unfold Parse.save_to.
    destruct (nth_error specs oid) as [sp|] eqn:S; [|apply nth_error_None in S; lia].
    destruct (nth_error (store st) oid) as [os|] eqn:O; [|apply nth_error_None in O; lia].
    destruct (save pf lower sp os a) as [os'|e] eqn:E; simpl.
    - unfold wf_st. simpl. rewrite update_nth_length. auto.
    - eapply save_not_internal; eauto.
  Qed.

  Lemma matches_oid tbl e k o : In (k, o) (matches tbl e) -> In (k, o) tbl.
  Proof. intros I. apply matches_sub in I. tauto. Qed.

  Definition wf_cursor (c : cursor) : Prop := let '(oid, _, _, _, _) := c in (oid < length specs)%nat.

  Lemma start_pair_good st tok p :
    wf_st st ->
    good (fun r => match r with Some (s, c) => wf_st s /\ ph s = ph st /\ wf_cursor c | None => True end) (start_pair st tok p).
  Proof.
    intros (L & W & P). unfold Parse.start_pair.
    destruct (matches (n_opts (cur st)) (p_name p)) as [|[k o] [|kv2 r]] eqn:M; simpl; auto.
    - assert (Ho : (o < length specs)%nat).
      { eapply wf_node_opts; [exact W|]. eapply matches_oid. rewrite M. left; reflexivity. }
      destruct (nth_error specs o) as [sp|] eqn:S; [|apply nth_error_None in S; lia].
      destruct (nth_error (store st) o) as [os|] eqn:O; [|apply nth_error_None in O; lia].
      destruct (save pf lower sp (mkState (o_val os) true k) (p_args p)) as [os2|e] eqn:E; simpl.
      + unfold wf_st. simpl. rewrite update_nth_length. auto.
      + eapply save_not_internal; eauto.
    - unfold not_internal. simpl. discriminate.
  Qed.

  Lemma try_cur_good st c t :
    wf_st st -> wf_cursor c ->
    good (fun r => match r with Some s => wf_st s /\ ph s = ph st | None => True end) (try_cur st c t).
  Proof.
    intros W Wc. unfold Parse.try_cur. destruct c as [[[[oid key] i] mn] mx]. simpl in Wc.
    destruct (Nat.ltb i mn).
    - destruct (looks_like_option md t); [unfold good, not_internal; simpl; discriminate|].
      pose proof (save_to_good st oid [t] W Wc) as G.
      destruct (save_to st oid [t]) as [s|e] eqn:E; simpl in *; auto.
      split; [exact G|]. apply save_to_frame in E. tauto.
    - destruct (Nat.ltb i mx); [|exact I].
      destruct (stops pf md specs oid t); [exact I|].
      pose proof (save_to_good st oid [t] W Wc) as G.
      destruct (save_to st oid [t]) as [s|e] eqn:E; simpl in *; auto.
      split; [exact G|]. apply save_to_frame in E. tauto.
  Qed.

  Lemma wf_set_ph st p : wf_st st -> match p with PPend oid _ _ _ _ => (oid < length specs)%nat | _ => True end -> wf_st (set_ph st p).
  Proof. intros (L & W & _) H. unfold wf_st. simpl. auto. Qed.

  Lemma advance_good tok pend : forall st, wf_st st -> good wf_st (advance st tok pend).
  Proof.
    induction pend as [|p pend IH]; intros st W; simpl.
    - apply wf_set_ph; [exact W | exact I].
    - pose proof (start_pair_good st tok p W) as G.
      destruct (start_pair st tok p) as [[[s c]|]|e]; simpl in G; auto.
      destruct G as (Ws & _ & Wc). destruct (wants c); [|auto].
      destruct c as [[[[oid key] i] mn] mx]. simpl. apply wf_set_ph; [exact Ws|]. unfold mk_pend. exact Wc.
  Qed.

  Lemma settle_good st c pend tok : wf_st st -> wf_cursor c -> good wf_st (settle st c pend tok).
  Proof.
    intros W Wc. unfold Parse.settle. destruct (wants c); [|apply advance_good; exact W].
    destruct c as [[[[oid key] i] mn] mx]. simpl. apply wf_set_ph; [exact W|]. unfold mk_pend. exact Wc.
  Qed.

  Lemma wf_cursor_bump c : wf_cursor c -> wf_cursor (bump c).
  Proof. destruct c as [[[[oid key] i] mn] mx]. auto. Qed.

  Lemma offer_good tok t pend : forall st, wf_st st -> good (fun r => wf_st (fst r)) (offer st tok pend t).
  Proof.
    induction pend as [|p pend IH]; intros st W; simpl.
    - apply wf_set_ph; [exact W | exact I].
    - pose proof (start_pair_good st tok p W) as G.
      destruct (start_pair st tok p) as [[[s c]|]|e]; simpl in G; auto.
      destruct G as (Ws & _ & Wc).
      pose proof (try_cur_good s c t Ws Wc) as G2.
      destruct (try_cur s c t) as [[s2|]|e]; simpl in G2; auto.
      destruct G2 as [W2 _].
      pose proof (settle_good s2 (bump c) pend tok W2 (wf_cursor_bump c Wc)) as G3.
      destruct (settle s2 (bump c) pend tok); simpl in *; auto.
  Qed.

  Lemma advance_eof_good tok pend : forall st, wf_st st -> good wf_st (advance_eof st tok pend).
  Proof.
    induction pend as [|p pend IH]; intros st W; simpl.
    - apply wf_set_ph; [exact W | exact I].
    - pose proof (start_pair_good st tok p W) as G.
      destruct (start_pair st tok p) as [[[s c]|]|e]; simpl in G; auto.
      destruct G as (Ws & _ & Wc). destruct c as [[[[oid key] i] mn] mx].
      destruct (Nat.ltb i mn); [unfold good, not_internal; simpl; discriminate | auto].
  Qed.

  Lemma wf_add_text st l : wf_st st -> wf_st (add_text st l).
  Proof. intros W. exact W. Qed.
  Lemma wf_add_unk st l : wf_st st -> wf_st (add_unk st l).
  Proof. intros W. exact W. Qed.

  Lemma head_good st t : wf_st st -> good wf_st (head st t).
  Proof.
    intros W. unfold Parse.head.
    destruct (str_eqb t DD); [apply wf_set_ph; [exact W | exact I]|].
    destruct (is_option md t) as [pairs is]. destruct is.
    - destruct (List.filter _ pairs).
      + apply advance_good; exact W.
      + destruct (ro_on && _)%bool; [apply wf_set_ph; [exact W | exact I]|].
        destruct (ni_umode _); apply advance_good; exact W.
    - destruct (alookup t (n_cmds (cur st))) as [child|] eqn:E.
      + destruct W as (L & Wn & _). unfold good, wf_st, descend. simpl. repeat split; auto.
        eapply wf_node_child; eauto.
      + destruct (ro_on && _)%bool; [apply wf_set_ph; [exact W | exact I] | exact W].
  Qed.

  Lemma step_good st t : wf_st st -> good wf_st (step st t).
  Proof.
    intros W. unfold Parse.step. destruct (ph st) as [|oid key i pend tok|] eqn:P.
    - apply head_good; exact W.
    - assert (Ho : (oid < length specs)%nat) by (destruct W as (_ & _ & H); rewrite P in H; exact H).
      destruct (nth_error specs oid) as [sp|] eqn:S; [|apply nth_error_None in S; lia].
      pose proof (try_cur_good st (oid, key, i, os_min sp, os_max sp) t W Ho) as G.
      destruct (try_cur st _ t) as [[s1|]|e]; simpl in G; auto.
      + destruct G as [W1 _]. apply (settle_good s1 (bump (oid, key, i, os_min sp, os_max sp)) pend tok W1). exact Ho.
      + pose proof (offer_good tok t pend st W) as G2.
        destruct (offer st tok pend t) as [[s2 b]|e]; simpl in G2; auto.
        destruct b; [exact G2 | apply head_good; exact G2].
    - exact W.
  Qed.

  Lemma run_good args : forall st, wf_st st -> good wf_st (run st args).
  Proof.
    induction args as [|t r IH]; intros st W; simpl; [exact W|].
    pose proof (step_good st t W) as G. destruct (step st t); simpl in G; auto.
  Qed.

  Lemma finish_good st : wf_st st -> good wf_st (finish st).
  Proof.
    intros W. unfold Parse.finish. destruct (ph st) as [|oid key i pend tok|] eqn:P; try exact W.
    assert (Ho : (oid < length specs)%nat) by (destruct W as (_ & _ & H); rewrite P in H; exact H).
    destruct (nth_error specs oid) as [sp|] eqn:S; [|apply nth_error_None in S; lia].
    destruct (Nat.ltb i (os_min sp)); [unfold good, not_internal; simpl; discriminate|].
    apply advance_eof_good; exact W.
  Qed.

  (* C19: for a well-formed definition (every table entry points into the option table, one store
     entry per option) no argument vector reaches the modelled failure point *)
  Theorem walk_never_internal root st0 args :
    length st0 = length specs -> wf_node (length specs) root ->
    good wf_st (walk root st0 args).
  Proof.
    intros L W. unfold Parse.walk.
    assert (W0 : wf_st (init root st0)) by (unfold wf_st; simpl; auto).
    pose proof (run_good args (init root st0) W0) as G.
    destruct (run (init root st0) args) as [s|e]; simpl in *; [apply finish_good; exact G | exact G].
  Qed.

  (* one token per step: the walk over n tokens makes exactly n steps (structural recursion, no
     fuel: this is the model-side "no hang") *)
  Theorem run_steps_once args : forall st st', run st args = Ok st' ->
    length (labels pf md lower ro_on specs st args) = length args.
  Proof. intros st st' H. eapply run_text in H. destruct H as [_ H]. exact H. Qed.
End Total.
