(* Single-dash modes (C07): mode independence of long options, and the documented rewritings. *)
From GO Require Import Base.Str Base.Utf8 Model.Tokenizer Model.Option Model.Tree Model.Parse.
From GO Require Import Proofs.TokLemmas Proofs.ParseLemmas Proofs.Match.
Open Scope N_scope.

Lemma set_ph_same st p : ph st = p -> set_ph st p = st.
Proof. intros <-. destruct st; reflexivity. Qed.

Section Modes.
  Variable pf : str -> option N.
  Variable lower : bool.
  Variable ro_on : bool.
  Variable specs : list ospec.

  Notation start_pair := (start_pair pf lower specs).
  Notation advance := (advance pf lower specs).

  (* ---- the parser looks at the mode only through the splitter applied to the current token ---- *)

  Lemma try_cur_md md1 md2 st c t :
    is_option md1 t = is_option md2 t ->
    try_cur pf md1 lower specs st c t = try_cur pf md2 lower specs st c t.
  Proof.
    intros H. unfold Parse.try_cur, stops, looks_like_option. rewrite H. reflexivity.
  Qed.

  Lemma offer_md md1 md2 tok t pend :
    is_option md1 t = is_option md2 t ->
    forall st, offer pf md1 lower specs st tok pend t = offer pf md2 lower specs st tok pend t.
  Proof.
    intros H. induction pend as [|p pend IH]; intros st; simpl; [reflexivity|].
    destruct (start_pair st tok p) as [[[s c]|]|]; auto.
    rewrite (try_cur_md md1 md2 s c t H).
    destruct (try_cur pf md2 lower specs s c t) as [[s2|]|]; auto.
  Qed.

  Lemma head_md md1 md2 st t :
    is_option md1 t = is_option md2 t ->
    head pf md1 lower ro_on specs st t = head pf md2 lower ro_on specs st t.
  Proof. intros H. unfold Parse.head. rewrite H. reflexivity. Qed.

  Lemma step_md md1 md2 st t :
    is_option md1 t = is_option md2 t ->
    step pf md1 lower ro_on specs st t = step pf md2 lower ro_on specs st t.
  Proof.
    intros H. unfold Parse.step. destruct (ph st) as [|oid key i pend tok|]; [apply head_md; exact H | | reflexivity].
    destruct (nth_error specs oid) as [sp|]; [|reflexivity].
    rewrite (try_cur_md md1 md2 st _ t H).
    destruct (try_cur pf md2 lower specs st _ t) as [[s1|]|]; try reflexivity.
    rewrite (offer_md md1 md2 tok t pend H st).
    destruct (offer pf md2 lower specs st tok pend t) as [[s2 b]|]; [|reflexivity].
    destruct b; [reflexivity|]. apply head_md; exact H.
  Qed.

  Lemma run_md md1 md2 args : Forall (fun t => is_option md1 t = is_option md2 t) args ->
    forall st, run pf md1 lower ro_on specs st args = run pf md2 lower ro_on specs st args.
  Proof.
    induction 1 as [|t r Ht _ IH]; intros st; simpl; [reflexivity|].
    rewrite (step_md md1 md2 st t Ht).
    destruct (step pf md2 lower ro_on specs st t); auto.
  Qed.

  (* a token that is not a single-dash token: starts with two dashes, or does not start with a dash,
     or is the lone dash *)
  Definition not_single_dash (t : str) : Prop :=
    (exists r, t = DASH :: DASH :: r) \/ (forall r, t <> DASH :: r) \/ t = [DASH].

  Lemma not_single_dash_mode_indep md1 md2 t : not_single_dash t -> is_option md1 t = is_option md2 t.
  Proof.
    intros [[r ->]|[H| ->]].
    - apply is_option_dd_mode_indep.
    - rewrite !is_option_no_dash by exact H. reflexivity.
    - reflexivity.
  Qed.

  (* C07, first sentence: command lines without single-dash tokens are parsed identically in the
     three modes (the whole result: values, Called, remaining, error, warnings) *)
  Theorem long_mode_independent md1 md2 root st0 args :
    Forall not_single_dash args ->
    parse pf md1 lower ro_on specs root st0 args = parse pf md2 lower ro_on specs root st0 args.
  Proof.
    intros H. unfold Parse.parse, Parse.walk.
    rewrite (run_md md1 md2 args); [reflexivity|].
    eapply Forall_impl; [|exact H]. intros t. apply not_single_dash_mode_indep.
  Qed.

  Section OneMode.
    Variable md : mode.
    Notation head := (head pf md lower ro_on specs).
    Notation step := (step pf md lower ro_on specs).
    Notation run := (run pf md lower ro_on specs).
    Notation try_cur := (try_cur pf md lower specs).
    Notation offer := (offer pf md lower specs).

    (* two option tokens that split into the same single pair, which resolves to one table entry,
       are processed identically in every state *)
    Lemma head_same_pair st t1 t2 p k oid :
      t1 <> DD -> t2 <> DD ->
      is_option md t1 = ([p], true) -> is_option md t2 = ([p], true) ->
      matches (n_opts (cur st)) (p_name p) = [(k, oid)] ->
      head st t1 = head st t2.
    Proof.
      intros D1 D2 I1 I2 M. unfold Parse.head.
      apply str_eqb_neq in D1, D2. rewrite D1, D2, I1, I2. simpl List.filter.
      destruct p as [n a]. simpl in M. rewrite (is_unknown_matches _ _ _ _ _ M).
      apply advance_single. eapply start_pair_same_match; eassumption.
    Qed.

    Lemma try_cur_option_looking st c t1 t2 :
      looks_like_option md t1 = true -> looks_like_option md t2 = true ->
      try_cur st c t1 = try_cur st c t2.
    Proof.
      intros L1 L2. unfold Parse.try_cur, stops. destruct c as [[[[oid key] i] mn] mx].
      rewrite L1, L2. simpl. reflexivity.
    Qed.

    Lemma offer_option_looking tok t1 t2 pend :
      looks_like_option md t1 = true -> looks_like_option md t2 = true ->
      forall st,
        match offer st tok pend t1, offer st tok pend t2 with
        | Ok (s1, b1), Ok (s2, b2) => s1 = s2 /\ b1 = false /\ b2 = false
        | Err e1, Err e2 => e1 = e2
        | _, _ => False
        end.
    Proof.
      intros L1 L2. induction pend as [|p pend IH]; intros st; simpl; [auto|].
      destruct (start_pair st tok p) as [[[s c]|]|]; [|apply IH|reflexivity].
      rewrite (try_cur_option_looking s c t1 t2 L1 L2).
      destruct (try_cur s c t2) as [[s2|]|] eqn:E; [|apply IH|reflexivity].
      (* an option-looking token is never taken *)
      exfalso. unfold Parse.try_cur, stops in E. destruct c as [[[[oid key] i] mn] mx].
      rewrite L2 in E. simpl in E. destruct (Nat.ltb i mn); [discriminate|].
      destruct (Nat.ltb i mx); discriminate.
    Qed.

    Theorem step_same_pair st t1 t2 p k oid :
      ph st <> PTail -> t1 <> DD -> t2 <> DD ->
      is_option md t1 = ([p], true) -> is_option md t2 = ([p], true) ->
      matches (n_opts (cur st)) (p_name p) = [(k, oid)] ->
      step st t1 = step st t2.
    Proof.
      intros NT D1 D2 I1 I2 M.
      assert (L1 : looks_like_option md t1 = true) by (unfold looks_like_option; rewrite I1; reflexivity).
      assert (L2 : looks_like_option md t2 = true) by (unfold looks_like_option; rewrite I2; reflexivity).
      unfold Parse.step. destruct (ph st) as [|o key i pend tok|] eqn:P.
      - eapply head_same_pair; eauto.
      - destruct (nth_error specs o) as [sp|]; [|reflexivity].
        rewrite (try_cur_option_looking st _ t1 t2 L1 L2).
        destruct (try_cur st _ t2) as [[s1|]|]; try reflexivity.
        pose proof (offer_option_looking tok t1 t2 pend L1 L2 st) as O.
        destruct (offer st tok pend t1) as [[s1 b1]|e1] eqn:O1; destruct (offer st tok pend t2) as [[s2 b2]|e2] eqn:O2;
          try contradiction.
        + destruct O as (-> & -> & ->).
          assert (F : cur s2 = cur st) by (apply offer_frame in O2 as [F _]; congruence).
          eapply head_same_pair; eauto. rewrite F. exact M.
        + subst. reflexivity.
      - congruence.
    Qed.

    (* ---- Bundling: a bundle of flags followed by one more option ---- *)

    (* the pair resolves to a declared flag-like option (takes no following tokens) *)
    Definition resolved_flag (tbl : list (str * nat)) (p : pair) : Prop :=
      exists k oid sp, matches tbl (p_name p) = [(k, oid)] /\ nth_error specs oid = Some sp /\
                       (length (p_args p) >= os_min sp)%nat /\ (length (p_args p) >= os_max sp)%nat.

    Definition resolved (tbl : list (str * nat)) (p : pair) : Prop :=
      exists k oid, matches tbl (p_name p) = [(k, oid)].

    Lemma is_unknown_resolved tbl p : resolved tbl p -> is_unknown tbl p = false.
    Proof. intros (k & oid & M). unfold is_unknown. rewrite M. reflexivity. Qed.

    Lemma start_pair_tok_irrelevant st tok1 tok2 p :
      resolved (n_opts (cur st)) p -> start_pair st tok1 p = start_pair st tok2 p.
    Proof. intros (k & oid & M). unfold Parse.start_pair. rewrite M. reflexivity. Qed.

    Lemma advance_tok_irrelevant tok1 tok2 pend : forall st,
      Forall (resolved (n_opts (cur st))) pend ->
      (* the token text only survives in the state while pairs are pending *)
      match advance st tok1 pend, advance st tok2 pend with
      | Ok s1, Ok s2 => same_frame s1 s2 /\ store s1 = store s2 /\
                        match ph s1, ph s2 with
                        | PPend o1 k1 i1 pd1 _, PPend o2 k2 i2 pd2 _ => o1 = o2 /\ k1 = k2 /\ i1 = i2 /\ pd1 = pd2
                        | PHead, PHead => True
                        | _, _ => False
                        end
      | Err e1, Err e2 => e1 = e2
      | _, _ => False
      end.
    Proof.
      induction pend as [|p pend IH]; intros st F; simpl.
      - repeat split; auto with frame.
      - inversion F as [|? ? Rp Rest]; subst.
        rewrite (start_pair_tok_irrelevant st tok1 tok2 p Rp).
        destruct (start_pair st tok2 p) as [[[s c]|]|] eqn:E; [| apply IH; exact Rest | reflexivity].
        pose proof E as E'. apply start_pair_frame in E' as [[Fc _] _].
        destruct (wants c).
        + destruct c as [[[[oid key] i] mn] mx]. simpl. repeat split; auto.
        + apply IH. rewrite <- Fc. exact Rest.
    Qed.

    Lemma start_pair_flag st tok p :
      resolved_flag (n_opts (cur st)) p ->
      match start_pair st tok p with
      | Ok (Some (s, c)) => wants c = false
      | Ok None => False
      | Err _ => True
      end.
    Proof.
      intros (k & oid & sp & M & Sp & Mn & Mx). unfold Parse.start_pair. rewrite M, Sp.
      destruct (nth_error (store st) oid) as [os|]; [|exact I].
      destruct (save pf lower sp _ (p_args p)); simpl; [|exact I].
      unfold wants. apply Bool.orb_false_iff. split; apply Nat.ltb_ge; assumption.
    Qed.

    (* C07, Bundling: -xyz[=v] with x, y declared flags and z any declared option is processed
       exactly like -x -y -z[=v]: same successor state, same error.  Stated on the pairs the
       splitter yields (is_option_bundling gives them for the token text). *)
    Theorem bundle_split : forall ps st T ts pz tz,
      ph st = PHead -> T <> DD -> tz <> DD ->
      is_option md T = (ps ++ [pz], true) ->
      Forall2 (fun p t => t <> DD /\ is_option md t = ([p], true)) ps ts ->
      is_option md tz = ([pz], true) ->
      Forall (resolved_flag (n_opts (cur st))) ps -> resolved (n_opts (cur st)) pz ->
      run st [T] = run st (ts ++ [tz]).
    Proof.
      assert (Gen : forall ps st tokA ts pz tz,
        ph st = PHead -> tz <> DD ->
        Forall2 (fun p t => t <> DD /\ is_option md t = ([p], true)) ps ts ->
        is_option md tz = ([pz], true) ->
        Forall (resolved_flag (n_opts (cur st))) ps -> resolved (n_opts (cur st)) pz ->
        match advance st tokA (ps ++ [pz]) with Ok s => Ok s | Err e => Err e end = run st (ts ++ [tz])).
      { induction ps as [|p ps IH]; intros st tokA ts pz tz P Dz F2 Iz Fl Rz.
        - inversion F2; subst. simpl app.
          change (run st [tz]) with (match step st tz with Ok s => Ok s | Err e => Err e end).
          unfold Parse.step. rewrite P. unfold Parse.head. apply str_eqb_neq in Dz. rewrite Dz, Iz.
          simpl List.filter. rewrite (is_unknown_resolved _ _ Rz).
          pose proof (advance_tok_irrelevant tokA tz [pz] st (Forall_cons _ Rz (Forall_nil _))) as A.
          simpl in A |- *. rewrite (start_pair_tok_irrelevant st tokA tz pz Rz) in *.
          destruct (start_pair st tz pz) as [[[s c]|]|]; reflexivity.
        - inversion F2 as [|? t ? ts' [Dt It] F2']; subst. inversion Fl as [|? ? Fp Fl']; subst.
          simpl app. simpl advance.
          change (run st (t :: ts' ++ [tz])) with
            (match step st t with Ok s => run s (ts' ++ [tz]) | Err e => Err e end).
          unfold Parse.step. rewrite P. unfold Parse.head. apply str_eqb_neq in Dt. rewrite Dt, It.
          simpl List.filter.
          assert (Rp : resolved (n_opts (cur st)) p).
          { destruct Fp as (k & oid & sp & M & _). exists k, oid. exact M. }
          rewrite (is_unknown_resolved _ _ Rp). simpl advance.
          rewrite (start_pair_tok_irrelevant st tokA t p Rp).
          pose proof (start_pair_flag st t p Fp) as W.
          destruct (start_pair st t p) as [[[s c]|]|] eqn:E; [|contradiction|reflexivity].
          rewrite W. pose proof E as E'. apply start_pair_frame in E' as [[Fc _] Ps].
          rewrite (set_ph_same s PHead) by congruence.
          apply IH; try assumption; try congruence; rewrite <- Fc; assumption. }
      intros ps st T ts pz tz P DT Dz IT F2 Iz Fl Rz.
      change (run st [T]) with (match step st T with Ok s => Ok s | Err e => Err e end).
      unfold Parse.step. rewrite P. unfold Parse.head. apply str_eqb_neq in DT. rewrite DT, IT.
      assert (U : List.filter (is_unknown (n_opts (cur st))) (ps ++ [pz]) = []).
      { rewrite filter_app. simpl. rewrite (is_unknown_resolved _ _ Rz), app_nil_r.
        clear -Fl. induction Fl as [|p ps Fp _ IH]; simpl; [reflexivity|].
        assert (Rp : resolved (n_opts (cur st)) p).
        { destruct Fp as (k & oid & sp & M & _). exists k, oid. exact M. }
        rewrite (is_unknown_resolved _ _ Rp). exact IH. }
      rewrite U. apply Gen; assumption.
    Qed.
  End OneMode.

  (* ---- Normal and SingleDash rewritings, at token level ---- *)

  Lemma contains_firstn c n s : contains_byte c s = false -> contains_byte c (firstn n s) = false.
  Proof.
    revert n; induction s as [|x s IH]; intros [|n] H; simpl in *; auto.
    apply Bool.orb_false_iff in H as [H1 H2]. rewrite H1. simpl. auto.
  Qed.

  (* Normal: -name[=v] is --name[=v] *)
  Theorem normal_rewriting st name e k oid :
    ph st <> PTail ->
    name <> [] -> no_dash_start name -> contains_byte EQ name = false -> starts_with_eq_or_empty e ->
    matches (n_opts (cur st)) name = [(k, oid)] ->
    step pf Normal lower ro_on specs st (DASH :: name ++ e) =
    step pf Normal lower ro_on specs st (DASH :: DASH :: name ++ e).
  Proof.
    intros NT N Nd C He M.
    apply (step_same_pair Normal st _ _ (mkPair name (attached e)) k oid NT).
    - intros E. injection E as E. destruct name as [|x name]; [congruence|].
      injection E as E1 E2. eapply Nd. rewrite E1. reflexivity.
    - destruct name; [congruence | discriminate].
    - rewrite (is_option_normal_single name e N Nd C He). apply is_option_long; assumption.
    - apply is_option_long; assumption.
    - exact M.
  Qed.

  (* SingleDash: -xREST is --x=REST, -x is --x (x the first letter) *)
  Theorem singledash_rewriting st name e k oid :
    ph st <> PTail ->
    name <> [] -> no_dash_start name -> contains_byte EQ name = false -> starts_with_eq_or_empty e ->
    let n := first_rune_len name in
    let x := firstn n name in
    let rest := skipn n name ++ e in
    matches (n_opts (cur st)) x = [(k, oid)] ->
    step pf SingleDash lower ro_on specs st (DASH :: name ++ e) =
    step pf SingleDash lower ro_on specs st
         (DASH :: DASH :: x ++ match rest with [] => [] | _ => EQ :: rest end).
  Proof.
    intros NT N Nd C He n x rest M.
    assert (Xn : x <> []).
    { unfold x, n. pose proof (first_rune_len_pos name N). destruct name; [congruence|].
      destruct (first_rune_len (n0 :: name)); [lia | discriminate]. }
    assert (Xc : contains_byte EQ x = false) by (apply contains_firstn; exact C).
    assert (T1 : DASH :: name ++ e <> DD).
    { intros E. injection E as E. destruct name as [|y name]; [congruence|].
      injection E as E1 E2. eapply Nd. rewrite E1. reflexivity. }
    assert (T2 : forall r, DASH :: DASH :: x ++ r <> DD) by (intros r; destruct x; [congruence | discriminate]).
    pose proof (is_option_singledash name e N Nd C He) as I1. cbv zeta in I1.
    fold n in I1. fold x in I1.
    subst rest. destruct (skipn n name ++ e) as [|r0 rest'] eqn:R.
    - (* no value *)
      apply app_eq_nil in R as [S0 E0]. subst e. rewrite S0 in I1.
      apply (step_same_pair SingleDash st _ _ (mkPair x []) k oid NT T1 (T2 [])); [exact I1 | | exact M].
      assert (He0 : starts_with_eq_or_empty []) by (left; reflexivity).
      pose proof (is_option_long SingleDash x [] Xn Xc He0) as L. exact L.
    - assert (I1' : is_option SingleDash (DASH :: name ++ e) = ([mkPair x [r0 :: rest']], true)).
      { rewrite I1. destruct (skipn n name) as [|s0 sk]; destruct e as [|e0 e']; simpl in R |- *;
          try discriminate; rewrite ?app_nil_r in *; simpl in *; rewrite ?R; reflexivity. }
      apply (step_same_pair SingleDash st _ _ (mkPair x [r0 :: rest']) k oid NT T1 (T2 _)); [exact I1' | | exact M].
      assert (He1 : starts_with_eq_or_empty (EQ :: r0 :: rest')) by (right; eauto).
      pose proof (is_option_long SingleDash x (EQ :: r0 :: rest') Xn Xc He1) as L.
      rewrite L. unfold attached. rewrite N.eqb_refl. reflexivity.
  Qed.
End Modes.
