(* Every graph the construction API builds records each edge on both ends: the hypothesis of the
   invariant theorems (DagInv.SYM) holds for build_graph of every operation list. *)
From GO Require Import Base.Str Base.Utf8 Base.Sort Model.Tree Model.Dag.
Open Scope N_scope.

Definition lk (vs : list (vid * vertex)) (k : vid) : vertex :=
  match alookup k vs with Some v => v | None => vertex0 end.

Definition Sym (vs : list (vid * vertex)) : Prop :=
  forall p c, In c (v_children (lk vs p)) <-> In p (v_parents (lk vs c)).

Lemma lk_vset_same k v l : lk (vset k v l) k = v.
Proof.
  unfold lk. induction l as [|[k' v'] l IH]; simpl.
  - rewrite str_eqb_refl. reflexivity.
  - destruct (str_eqb k k') eqn:E; simpl; rewrite ?str_eqb_refl, ?E; auto.
Qed.

Lemma lk_vset_other k k' v l : k' <> k -> lk (vset k v l) k' = lk l k'.
Proof.
  unfold lk. intros H. induction l as [|[k2 v2] l IH]; simpl.
  - apply str_eqb_neq in H. rewrite H. reflexivity.
  - destruct (str_eqb_spec k k2) as [->|N]; simpl.
    + apply str_eqb_neq in H. rewrite H. reflexivity.
    + destruct (str_eqb k' k2); auto.
Qed.

Lemma lk_app_new id l k : alookup id l = None -> lk (l ++ [(id, vertex0)]) k = lk l k.
Proof.
  unfold lk. intros H. induction l as [|[k2 v2] l IH]; simpl in *.
  - destruct (str_eqb_spec k id); reflexivity.
  - destruct (str_eqb_spec id k2) as [->|N]; [discriminate|].
    destruct (str_eqb k k2); auto.
Qed.

Lemma sym_ext vs vs' :
  (forall k, v_children (lk vs' k) = v_children (lk vs k) /\ v_parents (lk vs' k) = v_parents (lk vs k)) ->
  Sym vs -> Sym vs'.
Proof.
  intros E HS p c. destruct (E p) as [-> _]. destruct (E c) as [_ ->]. apply HS.
Qed.

Lemma sym_empty : Sym [].
Proof. intros p c. unfold lk. simpl. tauto. Qed.

Lemma sym_add_task g t g' : Sym (g_vs g) -> add_task g t = inl g' -> Sym (g_vs g').
Proof.
  intros HS H. unfold add_task in H.
  destruct t as [[id hasfn]|]; [|discriminate].
  destruct id as [|i0 id']; [discriminate|].
  destruct (negb hasfn); [discriminate|].
  destruct (alookup (i0 :: id') (g_vs g)) eqn:A; inversion H; subst; clear H; [exact HS|].
  simpl. eapply sym_ext; [|exact HS]. intros k. rewrite lk_app_new by exact A. auto.
Qed.

Lemma sym_retrieve g t g' id : Sym (g_vs g) -> retrieve_or_add g t = inl (g', id) -> Sym (g_vs g').
Proof.
  intros HS H. unfold retrieve_or_add in H.
  destruct t as [[i hasfn]|]; [|discriminate].
  destruct (alookup i (g_vs g)); [inversion H; subst; exact HS|].
  destruct (add_task g (Some (i, hasfn))) as [g1|e] eqn:A; [|discriminate].
  inversion H; subst. eapply sym_add_task; eauto.
Qed.

Lemma sym_retries vs id n : Sym vs ->
  Sym (vset id (mkVertex (v_children (lk vs id)) (v_parents (lk vs id)) n) vs).
Proof.
  apply sym_ext. intros k. destruct (str_eqb_spec k id) as [->|N].
  - rewrite lk_vset_same. auto.
  - rewrite lk_vset_other by exact N. auto.
Qed.

(* the two updates of TaskDependsOn *)
Lemma sym_edge vs id did : Sym vs ->
  let v := lk vs id in
  let vs1 := vset id (mkVertex (v_children v ++ [did]) (v_parents v) (v_retries v)) vs in
  let dv := lk vs1 did in
  Sym (vset did (mkVertex (v_children dv) (v_parents dv ++ [id]) (v_retries dv)) vs1).
Proof.
  intros HS v vs1 dv.
  assert (C : forall p, v_children (lk (vset did (mkVertex (v_children dv) (v_parents dv ++ [id]) (v_retries dv)) vs1) p) =
                        if str_eqb p id then v_children (lk vs p) ++ [did] else v_children (lk vs p)).
  { intros p. destruct (str_eqb_spec p did) as [->|Nd].
    - rewrite lk_vset_same. simpl. unfold dv, vs1.
      destruct (str_eqb_spec did id) as [->|Ni].
      + rewrite lk_vset_same. reflexivity.
      + rewrite lk_vset_other by exact Ni. reflexivity.
    - rewrite lk_vset_other by exact Nd. unfold vs1.
      destruct (str_eqb_spec p id) as [->|Ni].
      + rewrite lk_vset_same. reflexivity.
      + rewrite lk_vset_other by exact Ni. reflexivity. }
  assert (P : forall c, v_parents (lk (vset did (mkVertex (v_children dv) (v_parents dv ++ [id]) (v_retries dv)) vs1) c) =
                        if str_eqb c did then v_parents (lk vs c) ++ [id] else v_parents (lk vs c)).
  { intros c. destruct (str_eqb_spec c did) as [->|Nd].
    - rewrite lk_vset_same. simpl. unfold dv, vs1.
      destruct (str_eqb_spec did id) as [->|Ni].
      + rewrite lk_vset_same. reflexivity.
      + rewrite lk_vset_other by exact Ni. reflexivity.
    - rewrite lk_vset_other by exact Nd. unfold vs1.
      destruct (str_eqb_spec c id) as [->|Ni].
      + rewrite lk_vset_same. reflexivity.
      + rewrite lk_vset_other by exact Ni. reflexivity. }
  intros p c. rewrite C, P. specialize (HS p c).
  destruct (str_eqb_spec p id) as [->|Np]; destruct (str_eqb_spec c did) as [->|Nc];
    rewrite ?in_app_iff; simpl; split; intros H.
  - tauto.
  - tauto.
  - destruct H as [H|[H|[]]]; [tauto|]. congruence.
  - tauto.
  - tauto.
  - destruct H as [H|[H|[]]]; [tauto|]. congruence.
  - tauto.
  - tauto.
Qed.

Lemma sym_depends_on deps : forall g id, Sym (g_vs g) -> Sym (g_vs (depends_on g id deps)).
Proof.
  induction deps as [|d rest IH]; intros g id HS; simpl; [exact HS|].
  destruct (retrieve_or_add g d) as [[g1 did]|e] eqn:R; [|exact HS].
  pose proof (sym_retrieve _ _ _ _ HS R) as HS1.
  destruct (mem_str did (v_children (vget g1 id))); [exact HS1|].
  apply IH. simpl. apply (sym_edge (g_vs g1) id did HS1).
Qed.

Lemma resolve_vs g a : g_vs (fst (resolve g a)) = g_vs g.
Proof. destruct a as [t|id]; simpl; [reflexivity|]. destruct (alookup id (g_vs g)); reflexivity. Qed.

Lemma resolve_all_vs l : forall g, g_vs (fst (resolve_all g l)) = g_vs g.
Proof.
  induction l as [|a r IH]; intros g; simpl; [reflexivity|].
  destruct (resolve g a) as [g1 t] eqn:R. destruct (resolve_all g1 r) as [g2 ts] eqn:RA. simpl.
  pose proof (IH g1) as H. rewrite RA in H. simpl in H. rewrite H.
  pose proof (resolve_vs g a) as H1. rewrite R in H1. exact H1.
Qed.

Lemma sym_apply g op : Sym (g_vs g) -> Sym (g_vs (apply_gop g op)).
Proof.
  intros HS. destruct op as [a|a adeps|a n]; simpl.
  - destruct (resolve g a) as [g0 t] eqn:R.
    assert (HS0 : Sym (g_vs g0)) by (pose proof (resolve_vs g a) as E; rewrite R in E; simpl in E; rewrite E; exact HS).
    destruct (add_task g0 t) as [g'|e] eqn:A; [eapply sym_add_task; eauto | exact HS0].
  - destruct (resolve g a) as [ga t] eqn:R. destruct (resolve_all ga adeps) as [g0 deps] eqn:RA.
    assert (HS0 : Sym (g_vs g0)).
    { pose proof (resolve_all_vs adeps ga) as E2. rewrite RA in E2. simpl in E2. rewrite E2.
      pose proof (resolve_vs g a) as E; rewrite R in E; simpl in E; rewrite E; exact HS. }
    destruct (retrieve_or_add g0 t) as [[g1 id]|e] eqn:RR; [|exact HS0].
    apply sym_depends_on. eapply sym_retrieve; eauto.
  - destruct (resolve g a) as [g0 t] eqn:R.
    assert (HS0 : Sym (g_vs g0)) by (pose proof (resolve_vs g a) as E; rewrite R in E; simpl in E; rewrite E; exact HS).
    destruct (retrieve_or_add g0 t) as [[g1 id]|e] eqn:RR; [|exact HS0].
    simpl. apply (sym_retries (g_vs g1) id n). eapply sym_retrieve; eauto.
Qed.

Lemma sym_fold ops : forall g, Sym (g_vs g) -> Sym (g_vs (List.fold_left apply_gop ops g)).
Proof.
  induction ops as [|op ops IH]; intros g HS; simpl; [exact HS|].
  apply IH. apply sym_apply. exact HS.
Qed.

Theorem build_graph_sym ops :
  forall p c, In c (children (build_graph ops) p) <-> In p (parents (build_graph ops) c).
Proof. exact (sym_fold ops empty_graph sym_empty). Qed.


(* ---- every dependency of a vertex is itself a vertex of the graph ---- *)

Definition ClosedG (vs : list (vid * vertex)) : Prop :=
  forall p c, In c (v_children (lk vs p)) -> In c (keys vs).

Lemma keys_vset k v l : keys (vset k v l) = if mem_str k (keys l) then keys l else keys l ++ [k].
Proof.
  induction l as [|[k' v'] l IH]; simpl; [reflexivity|].
  destruct (str_eqb k k') eqn:E; simpl.
  - apply str_eqb_eq in E. subst. reflexivity.
  - rewrite IH. destruct (mem_str k (keys l)); reflexivity.
Qed.

Lemma keys_vset_incl k v l x : In x (keys l) -> In x (keys (vset k v l)).
Proof. rewrite keys_vset. destruct (mem_str k (keys l)); [auto | intros H; apply in_or_app; left; exact H]. Qed.

Lemma keys_vset_self k v l : In k (keys (vset k v l)).
Proof.
  rewrite keys_vset. destruct (mem_str k (keys l)) eqn:M; [apply mem_str_In; exact M|].
  apply in_or_app. right. left. reflexivity.
Qed.

Lemma edge_children vs id did p :
  let v := lk vs id in
  let vs1 := vset id (mkVertex (v_children v ++ [did]) (v_parents v) (v_retries v)) vs in
  let dv := lk vs1 did in
  v_children (lk (vset did (mkVertex (v_children dv) (v_parents dv ++ [id]) (v_retries dv)) vs1) p) =
  if str_eqb p id then v_children (lk vs p) ++ [did] else v_children (lk vs p).
Proof.
  intros v vs1 dv. destruct (str_eqb_spec p did) as [->|Nd].
  - rewrite lk_vset_same. simpl. unfold dv, vs1.
    destruct (str_eqb_spec did id) as [->|Ni].
    + rewrite lk_vset_same. reflexivity.
    + rewrite lk_vset_other by exact Ni. reflexivity.
  - rewrite lk_vset_other by exact Nd. unfold vs1.
    destruct (str_eqb_spec p id) as [->|Ni].
    + rewrite lk_vset_same. reflexivity.
    + rewrite lk_vset_other by exact Ni. reflexivity.
Qed.

Lemma closed_add_task g t g' : ClosedG (g_vs g) -> add_task g t = inl g' ->
  ClosedG (g_vs g') /\ (forall x, In x (keys (g_vs g)) -> In x (keys (g_vs g'))) /\
  (forall id f, t = Some (id, f) -> In id (keys (g_vs g'))).
Proof.
  intros HC H. unfold add_task in H.
  destruct t as [[id hasfn]|]; [|discriminate].
  destruct id as [|i0 id']; [discriminate|].
  destruct (negb hasfn); [discriminate|].
  destruct (alookup (i0 :: id') (g_vs g)) eqn:A; inversion H; subst; clear H.
  - split; [exact HC|]. split; [auto|]. intros id f E. inversion E; subst. eapply alookup_Some_key; eauto.
  - simpl. split.
    + intros p c Hc. rewrite lk_app_new in Hc by exact A. unfold keys. rewrite map_app. apply in_or_app. left. exact (HC p c Hc).
    + split.
      * intros x Hx. unfold keys. rewrite map_app. apply in_or_app. left. exact Hx.
      * intros id f E. inversion E; subst. unfold keys. rewrite map_app. apply in_or_app. right. left. reflexivity.
Qed.

Lemma closed_retrieve g t g' id : ClosedG (g_vs g) -> retrieve_or_add g t = inl (g', id) ->
  ClosedG (g_vs g') /\ (forall x, In x (keys (g_vs g)) -> In x (keys (g_vs g'))) /\ In id (keys (g_vs g')).
Proof.
  intros HC H. unfold retrieve_or_add in H.
  destruct t as [[i hasfn]|]; [|discriminate].
  destruct (alookup i (g_vs g)) eqn:A.
  - inversion H; subst. split; [exact HC|]. split; [auto|]. eapply alookup_Some_key; eauto.
  - destruct (add_task g (Some (i, hasfn))) as [g1|e] eqn:AT; [|discriminate].
    inversion H; subst. destruct (closed_add_task _ _ _ HC AT) as (C1 & C2 & C3).
    split; [exact C1|]. split; [exact C2|]. eapply C3; reflexivity.
Qed.

Lemma closed_depends_on deps : forall g id, ClosedG (g_vs g) -> In id (keys (g_vs g)) ->
  ClosedG (g_vs (depends_on g id deps)).
Proof.
  induction deps as [|d rest IH]; intros g id HC Iid; simpl; [exact HC|].
  destruct (retrieve_or_add g d) as [[g1 did]|e] eqn:R; [|exact HC].
  destruct (closed_retrieve _ _ _ _ HC R) as (C1 & C2 & C3).
  destruct (mem_str did (v_children (vget g1 id))); [exact C1|].
  apply IH; simpl.
  - intros p c Hc. pose proof (edge_children (g_vs g1) id did p) as EC. cbv zeta in EC.
    unfold ClosedG in C1. unfold vget, lk in *. rewrite EC in Hc. clear EC.
    apply keys_vset_incl. apply keys_vset_incl.
    destruct (str_eqb p id); [|exact (C1 p c Hc)].
    apply in_app_or in Hc as [Hc|[<-|[]]]; [exact (C1 _ c Hc) | exact C3].
  - apply keys_vset_incl. apply keys_vset_incl. apply C2. exact Iid.
Qed.

Lemma closed_apply g op : ClosedG (g_vs g) -> ClosedG (g_vs (apply_gop g op)).
Proof.
  intros HC. destruct op as [a|a adeps|a n]; simpl.
  - destruct (resolve g a) as [g0 t] eqn:R.
    assert (HC0 : ClosedG (g_vs g0)) by (pose proof (resolve_vs g a) as E; rewrite R in E; simpl in E; rewrite E; exact HC).
    destruct (add_task g0 t) as [g'|e] eqn:A; [exact (proj1 (closed_add_task _ _ _ HC0 A)) | exact HC0].
  - destruct (resolve g a) as [ga t] eqn:R. destruct (resolve_all ga adeps) as [g0 deps] eqn:RA.
    assert (HC0 : ClosedG (g_vs g0)).
    { pose proof (resolve_all_vs adeps ga) as E2. rewrite RA in E2. simpl in E2. rewrite E2.
      pose proof (resolve_vs g a) as E; rewrite R in E; simpl in E; rewrite E; exact HC. }
    destruct (retrieve_or_add g0 t) as [[g1 id]|e] eqn:RR; [|exact HC0].
    destruct (closed_retrieve _ _ _ _ HC0 RR) as (C1 & _ & C3). apply closed_depends_on; assumption.
  - destruct (resolve g a) as [g0 t] eqn:R.
    assert (HC0 : ClosedG (g_vs g0)) by (pose proof (resolve_vs g a) as E; rewrite R in E; simpl in E; rewrite E; exact HC).
    destruct (retrieve_or_add g0 t) as [[g1 id]|e] eqn:RR; [|exact HC0].
    destruct (closed_retrieve _ _ _ _ HC0 RR) as (C1 & _ & C3). simpl.
    intros p c Hc. apply keys_vset_incl.
    destruct (str_eqb_spec p id) as [->|N].
    + rewrite lk_vset_same in Hc. simpl in Hc. exact (C1 id c Hc).
    + rewrite lk_vset_other in Hc by exact N. exact (C1 p c Hc).
Qed.

Lemma closed_fold ops : forall g, ClosedG (g_vs g) -> ClosedG (g_vs (List.fold_left apply_gop ops g)).
Proof.
  induction ops as [|op ops IH]; intros g HC; simpl; [exact HC|]. apply IH. apply closed_apply. exact HC.
Qed.

Theorem build_graph_closed ops :
  forall p c, In c (children (build_graph ops) p) -> In c (vids (build_graph ops)).
Proof. apply (closed_fold ops empty_graph). intros p c H. unfold lk in H. simpl in H. contradiction. Qed.

(* hence the invariant holds in every state of every schedule of every graph the API can build *)
From GO Require Import Proofs.DagHold Proofs.DagInv.

Theorem built_reachable ops cf ls st :
  dsteps (build_graph ops) cf (init_state []) ls = Some st -> Inv (build_graph ops) cf st.
Proof. apply inv_reachable. apply build_graph_sym. Qed.

(* ---- progress for every graph the API can build ---- *)
From GO Require Import Proofs.DagSort Proofs.DagProgress.

Theorem built_progress ops cf ls st :
  let g := build_graph ops in
  dsteps g cf (init_state []) ls = Some st ->
  (exists l, dfs_sort g (vids g) = Some (inl l)) -> (0 < cf_cap cf)%N ->
  d_returned st = false -> (forall v, d_envlock st v = false) ->
  (forall v r, d_thread st v = Finished r -> receive g st v r true <> None) ->
  exists l st', productive l = true /\ dstep g cf st l = Some st'.
Proof.
  intros g S Topo Cap NR NoLock Fuel.
  assert (SYM := build_graph_sym ops).
  destruct (inv_live_steps g cf SYM ls (init_state []) st (inv_init g cf) (live_init) S) as [I L].
  apply (progress g cf st I L); auto.
  intros p c _ Hc. exact (build_graph_closed ops p c Hc).
Qed.

(* ... with the fuel side condition discharged: on an acyclic graph the recursion of skipParents
   always has enough fuel *)
From GO Require Import Proofs.DagFuel.

Theorem built_progress_acyclic ops cf ls st :
  let g := build_graph ops in
  dsteps g cf (init_state []) ls = Some st ->
  (exists l, dfs_sort g (vids g) = Some (inl l)) -> (0 < cf_cap cf)%N ->
  d_returned st = false -> (forall v, d_envlock st v = false) ->
  exists l st', productive l = true /\ dstep g cf st l = Some st'.
Proof.
  intros g S [l Topo] Cap NR NoLock.
  apply (built_progress ops cf ls st S (ex_intro _ l Topo) Cap NR NoLock).
  intros v r T.
  assert (SYM := build_graph_sym ops).
  destruct (inv_live_steps g cf SYM ls (init_state []) st (inv_init g cf) (live_init) S) as [I _].
  destruct (dfs_sort_sound g (vids g) l Topo) as (ND & All & Bef).
  assert (Lsub : forall u, In u l -> In u (vids g)).
  { apply (dfs_sort_within g (fun u => In u (vids g))) with (order := vids g); [|exact Topo|auto].
    intros u c Iu Ic. exact (build_graph_closed ops u c Ic). }
  apply (receive_defined g cf SYM l ND All Bef Lsub st v r true I).
  apply (t_vids g cf st I). rewrite T. discriminate.
Qed.

