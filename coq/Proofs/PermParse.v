(* C20, end to end: the whole parse is independent of the iteration order of every Go map —
   of the option table and of the command table of every node of the tree. *)
From GO Require Import Base.Str Base.Utf8 Base.Sort Model.Tokenizer Model.Option Model.Tree Model.Parse Proofs.Perm.
From Coq Require Import Permutation.
Open Scope N_scope.

(* the same tree with every table in another order *)
Inductive nsim : node -> node -> Prop :=
| nsim_intro i o o' c c' :
    Permutation o o' -> NoDup (keys o) ->
    (forall k a, alookup k c = Some a -> exists b, alookup k c' = Some b /\ nsim a b) ->
    (forall k, alookup k c = None -> alookup k c' = None) ->
    nsim (Node i o c) (Node i o' c').

Lemma nsim_info n n' : nsim n n' -> n_info n = n_info n'.
Proof. intros H. destruct H. reflexivity. Qed.

Lemma nsim_opts n n' : nsim n n' -> Permutation (n_opts n) (n_opts n') /\ NoDup (keys (n_opts n)).
Proof. intros H. destruct H. simpl. auto. Qed.

Lemma nsim_cmd n n' k : nsim n n' ->
  match alookup k (n_cmds n), alookup k (n_cmds n') with
  | Some a, Some b => nsim a b
  | None, None => True
  | _, _ => False
  end.
Proof.
  intros H. destruct H as [i o o' c c' _ _ S N]. simpl.
  destruct (alookup k c) as [a|] eqn:A.
  - destruct (S k a A) as (b & B & R). rewrite B. exact R.
  - rewrite (N k A). exact I.
Qed.

Definition lsim (l l' : level) : Prop :=
  nsim (lv_node l) (lv_node l') /\ lv_text l = lv_text l' /\ lv_unk l = lv_unk l'.

Definition ssim (s s' : pst) : Prop :=
  nsim (cur s) (cur s') /\ Forall2 lsim (up s) (up s') /\
  text s = text s' /\ unk s = unk s' /\ store s = store s' /\ ph s = ph s'.

Definition rsim {A} (R : A -> A -> Prop) (r r' : result A) : Prop :=
  match r, r' with
  | Ok a, Ok b => R a b
  | Err e, Err e' => e = e'
  | _, _ => False
  end.

Definition osim {A} (R : A -> A -> Prop) (o o' : option A) : Prop :=
  match o, o' with Some a, Some b => R a b | None, None => True | _, _ => False end.

Lemma ssim_set_ph s s' p : ssim s s' -> ssim (set_ph s p) (set_ph s' p).
Proof. intros (A & B & C & D & E & F). repeat split; simpl; auto. Qed.
Lemma ssim_set_store s s' x : ssim s s' -> ssim (set_store s x) (set_store s' x).
Proof. intros (A & B & C & D & E & F). repeat split; simpl; auto. Qed.
Lemma ssim_add_text s s' t : ssim s s' -> ssim (add_text s t) (add_text s' t).
Proof. intros (A & B & C & D & E & F). repeat split; simpl; auto. congruence. Qed.
Lemma ssim_add_unk s s' t : ssim s s' -> ssim (add_unk s t) (add_unk s' t).
Proof. intros (A & B & C & D & E & F). repeat split; simpl; auto. congruence. Qed.

Section Sim.
  Variable pf : str -> option N.
  Variable md : mode.
  Variable lower : bool.
  Variable ro : bool.
  Variable specs : list ospec.

  Notation start_pair := (start_pair pf lower specs).
  Notation try_cur := (try_cur pf md lower specs).
  Notation save_to := (save_to pf lower specs).
  Notation advance := (advance pf lower specs).
  Notation settle := (settle pf lower specs).
  Notation offer := (offer pf md lower specs).
  Notation advance_eof := (advance_eof pf lower specs).
  Notation head := (head pf md lower ro specs).
  Notation step := (step pf md lower ro specs).
  Notation run := (run pf md lower ro specs).
  Notation finish := (finish pf lower specs).

  Definition csim (x y : pst * cursor) : Prop := ssim (fst x) (fst y) /\ snd x = snd y.

  Lemma start_pair_sim s s' tok p :
    ssim s s' -> rsim (osim csim) (start_pair s tok p) (start_pair s' tok p).
  Proof.
    intros H. pose proof H as (A & B & C & D & E & F).
    destruct (nsim_opts _ _ A) as [P ND].
    pose proof (resolution_order_independent _ _ (p_name p) P ND) as M.
    unfold Parse.start_pair. rewrite <- E.
    destruct (matches (n_opts (cur s)) (p_name p)) as [|[key oid] [|kv2 rest]] eqn:M1.
    - rewrite M. simpl. exact I.
    - rewrite M.
      destruct (nth_error specs oid) as [sp|]; [|simpl; reflexivity].
      destruct (nth_error (store s) oid) as [os|]; [|simpl; reflexivity].
      destruct (save pf lower sp (mkState (o_val os) true key) (p_args p)) as [os2|e]; simpl; [|reflexivity].
      split; [|reflexivity]. simpl. apply ssim_set_store. exact H.
    - destruct M as [SK Len].
      destruct (matches (n_opts (cur s')) (p_name p)) as [|[k1' o1'] [|kv2' rest']] eqn:M2; simpl in Len; try lia.
      change (e_ambiguous tok (sort_strs (keys ((key, oid) :: kv2 :: rest))) = e_ambiguous tok (sort_strs (keys ((k1', o1') :: kv2' :: rest')))).
      rewrite SK. reflexivity.
  Qed.

  Lemma is_unknown_sim s s' p : ssim s s' ->
    is_unknown (n_opts (cur s)) p = is_unknown (n_opts (cur s')) p.
  Proof.
    intros (A & _). destruct (nsim_opts _ _ A) as [P ND].
    pose proof (resolution_order_independent _ _ (p_name p) P ND) as M.
    unfold is_unknown.
    destruct (matches (n_opts (cur s)) (p_name p)) as [|kv [|kv2 rest]].
    - rewrite M. reflexivity.
    - rewrite M. reflexivity.
    - destruct M as [_ Len]. destruct (matches (n_opts (cur s')) (p_name p)) as [|? [|? ?]]; simpl in Len; try lia; try reflexivity.
  Qed.

  Lemma save_to_sim s s' oid a : ssim s s' -> rsim ssim (save_to s oid a) (save_to s' oid a).
  Proof.
    intros H. pose proof H as (A & B & C & D & E & F). unfold Parse.save_to. rewrite <- E.
    destruct (nth_error specs oid) as [sp|]; [|simpl; reflexivity].
    destruct (nth_error (store s) oid) as [os|]; [|simpl; reflexivity].
    destruct (save pf lower sp os a) as [os'|e]; simpl; [|reflexivity].
    apply ssim_set_store. exact H.
  Qed.

  Lemma try_cur_sim s s' c t : ssim s s' -> rsim (osim ssim) (try_cur s c t) (try_cur s' c t).
  Proof.
    intros H. unfold Parse.try_cur. destruct c as [[[[oid key] i] mn] mx].
    destruct (Nat.ltb i mn).
    - destruct (looks_like_option md t); [simpl; reflexivity|].
      pose proof (save_to_sim s s' oid [t] H) as S.
      destruct (Parse.save_to pf lower specs s oid [t]), (Parse.save_to pf lower specs s' oid [t]); simpl in *; auto.
    - destruct (Nat.ltb i mx); [|simpl; exact I].
      destruct (stops pf md specs oid t); [simpl; exact I|].
      pose proof (save_to_sim s s' oid [t] H) as S.
      destruct (Parse.save_to pf lower specs s oid [t]), (Parse.save_to pf lower specs s' oid [t]); simpl in *; auto.
  Qed.

  Lemma advance_sim pend : forall s s' tok, ssim s s' -> rsim ssim (advance s tok pend) (advance s' tok pend).
  Proof.
    induction pend as [|p pend IH]; intros s s' tok H; simpl; [apply ssim_set_ph; exact H|].
    pose proof (start_pair_sim s s' tok p H) as SP.
    destruct (Parse.start_pair pf lower specs s tok p) as [[[s1 c]|]|e],
             (Parse.start_pair pf lower specs s' tok p) as [[[s1' c']|]|e']; simpl in SP; try contradiction.
    - destruct SP as [S1 Ec]. simpl in S1, Ec. subst c'.
      destruct (wants c).
      + destruct c as [[[[oid key] i] mn] mx]. simpl. apply ssim_set_ph. exact S1.
      + apply IH. exact S1.
    - apply IH. exact H.
    - exact SP.
  Qed.

  Lemma settle_sim s s' c pend tok : ssim s s' -> rsim ssim (settle s c pend tok) (settle s' c pend tok).
  Proof.
    intros H. unfold Parse.settle. destruct (wants c).
    - destruct c as [[[[oid key] i] mn] mx]. simpl. apply ssim_set_ph. exact H.
    - apply advance_sim. exact H.
  Qed.

  Definition bsim (x y : pst * bool) : Prop := ssim (fst x) (fst y) /\ snd x = snd y.

  Lemma offer_sim pend : forall s s' tok t, ssim s s' -> rsim bsim (offer s tok pend t) (offer s' tok pend t).
  Proof.
    induction pend as [|p pend IH]; intros s s' tok t H; simpl.
    - split; [apply ssim_set_ph; exact H | reflexivity].
    - pose proof (start_pair_sim s s' tok p H) as SP.
      destruct (Parse.start_pair pf lower specs s tok p) as [[[s1 c]|]|e],
               (Parse.start_pair pf lower specs s' tok p) as [[[s1' c']|]|e']; simpl in SP; try contradiction.
      + destruct SP as [S1 Ec]. simpl in S1, Ec. subst c'.
        pose proof (try_cur_sim s1 s1' c t S1) as TC.
        destruct (Parse.try_cur pf md lower specs s1 c t) as [[s2|]|e],
                 (Parse.try_cur pf md lower specs s1' c t) as [[s2'|]|e']; simpl in TC; try contradiction.
        * pose proof (settle_sim s2 s2' (bump c) pend tok TC) as ST.
          destruct (Parse.settle pf lower specs s2 (bump c) pend tok), (Parse.settle pf lower specs s2' (bump c) pend tok);
            simpl in *; try contradiction; auto. split; auto.
        * apply IH. exact S1.
        * exact TC.
      + apply IH. exact H.
      + exact SP.
  Qed.

  Lemma advance_eof_sim pend : forall s s' tok, ssim s s' -> rsim ssim (advance_eof s tok pend) (advance_eof s' tok pend).
  Proof.
    induction pend as [|p pend IH]; intros s s' tok H; simpl; [apply ssim_set_ph; exact H|].
    pose proof (start_pair_sim s s' tok p H) as SP.
    destruct (Parse.start_pair pf lower specs s tok p) as [[[s1 c]|]|e],
             (Parse.start_pair pf lower specs s' tok p) as [[[s1' c']|]|e']; simpl in SP; try contradiction.
    - destruct SP as [S1 Ec]. simpl in S1, Ec. subst c'.
      destruct c as [[[[oid key] i] mn] mx]. destruct (Nat.ltb i mn); [simpl; reflexivity|]. apply IH. exact S1.
    - apply IH. exact H.
    - exact SP.
  Qed.

  Lemma descend_sim s s' a b : ssim s s' -> nsim a b -> ssim (descend s a) (descend s' b).
  Proof.
    intros (A & B & C & D & E & F) N. unfold descend, ssim. simpl.
    split; [exact N|]. split; [|auto].
    constructor; [|exact B]. unfold lsim. simpl. auto.
  Qed.

  Lemma head_sim s s' t : ssim s s' -> rsim ssim (head s t) (head s' t).
  Proof.
    intros H. pose proof H as (A & B & C & D & E & F). unfold Parse.head.
    destruct (str_eqb t DD); [simpl; apply ssim_set_ph; exact H|].
    destruct (is_option md t) as [pairs is]. rewrite <- (nsim_info _ _ A).
    destruct is.
    - assert (FE : List.filter (is_unknown (n_opts (cur s'))) pairs = List.filter (is_unknown (n_opts (cur s))) pairs).
      { apply List.filter_ext. intros p. symmetry. apply is_unknown_sim. exact H. }
      rewrite FE. destruct (List.filter (is_unknown (n_opts (cur s))) pairs) as [|u us].
      + apply advance_sim. exact H.
      + destruct (ro && ni_reqorder (n_info (cur s)))%bool.
        * simpl. apply ssim_set_ph, ssim_add_text. exact H.
        * apply advance_sim. destruct (ni_umode (n_info (cur s))); [|apply ssim_add_text|apply ssim_add_text]; apply ssim_add_unk; exact H.
    - pose proof (nsim_cmd _ _ t A) as NC.
      destruct (alookup t (n_cmds (cur s))) as [a|], (alookup t (n_cmds (cur s'))) as [b|]; try contradiction.
      + simpl. apply descend_sim; assumption.
      + destruct (ro && ni_reqorder (n_info (cur s)))%bool; simpl.
        * apply ssim_set_ph, ssim_add_text. exact H.
        * apply ssim_add_text. exact H.
  Qed.

  Lemma step_sim s s' t : ssim s s' -> rsim ssim (step s t) (step s' t).
  Proof.
    intros H. pose proof H as (A & B & C & D & E & F). unfold Parse.step. rewrite <- F.
    destruct (ph s) as [|oid key i pend tok|].
    - apply head_sim. exact H.
    - destruct (nth_error specs oid) as [sp|]; [|simpl; reflexivity].
      pose proof (try_cur_sim s s' (oid, key, i, os_min sp, os_max sp) t H) as TC.
      destruct (Parse.try_cur pf md lower specs s (oid, key, i, os_min sp, os_max sp) t) as [[s1|]|e],
               (Parse.try_cur pf md lower specs s' (oid, key, i, os_min sp, os_max sp) t) as [[s1'|]|e']; simpl in TC; try contradiction.
      + apply settle_sim. exact TC.
      + pose proof (offer_sim pend s s' tok t H) as OF.
        destruct (Parse.offer pf md lower specs s tok pend t) as [[s2 b]|e],
                 (Parse.offer pf md lower specs s' tok pend t) as [[s2' b']|e']; simpl in OF; try contradiction.
        * destruct OF as [S2 Eb]. simpl in S2, Eb. subst b'. destruct b; [simpl; exact S2 | apply head_sim; exact S2].
        * exact OF.
      + exact TC.
    - simpl. apply ssim_add_text. exact H.
  Qed.

  Lemma run_sim args : forall s s', ssim s s' -> rsim ssim (run s args) (run s' args).
  Proof.
    induction args as [|t r IH]; intros s s' H; simpl; [exact H|].
    pose proof (step_sim s s' t H) as ST.
    destruct (Parse.step pf md lower ro specs s t), (Parse.step pf md lower ro specs s' t); simpl in ST; try contradiction.
    - apply IH. exact ST.
    - exact ST.
  Qed.

  Lemma finish_sim s s' : ssim s s' -> rsim ssim (finish s) (finish s').
  Proof.
    intros H. pose proof H as (A & B & C & D & E & F). unfold Parse.finish. rewrite <- F.
    destruct (ph s) as [|oid key i pend tok|]; simpl; try exact H.
    destruct (nth_error specs oid) as [sp|]; [|simpl; reflexivity].
    destruct (Nat.ltb i (os_min sp)); [simpl; reflexivity|]. apply advance_eof_sim. exact H.
  Qed.

  Lemma init_sim root root' st0 : nsim root root' -> ssim (init root st0) (init root' st0).
  Proof. intros N. unfold init, ssim. simpl. repeat split; auto. Qed.

  Lemma walk_sim root root' st0 args :
    nsim root root' -> rsim ssim (walk pf md lower ro specs root st0 args) (walk pf md lower ro specs root' st0 args).
  Proof.
    intros N. unfold walk.
    pose proof (run_sim args _ _ (init_sim root root' st0 N)) as R.
    destruct (Parse.run pf md lower ro specs (init root st0) args), (Parse.run pf md lower ro specs (init root' st0) args);
      simpl in *; try contradiction.
    - apply finish_sim. exact R.
    - exact R.
  Qed.

  Lemma policy_levels_sim ls ls' : Forall2 lsim ls ls' -> policy_levels ls = policy_levels ls'.
  Proof.
    induction 1 as [|l l' ls ls' (N & T & U) _ IH]; simpl; [reflexivity|].
    rewrite <- (nsim_info _ _ N), <- U, <- T, IH. reflexivity.
  Qed.

  Lemma Forall2_rev {A B} (R : A -> B -> Prop) l l' : Forall2 R l l' -> Forall2 R (rev l) (rev l').
  Proof.
    induction 1; simpl; [constructor|]. apply Forall2_app; [assumption | constructor; [assumption | constructor]].
  Qed.

  (* what the caller of Parse can observe *)
  Definition psim (r r' : presult) : Prop :=
    pr_warn r = pr_warn r' /\ rsim (fun x y => ssim (fst x) (fst y) /\ snd x = snd y) (pr_out r) (pr_out r').

  Theorem parse_order_independent root root' st0 args :
    nsim root root' ->
    psim (parse pf md lower ro specs root st0 args) (parse pf md lower ro specs root' st0 args).
  Proof.
    intros N. unfold parse.
    pose proof (walk_sim root root' st0 args N) as W.
    destruct (walk pf md lower ro specs root st0 args) as [s|e], (walk pf md lower ro specs root' st0 args) as [s'|e'];
      simpl in W; try contradiction.
    2:{ subst. split; reflexivity. }
    pose proof W as (A & B & C & D & E & F).
    assert (REQ : match up s with
                  | [] => if called (store s) (n_opts root) (ni_helpname (n_info (cur s))) then None
                          else required_error specs (store s) (cur s)
                  | _ => None
                  end =
                  match up s' with
                  | [] => if called (store s') (n_opts root') (ni_helpname (n_info (cur s'))) then None
                          else required_error specs (store s') (cur s')
                  | _ => None
                  end).
    { destruct B as [|l l' ls ls' _ _]; [|reflexivity].
      destruct (nsim_opts _ _ N) as [P ND].
      rewrite <- E, <- (nsim_info _ _ A), <- (called_order_independent (store s) _ _ _ P ND).
      destruct (called (store s) (n_opts root) (ni_helpname (n_info (cur s)))); [reflexivity|].
      destruct A as [i o o' c c' Po NDo _ _]. apply required_error_order_independent; assumption. }
    rewrite <- REQ.
    destruct (match up s with
              | [] => if called (store s) (n_opts root) (ni_helpname (n_info (cur s))) then None
                      else required_error specs (store s) (cur s)
              | _ => None
              end) as [e|]; [split; reflexivity|].
    assert (PL : policy_levels (levels_of s) = policy_levels (levels_of s')).
    { apply policy_levels_sim. unfold levels_of. apply Forall2_rev. constructor; [|exact B].
      unfold lsim. simpl. auto. }
    rewrite <- PL. destruct (policy_levels (levels_of s)) as [[w e] rem].
    destruct e; split; simpl; auto.
  Qed.

  (* the observable result as plain data: warnings, and either the error or the option store,
     remaining and the names of the selected command path *)
  Definition path_names (s : pst) : list str :=
    ni_name (n_info (cur s)) :: List.map (fun l => ni_name (n_info (lv_node l))) (up s).

  Definition observe (r : presult) :=
    (pr_warn r, match pr_out r with
                | Ok (s, rem) => inl (store s, rem, path_names s)
                | Err e => inr e
                end).

  Lemma path_names_sim s s' : ssim s s' -> path_names s = path_names s'.
  Proof.
    intros (A & B & _). unfold path_names. rewrite (nsim_info _ _ A). f_equal.
    induction B as [|l l' ls ls' (N & _) _ IH]; simpl; [reflexivity|]. rewrite (nsim_info _ _ N), IH. reflexivity.
  Qed.

  Theorem observe_order_independent root root' st0 args :
    nsim root root' ->
    observe (parse pf md lower ro specs root st0 args) = observe (parse pf md lower ro specs root' st0 args).
  Proof.
    intros N. destruct (parse_order_independent root root' st0 args N) as [W O]. unfold observe. rewrite W.
    destruct (pr_out (parse pf md lower ro specs root st0 args)) as [[s rem]|e],
             (pr_out (parse pf md lower ro specs root' st0 args)) as [[s' rem']|e']; simpl in O; try contradiction.
    - destruct O as [S R]. simpl in S, R. subst rem'. pose proof S as (_ & _ & _ & _ & E & _).
      rewrite E, (path_names_sim _ _ S). reflexivity.
    - subst. reflexivity.
  Qed.
End Sim.
