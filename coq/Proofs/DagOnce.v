(* C13: a task's function is entered at most once per attempt, attempts are numbered 0..R and
   strictly sequential: the thread of a vertex only moves forward
   (not spawned -> waiting -> running attempt 0 -> ... -> running attempt k -> finished -> gone),
   it is started at most once, and the attempt number never exceeds the retries. *)
From GO Require Import Base.Str Base.Utf8 Base.Sort Model.Tree Model.Dag Proofs.DagHold Proofs.DagInv.
From Coq Require Import Lia.
Open Scope nat_scope.

Section Once.
  Variable g : graph.
  Variable cf : config.
  Notation dstep := (dstep g cf).
  Hypothesis SYM : forall p c, In c (children g p) <-> In p (parents g c).

  (* position of a thread in its life cycle; attempts are ordered inside "running" *)
  Definition trank (t : thread) : nat * nat :=
    match t with
    | NotSpawned => (0, 0)
    | Waiting => (1, 0)
    | Running k => (2, k)
    | Finished _ => (3, 0)
    | Gone => (4, 0)
    end.

  Definition tle (a b : nat * nat) : Prop := fst a < fst b \/ (fst a = fst b /\ snd a <= snd b).

  Lemma tle_refl a : tle a a.
  Proof. right. split; lia. Qed.

  Lemma tle_trans a b c : tle a b -> tle b c -> tle a c.
  Proof. unfold tle. intros [H1|[H1 H2]] [H3|[H3 H4]]; [left|left|left|right]; try lia. Qed.

  (* the thread of every vertex only moves forward *)
  Lemma thread_forward st l st' v : Inv g cf st -> dstep st l = Some st' -> tle (trank (d_thread st v)) (trank (d_thread st' v)).
  Proof.
    intros I S. unfold Dag.dstep in S. destruct (d_returned st); [discriminate|]. destruct l.
    - destruct (d_thread st v0) eqn:T; try discriminate.
      destruct (receive g st v0 r true) as [st1|] eqn:R; [|discriminate]. inversion S; subst; clear S. simpl.
      assert (Th : d_thread st1 = d_thread st).
      { unfold receive in R. destruct r; try (inversion R; subst; reflexivity).
        destruct (skip_parents g (length (vids g)) v0 (upd (d_status st) v0 Done, d_marked st)) as [s2 mk].
        destruct (up_closed g v0 mk); [|discriminate]. inversion R; subst. reflexivity. }
      rewrite Th. destruct (str_eq_dec v v0) as [->|N].
      + rewrite upd_same, T. left. simpl. lia.
      + rewrite (upd_other _ _ _ _ N). apply tle_refl.
    - destruct (remove_pseudo (v0, skipped) (d_pseudo st)); [|discriminate].
      destruct (receive g st v0 (if skipped then OErr else ONil) false) as [st1|] eqn:R; [|discriminate].
      inversion S; subst; clear S. simpl.
      assert (Th : d_thread st1 = d_thread st) by (unfold receive in R; destruct skipped; inversion R; subst; reflexivity).
      rewrite Th. apply tle_refl.
    - destruct (mem_str v0 (vids g) && negb (serial_blocked g cf st) && eligible g st v0)%bool eqn:G; [|discriminate].
      apply andb_prop in G as [_ El].
      assert (CT : d_thread (ctx_check st) = d_thread st).
      { unfold ctx_check. destruct (d_cancelled st && negb (d_handled st))%bool; reflexivity. }
      destruct (status_eqb (d_status (ctx_check st) v0) Skip).
      + inversion S; subst; clear S. simpl. rewrite CT. apply tle_refl.
      + destruct (d_errs (ctx_check st)); inversion S; subst; clear S; simpl; rewrite CT; [|apply tle_refl].
        destruct (str_eq_dec v v0) as [->|N]; [|rewrite (upd_other _ _ _ _ N); apply tle_refl].
        rewrite upd_same.
        (* an eligible vertex has no thread yet *)
        assert (TN : d_thread st v0 = NotSpawned).
        { destruct (thread_eq_dec_ns (d_thread st v0)) as [E|E]; [exact E|]. exfalso.
          unfold eligible in El. apply andb_prop in El as [El _].
          destruct (d_status st v0) eqn:Sv; simpl in El; try discriminate.
          - exact (t_notpending g cf st I v0 E Sv).
          - exact (t_unmarked g cf st I v0 E (m_skip g cf st I v0 Sv)). }
        rewrite TN. left. simpl. lia.
    - destruct ((serial_blocked g cf st || negb (existsb (eligible g st) (vids g))) && _)%bool; [|discriminate].
      inversion S; subst. unfold ctx_check. destruct (d_cancelled st && negb (d_handled st))%bool; apply tle_refl.
    - destruct (negb (serial_blocked g cf st) && _ && _)%bool; [|discriminate]. inversion S; subst. apply tle_refl.
    - destruct (d_thread st v0) eqn:T; try discriminate.
      destruct (N.ltb (N.of_nat (length (d_holders st))) (cf_cap cf) && negb (d_envlock st v0))%bool; [|discriminate].
      inversion S; subst; clear S. simpl. destruct (str_eq_dec v v0) as [->|N]; [|rewrite (upd_other _ _ _ _ N); apply tle_refl].
      rewrite upd_same, T. destruct (Z.ltb (retries g v0) 0); left; simpl; lia.
    - destruct (d_thread st v0) eqn:T; try discriminate. inversion S; subst; clear S. unfold set_thread. simpl.
      destruct (str_eq_dec v v0) as [->|N]; [|rewrite (upd_other _ _ _ _ N); apply tle_refl].
      rewrite upd_same, T. destruct (match r with ONil => true | _ => Z.leb (retries g v0) (Z.of_nat k) end); [left|right]; simpl; lia.
    - inversion S; subst. apply tle_refl.
    - destruct (negb (d_envlock st v0) && negb (thread_holds (d_thread st v0)))%bool; [|discriminate]. inversion S; subst. apply tle_refl.
    - destruct (d_envlock st v0); [|discriminate]. inversion S; subst. apply tle_refl.
  Qed.

  Lemma threads_forward ls : forall st st' v, Inv g cf st -> dsteps g cf st ls = Some st' -> tle (trank (d_thread st v)) (trank (d_thread st' v)).
  Proof.
    induction ls as [|l ls IH]; intros st st' v I S; simpl in S; [inversion S; subst; apply tle_refl|].
    destruct (dstep st l) as [s1|] eqn:E; [|discriminate].
    eapply tle_trans; [eapply thread_forward; eauto | apply IH; [eapply (inv_step g cf SYM); eauto | exact S]].
  Qed.

  (* the function of a vertex is started (attempt 0 entered) at most once in any run *)
  Lemma start_ranks st v st' : dstep st (LStart v) = Some st' ->
    fst (trank (d_thread st v)) = 1 /\ 2 <= fst (trank (d_thread st' v)).
  Proof.
    intros S. unfold Dag.dstep in S. destruct (d_returned st); [discriminate|].
    destruct (d_thread st v) eqn:T; try discriminate.
    destruct (N.ltb (N.of_nat (length (d_holders st))) (cf_cap cf) && negb (d_envlock st v))%bool; [|discriminate].
    inversion S; subst; clear S. simpl. rewrite upd_same. split; [reflexivity|].
    destruct (Z.ltb (retries g v) 0); simpl; lia.
  Qed.

  Theorem started_at_most_once ls1 ls2 ls3 st0 st v :
    Inv g cf st0 -> dsteps g cf st0 (ls1 ++ LStart v :: ls2 ++ LStart v :: ls3) = Some st -> False.
  Proof.
    revert st0. induction ls1 as [|l ls1 IH]; intros st0 I0 S.
    - simpl in S. destruct (dstep st0 (LStart v)) as [s1|] eqn:E1; [|discriminate].
      destruct (start_ranks _ _ _ E1) as [_ R1].
      pose proof (inv_step g cf SYM _ _ _ I0 E1) as I1.
      assert (exists s2, dsteps g cf s1 ls2 = Some s2 /\ dsteps g cf s2 (LStart v :: ls3) = Some st) as (s2 & S2 & S3).
      { clear E1 R1 I1. revert s1 S. induction ls2 as [|l2 ls2 IH2]; intros s1 S; simpl in S |- *.
        - exists s1. split; [reflexivity | exact S].
        - destruct (dstep s1 l2) as [s1'|] eqn:E; [|discriminate].
          destruct (IH2 s1' S) as (s2 & A & B). exists s2. split; [exact A | exact B]. }
      simpl in S3. destruct (dstep s2 (LStart v)) as [s3|] eqn:E3; [|discriminate].
      destruct (start_ranks _ _ _ E3) as [R3 _].
      pose proof (threads_forward ls2 s1 s2 v I1 S2) as F. unfold tle in F. lia.
    - simpl in S. destruct (dstep st0 l) as [s1|] eqn:E; [|discriminate].
      eapply (IH s1); [eapply (inv_step g cf SYM); eauto | exact S].
  Qed.

  (* attempts are numbered 0..retries *)
  Definition Att (st : dstate) : Prop :=
    forall v k, d_thread st v = Running k -> (Z.of_nat k <= retries g v)%Z.

  Lemma att_init : Att (init_state []).
  Proof. intros v k H. simpl in H. discriminate. Qed.

  Lemma att_step st l st' : Att st -> dstep st l = Some st' -> Att st'.
  Proof.
    intros A S v k H. unfold Dag.dstep in S. destruct (d_returned st); [discriminate|]. destruct l.
    - destruct (d_thread st v0) eqn:T; try discriminate.
      destruct (receive g st v0 r true) as [st1|] eqn:R; [|discriminate]. inversion S; subst; clear S. simpl in H.
      assert (Th : d_thread st1 = d_thread st).
      { unfold receive in R. destruct r; try (inversion R; subst; reflexivity).
        destruct (skip_parents g (length (vids g)) v0 (upd (d_status st) v0 Done, d_marked st)) as [s2 mk].
        destruct (up_closed g v0 mk); [|discriminate]. inversion R; subst. reflexivity. }
      rewrite Th in H. destruct (str_eq_dec v v0) as [->|N]; [rewrite upd_same in H; discriminate|].
      rewrite (upd_other _ _ _ _ N) in H. apply A. exact H.
    - destruct (remove_pseudo (v0, skipped) (d_pseudo st)); [|discriminate].
      destruct (receive g st v0 (if skipped then OErr else ONil) false) as [st1|] eqn:R; [|discriminate].
      inversion S; subst; clear S. simpl in H.
      assert (Th : d_thread st1 = d_thread st) by (unfold receive in R; destruct skipped; inversion R; subst; reflexivity).
      rewrite Th in H. apply A. exact H.
    - destruct (mem_str v0 (vids g) && negb (serial_blocked g cf st) && eligible g st v0)%bool; [|discriminate].
      assert (CT : d_thread (ctx_check st) = d_thread st).
      { unfold ctx_check. destruct (d_cancelled st && negb (d_handled st))%bool; reflexivity. }
      destruct (status_eqb (d_status (ctx_check st) v0) Skip).
      + inversion S; subst; clear S. simpl in H. rewrite CT in H. apply A. exact H.
      + destruct (d_errs (ctx_check st)); inversion S; subst; clear S; simpl in H; rewrite CT in H; [|apply A; exact H].
        destruct (str_eq_dec v v0) as [->|N]; [rewrite upd_same in H; discriminate|].
        rewrite (upd_other _ _ _ _ N) in H. apply A. exact H.
    - destruct ((serial_blocked g cf st || negb (existsb (eligible g st) (vids g))) && _)%bool; [|discriminate].
      inversion S; subst. unfold ctx_check in H. destruct (d_cancelled st && negb (d_handled st))%bool; simpl in H; apply A; exact H.
    - destruct (negb (serial_blocked g cf st) && _ && _)%bool; [|discriminate]. inversion S; subst. simpl in H. apply A. exact H.
    - destruct (d_thread st v0) eqn:T; try discriminate.
      destruct (N.ltb (N.of_nat (length (d_holders st))) (cf_cap cf) && negb (d_envlock st v0))%bool; [|discriminate].
      inversion S; subst; clear S. simpl in H. destruct (str_eq_dec v v0) as [->|N].
      + rewrite upd_same in H. destruct (Z.ltb_spec (retries g v0) 0); [discriminate|]. inversion H; subst. simpl. lia.
      + rewrite (upd_other _ _ _ _ N) in H. apply A. exact H.
    - destruct (d_thread st v0) eqn:T; try discriminate. inversion S; subst; clear S. unfold set_thread in H. simpl in H.
      destruct (str_eq_dec v v0) as [->|N].
      + rewrite upd_same in H.
        destruct (match r with ONil => true | _ => Z.leb (retries g v0) (Z.of_nat k0) end) eqn:Fin; [discriminate|].
        inversion H; subst. destruct r; try discriminate; apply Z.leb_gt in Fin; lia.
      + rewrite (upd_other _ _ _ _ N) in H. apply A. exact H.
    - inversion S; subst. simpl in H. apply A. exact H.
    - destruct (negb (d_envlock st v0) && negb (thread_holds (d_thread st v0)))%bool; [|discriminate]. inversion S; subst. simpl in H. apply A. exact H.
    - destruct (d_envlock st v0); [|discriminate]. inversion S; subst. simpl in H. apply A. exact H.
  Qed.

  Theorem attempts_bounded ls st v k :
    dsteps g cf (init_state []) ls = Some st -> d_thread st v = Running k -> (Z.of_nat k <= retries g v)%Z.
  Proof.
    intros S. assert (A : Att st).
    { revert S. generalize (init_state []) att_init. induction ls as [|l ls IH]; intros s0 A0 S; simpl in S; [inversion S; subst; exact A0|].
      destruct (dstep s0 l) as [s1|] eqn:E; [|discriminate]. apply (IH s1); [eapply att_step; eauto | exact S]. }
    apply A.
  Qed.
End Once.
