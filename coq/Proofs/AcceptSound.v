(* The executable acceptor (Run/Check.v) only ever returns states of the transition system: every
   state it reaches from the initial state is reached by a sequence of transitions.  Hence every
   trace of the real Graph.Run that a check accepts is a run of the system the theorems are about,
   and the reconstructed state satisfies the invariant. *)
From GO Require Import Base.Str Base.Utf8 Base.Sort Model.Tree Model.Dag Run.Check.
From GO Require Import Proofs.DagHold Proofs.DagInv Proofs.DagBuild.
From Coq Require Import Lia.
Open Scope N_scope.

Section Sound.
  Variable g : graph.
  Variable cf : config.
  Notation dstep := (dstep g cf).

  Definition reach (a b : dstate) : Prop := exists ls, dsteps g cf a ls = Some b.

  Lemma dsteps_app l1 : forall a b l2 c, dsteps g cf a l1 = Some b -> dsteps g cf b l2 = Some c -> dsteps g cf a (l1 ++ l2) = Some c.
  Proof.
    induction l1 as [|l l1 IH]; intros a b l2 c H1 H2; simpl in *; [inversion H1; subst; exact H2|].
    destruct (dstep a l) as [a1|]; [|discriminate]. eapply IH; eauto.
  Qed.

  Lemma reach_refl a : reach a a.
  Proof. exists []. reflexivity. Qed.
  Lemma reach_trans a b c : reach a b -> reach b c -> reach a c.
  Proof. intros [l1 H1] [l2 H2]. exists (l1 ++ l2). eapply dsteps_app; eauto. Qed.
  Lemma reach_step a l b : dstep a l = Some b -> reach a b.
  Proof. intros H. exists [l]. simpl. rewrite H. reflexivity. Qed.

  Lemma first_some_reach (f : vid -> option dstate) st l s :
    (forall v s', f v = Some s' -> reach st s') -> first_some f l = Some s -> reach st s.
  Proof.
    intros F. unfold first_some.
    assert (G : forall acc, (forall s', acc = Some s' -> reach st s') ->
                List.fold_left (fun acc v => match acc with Some _ => acc | None => f v end) l acc = Some s -> reach st s).
    { induction l as [|v l IH]; intros acc A H; simpl in H; [apply A; exact H|].
      apply (IH (match acc with Some _ => acc | None => f v end)); [|exact H].
      intros s' E. destruct acc as [x|]; [apply A; exact E | eapply F; exact E]. }
    apply G. intros s' E. discriminate.
  Qed.

  Lemma drain_step_reach st s : drain_step g cf st = Some s -> reach st s.
  Proof.
    unfold drain_step. intros H.
    destruct (first_some (fun v => dstep st (LRecvReal v)) (vids g)) as [s1|] eqn:F1.
    { inversion H; subst. eapply first_some_reach; [|exact F1]. intros v s' E. eapply reach_step; exact E. }
    destruct (d_pseudo st) as [|[v b] ps]; [|eapply reach_step; eauto].
    destruct (first_some (pseudo_pick g cf st) (vids g)) as [s2|] eqn:F2.
    { inversion H; subst. eapply first_some_reach; [|exact F2]. intros v s' E. unfold pseudo_pick in E.
      destruct (eligible g st v && _)%bool; [eapply reach_step; exact E | discriminate]. }
    destruct (first_some (silent_pick g cf st) (vids g)) as [s3|] eqn:F3.
    { inversion H; subst. eapply first_some_reach; [|exact F3]. intros v s' E. unfold silent_pick in E.
      destruct (silent g v && eligible g st v)%bool; [eapply reach_step; exact E | discriminate]. }
    destruct (d_cancelled st && negb (d_handled st))%bool; [eapply reach_step; eauto | discriminate].
  Qed.

  Lemma drain_reach fuel : forall st, reach st (drain g cf fuel st).
  Proof.
    induction fuel as [|f IH]; intros st; simpl; [apply reach_refl|].
    destruct (drain_step g cf st) as [s|] eqn:D; [|apply reach_refl].
    eapply reach_trans; [eapply drain_step_reach; eauto | apply IH].
  Qed.

  Lemma silent_start_reach st v s : silent_start g cf st v = Some s -> reach st s.
  Proof.
    unfold silent_start. destruct (silent g v); [|discriminate]. destruct (d_thread st v); try discriminate.
    apply reach_step.
  Qed.

  Lemma variants_reach fuel : forall st s, In s (variants g cf fuel st) -> reach st s.
  Proof.
    induction fuel as [|f IH]; intros st s I; simpl in I.
    - destruct I as [<-|[]]. apply drain_reach.
    - destruct (first_some (silent_start g cf (drain g cf (FUEL g) st)) (vids g)) as [s1|] eqn:F.
      + destruct I as [<-|I]; [apply drain_reach|].
        eapply reach_trans; [apply drain_reach|]. eapply reach_trans; [|apply IH; exact I].
        eapply first_some_reach; [|exact F]. intros v s' E. eapply silent_start_reach; eauto.
      + destruct I as [<-|[]]. apply drain_reach.
  Qed.

  Lemma eager_reach fuel : forall st, reach st (eager g cf fuel st).
  Proof.
    induction fuel as [|f IH]; intros st; simpl; [apply drain_reach|].
    destruct (first_some (silent_start g cf (drain g cf (FUEL g) st)) (vids g)) as [s1|] eqn:F; [|apply drain_reach].
    eapply reach_trans; [apply drain_reach|]. eapply reach_trans; [|apply IH].
    eapply first_some_reach; [|exact F]. intros v s' E. eapply silent_start_reach; eauto.
  Qed.

  Lemma pick_all_reach fuel : forall st, reach st (pick_all g cf fuel st).
  Proof.
    induction fuel as [|f IH]; intros st; cbn [pick_all]; [apply reach_refl|].
    destruct (first_some (fun v => dstep st (LPick v)) (vids g)) as [s|] eqn:F; [|apply reach_refl].
    eapply reach_trans; [eapply first_some_reach; [|exact F]; intros v s' E; eapply reach_step; exact E|].
    eapply reach_trans; [apply eager_reach | apply IH].
  Qed.

  Lemma enter_from_reach st1 v s : enter_from g cf st1 v = AOk s -> reach st1 s.
  Proof.
    unfold enter_from. intros H.
    destruct (d_thread st1 v) eqn:T.
    1,3,4,5: (destruct (dstep st1 (LPick v)) as [s2|] eqn:P; [|discriminate];
              destruct (d_thread s2 v); try discriminate;
              destruct (dstep s2 (LStart v)) as [s3|] eqn:S3; [|discriminate]; inversion H; subst;
              eapply reach_trans; eapply reach_step; eauto).
    rewrite T in H. destruct (dstep st1 (LStart v)) as [s3|] eqn:S3; [|discriminate]. inversion H; subst.
    eapply reach_step; eauto.
  Qed.

  Lemma AOk_inj a b : AOk a = AOk b -> a = b.
  Proof. intros H. inversion H. reflexivity. Qed.

  Lemma accept_event_reach st e s : In (AOk s) (accept_event g cf st e) -> reach st s.
  Proof.
    destruct e as [v [|k]|v k r| |]; cbn [accept_event]; intros I.
    - apply in_map_iff in I as (st1 & E & I1). eapply reach_trans; [eapply variants_reach; eauto | eapply enter_from_reach; eauto].
    - destruct I as [E|[]]. destruct (d_thread st v); try discriminate. destruct (Nat.eqb _ _); inversion E; subst. apply reach_refl.
    - destruct I as [E|[]]. destruct (d_thread st v); try discriminate. destruct (Nat.eqb k k0); [|discriminate].
      destruct (dstep st (LExit v r)) eqn:X; inversion E; subst. eapply reach_step; eauto.
    - destruct I as [E|[]]. destruct (dstep st LCancel) eqn:X; apply AOk_inj in E; rewrite <- E; [|apply reach_refl].
      eapply reach_trans; [eapply reach_step; eauto | apply eager_reach].
    - destruct I as [E|[]]. destruct (startable g cf _); [discriminate|]. apply AOk_inj in E. rewrite <- E.
      eapply reach_trans; [apply eager_reach | apply pick_all_reach].
  Qed.

  Lemma oks_In l s : In s (oks l) <-> In (AOk s) l.
  Proof.
    unfold oks. rewrite in_flat_map. split.
    - intros ([s'|w] & I & H); simpl in H; [destruct H as [<-|[]]; exact I | contradiction].
    - intros I. exists (AOk s). split; [exact I | left; reflexivity].
  Qed.

  Lemma firstn_In {A} n (l : list A) x : In x (firstn n l) -> In x l.
  Proof. revert l. induction n as [|n IH]; intros [|a l] I; simpl in *; try contradiction. destruct I as [->|I]; auto. Qed.

  Theorem accept_all_reach es : forall sts s, In s (accept_all g cf sts es) -> exists s0, In s0 sts /\ reach s0 s.
  Proof.
    induction es as [|e es IH]; intros sts s I; cbn [accept_all] in I; [exists s; split; [exact I | apply reach_refl]|].
    apply IH in I as (s1 & I1 & R1). apply firstn_In in I1. apply oks_In in I1.
    apply in_flat_map in I1 as (s0 & I0 & A). exists s0. split; [exact I0|].
    eapply reach_trans; [eapply accept_event_reach; eauto | exact R1].
  Qed.

  Lemma finish_run_reach st fin : finish_run g cf st = Some fin -> reach st fin.
  Proof.
    unfold finish_run. intros H. eapply reach_trans; [apply eager_reach|].
    eapply reach_trans; [apply pick_all_reach | eapply reach_step; eauto].
  Qed.

  (* what a check accepts is a run of the transition system *)
  Theorem accepted_trace_is_a_run es s fin :
    In s (accept_all g cf [init_state []] es) -> finish_run g cf s = Some fin ->
    exists ls, dsteps g cf (init_state []) ls = Some fin /\ d_returned fin = true.
  Proof.
    intros I F. apply accept_all_reach in I as (s0 & [<-|[]] & R).
    destruct (reach_trans _ _ _ R (finish_run_reach _ _ F)) as [ls H]. exists ls. split; [exact H|].
    unfold finish_run in F. unfold Dag.dstep in F.
    destruct (d_returned _); [discriminate|]. destruct (negb _ && _ && _)%bool; [|discriminate]. inversion F; subst. reflexivity.
  Qed.
End Sound.

(* ... and for the graph of a construction history the reconstructed states satisfy the invariant *)
Theorem accepted_states_invariant ops cf es s :
  In s (accept_all (build_graph ops) cf [init_state []] es) -> Inv (build_graph ops) cf s.
Proof.
  intros I. apply accept_all_reach in I as (s0 & [<-|[]] & [ls R]). exact (built_reachable ops cf ls s R).
Qed.
