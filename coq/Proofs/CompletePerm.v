(* C20 for completion: the option candidates offered for a last word do not depend on the order of
   the level's option table.  The list itself is sorted; the only order-sensitive step of the code is
   the "single candidate ending in `=`" hint, which reads the last table entry that touched it —
   with the value branch restricted to the key written before the `=` there is at most one. *)
From GO Require Import Base.Str Base.Utf8 Base.Sort Model.Tokenizer Model.Option Model.Tree Model.Parse Model.Complete.
From GO Require Import Proofs.Perm Proofs.CompleteLemmas.
From Coq Require Import Permutation Lia.
Open Scope N_scope.

Section CPerm.
  Variable specs : list ospec.
  Variable vfn : nat -> target -> str -> list str.

  Notation opt_entry := (opt_entry vfn).
  Notation last_opt := (last_opt specs).
  Notation option_completions := (option_completions specs vfn).

  Definition touched (p : str) (tbl : list (str * nat)) : list (str * nat) :=
    List.filter (fun kv => touches p (fst kv)) tbl.

  Lemma last_opt_fold tbl p : forall acc,
    List.fold_left (fun acc kv => if touches p (fst kv) then nth_error specs (snd kv) else acc) tbl acc =
    List.fold_left (fun acc kv => nth_error specs (snd kv)) (touched p tbl) acc.
  Proof.
    induction tbl as [|kv tbl IH]; intros acc; simpl; [reflexivity|].
    destruct (touches p (fst kv)); simpl; apply IH.
  Qed.

  Lemma last_opt_touched tbl p :
    last_opt tbl p = List.fold_left (fun acc kv => nth_error specs (snd kv)) (touched p tbl) None.
  Proof. unfold Complete.last_opt. apply last_opt_fold. Qed.

  Lemma perm_short {A} (l l' : list A) : Permutation l l' -> (List.length l <= 1)%nat -> l = l'.
  Proof.
    intros P L. destruct l as [|a [|b r]]; simpl in L; try lia.
    - apply Permutation_nil in P. subst. reflexivity.
    - apply Permutation_length_1_inv in P. subst. reflexivity.
  Qed.

  Lemma eq_prefix_unique (k1 : str) : forall k2 r1 r2,
    contains_byte 61 k1 = false -> contains_byte 61 k2 = false ->
    k1 ++ 61 :: r1 = k2 ++ 61 :: r2 -> k1 = k2.
  Proof.
    induction k1 as [|a k1 IH]; intros k2 r1 r2 N1 N2 E; destruct k2 as [|b k2]; simpl in *.
    - reflexivity.
    - inversion E; subst. rewrite N.eqb_refl in N2. discriminate.
    - inversion E; subst. rewrite N.eqb_refl in N1. discriminate.
    - inversion E; subst. apply Bool.orb_false_iff in N1 as [_ N1]. apply Bool.orb_false_iff in N2 as [_ N2].
      f_equal. eapply IH; eauto.
  Qed.

  Lemma prefix_contains (p k : str) : prefixb p k = true -> contains_byte 61 p = true -> contains_byte 61 k = true.
  Proof.
    intros P C. apply prefixb_spec in P as [r ->]. rewrite contains_byte_app, C. reflexivity.
  Qed.

  Section Tables.
    Variable tbl : list (str * nat).
    Hypothesis ND : NoDup (keys tbl).
    Hypothesis WF : forall k oid, In (k, oid) tbl -> contains_byte 61 k = false /\ exists sp, nth_error specs oid = Some sp.

    Definition entry (t : target) (w : str) (kv : str * nat) : list str :=
      match nth_error specs (snd kv) with
      | Some sp => opt_entry t w (strip_dashes w) (fst kv) sp
      | None => []
      end.

    (* without `=` in the typed text every touched entry contributes exactly one candidate *)
    Lemma touched_le_candidates t w :
      contains_byte 61 (strip_dashes w) = false ->
      (List.length (touched (strip_dashes w) tbl) <= List.length (flat_map (entry t w) tbl))%nat.
    Proof.
      intros NE. unfold touched. revert WF. clear ND. induction tbl as [|[k oid] l IH]; intros W; simpl; [lia|].
      assert (W' : forall k0 oid0, In (k0, oid0) l -> contains_byte 61 k0 = false /\ exists sp, nth_error specs oid0 = Some sp)
        by (intros k0 oid0 I; apply W; right; exact I).
      specialize (IH W'). rewrite app_length.
      destruct (touches (strip_dashes w) k) eqn:T; simpl; [|lia].
      destruct (W k oid (or_introl eq_refl)) as [_ [sp S]]. unfold entry at 1. simpl. rewrite S.
      unfold touches in T. apply andb_prop in T as [Nd T]. rewrite (no_eq_no_value_prefix k _ NE), Bool.orb_false_r in T.
      unfold Complete.opt_entry. apply Bool.negb_true_iff in Nd. rewrite Nd, T. simpl. lia.
    Qed.

    (* with `=` in the typed text only the key written before it is touched *)
    Lemma touched_value_unique w :
      contains_byte 61 (strip_dashes w) = true -> (List.length (touched (strip_dashes w) tbl) <= 1)%nat.
    Proof.
      intros E.
      assert (K : forall kv, In kv (touched (strip_dashes w) tbl) ->
                  In kv tbl /\ exists r, strip_dashes w = fst kv ++ 61 :: r).
      { intros [k oid] I. unfold touched in I. apply filter_In in I as [I T]. split; [exact I|]. simpl in T.
        unfold touches in T. apply andb_prop in T as [_ T]. apply Bool.orb_true_iff in T as [T|T].
        - destruct (WF k oid I) as [Nk _]. rewrite (prefix_contains _ _ T E) in Nk. discriminate.
        - apply prefixb_spec in T as [r ->]. exists r. simpl. rewrite <- app_assoc. reflexivity. }
      assert (NDT : NoDup (keys (touched (strip_dashes w) tbl))).
      { unfold touched. clear K. revert ND. generalize tbl. intros l. induction l as [|[k oid] l IH]; intros N; simpl; [constructor|].
        inversion N as [|? ? Nk N']; subst. destruct (touches (strip_dashes w) k); simpl; [|apply IH; exact N'].
        constructor; [|apply IH; exact N']. intros I. apply Nk. unfold keys in *. apply in_map_iff in I as ([k' o'] & Ek & I).
        apply filter_In in I as [I _]. simpl in Ek. subst. apply in_map_iff. exists (k, o'). auto. }
      destruct (touched (strip_dashes w) tbl) as [|[k1 o1] [|[k2 o2] r]] eqn:T; simpl; try lia. exfalso.
      destruct (K (k1, o1) (or_introl eq_refl)) as [I1 [r1 E1]].
      destruct (K (k2, o2) (or_intror (or_introl eq_refl))) as [I2 [r2 E2]]. simpl in E1, E2.
      assert (k1 = k2).
      { eapply eq_prefix_unique; [apply (WF k1 o1 I1) | apply (WF k2 o2 I2) | rewrite <- E1; exact E2]. }
      subst. simpl in NDT. inversion NDT as [|? ? Nk _]; subst. apply Nk. left. reflexivity.
    Qed.
  End Tables.

  Lemma touched_perm p tbl tbl' : Permutation tbl tbl' -> Permutation (touched p tbl) (touched p tbl').
  Proof. apply filter_perm. Qed.

  (* C20: the option candidates do not depend on the order of the option table *)
  Theorem option_completions_order_independent t i i' tbl tbl' c c' w :
    Permutation tbl tbl' -> NoDup (keys tbl) ->
    (forall k oid, In (k, oid) tbl -> contains_byte 61 k = false /\ exists sp, nth_error specs oid = Some sp) ->
    option_completions t (Node i tbl c) w = option_completions t (Node i' tbl' c') w.
  Proof.
    intros P ND WF. unfold Complete.option_completions. simpl n_opts.
    set (f := fun kv : str * nat => match nth_error specs (snd kv) with
                                    | Some sp => opt_entry t w (strip_dashes w) (fst kv) sp
                                    | None => []
                                    end).
    assert (B : sort_strs (flat_map f tbl) = sort_strs (flat_map f tbl')).
    { apply sort_strs_perm_eq. apply flat_map_perm. exact P. }
    rewrite <- B. destruct (sort_strs (flat_map f tbl)) as [|c0 [|c1 rest]] eqn:S; try reflexivity.
    destruct (ends_with_eq c0); [|reflexivity].
    assert (L : (List.length (touched (strip_dashes w) tbl) <= 1)%nat).
    { destruct (contains_byte 61 (strip_dashes w)) eqn:E.
      - apply touched_value_unique; assumption.
      - pose proof (touched_le_candidates tbl WF t w E) as H. fold f in H.
        change (flat_map (entry t w) tbl) with (flat_map f tbl) in H.
        assert (LL : List.length (sort_strs (flat_map f tbl)) = 1%nat) by (rewrite S; reflexivity).
        rewrite sort_strs_length in LL. lia. }
    rewrite !last_opt_touched. rewrite (perm_short _ _ (touched_perm (strip_dashes w) tbl tbl' P) L). reflexivity.
  Qed.
End CPerm.
