(* Invariants of the transition system of Graph.Run (C13, C14, C15). *)
From GO Require Import Base.Str Base.Utf8 Base.Sort Model.Tree Model.Dag Proofs.DagHold.
Open Scope N_scope.

Definition alive (t : thread) : bool :=
  match t with Waiting | Running _ | Finished _ => true | _ => false end.

Section Inv.
  Variable g : graph.
  Variable cf : config.
  Notation dstep := (dstep g cf).
  Notation children := (children g).
  Notation parents := (parents g).

  (* edges are recorded on both ends (TaskDependsOn appends to Children and Parents together) *)
  Hypothesis SYM : forall p c, In c (children p) <-> In p (parents c).

  Record Inv (st : dstate) : Prop := mkInv {
    h_iff : forall v, In v (d_holders st) <-> thread_holds (d_thread st v) = true;
    h_nodup : NoDup (d_holders st);
    h_cap : N.of_nat (length (d_holders st)) <= cf_cap cf;
    h_env : forall v, d_envlock st v = true -> thread_holds (d_thread st v) = false;
    t_alive : forall v, alive (d_thread st v) = true -> d_status st v = InProgress;
    t_unmarked : forall v, d_thread st v <> NotSpawned -> ~ In v (d_marked st);
    t_okdone : forall c, In c (d_okdone st) -> d_thread st c = Gone;
    t_down : forall a, d_thread st a <> NotSpawned -> forall c, In c (children a) -> In c (d_okdone st);
    t_notpending : forall v, d_thread st v <> NotSpawned -> d_status st v <> Pending;
    t_vids : forall v, d_thread st v <> NotSpawned -> In v (vids g);
    m_status : forall v, In v (d_marked st) -> d_status st v <> Pending;
    m_up : forall c p, In c (d_marked st) -> In p (parents c) -> In p (d_marked st);
    m_sp : forall c p, In c (d_sp st) -> In p (parents c) -> In p (d_marked st);
    m_done : forall c, d_status st c = Done ->
                       In c (d_okdone st) \/ d_errs st <> [] \/ In c (d_marked st) \/ In c (d_sp st);
    m_skip : forall c, d_status st c = Skip -> In c (d_marked st);
    p_nil : forall c, In (c, false) (d_pseudo st) -> In c (d_marked st);
    p_err : forall c, In (c, true) (d_pseudo st) -> d_errs st <> [];
    p_notpending : forall c b, In (c, b) (d_pseudo st) -> d_status st c <> Pending;
    p_notalive : forall c b, In (c, b) (d_pseudo st) -> alive (d_thread st c) = false;
    s_serial : cf_serial cf = true -> forall u v, alive (d_thread st u) = true -> alive (d_thread st v) = true -> u = v
  }.

  Lemma inv_init : Inv (init_state []).
  Proof.
    constructor; simpl; try (intros; congruence); try tauto; try discriminate.
    - intros v. split; [tauto | discriminate].
    - constructor.
    - lia.
  Qed.

  (* ---- skipParents ---- *)

  Definition sp_acc := ((vid -> status) * list vid)%type.

  (* what the recursion changes is set to Skip and recorded; nothing is unrecorded; the record grows *)
  Definition sp_rel (a r : sp_acc) : Prop :=
    (forall u, fst r u = fst a u \/ (fst r u = Skip /\ In u (snd r))) /\
    (forall u, In u (snd a) -> In u (snd r)) /\
    (forall u, In u (snd r) -> In u (snd a) \/ fst r u = Skip).

  Lemma sp_rel_refl a : sp_rel a a.
  Proof. repeat split; auto. Qed.

  Lemma sp_rel_trans a b c : sp_rel a b -> sp_rel b c -> sp_rel a c.
  Proof.
    intros (A1 & A2 & A3) (B1 & B2 & B3). repeat split.
    - intros u. destruct (B1 u) as [E|E]; [|right; exact E].
      destruct (A1 u) as [E1|[E1 I1]]; [left; congruence|].
      right. split; [congruence | apply B2; exact I1].
    - intros u I. apply B2, A2, I.
    - intros u I. destruct (B3 u I) as [Ib|Sk]; [|right; exact Sk].
      destruct (A3 u Ib) as [Ia|Sk]; [left; exact Ia|].
      right. destruct (B1 u) as [E|[E _]]; congruence.
  Qed.

  Lemma sp_rel_mark a p : sp_rel a (upd (fst a) p Skip, p :: snd a).
  Proof.
    repeat split; simpl.
    - intros u. destruct (str_eq_dec u p) as [->|N].
      + right. rewrite upd_same. split; [reflexivity | left; reflexivity].
      + left. apply upd_other. exact N.
    - intros u I. right. exact I.
    - intros u [<-|I]; [right; apply upd_same | left; exact I].
  Qed.

  Lemma skip_parents_spec fuel : forall v (acc : sp_acc), sp_rel acc (skip_parents g fuel v acc).
  Proof.
    induction fuel as [|f IH]; intros v acc; simpl; [apply sp_rel_refl|].
    generalize (Dag.parents g v) as ps. intros ps. revert acc.
    induction ps as [|p ps IHp]; intros acc; simpl; [apply sp_rel_refl|].
    eapply sp_rel_trans; [|apply IHp].
    eapply sp_rel_trans; [apply sp_rel_mark | apply IH].
  Qed.

  (* every vertex reached by the recursion from an unfinished vertex has no real thread *)
  Definition unfinished (st : dstate) (x : vid) : Prop := ~ In x (d_okdone st).

  Lemma parents_unspawned st x p :
    Inv st -> unfinished st x -> In p (parents x) -> d_thread st p = NotSpawned.
  Proof.
    intros I U Ip. destruct (d_thread st p) eqn:T; try reflexivity; exfalso; apply U;
      apply (t_down st I p); try (rewrite T; discriminate); apply SYM; exact Ip.
  Qed.

  Lemma unspawned_unfinished st p : Inv st -> d_thread st p = NotSpawned -> unfinished st p.
  Proof. intros I T O. apply (t_okdone st I) in O. congruence. Qed.

  Lemma skip_parents_unspawned st fuel : Inv st -> forall v (acc : sp_acc),
    unfinished st v ->
    let r := skip_parents g fuel v acc in
    forall u, (fst r u <> fst acc u \/ (In u (snd r) /\ ~ In u (snd acc))) -> d_thread st u = NotSpawned.
  Proof.
    intros I. induction fuel as [|f IH]; intros v acc U; simpl.
    - intros u [H|[H1 H2]]; [congruence | contradiction].
    - assert (PU : forall p, In p (Dag.parents g v) -> d_thread st p = NotSpawned).
      { intros p Ip. eapply parents_unspawned; eauto. }
      revert PU. generalize (Dag.parents g v) as ps. intros ps. revert acc.
      induction ps as [|p ps IHp]; intros acc PU; simpl.
      + intros u [H|[H1 H2]]; [congruence | contradiction].
      + set (acc0 := (upd (fst acc) p Skip, p :: snd acc)).
        set (acc1 := skip_parents g f p acc0).
        assert (Tp : d_thread st p = NotSpawned) by (apply PU; left; reflexivity).
        pose proof (IH p acc0 (unspawned_unfinished st p I Tp)) as A. fold acc1 in A. simpl in A.
        assert (PU' : forall q, In q ps -> d_thread st q = NotSpawned) by (intros q Iq; apply PU; right; exact Iq).
        pose proof (IHp acc1 PU') as B. simpl in B.
        intros u H.
        destruct (str_eq_dec u p) as [->|N]; [exact Tp|].
        (* either the tail changed u relative to acc1, or acc1 differs from acc at u *)
        destruct (thread_eq_dec_ns (d_thread st u)) as [E|E]; [exact E|]. exfalso.
        assert (NB : ~ (fst (List.fold_left (fun a q => skip_parents g f q (upd (fst a) q Skip, q :: snd a)) ps acc1) u <> fst acc1 u \/
                        (In u (snd (List.fold_left (fun a q => skip_parents g f q (upd (fst a) q Skip, q :: snd a)) ps acc1)) /\ ~ In u (snd acc1)))).
        { intros X. apply E. apply B. exact X. }
        assert (NA : ~ (fst acc1 u <> fst acc0 u \/ (In u (snd acc1) /\ ~ In u (snd acc0)))).
        { intros X. apply E. apply A. exact X. }
        destruct H as [H|[H1 H2]].
        * apply H. 
          destruct (status_eq_dec (fst (List.fold_left (fun a q => skip_parents g f q (upd (fst a) q Skip, q :: snd a)) ps acc1) u) (fst acc1 u)) as [E1|E1];
            [|exfalso; apply NB; left; exact E1].
          rewrite E1.
          destruct (status_eq_dec (fst acc1 u) (fst acc0 u)) as [E2|E2]; [|exfalso; apply NA; left; exact E2].
          rewrite E2. unfold acc0. simpl. apply upd_other. exact N.
        * destruct (in_dec str_eq_dec u (snd acc1)) as [I1|I1].
          -- apply NA. right. split; [exact I1|]. unfold acc0. simpl. intros [C|C]; [congruence | contradiction].
          -- apply NB. right. split; assumption.
  Qed.

  (* ---- facts about one completion being received ---- *)

  Lemma up_closed_spec v mk : up_closed g v mk = true ->
    (forall p, In p (parents v) -> In p mk) /\ (forall c p, In c mk -> In p (parents c) -> In p mk).
  Proof.
    unfold up_closed. rewrite Bool.andb_true_iff, !forallb_forall. intros [A B]. split.
    - intros p Ip. apply mem_str_In. apply A. exact Ip.
    - intros c p Ic Ip. specialize (B c Ic). rewrite forallb_forall in B. apply mem_str_In. apply B. exact Ip.
  Qed.

  Lemma errs_app_nonnil (l : list gerr) e : l ++ [e] <> [].
  Proof. destruct l; discriminate. Qed.

  Lemma ctx_check_fields st :
    d_status (ctx_check st) = d_status st /\ d_thread (ctx_check st) = d_thread st /\
    d_pseudo (ctx_check st) = d_pseudo st /\ d_holders (ctx_check st) = d_holders st /\
    d_envlock (ctx_check st) = d_envlock st /\ d_okdone (ctx_check st) = d_okdone st /\
    d_marked (ctx_check st) = d_marked st /\ d_sp (ctx_check st) = d_sp st /\
    (d_errs st <> [] -> d_errs (ctx_check st) <> []) /\ (d_errs (ctx_check st) = [] -> d_errs st = []).
  Proof.
    unfold ctx_check. destruct (d_cancelled st && negb (d_handled st))%bool; simpl; repeat split; auto.
    - intros _. apply errs_app_nonnil.
    - intros H. destruct (d_errs st); [reflexivity | discriminate].
  Qed.

  Lemma inv_ctx_check st : Inv st -> Inv (ctx_check st).
  Proof.
    intros I. destruct (ctx_check_fields st) as (E1 & E2 & E3 & E4 & E5 & E6 & E7 & E8 & E9 & _).
    destruct I. constructor; rewrite ?E1, ?E2, ?E3, ?E4, ?E5, ?E6, ?E7, ?E8; auto.
    - intros c D. destruct (m_done0 c D) as [H|[H|H]]; auto.
    - intros c Ic. apply E9. eauto.
  Qed.

  (* the status function never goes back to Pending *)
  Definition no_new_pending (s s' : vid -> status) : Prop := forall u, s' u = Pending -> s u = Pending.

  Lemma inv_recv_real st v st' : Inv st -> dstep st (LRecvReal v) = Some st' -> Inv st'.
  Proof.
    intros I S. unfold Dag.dstep in S. destruct (d_returned st); [discriminate|].
    - (* ---- a real completion is received ---- *)
      destruct (d_thread st v) eqn:T; try discriminate.
      assert (Uv : unfinished st v).
      { intros O. apply (t_okdone st I) in O. congruence. }
      unfold receive in S. destruct r.
      + (* nil *)
        inversion S; subst; clear S. destruct I. constructor; simpl.
        * intros x. rewrite (remove_str_In x v _ h_nodup0). destruct (str_eq_dec x v) as [->|N].
          -- rewrite upd_same. simpl. split; [tauto | discriminate].
          -- rewrite (upd_other _ _ _ _ N). rewrite h_iff0. tauto.
        * apply remove_str_NoDup. assumption.
        * pose proof (remove_str_length v (d_holders st)). lia.
        * intros x E. destruct (str_eq_dec x v) as [->|N]; [rewrite upd_same; reflexivity|]. rewrite (upd_other _ _ _ _ N). auto.
        * intros x A. destruct (str_eq_dec x v) as [->|N]; [rewrite upd_same in A; discriminate|].
          rewrite ?(upd_other (d_thread st) v Gone x N) in *; rewrite ?(upd_other (d_status st) v Done x N) in *; auto.
        * intros x A. destruct (str_eq_dec x v) as [->|N]; [apply t_unmarked0; congruence|].
          rewrite (upd_other _ _ _ _ N) in A. auto.
        * intros c [<-|Ic]; [apply upd_same|]. destruct (str_eq_dec c v) as [->|N]; [apply upd_same|].
          rewrite (upd_other _ _ _ _ N). auto.
        * intros a A c Ic. right. destruct (str_eq_dec a v) as [->|N]; [apply (t_down0 v); [congruence | exact Ic]|].
          rewrite (upd_other _ _ _ _ N) in A. eauto.
        * intros x A. destruct (str_eq_dec x v) as [->|N]; [rewrite upd_same; discriminate|].
          rewrite ?(upd_other (d_thread st) v Gone x N) in *; rewrite ?(upd_other (d_status st) v Done x N) in *; auto.
        * intros x A. destruct (str_eq_dec x v) as [->|N]; [apply t_vids0; congruence|].
          rewrite (upd_other _ _ _ _ N) in A. auto.
        * intros x Ix. destruct (str_eq_dec x v) as [->|N]; [rewrite upd_same; discriminate|].
          rewrite (upd_other _ _ _ _ N). auto.
        * auto.
        * auto.
        * intros c D. destruct (str_eq_dec c v) as [->|N]; [left; left; reflexivity|].
          rewrite (upd_other _ _ _ _ N) in D. destruct (m_done0 c D) as [H|[H|H]]; auto.
        * intros c D. destruct (str_eq_dec c v) as [->|N]; [rewrite upd_same in D; discriminate|].
          rewrite (upd_other _ _ _ _ N) in D. auto.
        * auto.
        * auto.
        * intros c b Ic. destruct (str_eq_dec c v) as [->|N]; [rewrite upd_same; discriminate|].
          rewrite (upd_other _ _ _ _ N). eauto.
        * intros c b Ic. destruct (str_eq_dec c v) as [->|N]; [rewrite upd_same; reflexivity|].
          rewrite (upd_other _ _ _ _ N). eauto.
        * intros Se x y Ax Ay.
          destruct (str_eq_dec x v) as [->|Nx]; [rewrite upd_same in Ax; discriminate|].
          destruct (str_eq_dec y v) as [->|Ny]; [rewrite upd_same in Ay; discriminate|].
          rewrite (upd_other _ _ _ _ Nx) in Ax. rewrite (upd_other _ _ _ _ Ny) in Ay. eauto.
      + (* error *)
        inversion S; subst; clear S. destruct I. constructor; simpl.
        * intros x. rewrite (remove_str_In x v _ h_nodup0). destruct (str_eq_dec x v) as [->|N].
          -- rewrite upd_same. simpl. split; [tauto | discriminate].
          -- rewrite (upd_other _ _ _ _ N). rewrite h_iff0. tauto.
        * apply remove_str_NoDup. assumption.
        * pose proof (remove_str_length v (d_holders st)). lia.
        * intros x E. destruct (str_eq_dec x v) as [->|N]; [rewrite upd_same; reflexivity|]. rewrite (upd_other _ _ _ _ N). auto.
        * intros x A. destruct (str_eq_dec x v) as [->|N]; [rewrite upd_same in A; discriminate|].
          rewrite ?(upd_other (d_thread st) v Gone x N) in *; rewrite ?(upd_other (d_status st) v Done x N) in *; auto.
        * intros x A. destruct (str_eq_dec x v) as [->|N]; [apply t_unmarked0; congruence|].
          rewrite (upd_other _ _ _ _ N) in A. auto.
        * intros c Ic. destruct (str_eq_dec c v) as [->|N]; [apply upd_same|].
          rewrite (upd_other _ _ _ _ N). auto.
        * intros a A c Ic. destruct (str_eq_dec a v) as [->|N]; [apply (t_down0 v); [congruence | exact Ic]|].
          rewrite (upd_other _ _ _ _ N) in A. eauto.
        * intros x A. destruct (str_eq_dec x v) as [->|N]; [rewrite upd_same; discriminate|].
          rewrite ?(upd_other (d_thread st) v Gone x N) in *; rewrite ?(upd_other (d_status st) v Done x N) in *; auto.
        * intros x A. destruct (str_eq_dec x v) as [->|N]; [apply t_vids0; congruence|].
          rewrite (upd_other _ _ _ _ N) in A. auto.
        * intros x Ix. destruct (str_eq_dec x v) as [->|N]; [rewrite upd_same; discriminate|].
          rewrite (upd_other _ _ _ _ N). auto.
        * auto.
        * auto.
        * intros c D. right. left. apply errs_app_nonnil.
        * intros c D. destruct (str_eq_dec c v) as [->|N]; [rewrite upd_same in D; discriminate|].
          rewrite (upd_other _ _ _ _ N) in D. auto.
        * auto.
        * intros c Ic. apply errs_app_nonnil.
        * intros c b Ic. destruct (str_eq_dec c v) as [->|N]; [rewrite upd_same; discriminate|].
          rewrite (upd_other _ _ _ _ N). eauto.
        * intros c b Ic. destruct (str_eq_dec c v) as [->|N]; [rewrite upd_same; reflexivity|].
          rewrite (upd_other _ _ _ _ N). eauto.
        * intros Se x y Ax Ay.
          destruct (str_eq_dec x v) as [->|Nx]; [rewrite upd_same in Ax; discriminate|].
          destruct (str_eq_dec y v) as [->|Ny]; [rewrite upd_same in Ay; discriminate|].
          rewrite (upd_other _ _ _ _ Nx) in Ax. rewrite (upd_other _ _ _ _ Ny) in Ay. eauto.
      + (* ErrorSkipParents *)
        pose proof (skip_parents_spec (List.length (vids g)) v (upd (d_status st) v Done, d_marked st)) as (R1 & R2 & R3).
        pose proof (skip_parents_unspawned st (List.length (vids g)) I v (upd (d_status st) v Done, d_marked st) Uv) as RU.
        destruct (skip_parents g (List.length (vids g)) v (upd (d_status st) v Done, d_marked st)) as [s2 mk] eqn:SK.
        simpl in R1, R2, R3, RU.
        destruct (up_closed g v mk) eqn:UC; [|discriminate]. apply up_closed_spec in UC as [UC1 UC2].
        inversion S; subst; clear S.
        (* vertices with a real thread keep their status and stay unmarked *)
        assert (KEEP : forall u, d_thread st u <> NotSpawned -> s2 u = upd (d_status st) v Done u /\ (In u mk -> In u (d_marked st))).
        { intros u Tu. split.
          - destruct (status_eq_dec (s2 u) (upd (d_status st) v Done u)) as [E|E]; [exact E|].
            exfalso. apply Tu. apply RU. left. exact E.
          - intros Iu. destruct (in_dec str_eq_dec u (d_marked st)) as [Y|Nn]; [exact Y|].
            exfalso. apply Tu. apply RU. right. split; assumption. }
        destruct I. constructor; simpl.
        * intros x. rewrite (remove_str_In x v _ h_nodup0). destruct (str_eq_dec x v) as [->|N].
          -- rewrite upd_same. simpl. split; [tauto | discriminate].
          -- rewrite (upd_other _ _ _ _ N). rewrite h_iff0. tauto.
        * apply remove_str_NoDup. assumption.
        * pose proof (remove_str_length v (d_holders st)). lia.
        * intros x E. destruct (str_eq_dec x v) as [->|N]; [rewrite upd_same; reflexivity|]. rewrite (upd_other _ _ _ _ N). auto.
        * intros x A. destruct (str_eq_dec x v) as [->|N]; [rewrite upd_same in A; discriminate|].
          rewrite (upd_other _ _ _ _ N) in A.
          assert (Tx : d_thread st x <> NotSpawned) by (destruct (d_thread st x); discriminate).
          destruct (KEEP x Tx) as [E _]. rewrite E, (upd_other _ _ _ _ N). auto.
        * intros x A. destruct (str_eq_dec x v) as [->|N].
          -- intros Iv. apply (t_unmarked0 v); [congruence|]. apply (KEEP v); [congruence | exact Iv].
          -- rewrite (upd_other _ _ _ _ N) in A. intros Ix. apply (t_unmarked0 x A). apply (KEEP x A). exact Ix.
        * intros c Ic. destruct (str_eq_dec c v) as [->|N]; [apply upd_same|].
          rewrite (upd_other _ _ _ _ N). auto.
        * intros a A c Ic. destruct (str_eq_dec a v) as [->|N]; [apply (t_down0 v); [congruence | exact Ic]|].
          rewrite (upd_other _ _ _ _ N) in A. eauto.
        * intros x A. destruct (str_eq_dec x v) as [->|N].
          -- destruct (KEEP v) as [E _]; [congruence|]. rewrite E, upd_same. discriminate.
          -- rewrite (upd_other _ _ _ _ N) in A. destruct (KEEP x A) as [E _]. rewrite E, (upd_other _ _ _ _ N). auto.
        * intros x A. destruct (str_eq_dec x v) as [->|N]; [apply t_vids0; congruence|].
          rewrite (upd_other _ _ _ _ N) in A. auto.
        * intros x Ix. destruct (R3 x Ix) as [Old|Sk]; [|rewrite Sk; discriminate].
          destruct (R1 x) as [E|[E _]]; [|rewrite E; discriminate]. rewrite E.
          destruct (str_eq_dec x v) as [->|N]; [rewrite upd_same; discriminate|].
          rewrite (upd_other _ _ _ _ N). auto.
        * exact UC2.
        * intros c p [<-|Ic] Ip; [apply UC1; exact Ip | apply R2; eauto].
        * intros c D. destruct (R1 c) as [E|[E _]]; [|congruence]. rewrite E in D.
          destruct (str_eq_dec c v) as [->|N]; [right; right; right; left; reflexivity|].
          rewrite (upd_other _ _ _ _ N) in D. destruct (m_done0 c D) as [H|[H|[H|H]]]; auto.
        * intros c D. destruct (R1 c) as [E|[_ Ic]]; [|exact Ic]. rewrite E in D.
          destruct (str_eq_dec c v) as [->|N]; [rewrite upd_same in D; discriminate|].
          rewrite (upd_other _ _ _ _ N) in D. apply R2. auto.
        * intros c Ic. apply R2. auto.
        * auto.
        * intros c b Ic. destruct (R1 c) as [E|[E _]]; [|rewrite E; discriminate]. rewrite E.
          destruct (str_eq_dec c v) as [->|N]; [rewrite upd_same; discriminate|].
          rewrite (upd_other _ _ _ _ N). eauto.
        * intros c b Ic. destruct (str_eq_dec c v) as [->|N]; [rewrite upd_same; reflexivity|].
          rewrite (upd_other _ _ _ _ N). eauto.
        * intros Se x y Ax Ay.
          destruct (str_eq_dec x v) as [->|Nx]; [rewrite upd_same in Ax; discriminate|].
          destruct (str_eq_dec y v) as [->|Ny]; [rewrite upd_same in Ay; discriminate|].
          rewrite (upd_other _ _ _ _ Nx) in Ax. rewrite (upd_other _ _ _ _ Ny) in Ay. eauto.
  Qed.

  Lemma remove_pseudo_In x l r : remove_pseudo x l = Some r -> In x l /\ (forall y, In y r -> In y l).
  Proof.
    revert r; induction l as [|y l IH]; intros r H; simpl in H; [discriminate|].
    destruct (str_eqb (fst x) (fst y) && Bool.eqb (snd x) (snd y))%bool eqn:E.
    - inversion H; subst. apply Bool.andb_true_iff in E as [E1 E2].
      apply str_eqb_eq in E1. apply Bool.eqb_prop in E2. split; [left; destruct x, y; simpl in *; congruence | intros z Iz; right; exact Iz].
    - destruct (remove_pseudo x l) as [r'|]; [|discriminate]. inversion H; subst.
      destruct (IH r' eq_refl) as [A B]. split; [right; exact A|]. intros z [->|Iz]; [left; reflexivity | right; auto].
  Qed.

  Lemma inv_recv_pseudo st v b st' : Inv st -> dstep st (LRecvPseudo v b) = Some st' -> Inv st'.
  Proof.
    intros I S. unfold Dag.dstep in S. destruct (d_returned st); [discriminate|].
    destruct (remove_pseudo (v, b) (d_pseudo st)) as [ps|] eqn:RP; [|discriminate].
    apply remove_pseudo_In in RP as [Iv Sub].
    assert (NA : alive (d_thread st v) = false) by (eapply (p_notalive st I); eauto).
    unfold receive in S. destruct b; simpl in S; inversion S; subst; clear S; destruct I; constructor; simpl; auto.
    - intros x A. destruct (str_eq_dec x v) as [->|N]; [congruence|]. rewrite (upd_other _ _ _ _ N). auto.
    - intros x A. destruct (str_eq_dec x v) as [->|N]; [rewrite upd_same; discriminate|]. rewrite (upd_other _ _ _ _ N). auto.
    - intros x A. destruct (str_eq_dec x v) as [->|N]; [rewrite upd_same; discriminate|]. rewrite (upd_other _ _ _ _ N). auto.
    - intros c D. right. left. apply errs_app_nonnil.
    - intros c D. destruct (str_eq_dec c v) as [->|N]; [rewrite upd_same in D; discriminate|]. rewrite (upd_other _ _ _ _ N) in D. auto.
    - intros c Ic. apply errs_app_nonnil.
    - intros c b Ic. destruct (str_eq_dec c v) as [->|N]; [rewrite upd_same; discriminate|]. rewrite (upd_other _ _ _ _ N). eauto.
    - intros c b Ic. eauto.
    - intros x A. destruct (str_eq_dec x v) as [->|N]; [congruence|]. rewrite (upd_other _ _ _ _ N). auto.
    - intros x A. destruct (str_eq_dec x v) as [->|N]; [rewrite upd_same; discriminate|]. rewrite (upd_other _ _ _ _ N). auto.
    - intros x A. destruct (str_eq_dec x v) as [->|N]; [rewrite upd_same; discriminate|]. rewrite (upd_other _ _ _ _ N). auto.
    - intros c D. destruct (str_eq_dec c v) as [->|N]; [right; right; left; eauto|].
      rewrite (upd_other _ _ _ _ N) in D. auto.
    - intros c D. destruct (str_eq_dec c v) as [->|N]; [rewrite upd_same in D; discriminate|]. rewrite (upd_other _ _ _ _ N) in D. auto.
    - intros c Ic. eauto.
    - intros c b Ic. destruct (str_eq_dec c v) as [->|N]; [rewrite upd_same; discriminate|]. rewrite (upd_other _ _ _ _ N). eauto.
    - intros c b Ic. eauto.
  Qed.

  Lemma eligible_spec st v : eligible g st v = true ->
    (d_status st v = Pending \/ d_status st v = Skip) /\
    (forall c, In c (children v) -> d_status st c = Done \/ d_status st c = Skip).
  Proof.
    unfold eligible. rewrite Bool.andb_true_iff, forallb_forall. intros [A B]. split.
    - destruct (d_status st v); simpl in A; auto; discriminate.
    - intros c Ic. specialize (B c Ic). destruct (d_status st c); simpl in B; auto; discriminate.
  Qed.

  Lemma not_serial_blocked st : serial_blocked g cf st = false ->
    cf_serial cf = true -> forall u, In u (vids g) -> d_status st u <> InProgress.
  Proof.
    unfold serial_blocked, any_in_progress. intros H Se u Iu E. rewrite Se in H. simpl in H.
    assert (X : existsb (fun v => status_eqb (d_status st v) InProgress) (vids g) = true).
    { apply existsb_exists. exists u. split; [exact Iu | rewrite E; reflexivity]. }
    congruence.
  Qed.

  Lemma inv_pick st v st' : Inv st -> dstep st (LPick v) = Some st' -> Inv st'.
  Proof.
    intros I0 S. unfold Dag.dstep in S. destruct (d_returned st); [discriminate|].
    destruct (mem_str v (vids g)) eqn:MV; [|discriminate].
    destruct (serial_blocked g cf st) eqn:SB; [discriminate|].
    destruct (eligible g st v) eqn:EL; [|discriminate]. simpl in S.
    apply mem_str_In in MV. apply eligible_spec in EL as [ELv ELc].
    pose proof (inv_ctx_check st I0) as I.
    destruct (ctx_check_fields st) as (E1 & E2 & E3 & E4 & E5 & E6 & E7 & E8 & E9 & E10).
    assert (NAv : alive (d_thread st v) = false).
    { destruct (alive (d_thread st v)) eqn:A; [|reflexivity]. apply (t_alive st I0) in A. destruct ELv; congruence. }
    destruct (status_eqb (d_status (ctx_check st) v) Skip) eqn:SK.
    - (* a skipped vertex: helper goroutine *)
      assert (Sv : d_status st v = Skip) by (rewrite E1 in SK; destruct (d_status st v); simpl in SK; congruence).
      inversion S; subst; clear S. destruct I. rewrite E1, E2, E3, E4, E5, E6, E7, E8 in *. constructor; simpl; auto.
      + intros x A. destruct (str_eq_dec x v) as [->|N]; [apply upd_same|]. rewrite (upd_other _ _ _ _ N). auto.
      + intros x A. destruct (str_eq_dec x v) as [->|N]; [rewrite upd_same; discriminate|]. rewrite (upd_other _ _ _ _ N). auto.
      + intros x A. destruct (str_eq_dec x v) as [->|N]; [rewrite upd_same; discriminate|]. rewrite (upd_other _ _ _ _ N). auto.
      + intros c D. destruct (str_eq_dec c v) as [->|N]; [rewrite upd_same in D; discriminate|]. rewrite (upd_other _ _ _ _ N) in D. auto.
      + intros c D. destruct (str_eq_dec c v) as [->|N]; [rewrite upd_same in D; discriminate|]. rewrite (upd_other _ _ _ _ N) in D. auto.
      + intros c Ic. apply in_app_or in Ic as [Ic|[Ic|[]]]; [auto|]. inversion Ic; subst. auto.
      + intros c Ic. apply in_app_or in Ic as [Ic|[Ic|[]]]; [eauto | inversion Ic].
      + intros c b Ic. destruct (str_eq_dec c v) as [->|N]; [rewrite upd_same; discriminate|]. rewrite (upd_other _ _ _ _ N).
        apply in_app_or in Ic as [Ic|[Ic|[]]]; [eauto | inversion Ic; congruence].
      + intros c b Ic. apply in_app_or in Ic as [Ic|[Ic|[]]]; [eauto | inversion Ic; subst; exact NAv].
    - assert (Pv : d_status st v = Pending).
      { rewrite E1 in SK. destruct ELv as [P|P]; [exact P | rewrite P in SK; discriminate]. }
      destruct (d_errs (ctx_check st)) as [|e0 es] eqn:ER.
      + (* a real thread *)
        pose proof (E10 eq_refl) as ER0.
        assert (Tv : d_thread st v = NotSpawned).
        { destruct (thread_eq_dec_ns (d_thread st v)) as [T|T]; [exact T|]. exfalso. exact (t_notpending st I0 v T Pv). }
        assert (NMv : ~ In v (d_marked st)) by (intros M; exact (m_status st I0 v M Pv)).
        assert (DOWN : forall c, In c (children v) -> In c (d_okdone st)).
        { intros c Ic. assert (Pc : In v (parents c)) by (apply SYM; exact Ic).
          destruct (ELc c Ic) as [D|Sc].
          - destruct (m_done st I0 c D) as [H|[H|[H|H]]]; [exact H | congruence | |].
            + exfalso. apply NMv. eapply (m_up st I0); eauto.
            + exfalso. apply NMv. eapply (m_sp st I0); eauto.
          - exfalso. apply NMv. eapply (m_up st I0); [eapply (m_skip st I0); exact Sc | exact Pc]. }
        inversion S; subst; clear S. destruct I. rewrite E1, E2, E3, E4, E5, E6, E7, E8 in *. constructor; simpl; auto.
        * intros x. destruct (str_eq_dec x v) as [->|N].
          -- rewrite upd_same. simpl. rewrite h_iff0, Tv. simpl. tauto.
          -- rewrite (upd_other _ _ _ _ N). apply h_iff0.
        * intros x Ex. destruct (str_eq_dec x v) as [->|N]; [rewrite upd_same; reflexivity|]. rewrite (upd_other _ _ _ _ N). auto.
        * intros x A. destruct (str_eq_dec x v) as [->|N]; [apply upd_same|].
          rewrite (upd_other _ _ _ _ N) in A. rewrite (upd_other _ _ _ _ N). auto.
        * intros x A. destruct (str_eq_dec x v) as [->|N]; [exact NMv|]. rewrite (upd_other _ _ _ _ N) in A. auto.
        * intros c Ic. destruct (str_eq_dec c v) as [->|N]; [exfalso; apply t_okdone0 in Ic; congruence|].
          rewrite (upd_other _ _ _ _ N). auto.
        * intros a A c Ic. destruct (str_eq_dec a v) as [->|N]; [apply DOWN; exact Ic|].
          rewrite (upd_other _ _ _ _ N) in A. eauto.
        * intros x A. destruct (str_eq_dec x v) as [->|N]; [rewrite upd_same; discriminate|].
          rewrite (upd_other _ _ _ _ N) in A. rewrite (upd_other _ _ _ _ N). auto.
        * intros x A. destruct (str_eq_dec x v) as [->|N]; [exact MV|]. rewrite (upd_other _ _ _ _ N) in A. auto.
        * intros x Ix. destruct (str_eq_dec x v) as [->|N]; [rewrite upd_same; discriminate|]. rewrite (upd_other _ _ _ _ N). auto.
        * intros c D. destruct (str_eq_dec c v) as [->|N]; [rewrite upd_same in D; discriminate|].
          rewrite (upd_other _ _ _ _ N) in D. destruct (m_done0 c D) as [H|[H|H]]; auto.
        * intros c D. destruct (str_eq_dec c v) as [->|N]; [rewrite upd_same in D; discriminate|]. rewrite (upd_other _ _ _ _ N) in D. auto.
        * intros c Ic. exfalso. apply p_err0 in Ic. congruence.
        * intros c b Ic. destruct (str_eq_dec c v) as [->|N]; [rewrite upd_same; discriminate|]. rewrite (upd_other _ _ _ _ N). eauto.
        * intros c b Ic. destruct (str_eq_dec c v) as [->|N]; [exfalso; eapply p_notpending0; eauto|].
          rewrite (upd_other _ _ _ _ N). eauto.
        * intros Se x y Ax Ay.
          assert (ONLY : forall u, u <> v -> alive (d_thread st u) = true -> False).
          { intros u Nu Au. assert (Tu : d_thread st u <> NotSpawned) by (destruct (d_thread st u); discriminate).
            eapply (not_serial_blocked st SB Se u); [apply t_vids0; exact Tu | apply t_alive0; exact Au]. }
          destruct (str_eq_dec x v) as [->|Nx]; destruct (str_eq_dec y v) as [->|Ny]; try reflexivity; exfalso.
          -- rewrite (upd_other _ _ _ _ Ny) in Ay. eauto.
          -- rewrite (upd_other _ _ _ _ Nx) in Ax. eauto.
          -- rewrite (upd_other _ _ _ _ Nx) in Ax. eauto.
      + (* errors are recorded: helper goroutine reporting the vertex as skipped *)
        inversion S; subst; clear S. destruct I. rewrite E1, E2, E3, E4, E5, E6, E7, E8 in *. constructor; simpl; auto.
        * intros x A. destruct (str_eq_dec x v) as [->|N]; [apply upd_same|]. rewrite (upd_other _ _ _ _ N). auto.
        * intros x A. destruct (str_eq_dec x v) as [->|N]; [rewrite upd_same; discriminate|]. rewrite (upd_other _ _ _ _ N). auto.
        * intros x A. destruct (str_eq_dec x v) as [->|N]; [rewrite upd_same; discriminate|]. rewrite (upd_other _ _ _ _ N). auto.
        * intros c D. right. left. discriminate.
        * intros c D. destruct (str_eq_dec c v) as [->|N]; [rewrite upd_same in D; discriminate|]. rewrite (upd_other _ _ _ _ N) in D. auto.
        * intros c Ic. apply in_app_or in Ic as [Ic|[Ic|[]]]; [auto | inversion Ic].
        * intros c Ic. discriminate.
        * intros c b Ic. destruct (str_eq_dec c v) as [->|N]; [rewrite upd_same; discriminate|]. rewrite (upd_other _ _ _ _ N).
          apply in_app_or in Ic as [Ic|[Ic|[]]]; [eauto | inversion Ic; congruence].
        * intros c b Ic. apply in_app_or in Ic as [Ic|[Ic|[]]]; [eauto | inversion Ic; subst; exact NAv].
  Qed.

  Lemma inv_idle st st' : Inv st -> dstep st LIdle = Some st' -> Inv st'.
  Proof.
    intros I S. unfold Dag.dstep in S. destruct (d_returned st); [discriminate|].
    destruct ((serial_blocked g cf st || negb (existsb (eligible g st) (vids g))) && _)%bool; [|discriminate].
    inversion S; subst. apply inv_ctx_check. exact I.
  Qed.

  Lemma inv_return st st' : Inv st -> dstep st LReturn = Some st' -> Inv st'.
  Proof.
    intros I S. unfold Dag.dstep in S. destruct (d_returned st); [discriminate|].
    destruct (negb (serial_blocked g cf st) && _ && _)%bool; [|discriminate].
    inversion S; subst. destruct I. constructor; simpl; auto.
  Qed.

  Lemma inv_cancel st st' : Inv st -> dstep st LCancel = Some st' -> Inv st'.
  Proof.
    intros I S. unfold Dag.dstep in S. destruct (d_returned st); [discriminate|].
    inversion S; subst. destruct I. constructor; simpl; auto.
  Qed.

  Lemma inv_envlock st v st' : Inv st -> dstep st (LEnvLock v) = Some st' -> Inv st'.
  Proof.
    intros I S. unfold Dag.dstep in S. destruct (d_returned st); [discriminate|].
    destruct (d_envlock st v) eqn:E; [discriminate|].
    destruct (thread_holds (d_thread st v)) eqn:T; [discriminate|]. simpl in S.
    inversion S; subst. destruct I. constructor; simpl; auto.
    intros x Ex. destruct (str_eq_dec x v) as [->|N]; [exact T|]. rewrite (upd_other _ _ _ _ N) in Ex. auto.
  Qed.

  Lemma inv_envunlock st v st' : Inv st -> dstep st (LEnvUnlock v) = Some st' -> Inv st'.
  Proof.
    intros I S. unfold Dag.dstep in S. destruct (d_returned st); [discriminate|].
    destruct (d_envlock st v) eqn:E; [|discriminate].
    inversion S; subst. destruct I. constructor; simpl; auto.
    intros x Ex. destruct (str_eq_dec x v) as [->|N]; [rewrite upd_same in Ex; discriminate|].
    rewrite (upd_other _ _ _ _ N) in Ex. auto.
  Qed.

  (* a thread that stays alive: Waiting -> Running / Finished, Running -> Running / Finished *)
  Lemma inv_thread_change st v t (hold' : list vid) (ret : bool) :
    Inv st -> alive (d_thread st v) = true -> alive t = true ->
    (forall x, In x hold' <-> thread_holds (upd (d_thread st) v t x) = true) -> NoDup hold' ->
    N.of_nat (length hold') <= cf_cap cf ->
    (d_envlock st v = true -> thread_holds t = false) ->
    Inv (mkD (d_status st) (upd (d_thread st) v t) (d_pseudo st) (d_errs st) (d_cancelled st) (d_handled st)
             hold' (d_envlock st) ret (d_okdone st) (d_marked st) (d_sp st)).
  Proof.
    intros I A At Hi Hn Hc He.
    assert (Tv : d_thread st v <> NotSpawned) by (destruct (d_thread st v); discriminate).
    assert (Tt : t <> NotSpawned) by (destruct t; discriminate).
    destruct I. constructor; simpl; auto.
    - intros x Ex. destruct (str_eq_dec x v) as [->|N]; [rewrite upd_same; auto|]. rewrite (upd_other _ _ _ _ N). auto.
    - intros x Ax. destruct (str_eq_dec x v) as [->|N]; [auto|]. rewrite (upd_other _ _ _ _ N) in Ax. auto.
    - intros x Ax. destruct (str_eq_dec x v) as [->|N]; [auto|]. rewrite (upd_other _ _ _ _ N) in Ax. auto.
    - intros c Ic. destruct (str_eq_dec c v) as [->|N].
      + exfalso. apply t_okdone0 in Ic. rewrite Ic in A. discriminate.
      + rewrite (upd_other _ _ _ _ N). auto.
    - intros a Aa c Ic. destruct (str_eq_dec a v) as [->|N]; [eauto|]. rewrite (upd_other _ _ _ _ N) in Aa. eauto.
    - intros x Ax. destruct (str_eq_dec x v) as [->|N]; [auto|]. rewrite (upd_other _ _ _ _ N) in Ax. auto.
    - intros x Ax. destruct (str_eq_dec x v) as [->|N]; [auto|]. rewrite (upd_other _ _ _ _ N) in Ax. auto.
    - intros c b Ic. destruct (str_eq_dec c v) as [->|N].
      + exfalso. pose proof (p_notalive0 v b Ic). congruence.
      + rewrite (upd_other _ _ _ _ N). eauto.
    - intros Se x y Ax Ay.
      assert (Ax' : alive (d_thread st x) = true).
      { destruct (str_eq_dec x v) as [->|N]; [exact A | rewrite (upd_other _ _ _ _ N) in Ax; exact Ax]. }
      assert (Ay' : alive (d_thread st y) = true).
      { destruct (str_eq_dec y v) as [->|N]; [exact A | rewrite (upd_other _ _ _ _ N) in Ay; exact Ay]. }
      eauto.
  Qed.

  Lemma inv_start st v st' : Inv st -> dstep st (LStart v) = Some st' -> Inv st'.
  Proof.
    intros I S. unfold Dag.dstep in S. destruct (d_returned st); [discriminate|].
    destruct (d_thread st v) eqn:T; try discriminate.
    destruct (N.ltb_spec (N.of_nat (length (d_holders st))) (cf_cap cf)) as [Lt|]; [|discriminate].
    destruct (d_envlock st v) eqn:E; [discriminate|]. simpl in S. inversion S; subst; clear S.
    assert (Nv : ~ In v (d_holders st)) by (rewrite (h_iff st I), T; discriminate).
    apply inv_thread_change; try assumption.
    - rewrite T. reflexivity.
    - destruct (Z.ltb _ 0); reflexivity.
    - intros x. destruct (str_eq_dec x v) as [->|N].
      + rewrite upd_same. split; [intros _; destruct (Z.ltb _ 0); reflexivity | left; reflexivity].
      + rewrite (upd_other _ _ _ _ N). rewrite <- (h_iff st I). simpl. split; [intros [C|X]; [congruence | exact X] | auto].
    - constructor; [exact Nv | apply (h_nodup st I)].
    - simpl length. rewrite Nat2N.inj_succ. lia.
    - congruence.
  Qed.

  Lemma inv_exit st v r st' : Inv st -> dstep st (LExit v r) = Some st' -> Inv st'.
  Proof.
    intros I S. unfold Dag.dstep in S. destruct (d_returned st); [discriminate|].
    destruct (d_thread st v) eqn:T; try discriminate. inversion S; subst; clear S. unfold set_thread.
    assert (Hv : thread_holds (d_thread st v) = true) by (rewrite T; reflexivity).
    apply inv_thread_change; try assumption.
    - rewrite T. reflexivity.
    - destruct (match r with ONil => true | _ => Z.leb (retries g v) (Z.of_nat k) end); reflexivity.
    - intros x. destruct (str_eq_dec x v) as [->|N].
      + rewrite upd_same. rewrite (h_iff st I), Hv. split; intros _; [|reflexivity].
        destruct (match r with ONil => true | _ => Z.leb (retries g v) (Z.of_nat k) end); reflexivity.
      + rewrite (upd_other _ _ _ _ N). apply (h_iff st I).
    - apply (h_nodup st I).
    - apply (h_cap st I).
    - intros Ev. rewrite (h_env st I v Ev) in Hv. discriminate.
  Qed.

  Theorem inv_step st l st' : Inv st -> dstep st l = Some st' -> Inv st'.
  Proof.
    intros I S. destruct l.
    - eapply inv_recv_real; eauto.
    - eapply inv_recv_pseudo; eauto.
    - eapply inv_pick; eauto.
    - eapply inv_idle; eauto.
    - eapply inv_return; eauto.
    - eapply inv_start; eauto.
    - eapply inv_exit; eauto.
    - eapply inv_cancel; eauto.
    - eapply inv_envlock; eauto.
    - eapply inv_envunlock; eauto.
  Qed.

  Theorem inv_steps ls : forall st st', Inv st -> dsteps g cf st ls = Some st' -> Inv st'.
  Proof.
    induction ls as [|l ls IH]; intros st st' H S; simpl in S; [inversion S; subst; exact H|].
    destruct (dstep st l) as [s1|] eqn:E; [|discriminate]. eapply IH; [|exact S]. eapply inv_step; eauto.
  Qed.

  (* every state of every run of the loop (the loop starts with no recorded error) *)
  Theorem inv_reachable ls st : dsteps g cf (init_state []) ls = Some st -> Inv st.
  Proof. apply inv_steps. apply inv_init. Qed.

  (* ---- C13 ---- *)

  (* a task function is entered only when every task it depends on has returned nil and that
     completion was received by the scheduler (hence, transitively, for all its dependencies) *)
  Theorem start_needs_dependencies st v st' :
    Inv st -> dstep st (LStart v) = Some st' -> forall c, In c (children v) -> In c (d_okdone st).
  Proof.
    intros I S c Ic. unfold Dag.dstep in S. destruct (d_returned st); [discriminate|].
    destruct (d_thread st v) eqn:T; try discriminate.
    apply (t_down st I v); [rewrite T; discriminate | exact Ic].
  Qed.

  (* okdone means exactly that: it only grows by receiving a real completion with nil *)
  Theorem okdone_grows_by_nil st l st' c :
    dstep st l = Some st' -> In c (d_okdone st') -> ~ In c (d_okdone st) ->
    l = LRecvReal c /\ d_thread st c = Finished ONil.
  Proof.
    intros S I' N. unfold Dag.dstep in S. destruct (d_returned st); [discriminate|].
    destruct l as [v|v b|v| | |v|v r| |v|v].
    - destruct (d_thread st v) eqn:T; try discriminate. unfold receive in S. destruct r.
      + inversion S; subst; clear S. simpl in I'. destruct I' as [<-|X]; [auto | contradiction].
      + inversion S; subst; clear S. simpl in I'. contradiction.
      + destruct (skip_parents g _ v _) as [s2 mk]. destruct (up_closed g v mk); [|discriminate].
        inversion S; subst; clear S. simpl in I'. contradiction.
    - destruct (remove_pseudo (v, b) (d_pseudo st)); [|discriminate]. unfold receive in S.
      destruct b; simpl in S; inversion S; subst; clear S; simpl in I'; contradiction.
    - destruct (mem_str v (vids g) && negb (serial_blocked g cf st) && eligible g st v)%bool; [|discriminate].
      destruct (ctx_check_fields st) as (_ & _ & _ & _ & _ & E6 & _).
      destruct (status_eqb _ Skip); [inversion S; subst; simpl in I'; rewrite E6 in I'; contradiction|].
      destruct (d_errs (ctx_check st)); inversion S; subst; simpl in I'; rewrite E6 in I'; contradiction.
    - destruct ((serial_blocked g cf st || negb (existsb (eligible g st) (vids g))) && _)%bool; [|discriminate].
      inversion S; subst. destruct (ctx_check_fields st) as (_ & _ & _ & _ & _ & E6 & _). rewrite E6 in I'. contradiction.
    - destruct (negb (serial_blocked g cf st) && _ && _)%bool; [|discriminate]. inversion S; subst. contradiction.
    - destruct (d_thread st v); try discriminate.
      destruct (N.ltb _ _ && negb (d_envlock st v))%bool; [|discriminate]. inversion S; subst. contradiction.
    - destruct (d_thread st v); try discriminate. inversion S; subst. contradiction.
    - inversion S; subst. contradiction.
    - destruct (negb (d_envlock st v) && negb (thread_holds (d_thread st v)))%bool; [|discriminate]. inversion S; subst. contradiction.
    - destruct (d_envlock st v); [|discriminate]. inversion S; subst. contradiction.
  Qed.

  (* attempts: strictly one after another, at most retries + 1, none after a nil *)
  Theorem attempts st v r st' k :
    dstep st (LExit v r) = Some st' -> d_thread st v = Running k ->
    d_thread st' v = (if match r with ONil => true | _ => Z.leb (retries g v) (Z.of_nat k) end
                      then Finished r else Running (S k)).
  Proof.
    intros S T. unfold Dag.dstep in S. destruct (d_returned st); [discriminate|]. rewrite T in S.
    inversion S; subst. unfold set_thread. simpl. apply upd_same.
  Qed.

  (* ---- C14 ---- *)

  (* once an error is recorded (a task failed, or the cancellation was noticed: ctx_check records
     it at the next pass) the scheduler creates no further task thread *)
  Theorem no_launch_after_error st v st' :
    dstep st (LPick v) = Some st' -> d_errs (ctx_check st) <> [] -> d_thread st' = d_thread st.
  Proof.
    intros S E. unfold Dag.dstep in S. destruct (d_returned st); [discriminate|].
    destruct (mem_str v (vids g) && negb (serial_blocked g cf st) && eligible g st v)%bool; [|discriminate].
    destruct (ctx_check_fields st) as (_ & E2 & _).
    destruct (status_eqb _ Skip); [inversion S; subst; simpl; exact E2|].
    destruct (d_errs (ctx_check st)); [congruence|]. inversion S; subst; simpl; exact E2.
  Qed.

  (* a cancellation that has not been handled yet is recorded by the scheduler's next pass *)
  Theorem cancel_noticed st : d_cancelled st = true -> d_handled st = false -> d_errs (ctx_check st) <> [].
  Proof. intros C H. unfold ctx_check. rewrite C, H. simpl. apply errs_app_nonnil. Qed.

  (* a vertex that (transitively) depends on one that returned ErrorSkipParents is marked, never
     gets a thread, and its own function is never entered *)
  Inductive depends_on : vid -> vid -> Prop :=
  | dep_edge p c : In c (children p) -> depends_on p c
  | dep_trans p m c : In m (children p) -> depends_on m c -> depends_on p c.

  Theorem skip_parents_blocks st u p :
    Inv st -> In u (d_sp st) -> depends_on p u -> In p (d_marked st) /\ d_thread st p = NotSpawned.
  Proof.
    intros I Iu D. assert (M : In p (d_marked st)).
    { induction D as [p c E|p m c E _ IH].
      - apply (m_sp st I c p Iu). apply SYM. exact E.
      - apply (m_up st I m p (IH Iu)). apply SYM. exact E. }
    split; [exact M|]. destruct (thread_eq_dec_ns (d_thread st p)) as [T|T]; [exact T|].
    exfalso. exact (t_unmarked st I p T M).
  Qed.

  (* the result of Run is nil exactly when no error entry was recorded *)
  Theorem return_keeps_errors st st' : dstep st LReturn = Some st' -> d_errs st' = d_errs st /\ d_returned st' = true.
  Proof.
    intros S. unfold Dag.dstep in S. destruct (d_returned st); [discriminate|].
    destruct (negb (serial_blocked g cf st) && _ && _)%bool; [|discriminate]. inversion S; subst; simpl; auto.
  Qed.

  (* ---- C15 ---- *)

  Theorem running_bounded st (l : list vid) :
    Inv st -> NoDup l -> (forall v, In v l -> thread_running (d_thread st v) = true) ->
    N.of_nat (length l) <= cf_cap cf.
  Proof.
    intros I ND R.
    assert (Inc : incl l (d_holders st)).
    { intros v Iv. apply (h_iff st I). specialize (R v Iv). destruct (d_thread st v); try discriminate; reflexivity. }
    pose proof (NoDup_incl_length ND Inc). pose proof (h_cap st I). lia.
  Qed.

  Theorem serial_one_at_a_time st u v :
    Inv st -> cf_serial cf = true ->
    thread_running (d_thread st u) = true -> thread_running (d_thread st v) = true -> u = v.
  Proof.
    intros I Se Ru Rv. apply (s_serial st I Se); [destruct (d_thread st u) | destruct (d_thread st v)]; try discriminate; reflexivity.
  Qed.

  Theorem launched_was_ready ls st :
    dsteps g cf (init_state []) ls = Some st ->
    forall a, d_thread st a <> NotSpawned -> forall c, In c (children a) -> In c (d_okdone st).
  Proof. intros R. exact (t_down st (inv_reachable ls st R)). Qed.

  Theorem task_mutex st v : Inv st -> d_envlock st v = true -> thread_running (d_thread st v) = false.
  Proof.
    intros I E. pose proof (h_env st I v E) as T. destruct (d_thread st v); try reflexivity; discriminate.
  Qed.
End Inv.
