(* Structural lemmas about the parser state machine. *)
From GO Require Import Base.Str Base.Utf8 Model.Tokenizer Model.Option Model.Tree Model.Parse.
Open Scope N_scope.

Ltac inv H := inversion H; subst; clear H.
Ltac dmatch H :=
  match type of H with
  | context [match ?x with _ => _ end] => destruct x eqn:?
  | context [if ?x then _ else _] => destruct x eqn:?
  end.
Ltac dgoal :=
  match goal with
  | |- context [match ?x with _ => _ end] => destruct x eqn:?
  | |- context [if ?x then _ else _] => destruct x eqn:?
  end.

Lemma bind_ok {A B} (r : result A) (f : A -> result B) b :
  bind r f = Ok b -> exists a, r = Ok a /\ f a = Ok b.
Proof. destruct r; simpl; [eauto | discriminate]. Qed.

(* the part of the state that only the head of the loop changes *)
Definition same_frame (a b : pst) : Prop :=
  cur a = cur b /\ up a = up b /\ text a = text b /\ unk a = unk b.

Lemma same_frame_refl a : same_frame a a.
Proof. repeat split. Qed.
Lemma same_frame_trans a b c : same_frame a b -> same_frame b c -> same_frame a c.
Proof. unfold same_frame. intuition congruence. Qed.
Lemma same_frame_set_ph a p : same_frame a (set_ph a p).
Proof. repeat split. Qed.
Lemma same_frame_set_store a s : same_frame a (set_store a s).
Proof. repeat split. Qed.

#[export] Hint Resolve same_frame_refl same_frame_set_ph same_frame_set_store : frame.

Section Lemmas.
  Variable pf : str -> option N.
  Variable md : mode.
  Variable lower : bool.
  Variable ro_on : bool.
  Variable specs : list ospec.

  Notation save_to := (save_to pf lower specs).
  Notation start_pair := (start_pair pf lower specs).
  Notation try_cur := (try_cur pf md lower specs).
  Notation advance := (advance pf lower specs).
  Notation settle := (settle pf lower specs).
  Notation offer := (offer pf md lower specs).
  Notation advance_eof := (advance_eof pf lower specs).
  Notation head := (head pf md lower ro_on specs).
  Notation step := (step pf md lower ro_on specs).
  Notation run := (run pf md lower ro_on specs).
  Notation finish := (finish pf lower specs).

  Lemma run_app st a b : run st (a ++ b) = bind (run st a) (fun s => run s b).
  Proof.
    revert st; induction a as [|t a IH]; intros st; simpl; [reflexivity|].
    destruct (step st t); simpl; auto.
  Qed.

  Lemma run_tail st l : ph st = PTail -> run st l = Ok (add_text st l).
  Proof.
    revert st; induction l as [|t l IH]; intros st H; simpl.
    - unfold add_text. rewrite app_nil_r. destruct st; reflexivity.
    - unfold step. rewrite H. rewrite IH by exact H.
      unfold add_text; simpl. rewrite <- app_assoc. reflexivity.
  Qed.

  (* ---- frame preservation ---- *)

  Lemma save_to_frame st oid a st' : save_to st oid a = Ok st' -> same_frame st st' /\ ph st' = ph st.
  Proof.
    unfold Parse.save_to. intros H. repeat dmatch H; try discriminate.
    apply bind_ok in H as (os' & _ & H). inv H. split; auto with frame.
  Qed.

  Lemma start_pair_frame st tok p st' c :
    start_pair st tok p = Ok (Some (st', c)) -> same_frame st st' /\ ph st' = ph st.
  Proof.
    unfold Parse.start_pair. intros H. repeat dmatch H; try discriminate.
    apply bind_ok in H as (os' & _ & H). inv H. split; auto with frame.
  Qed.

  Lemma try_cur_frame st c t st' : try_cur st c t = Ok (Some st') -> same_frame st st' /\ ph st' = ph st.
  Proof.
    unfold Parse.try_cur. destruct c as [[[[oid key] i] mn] mx]. intros H.
    repeat dmatch H; try discriminate;
      apply bind_ok in H as (s & Hs & H); inv H; eapply save_to_frame; eauto.
  Qed.

  Lemma advance_frame tok pend : forall st st', advance st tok pend = Ok st' -> same_frame st st'.
  Proof.
    induction pend as [|p pend IH]; intros st st' H; simpl in H.
    - inv H. auto with frame.
    - destruct (start_pair st tok p) as [[[s c]|]|] eqn:E; try discriminate.
      + apply start_pair_frame in E as [F _].
        destruct (wants c).
        * destruct c as [[[[oid key] i] mn] mx]. inv H. eapply same_frame_trans; eauto with frame.
        * eapply same_frame_trans; eauto.
      + eauto.
  Qed.

  Lemma settle_frame st c pend tok st' : settle st c pend tok = Ok st' -> same_frame st st'.
  Proof.
    unfold Parse.settle. destruct (wants c).
    - destruct c as [[[[oid key] i] mn] mx]. intros H; inv H. auto with frame.
    - apply advance_frame.
  Qed.

  Lemma offer_frame tok pend t : forall st st' b, offer st tok pend t = Ok (st', b) -> same_frame st st'.
  Proof.
    induction pend as [|p pend IH]; intros st st' b H; simpl in H.
    - inv H. auto with frame.
    - destruct (start_pair st tok p) as [[[s c]|]|] eqn:E; try discriminate.
      + apply start_pair_frame in E as [F _].
        destruct (try_cur s c t) as [[s2|]|] eqn:E2; try discriminate.
        * apply try_cur_frame in E2 as [F2 _].
          apply bind_ok in H as (s3 & H3 & H). inv H. apply settle_frame in H3.
          eapply same_frame_trans; [eassumption|]. eapply same_frame_trans; eassumption.
        * eapply same_frame_trans; eauto.
      + eauto.
  Qed.

  Lemma advance_eof_frame tok pend : forall st st', advance_eof st tok pend = Ok st' -> same_frame st st'.
  Proof.
    induction pend as [|p pend IH]; intros st st' H; simpl in H.
    - inv H. auto with frame.
    - destruct (start_pair st tok p) as [[[s c]|]|] eqn:E; try discriminate.
      + apply start_pair_frame in E as [F _]. destruct c as [[[[oid key] i] mn] mx].
        destruct (Nat.ltb i mn); [discriminate|]. eapply same_frame_trans; eauto.
      + eauto.
  Qed.

  Lemma finish_frame st st' : finish st = Ok st' -> same_frame st st'.
  Proof.
    unfold Parse.finish. intros H. destruct (ph st) as [|oid key i pend tok|].
    - inv H. auto with frame.
    - destruct (nth_error specs oid); [|discriminate].
      destruct (Nat.ltb i (os_min o)); [discriminate|].
      eapply advance_eof_frame; eauto.
    - inv H. auto with frame.
  Qed.

  (* ---- all the text collected so far, root level first ---- *)

  Definition all_text (st : pst) : list str := concat (List.map lv_text (rev (up st))) ++ text st.

  Lemma all_text_frame a b : same_frame a b -> all_text a = all_text b.
  Proof. unfold same_frame, all_text. intros (H1 & H2 & H3 & H4). rewrite H2, H3. reflexivity. Qed.

  Lemma all_text_add st l : all_text (add_text st l) = all_text st ++ l.
  Proof. unfold all_text, add_text; simpl. rewrite app_assoc. reflexivity. Qed.

  Lemma all_text_add_unk st l : all_text (add_unk st l) = all_text st.
  Proof. reflexivity. Qed.

  Lemma all_text_descend st child : all_text (descend st child) = all_text st.
  Proof.
    unfold all_text, descend; simpl. rewrite map_app, concat_app. simpl.
    rewrite !app_nil_r. reflexivity.
  Qed.

  Lemma all_text_set_ph st p : all_text (set_ph st p) = all_text st.
  Proof. reflexivity. Qed.

  (* remaining returned by the policy scan is the concatenation of the level texts *)
  Lemma policy_levels_text ls : forall w r, policy_levels ls = (w, None, r) -> r = concat (List.map lv_text ls).
  Proof.
    induction ls as [|l ls IH]; intros w r H; simpl in H.
    - inv H. reflexivity.
    - destruct (unknown_policy (ni_umode (n_info (lv_node l))) (lv_unk l)) as [w1 [e|]]; [discriminate|].
      destruct (policy_levels ls) as [[w2 e2] r2] eqn:E. inv H.
      simpl. f_equal. eapply IH. reflexivity.
  Qed.

  Lemma levels_of_text st : concat (List.map lv_text (levels_of st)) = all_text st.
  Proof.
    unfold levels_of, all_text. simpl. rewrite map_app, concat_app. simpl. rewrite app_nil_r. reflexivity.
  Qed.
End Lemmas.
