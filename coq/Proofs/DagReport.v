(* What Graph.Run reports (C14): a second invariant, about the error list, on top of [Inv].
   Every entry of the list is justified (a task whose last attempt failed, a task that was never
   started and was not skipped through ErrorSkipParents, or the cancellation), appears once, and at
   the end every vertex is accounted for. *)
From GO Require Import Base.Str Base.Utf8 Base.Sort Model.Tree Model.Dag Proofs.DagHold Proofs.DagInv.
Open Scope N_scope.

Definition ptrue (l : list (vid * bool)) : list vid := List.map fst (List.filter snd l).

Lemma In_ptrue c l : In c (ptrue l) <-> In (c, true) l.
Proof.
  unfold ptrue. rewrite in_map_iff. split.
  - intros ([w b] & E & I). apply filter_In in I as [I B]. simpl in *. subst. exact I.
  - intros I. exists (c, true). split; [reflexivity|]. apply filter_In. split; [exact I | reflexivity].
Qed.

Lemma ptrue_app l1 l2 : ptrue (l1 ++ l2) = ptrue l1 ++ ptrue l2.
Proof. unfold ptrue. rewrite filter_app, map_app. reflexivity. Qed.

Lemma nodup_snoc {A} (l : list A) x : NoDup l -> ~ In x l -> NoDup (l ++ [x]).
Proof.
  induction l as [|y l IH]; intros ND N; simpl; [constructor; [intros []|constructor]|].
  inversion ND as [|? ? Hn ND']; subst. constructor.
  - rewrite in_app_iff. intros [I|[E|[]]]; [contradiction | subst; apply N; left; reflexivity].
  - apply IH; [exact ND' | intros I; apply N; right; exact I].
Qed.

Section Report.
  Variable g : graph.
  Variable cf : config.
  Notation dstep := (dstep g cf).
  Notation children := (children g).
  Notation parents := (parents g).
  Notation Inv := (Inv g cf).
  Notation depends_on := (depends_on g).

  Hypothesis SYM : forall p c, In c (children p) <-> In p (parents c).

  Lemma remove_pseudo_false v l : forall r, remove_pseudo (v, false) l = Some r -> ptrue r = ptrue l.
  Proof.
    induction l as [|[w b] l IH]; intros r H; cbn [remove_pseudo fst snd] in H; [discriminate|].
    destruct (str_eqb v w && Bool.eqb false b)%bool eqn:E.
    - inversion H; subst. apply Bool.andb_true_iff in E as [_ E2]. destruct b; [discriminate|]. reflexivity.
    - destruct (remove_pseudo (v, false) l) as [r'|]; [|discriminate]. inversion H; subst.
      unfold ptrue. simpl. destruct b; simpl; [f_equal|]; apply (IH r' eq_refl).
  Qed.

  Lemma remove_pseudo_true v l : forall r, remove_pseudo (v, true) l = Some r -> NoDup (ptrue l) ->
    NoDup (ptrue r) /\ ~ In (v, true) r.
  Proof.
    induction l as [|[w b] l IH]; intros r H ND; cbn [remove_pseudo fst snd] in H; [discriminate|].
    destruct (str_eqb v w && Bool.eqb true b)%bool eqn:E.
    - inversion H; subst. apply Bool.andb_true_iff in E as [E1 E2]. apply str_eqb_eq in E1. subst w.
      destruct b; [|discriminate]. unfold ptrue in ND. simpl in ND. inversion ND as [|? ? Hn ND']; subst.
      split; [exact ND'|]. intros I. apply Hn. apply In_ptrue. exact I.
    - destruct (remove_pseudo (v, true) l) as [r'|] eqn:R; [|discriminate]. inversion H; subst.
      assert (ND0 : NoDup (ptrue l)).
      { unfold ptrue in ND. simpl in ND. destruct b; simpl in ND; [inversion ND; assumption | exact ND]. }
      destruct (IH r' eq_refl ND0) as [A B]. apply remove_pseudo_In in R as [_ Sub]. split.
      + unfold ptrue. simpl. destruct b; simpl; [|exact A]. constructor; [|exact A].
        intros I. apply In_ptrue in I. apply Sub in I. unfold ptrue in ND. simpl in ND. inversion ND as [|? ? Hn _]; subst.
        apply Hn. apply In_ptrue. exact I.
      + intros [X|X]; [|contradiction]. inversion X; subst. rewrite str_eqb_refl in E. discriminate.
  Qed.

  Record Rep (st : dstate) : Prop := mkRep {
    r_task : forall v, In (XTask v) (d_errs st) -> d_thread st v = Gone /\ ~ In v (d_okdone st) /\ ~ In v (d_sp st);
    r_gone : forall v, d_thread st v = Gone -> In v (d_okdone st) \/ In v (d_sp st) \/ In (XTask v) (d_errs st);
    r_sp : forall v, In v (d_sp st) -> d_thread st v = Gone;
    r_skipped : forall v, In (XSkipped v) (d_errs st) ->
                          d_thread st v = NotSpawned /\ d_status st v = Done /\ ~ In v (d_marked st) /\ In v (vids g);
    r_cancel : In XCancel (d_errs st) <-> d_handled st = true;
    r_shape : forall e, In e (d_errs st) -> e = XCancel \/ exists v, e = XTask v \/ e = XSkipped v;
    r_nodup : NoDup (d_errs st);
    r_unspawned : forall v, d_thread st v = NotSpawned -> d_status st v = Done ->
                            In v (d_marked st) \/ In (XSkipped v) (d_errs st);
    r_pseudo : forall c, In (c, true) (d_pseudo st) ->
                         d_thread st c = NotSpawned /\ d_status st c = InProgress /\ ~ In c (d_marked st) /\ In c (vids g);
    r_pnodup : NoDup (ptrue (d_pseudo st));
    r_J : forall x, d_status st x <> Pending -> ~ In x (d_marked st) -> forall c, In c (children x) -> d_status st c = Done
  }.

  Lemma rep_init : Rep (init_state []).
  Proof.
    constructor; simpl; try (intros; contradiction); try (intros; discriminate); try (intros; congruence).
    - split; [intros [] | discriminate].
    - constructor.
    - constructor.
  Qed.

  (* moves that touch neither the lists nor the Gone / NotSpawned ends of a thread's life *)
  Lemma rep_same st st' :
    d_status st' = d_status st -> d_pseudo st' = d_pseudo st -> d_errs st' = d_errs st -> d_handled st' = d_handled st ->
    d_okdone st' = d_okdone st -> d_marked st' = d_marked st -> d_sp st' = d_sp st ->
    (forall v, d_thread st' v = Gone <-> d_thread st v = Gone) ->
    (forall v, d_thread st' v = NotSpawned <-> d_thread st v = NotSpawned) ->
    Rep st -> Rep st'.
  Proof.
    intros E1 E2 E3 E4 E5 E6 E7 G N R. destruct R.
    constructor; rewrite ?E1, ?E2, ?E3, ?E4, ?E5, ?E6, ?E7; auto.
    - intros v I. rewrite G. auto.
    - intros v T. apply G in T. auto.
    - intros v I. rewrite G. auto.
    - intros v I. rewrite N. auto.
    - intros v T. apply N in T. auto.
    - intros c I. rewrite N. auto.
  Qed.

  Lemma in_snoc {A} (l : list A) a x : In x (l ++ [a]) <-> In x l \/ x = a.
  Proof. rewrite in_app_iff. simpl. intuition. Qed.

  Lemma rep_ctx_check st : Rep st -> Rep (ctx_check st).
  Proof.
    intros R. unfold ctx_check. destruct (d_cancelled st && negb (d_handled st))%bool eqn:C; [|exact R].
    apply Bool.andb_true_iff in C as [_ C]. apply Bool.negb_true_iff in C.
    destruct R. constructor; simpl; auto.
    - intros v I. apply in_snoc in I as [I|I]; [auto | discriminate].
    - intros v T. destruct (r_gone0 v T) as [H|[H|H]]; auto. right. right. apply in_snoc. auto.
    - intros v I. apply in_snoc in I as [I|I]; [auto | discriminate].
    - split; [reflexivity|]. intros _. apply in_snoc. right. reflexivity.
    - intros e I. apply in_snoc in I as [I|I]; [auto | left; exact I].
    - apply nodup_snoc; [assumption|]. intros I. apply r_cancel0 in I. congruence.
    - intros v T D. destruct (r_unspawned0 v T D) as [H|H]; [left; exact H | right; apply in_snoc; auto].
  Qed.

  (* every vertex (transitively) below an unmarked vertex that has been picked is done *)
  Lemma below_unmarked_done st x u :
    Inv st -> Rep st -> d_status st x <> Pending -> ~ In x (d_marked st) -> depends_on x u -> d_status st u = Done.
  Proof.
    intros I R Px Mx D. revert Px Mx. induction D as [p c E|p m c E D IH]; intros Px Mx.
    - eapply (r_J st R); eauto.
    - assert (Dm : d_status st m = Done) by (eapply (r_J st R); eauto).
      apply IH; [congruence|]. intros Mm. apply Mx. apply (m_up g cf st I m p Mm). apply SYM. exact E.
  Qed.

  Lemma dep_snoc u p v : depends_on u p -> In v (children p) -> depends_on u v.
  Proof.
    intros D E. induction D as [a b E1|a m b E1 D IH].
    - eapply dep_trans; [exact E1 | apply dep_edge; exact E].
    - eapply dep_trans; [exact E1 | apply IH; exact E].
  Qed.

  (* skipParents only marks vertices that (transitively) depend on the vertex it starts from *)
  Lemma skip_parents_reach fuel : forall v (acc : (vid -> status) * list vid) u,
    In u (snd (skip_parents g fuel v acc)) -> In u (snd acc) \/ depends_on u v.
  Proof.
    induction fuel as [|f IH]; intros v acc u; simpl; [auto|].
    assert (G : forall ps, (forall p, In p ps -> In v (children p)) -> forall acc : (vid -> status) * list vid,
              In u (snd (List.fold_left (fun a p => skip_parents g f p (upd (fst a) p Skip, p :: snd a)) ps acc)) ->
              In u (snd acc) \/ depends_on u v).
    { induction ps as [|p ps IHp]; intros PS acc0; simpl; [auto|].
      intros Iu. apply IHp in Iu; [|intros q Iq; apply PS; right; exact Iq].
      destruct Iu as [Iu|Du]; [|right; exact Du].
      apply IH in Iu. simpl in Iu.
      assert (Ep : In v (children p)) by (apply PS; left; reflexivity).
      destruct Iu as [[<-|Iu]|Du].
      - right. apply dep_edge. exact Ep.
      - left. exact Iu.
      - right. eapply dep_snoc; eauto. }
    apply G. intros p Ip. apply SYM. exact Ip.
  Qed.

  (* ---- the scheduler picks a vertex ---- *)
  Lemma rep_pick st v st' : Inv st -> Rep st -> dstep st (LPick v) = Some st' -> Rep st'.
  Proof.
    intros I0 R0 S. unfold Dag.dstep in S. destruct (d_returned st); [discriminate|].
    destruct (mem_str v (vids g)) eqn:MV; [|discriminate].
    destruct (serial_blocked g cf st) eqn:SB; [discriminate|].
    destruct (eligible g st v) eqn:EL; [|discriminate]. simpl in S.
    apply mem_str_In in MV.
    pose proof (inv_ctx_check g cf st I0) as I. pose proof (rep_ctx_check st R0) as R.
    destruct (ctx_check_fields st) as (E1 & _).
    assert (EL1 : (d_status (ctx_check st) v = Pending \/ d_status (ctx_check st) v = Skip) /\
                  (forall c, In c (children v) -> d_status (ctx_check st) c = Done \/ d_status (ctx_check st) c = Skip)).
    { rewrite E1. apply (eligible_spec g). exact EL. }
    clear EL E1 I0 R0 SB. destruct EL1 as [ELv ELc].
    set (st1 := ctx_check st) in *. clearbody st1. clear st.
    assert (Tv : d_thread st1 v = NotSpawned).
    { destruct (thread_eq_dec_ns (d_thread st1 v)) as [T|T]; [exact T|]. exfalso.
      destruct ELv as [P|Sk]; [exact (t_notpending g cf st1 I v T P)|].
      apply (t_unmarked g cf st1 I v T). apply (m_skip g cf st1 I). exact Sk. }
    (* what picking does to J, whatever else happens *)
    assert (JJ : forall x, upd (d_status st1) v InProgress x <> Pending -> ~ In x (d_marked st1) ->
                 forall c, In c (children x) -> upd (d_status st1) v InProgress c = Done).
    { intros x Px Mx c Ic.
      assert (Dc : d_status st1 c = Done).
      { destruct (str_eq_dec x v) as [->|N].
        - destruct (ELc c Ic) as [D|Sk]; [exact D|]. exfalso. apply Mx.
          apply (m_up g cf st1 I c v); [apply (m_skip g cf st1 I); exact Sk | apply SYM; exact Ic].
        - rewrite (upd_other _ _ _ _ N) in Px. eapply (r_J st1 R); eauto. }
      destruct (str_eq_dec c v) as [->|N]; [destruct ELv; congruence|]. rewrite (upd_other _ _ _ _ N). exact Dc. }
    destruct (status_eqb (d_status st1 v) Skip) eqn:SK.
    - (* a vertex marked by skipParents: helper goroutine reporting nil *)
      assert (Sv : d_status st1 v = Skip) by (destruct (d_status st1 v); simpl in SK; congruence).
      inversion S; subst; clear S. destruct R. constructor; simpl; auto.
      + intros x Ix. destruct (r_skipped0 x Ix) as (A & B & C & D). repeat split; auto.
        destruct (str_eq_dec x v) as [->|N]; [congruence|]. rewrite (upd_other _ _ _ _ N). exact B.
      + intros x T D. destruct (str_eq_dec x v) as [->|N]; [rewrite upd_same in D; discriminate|].
        rewrite (upd_other _ _ _ _ N) in D. auto.
      + intros c Ic. apply in_snoc in Ic as [Ic|Ic]; [|discriminate].
        destruct (r_pseudo0 c Ic) as (A & B & C & D). repeat split; auto.
        destruct (str_eq_dec c v) as [->|N]; [congruence|]. rewrite (upd_other _ _ _ _ N). exact B.
      + rewrite ptrue_app. unfold ptrue at 2. simpl. rewrite app_nil_r. assumption.
    - assert (Pv : d_status st1 v = Pending) by (destruct ELv as [P|Sk]; [exact P | rewrite Sk in SK; discriminate]).
      destruct (d_errs st1) as [|e0 es] eqn:EE.
      + (* a thread is created *)
        inversion S; subst; clear S. destruct R. rewrite EE in *. constructor; simpl; auto.
        * intros x [].
        * intros x T. destruct (str_eq_dec x v) as [->|N]; [rewrite upd_same in T; discriminate|].
          rewrite (upd_other _ _ _ _ N) in T. destruct (r_gone0 x T) as [H|[H|[]]]; auto.
        * intros x Ix. destruct (str_eq_dec x v) as [->|N]; [apply r_sp0 in Ix; congruence|].
          rewrite (upd_other _ _ _ _ N). auto.
        * intros x [].
        * intros x T D. destruct (str_eq_dec x v) as [->|N]; [rewrite upd_same in T; discriminate|].
          rewrite (upd_other (d_thread st1) _ _ _ N) in T. rewrite (upd_other (d_status st1) _ _ _ N) in D.
          destruct (r_unspawned0 x T D) as [H|[]]; auto.
        * intros c Ic. exfalso. apply (p_err g cf st1 I c Ic). exact EE.
      + (* errors were recorded already: helper goroutine reporting ErrorTaskSkipped *)
        rewrite <- EE in S. clear EE. inversion S; subst; clear S. destruct R. constructor; simpl; auto.
        * intros x Ix. destruct (r_skipped0 x Ix) as (A & B & C & D). repeat split; auto.
          destruct (str_eq_dec x v) as [->|N]; [congruence|]. rewrite (upd_other _ _ _ _ N). exact B.
        * intros x T D. destruct (str_eq_dec x v) as [->|N]; [rewrite upd_same in D; discriminate|].
          rewrite (upd_other _ _ _ _ N) in D. auto.
        * intros c Ic. apply in_snoc in Ic as [Ic|Ic].
          -- destruct (r_pseudo0 c Ic) as (A & B & C & D). repeat split; auto.
             destruct (str_eq_dec c v) as [->|N]; [congruence|]. rewrite (upd_other _ _ _ _ N). exact B.
          -- inversion Ic; subst. repeat split; auto; [apply upd_same|].
             intros M. apply (m_status g cf st1 I v M). exact Pv.
        * rewrite ptrue_app. unfold ptrue at 2. simpl. apply nodup_snoc; [assumption|].
          intros X. apply In_ptrue in X. destruct (r_pseudo0 v X) as (_ & B & _). congruence.
  Qed.

  (* ---- a helper goroutine's message is received ---- *)
  Lemma rep_recv_pseudo st v b st' : Inv st -> Rep st -> dstep st (LRecvPseudo v b) = Some st' -> Rep st'.
  Proof.
    intros I R S. unfold Dag.dstep in S. destruct (d_returned st); [discriminate|].
    destruct (remove_pseudo (v, b) (d_pseudo st)) as [ps|] eqn:RP; [|discriminate].
    pose proof (remove_pseudo_In _ _ _ RP) as [Iv Sub].
    assert (JJ : forall x, d_status st x <> Pending -> ~ In x (d_marked st) ->
                 forall c, In c (children x) -> upd (d_status st) v Done c = Done).
    { intros x Px Mx c Ic. destruct (str_eq_dec c v) as [->|N]; [apply upd_same|].
      rewrite (upd_other _ _ _ _ N). eapply (r_J st R); eauto. }
    unfold receive in S. destruct b; simpl in S; inversion S; subst; clear S.
    - (* ErrorTaskSkipped *)
      destruct (r_pseudo st R v Iv) as (Tv & Sv & Mv & Vv).
      destruct (remove_pseudo_true v _ _ RP (r_pnodup st R)) as [ND NI].
      destruct R. constructor; simpl; auto.
      + intros x Ix. apply in_snoc in Ix as [Ix|Ix]; [auto | discriminate].
      + intros x T. destruct (r_gone0 x T) as [H|[H|H]]; auto. right. right. apply in_snoc. auto.
      + intros x Ix. apply in_snoc in Ix as [Ix|Ix].
        * destruct (r_skipped0 x Ix) as (A & B & C & D). repeat split; auto.
          destruct (str_eq_dec x v) as [->|N]; [apply upd_same|]. rewrite (upd_other _ _ _ _ N). exact B.
        * inversion Ix; subst. repeat split; auto. apply upd_same.
      + rewrite <- r_cancel0. rewrite in_snoc. split; [intros [H|H]; [exact H | discriminate] | auto].
      + intros e Ie. apply in_snoc in Ie as [Ie|Ie]; [auto|]. right. exists v. right. exact Ie.
      + apply nodup_snoc; [assumption|]. intros X. apply r_skipped0 in X as (_ & B & _). congruence.
      + intros x T D. destruct (str_eq_dec x v) as [->|N]; [right; apply in_snoc; auto|].
        rewrite (upd_other _ _ _ _ N) in D. destruct (r_unspawned0 x T D) as [H|H]; [auto | right; apply in_snoc; auto].
      + intros c Ic. assert (N : c <> v) by (intros ->; contradiction).
        destruct (r_pseudo0 c (Sub _ Ic)) as (A & B & C & D). repeat split; auto.
        rewrite (upd_other _ _ _ _ N). exact B.
      + intros x Px Mx c Ic. apply (JJ x); auto.
        destruct (str_eq_dec x v) as [->|N]; [congruence|]. rewrite (upd_other _ _ _ _ N) in Px. exact Px.
    - (* nil: the vertex had been marked by skipParents *)
      assert (Mv : In v (d_marked st)) by (apply (p_nil g cf st I); exact Iv).
      pose proof (remove_pseudo_false v _ _ RP) as EP.
      destruct R. constructor; simpl; auto.
      + intros x Ix. destruct (r_skipped0 x Ix) as (A & B & C & D). repeat split; auto.
        destruct (str_eq_dec x v) as [->|N]; [apply upd_same|]. rewrite (upd_other _ _ _ _ N). exact B.
      + intros x T D. destruct (str_eq_dec x v) as [->|N]; [left; exact Mv|].
        rewrite (upd_other _ _ _ _ N) in D. auto.
      + intros c Ic. destruct (r_pseudo0 c (Sub _ Ic)) as (A & B & C & D). repeat split; auto.
        destruct (str_eq_dec c v) as [->|N]; [contradiction|]. rewrite (upd_other _ _ _ _ N). exact B.
      + rewrite EP. assumption.
      + intros x Px Mx c Ic. apply (JJ x); auto.
        destruct (str_eq_dec x v) as [->|N]; [contradiction|]. rewrite (upd_other _ _ _ _ N) in Px. exact Px.
  Qed.

  (* ---- a task thread's completion is received ---- *)
  Lemma rep_recv_real st v st' : Inv st -> Rep st -> dstep st (LRecvReal v) = Some st' -> Rep st'.
  Proof.
    intros I R S. unfold Dag.dstep in S. destruct (d_returned st); [discriminate|].
    destruct (d_thread st v) as [| |k|r|] eqn:T; try discriminate.
    assert (Sv : d_status st v = InProgress) by (apply (t_alive g cf st I); rewrite T; reflexivity).
    assert (Mv : ~ In v (d_marked st)) by (apply (t_unmarked g cf st I); rewrite T; discriminate).
    assert (Ov : ~ In v (d_okdone st)) by (intros O; apply (t_okdone g cf st I) in O; congruence).
    assert (SPv : ~ In v (d_sp st)) by (intros O; apply (r_sp st R) in O; congruence).
    assert (Xv : ~ In (XTask v) (d_errs st)) by (intros O; apply (r_task st R) in O as (O & _); congruence).
    assert (JJ : forall x, upd (d_status st) v Done x <> Pending -> ~ In x (d_marked st) ->
                 forall c, In c (children x) -> upd (d_status st) v Done c = Done).
    { intros x Px Mx c Ic. destruct (str_eq_dec c v) as [->|N]; [apply upd_same|].
      rewrite (upd_other _ _ _ _ N). eapply (r_J st R); eauto.
      destruct (str_eq_dec x v) as [->|Nx]; [congruence|]. rewrite (upd_other _ _ _ _ Nx) in Px. exact Px. }
    unfold receive in S. destruct r.
    - (* nil *)
      inversion S; subst; clear S. destruct R. constructor; simpl; auto.
      + intros x Ix. destruct (r_task0 x Ix) as (A & B & C).
        assert (N : x <> v) by congruence. rewrite (upd_other _ _ _ _ N). repeat split; auto.
        intros [E|O]; [congruence | contradiction].
      + intros x Tx. destruct (str_eq_dec x v) as [->|N]; [left; left; reflexivity|].
        rewrite (upd_other _ _ _ _ N) in Tx. destruct (r_gone0 x Tx) as [H|[H|H]]; auto.
      + intros x Ix. destruct (str_eq_dec x v) as [->|N]; [apply upd_same|]. rewrite (upd_other _ _ _ _ N). auto.
      + intros x Ix. destruct (r_skipped0 x Ix) as (A & B & C & D).
        assert (N : x <> v) by congruence. rewrite !(upd_other _ _ _ _ N). auto.
      + intros x Tx D. destruct (str_eq_dec x v) as [->|N]; [rewrite upd_same in Tx; discriminate|].
        rewrite (upd_other (d_thread st) _ _ _ N) in Tx. rewrite (upd_other (d_status st) _ _ _ N) in D. auto.
      + intros c Ic. destruct (r_pseudo0 c Ic) as (A & B & C & D).
        assert (N : c <> v) by congruence. rewrite !(upd_other _ _ _ _ N). auto.
    - (* error *)
      inversion S; subst; clear S. destruct R. constructor; simpl; auto.
      + intros x Ix. apply in_snoc in Ix as [Ix|Ix].
        * destruct (r_task0 x Ix) as (A & B & C). assert (N : x <> v) by congruence.
          rewrite (upd_other _ _ _ _ N). auto.
        * inversion Ix; subst. rewrite upd_same. auto.
      + intros x Tx. destruct (str_eq_dec x v) as [->|N]; [right; right; apply in_snoc; auto|].
        rewrite (upd_other _ _ _ _ N) in Tx. destruct (r_gone0 x Tx) as [H|[H|H]]; auto. right. right. apply in_snoc. auto.
      + intros x Ix. destruct (str_eq_dec x v) as [->|N]; [apply upd_same|]. rewrite (upd_other _ _ _ _ N). auto.
      + intros x Ix. apply in_snoc in Ix as [Ix|Ix]; [|discriminate].
        destruct (r_skipped0 x Ix) as (A & B & C & D).
        assert (N : x <> v) by congruence. rewrite !(upd_other _ _ _ _ N). auto.
      + rewrite <- r_cancel0. rewrite in_snoc. split; [intros [H|H]; [exact H | discriminate] | auto].
      + intros e Ie. apply in_snoc in Ie as [Ie|Ie]; [auto|]. right. exists v. left. exact Ie.
      + apply nodup_snoc; assumption.
      + intros x Tx D. destruct (str_eq_dec x v) as [->|N]; [rewrite upd_same in Tx; discriminate|].
        rewrite (upd_other (d_thread st) _ _ _ N) in Tx. rewrite (upd_other (d_status st) _ _ _ N) in D.
        destruct (r_unspawned0 x Tx D) as [H|H]; [auto | right; apply in_snoc; auto].
      + intros c Ic. destruct (r_pseudo0 c Ic) as (A & B & C & D).
        assert (N : c <> v) by congruence. rewrite !(upd_other _ _ _ _ N). auto.
    - (* ErrorSkipParents *)
      pose proof (skip_parents_spec g (List.length (vids g)) v (upd (d_status st) v Done, d_marked st)) as (R1 & R2 & R3).
      pose proof (skip_parents_reach (List.length (vids g)) v (upd (d_status st) v Done, d_marked st)) as RR.
      destruct (skip_parents g (List.length (vids g)) v (upd (d_status st) v Done, d_marked st)) as [s2 mk] eqn:SK.
      simpl in R1, R2, R3, RR.
      destruct (up_closed g v mk) eqn:UC; [|discriminate]. apply up_closed_spec in UC as [UC1 UC2].
      inversion S; subst; clear S.
      (* unmarked vertices that have been picked are not touched: v is not done yet *)
      assert (UNM : forall x, d_status st x <> Pending -> ~ In x (d_marked st) -> ~ In x mk /\ s2 x = upd (d_status st) v Done x).
      { intros x Px Mx. assert (NM : ~ In x mk).
        { intros Ix. destruct (RR x Ix) as [Y|D]; [contradiction|].
          pose proof (below_unmarked_done st x v I R Px Mx D). congruence. }
        split; [exact NM|]. destruct (R1 x) as [E|[_ Y]]; [exact E | contradiction]. }
      destruct (UNM v) as [NMv S2v]; [congruence | exact Mv |]. rewrite upd_same in S2v.
      destruct R. constructor; simpl; auto.
      + intros x Ix. destruct (r_task0 x Ix) as (A & B & C). assert (N : x <> v) by congruence.
        rewrite (upd_other _ _ _ _ N). repeat split; auto. intros [E|O]; [congruence | contradiction].
      + intros x Tx. destruct (str_eq_dec x v) as [->|N]; [right; left; left; reflexivity|].
        rewrite (upd_other _ _ _ _ N) in Tx. destruct (r_gone0 x Tx) as [H|[H|H]]; auto.
      + intros x [<-|Ix]; [apply upd_same|]. destruct (str_eq_dec x v) as [->|N]; [apply upd_same|].
        rewrite (upd_other _ _ _ _ N). auto.
      + intros x Ix. destruct (r_skipped0 x Ix) as (A & B & C & D). assert (N : x <> v) by congruence.
        destruct (UNM x) as [NM E]; [congruence | exact C |]. rewrite (upd_other _ _ _ _ N) in E.
        rewrite (upd_other _ _ _ _ N). repeat split; auto. congruence.
      + intros x Tx D. destruct (str_eq_dec x v) as [->|N]; [rewrite upd_same in Tx; discriminate|].
        rewrite (upd_other _ _ _ _ N) in Tx. destruct (R1 x) as [E|[E Y]]; [|congruence].
        rewrite (upd_other _ _ _ _ N) in E. destruct (r_unspawned0 x Tx) as [H|H]; [congruence | left; apply R2; exact H | right; exact H].
      + intros c Ic. destruct (r_pseudo0 c Ic) as (A & B & C & D). assert (N : c <> v) by congruence.
        destruct (UNM c) as [NM E]; [congruence | exact C |]. rewrite (upd_other _ _ _ _ N) in E.
        rewrite (upd_other _ _ _ _ N). repeat split; auto. congruence.
      + intros x Px Mx c Ic.
        assert (Mx0 : ~ In x (d_marked st)) by (intros Y; apply Mx; apply R2; exact Y).
        assert (Ex : s2 x = upd (d_status st) v Done x) by (destruct (R1 x) as [E|[_ Y]]; [exact E | contradiction]).
        assert (Px0 : d_status st x <> Pending).
        { destruct (str_eq_dec x v) as [->|N]; [congruence|]. rewrite (upd_other _ _ _ _ N) in Ex. congruence. }
        assert (Dc : d_status st c = Done) by (eapply r_J0; eauto).
        destruct (R1 c) as [E|[_ Y]].
        * rewrite E. destruct (str_eq_dec c v) as [->|N]; [apply upd_same|]. rewrite (upd_other _ _ _ _ N). exact Dc.
        * exfalso. apply Mx. apply (UC2 c x Y). apply SYM. exact Ic.
  Qed.

  Lemma upd_thread_ends (th : vid -> thread) v t :
    th v <> Gone -> th v <> NotSpawned -> t <> Gone -> t <> NotSpawned ->
    (forall x, upd th v t x = Gone <-> th x = Gone) /\ (forall x, upd th v t x = NotSpawned <-> th x = NotSpawned).
  Proof.
    intros A B C D. split; intros x; (destruct (str_eq_dec x v) as [->|N]; [rewrite upd_same; split; congruence | rewrite (upd_other _ _ _ _ N); tauto]).
  Qed.

  Theorem rep_step st l st' : Inv st -> Rep st -> dstep st l = Some st' -> Rep st'.
  Proof.
    intros I R S. destruct l as [v|v b|v| | |v|v r| |v|v].
    - eapply rep_recv_real; eauto.
    - eapply rep_recv_pseudo; eauto.
    - eapply rep_pick; eauto.
    - unfold Dag.dstep in S. destruct (d_returned st); [discriminate|].
      destruct ((serial_blocked g cf st || negb (existsb (eligible g st) (vids g))) && _)%bool; [|discriminate].
      inversion S; subst. apply rep_ctx_check. exact R.
    - unfold Dag.dstep in S. destruct (d_returned st); [discriminate|].
      destruct (negb (serial_blocked g cf st) && _ && _)%bool; [|discriminate]. inversion S; subst.
      apply (rep_same st); simpl; try reflexivity; try exact R; intros; tauto.
    - unfold Dag.dstep in S. destruct (d_returned st); [discriminate|].
      destruct (d_thread st v) eqn:T; try discriminate.
      destruct (N.ltb _ _ && negb (d_envlock st v))%bool; [|discriminate]. inversion S; subst; clear S.
      destruct (upd_thread_ends (d_thread st) v (if Z.ltb (retries g v) 0 then Finished ONil else Running 0)) as [A B];
        try (rewrite T; discriminate); try (destruct (Z.ltb _ _); discriminate).
      apply (rep_same st); simpl; try reflexivity; try exact R; assumption.
    - unfold Dag.dstep in S. destruct (d_returned st); [discriminate|].
      destruct (d_thread st v) eqn:T; try discriminate. inversion S; subst; clear S.
      match goal with |- Rep (set_thread _ _ ?t) =>
        destruct (upd_thread_ends (d_thread st) v t) as [A B]; try (rewrite T; discriminate);
          try (destruct r; try destruct (Z.leb _ _); discriminate) end.
      apply (rep_same st); simpl; try reflexivity; try exact R; assumption.
    - unfold Dag.dstep in S. destruct (d_returned st); [discriminate|]. inversion S; subst.
      apply (rep_same st); simpl; try reflexivity; try exact R; intros; tauto.
    - unfold Dag.dstep in S. destruct (d_returned st); [discriminate|].
      destruct (negb (d_envlock st v) && negb (thread_holds (d_thread st v)))%bool; [|discriminate]. inversion S; subst.
      apply (rep_same st); simpl; try reflexivity; try exact R; intros; tauto.
    - unfold Dag.dstep in S. destruct (d_returned st); [discriminate|].
      destruct (d_envlock st v); [|discriminate]. inversion S; subst.
      apply (rep_same st); simpl; try reflexivity; try exact R; intros; tauto.
  Qed.

  Theorem rep_steps ls : forall st st', Inv st -> Rep st -> dsteps g cf st ls = Some st' -> Inv st' /\ Rep st'.
  Proof.
    induction ls as [|l ls IH]; intros st st' I R H; simpl in H; [inversion H; subst; auto|].
    destruct (dstep st l) as [s1|] eqn:S; [|discriminate].
    eapply IH; [eapply (inv_step g cf SYM); eauto | eapply rep_step; eauto | exact H].
  Qed.

  Theorem rep_reachable ls st : dsteps g cf (init_state []) ls = Some st -> Inv st /\ Rep st.
  Proof. intros H. eapply rep_steps; [apply inv_init | apply rep_init | exact H]. Qed.

  (* ---- what the invariant says about the value Run returns ---- *)

  Lemma all_done_spec st : all_done g st = true -> forall v, In v (vids g) -> d_status st v = Done.
  Proof.
    unfold all_done. rewrite forallb_forall. intros H v Iv. specialize (H v Iv).
    destruct (d_status st v); simpl in H; congruence.
  Qed.

  (* every vertex is accounted for when Run returns: it ran (and returned nil, or ErrorSkipParents,
     or its error is in the list), or it was never started (and was skipped through
     ErrorSkipParents and is not reported, or is reported as skipped) *)
  Theorem fully_reported st : Inv st -> Rep st -> all_done g st = true -> forall v, In v (vids g) ->
    (d_thread st v = Gone /\ (In v (d_okdone st) \/ In v (d_sp st) \/ In (XTask v) (d_errs st)) /\ ~ In (XSkipped v) (d_errs st)) \/
    (d_thread st v = NotSpawned /\ ~ In (XTask v) (d_errs st) /\
     ((In v (d_marked st) /\ ~ In (XSkipped v) (d_errs st)) \/ (~ In v (d_marked st) /\ In (XSkipped v) (d_errs st)))).
  Proof.
    intros I R AD v Iv. pose proof (all_done_spec st AD v Iv) as D.
    destruct (d_thread st v) eqn:T.
    - right. split; [reflexivity|]. split; [intros X; apply (r_task st R) in X as (X & _); congruence|].
      destruct (in_dec str_eq_dec v (d_marked st)) as [M|M].
      + left. split; [exact M|]. intros X. apply (r_skipped st R) in X as (_ & _ & X & _). contradiction.
      + right. split; [exact M|]. destruct (r_unspawned st R v T D) as [H|H]; [contradiction | exact H].
    - pose proof (t_alive g cf st I v) as A. rewrite T in A. specialize (A eq_refl). congruence.
    - pose proof (t_alive g cf st I v) as A. rewrite T in A. specialize (A eq_refl). congruence.
    - pose proof (t_alive g cf st I v) as A. rewrite T in A. specialize (A eq_refl). congruence.
    - left. split; [reflexivity|]. split; [apply (r_gone st R); exact T|].
      intros X. apply (r_skipped st R) in X as (X & _). congruence.
  Qed.

  (* every entry of the list is justified, and there is one entry per cause *)
  Theorem entries_justified st : Rep st -> NoDup (d_errs st) /\ forall e, In e (d_errs st) ->
    (e = XCancel /\ d_handled st = true) \/
    (exists v, e = XTask v /\ d_thread st v = Gone /\ ~ In v (d_okdone st) /\ ~ In v (d_sp st)) \/
    (exists v, e = XSkipped v /\ d_thread st v = NotSpawned /\ ~ In v (d_marked st) /\ In v (vids g)).
  Proof.
    intros R. split; [apply (r_nodup st R)|]. intros e Ie.
    destruct (r_shape st R e Ie) as [->|[v [->| ->]]].
    - left. split; [reflexivity | apply (r_cancel st R); exact Ie].
    - right. left. exists v. split; [reflexivity | apply (r_task st R); exact Ie].
    - right. right. exists v. destruct (r_skipped st R v Ie) as (A & _ & C & D). auto.
  Qed.

  (* Run returns nil exactly when the cancellation was never noticed and every task ran to nil,
     returned ErrorSkipParents, or was skipped through ErrorSkipParents *)
  Theorem nil_iff st : Inv st -> Rep st -> all_done g st = true ->
    (d_errs st = [] <-> d_handled st = false /\ forall v, In v (vids g) -> In v (d_okdone st) \/ In v (d_sp st) \/ In v (d_marked st)).
  Proof.
    intros I R AD. split.
    - intros E. split.
      + destruct (d_handled st) eqn:H; [|reflexivity]. apply (r_cancel st R) in H. rewrite E in H. contradiction.
      + intros v Iv. destruct (fully_reported st I R AD v Iv) as [(T & [H|[H|H]] & _)|(T & _ & [[M _]|[_ X]])]; auto;
          rewrite E in *; contradiction.
    - intros [H A]. destruct (d_errs st) as [|e es] eqn:E; [reflexivity|]. exfalso.
      assert (Ie : In e (d_errs st)) by (rewrite E; left; reflexivity).
      destruct (proj2 (entries_justified st R) e Ie) as [[_ C]|[(v & -> & T & O & SPn)|(v & -> & T & M & Iv)]].
      + congruence.
      + assert (Iv : In v (vids g)) by (apply (t_vids g cf st I); congruence).
        destruct (A v Iv) as [X|[X|X]]; try contradiction.
        apply (t_unmarked g cf st I v); [congruence | exact X].
      + destruct (A v Iv) as [X|[X|X]]; try contradiction.
        * apply (t_okdone g cf st I) in X. congruence.
        * apply (r_sp st R) in X. congruence.
  Qed.

  (* no task that (transitively) depends on a task that did not return nil is ever started *)
  Theorem dependents_never_started st v p :
    Inv st -> ~ In v (d_okdone st) -> depends_on p v -> d_thread st p = NotSpawned.
  Proof.
    intros I O D. induction D as [p c E|p m c E D IH].
    - destruct (thread_eq_dec_ns (d_thread st p)) as [T|T]; [exact T|]. exfalso. apply O. apply (t_down g cf st I p T c E).
    - destruct (thread_eq_dec_ns (d_thread st p)) as [T|T]; [exact T|]. exfalso.
      pose proof (t_down g cf st I p T m E) as Om. apply (t_okdone g cf st I) in Om. rewrite (IH O) in Om. discriminate.
  Qed.

  Theorem failed_blocks_dependents st v p :
    Inv st -> Rep st -> In (XTask v) (d_errs st) -> depends_on p v -> d_thread st p = NotSpawned.
  Proof. intros I R X D. eapply dependents_never_started; eauto. apply (r_task st R). exact X. Qed.

  (* the list only grows, and a failed last attempt is recorded when its completion is received *)
  Theorem errs_grow st l st' : dstep st l = Some st' -> exists suf, d_errs st' = d_errs st ++ suf.
  Proof.
    intros S. unfold Dag.dstep in S. destruct (d_returned st); [discriminate|].
    assert (CC : exists suf, d_errs (ctx_check st) = d_errs st ++ suf).
    { unfold ctx_check. destruct (d_cancelled st && negb (d_handled st))%bool; simpl; [eexists; reflexivity | exists []; rewrite app_nil_r; reflexivity]. }
    destruct l as [v|v b|v| | |v|v r| |v|v].
    - destruct (d_thread st v); try discriminate. unfold receive in S. destruct r.
      + inversion S; subst; simpl. exists []. rewrite app_nil_r. reflexivity.
      + inversion S; subst; simpl. eexists. reflexivity.
      + destruct (skip_parents g _ v _) as [s2 mk]. destruct (up_closed g v mk); [|discriminate].
        inversion S; subst; simpl. exists []. rewrite app_nil_r. reflexivity.
    - destruct (remove_pseudo (v, b) (d_pseudo st)); [|discriminate]. unfold receive in S.
      destruct b; simpl in S; inversion S; subst; simpl; [eexists; reflexivity | exists []; rewrite app_nil_r; reflexivity].
    - destruct (mem_str v (vids g) && negb (serial_blocked g cf st) && eligible g st v)%bool; [|discriminate].
      destruct (status_eqb _ Skip); [inversion S; subst; simpl; exact CC|].
      destruct (d_errs (ctx_check st)) eqn:E; inversion S; subst; simpl; exact CC.
    - destruct ((serial_blocked g cf st || negb (existsb (eligible g st) (vids g))) && _)%bool; [|discriminate].
      inversion S; subst. exact CC.
    - destruct (negb (serial_blocked g cf st) && _ && _)%bool; [|discriminate]. inversion S; subst; simpl. exists []. rewrite app_nil_r. reflexivity.
    - destruct (d_thread st v); try discriminate.
      destruct (N.ltb _ _ && negb (d_envlock st v))%bool; [|discriminate]. inversion S; subst; simpl. exists []. rewrite app_nil_r. reflexivity.
    - destruct (d_thread st v); try discriminate. inversion S; subst; simpl. exists []. rewrite app_nil_r. reflexivity.
    - inversion S; subst; simpl. exists []. rewrite app_nil_r. reflexivity.
    - destruct (negb (d_envlock st v) && negb (thread_holds (d_thread st v)))%bool; [|discriminate]. inversion S; subst; simpl. exists []. rewrite app_nil_r. reflexivity.
    - destruct (d_envlock st v); [|discriminate]. inversion S; subst; simpl. exists []. rewrite app_nil_r. reflexivity.
  Qed.

  Theorem failure_recorded st v st' :
    dstep st (LRecvReal v) = Some st' -> d_thread st v = Finished OErr -> In (XTask v) (d_errs st').
  Proof.
    intros S T. unfold Dag.dstep in S. destruct (d_returned st); [discriminate|]. rewrite T in S.
    simpl in S. inversion S; subst; simpl. apply in_snoc. auto.
  Qed.

  Theorem skip_parents_is_no_failure st v st' :
    dstep st (LRecvReal v) = Some st' -> d_thread st v = Finished OSkipParents -> d_errs st' = d_errs st.
  Proof.
    intros S T. unfold Dag.dstep in S. destruct (d_returned st); [discriminate|]. rewrite T in S.
    unfold receive in S. destruct (skip_parents g _ v _) as [s2 mk]. destruct (up_closed g v mk); [|discriminate].
    inversion S; subst; simpl. reflexivity.
  Qed.
End Report.

(* ---- for every graph the API can build, in every state of every schedule ---- *)
From GO Require Import Proofs.DagBuild.

Theorem built_report ops cf ls st :
  dsteps (build_graph ops) cf (init_state []) ls = Some st -> Rep (build_graph ops) st.
Proof. intros H. eapply rep_reachable; [apply build_graph_sym | exact H]. Qed.

Theorem built_fully_reported ops cf ls st :
  let g := build_graph ops in
  dsteps g cf (init_state []) ls = Some st -> all_done g st = true -> forall v, In v (vids g) ->
  (d_thread st v = Gone /\ (In v (d_okdone st) \/ In v (d_sp st) \/ In (XTask v) (d_errs st)) /\ ~ In (XSkipped v) (d_errs st)) \/
  (d_thread st v = NotSpawned /\ ~ In (XTask v) (d_errs st) /\
   ((In v (d_marked st) /\ ~ In (XSkipped v) (d_errs st)) \/ (~ In v (d_marked st) /\ In (XSkipped v) (d_errs st)))).
Proof. intros g H. apply (fully_reported g cf); [eapply built_reachable | eapply built_report]; exact H. Qed.

Theorem built_entries_justified ops cf ls st :
  let g := build_graph ops in
  dsteps g cf (init_state []) ls = Some st ->
  NoDup (d_errs st) /\ forall e, In e (d_errs st) ->
    (e = XCancel /\ d_handled st = true) \/
    (exists v, e = XTask v /\ d_thread st v = Gone /\ ~ In v (d_okdone st) /\ ~ In v (d_sp st)) \/
    (exists v, e = XSkipped v /\ d_thread st v = NotSpawned /\ ~ In v (d_marked st) /\ In v (vids g)).
Proof. intros g H. apply entries_justified. eapply built_report; exact H. Qed.

Theorem built_nil_iff ops cf ls st :
  let g := build_graph ops in
  dsteps g cf (init_state []) ls = Some st -> all_done g st = true ->
  (d_errs st = [] <-> d_handled st = false /\ forall v, In v (vids g) -> In v (d_okdone st) \/ In v (d_sp st) \/ In v (d_marked st)).
Proof. intros g H. apply (nil_iff g cf); [eapply built_reachable | eapply built_report]; exact H. Qed.

Theorem built_failed_blocks_dependents ops cf ls st v p :
  let g := build_graph ops in
  dsteps g cf (init_state []) ls = Some st -> In (XTask v) (d_errs st) -> depends_on g p v -> d_thread st p = NotSpawned.
Proof. intros g H. apply (failed_blocks_dependents g cf); [eapply built_reachable | eapply built_report]; exact H. Qed.

(* ---- C13, transitively: when a task function is entered every task it depends on, directly or
   through other tasks, has returned nil and that completion was received ---- *)
Lemma okdone_below g cf st m u :
  Inv g cf st -> In m (d_okdone st) -> depends_on g m u -> In u (d_okdone st).
Proof.
  intros I O D. induction D as [p c E|p x c E D IH].
  - apply (t_down g cf st I p); [|exact E]. rewrite (t_okdone g cf st I p O). discriminate.
  - apply IH. apply (t_down g cf st I p); [|exact E]. rewrite (t_okdone g cf st I p O). discriminate.
Qed.

Theorem start_needs_all_dependencies g cf st v st' :
  Inv g cf st -> dstep g cf st (LStart v) = Some st' ->
  forall u, depends_on g v u -> In u (d_okdone st) /\ d_thread st u = Gone.
Proof.
  intros I S u D.
  assert (O : In u (d_okdone st)).
  { destruct D as [p c E|p m c E D].
    - eapply start_needs_dependencies; eauto.
    - eapply okdone_below; [exact I | | exact D]. eapply start_needs_dependencies; eauto. }
  split; [exact O | apply (t_okdone g cf st I u O)].
Qed.

Theorem built_start_needs_all_dependencies ops cf ls st v st' :
  let g := build_graph ops in
  dsteps g cf (init_state []) ls = Some st -> dstep g cf st (LStart v) = Some st' ->
  forall u, depends_on g v u -> In u (d_okdone st) /\ d_thread st u = Gone.
Proof. intros g H. apply start_needs_all_dependencies. eapply built_reachable; exact H. Qed.
