(* The fuel of the modelled skipParents recursion (the number of vertices) suffices on every
   acyclic graph whose edges are recorded on both ends: the receive transition of a task that
   returned ErrorSkipParents is always defined.  This discharges the side condition of
   DagProgress.progress. *)
From GO Require Import Base.Str Base.Utf8 Base.Sort Model.Tree Model.Dag Proofs.DagHold Proofs.DagInv Proofs.DagSort Proofs.DagProgress.
From Coq Require Import Lia.
Open Scope N_scope.

(* the sort only ever visits the vertices of the order and what is reachable from them through
   Children: its output stays inside any set closed under Children that contains the order *)
Section Within.
  Variable g : graph.
  Variable W : vid -> Prop.
  Hypothesis S_closed : forall v c, W v -> In c (children g v) -> W c.

  Lemma visit_within fuel : forall acc v acc',
    visit fuel g acc v = Some (inl acc') -> W v -> (forall u, In u (fst acc) -> W u) -> forall u, In u (fst acc') -> W u.
  Proof.
    induction fuel as [|f IH]; intros acc v acc' H Sv Sa; simpl in H; [discriminate|].
    destruct acc as [sorted st]. destruct (sget st v); [| discriminate | inversion H; subst; exact Sa].
    set (loop := fix children (cs : list vid) (a : dfs_acc) : option (dfs_acc + vid) :=
                   match cs with
                   | [] => Some (inl a)
                   | c :: cs' => match visit f g a c with Some (inl a') => children cs' a' | other => other end
                   end) in H.
    assert (LOOP : forall cs a a', (forall c, In c cs -> W c) -> (forall u, In u (fst a) -> W u) ->
                     loop cs a = Some (inl a') -> forall u, In u (fst a') -> W u).
    { induction cs as [|c cs IHc]; intros a a' Sc Sa0 L; simpl in L; [inversion L; subst; exact Sa0|].
      destruct (visit f g a c) as [[a1|w]|] eqn:Vc; try discriminate.
      apply (IHc a1 a'); [intros c0 I0; apply Sc; right; exact I0 | | exact L].
      apply (IH a c a1 Vc); [apply Sc; left; reflexivity | exact Sa0]. }
    destruct (loop (v_children (vget g v)) (sorted, sset v Visited st)) as [[[sorted' st']|w]|] eqn:L; try discriminate.
    inversion H; subst; clear H. simpl. intros u Iu. apply in_app_or in Iu as [Iu|[<-|[]]]; [|exact Sv].
    apply (LOOP (v_children (vget g v)) (sorted, sset v Visited st) (sorted', st') (fun c Ic => S_closed v c Sv Ic) Sa L u Iu).
  Qed.

  Lemma dfs_from_within fuel : forall order acc acc',
    dfs_from fuel g order acc = Some (inl acc') -> (forall v, In v order -> W v) ->
    (forall u, In u (fst acc) -> W u) -> forall u, In u (fst acc') -> W u.
  Proof.
    induction order as [|v rest IH]; intros acc acc' H So Sa; simpl in H; [inversion H; subst; exact Sa|].
    destruct (sget (snd acc) v).
    - destruct (visit fuel g acc v) as [[a1|w]|] eqn:Vv; try discriminate.
      apply (IH a1 acc' H); [intros x Ix; apply So; right; exact Ix|].
      apply (visit_within fuel acc v a1 Vv); [apply So; left; reflexivity | exact Sa].
    - apply (IH acc acc' H); [intros x Ix; apply So; right; exact Ix | exact Sa].
    - apply (IH acc acc' H); [intros x Ix; apply So; right; exact Ix | exact Sa].
  Qed.

  Lemma dfs_sort_within order l :
    dfs_sort g order = Some (inl l) -> (forall v, In v order -> W v) -> forall u, In u l -> W u.
  Proof.
    unfold dfs_sort. intros H So.
    destruct (dfs_from _ g order ([], [])) as [[[sorted st]|w]|] eqn:D; try discriminate.
    inversion H; subst; clear H.
    apply (dfs_from_within _ order ([], []) (l, st) D So). intros u [].
  Qed.
End Within.

Section Fuel.
  Variable g : graph.
  Variable cf : config.
  Notation children := (children g).
  Notation parents := (parents g).
  Notation vids := (vids g).
  Hypothesis SYM : forall p c, In c (children p) <-> In p (parents c).

  (* a topological order of the graph (what DepthFirstSort produced) *)
  Variable l : list vid.
  Hypothesis ND : NoDup l.
  Hypothesis All : forall v, In v vids -> In v l.
  Hypothesis Bef : forall u, In u l -> forall c, In c (children u) -> before c u l.

  Lemma parent_is_vertex c p : In p (parents c) -> In p vids.
  Proof.
    intros H. apply SYM in H. unfold Dag.children, vget in H. unfold Dag.vids.
    destruct (alookup p (g_vs g)) eqn:A; [eapply alookup_Some_key; eauto | simpl in H; contradiction].
  Qed.

  (* the part of l after (the first occurrence of) v *)
  Fixpoint after (v : vid) (l : list vid) : list vid :=
    match l with
    | [] => []
    | x :: r => if str_eqb x v then r else after v r
    end.

  Lemma after_split v l1 l2 : ~ In v l1 -> after v (l1 ++ v :: l2) = l2.
  Proof.
    induction l1 as [|a l1 IH]; intros N; simpl.
    - rewrite str_eqb_refl. reflexivity.
    - destruct (str_eqb_spec a v) as [->|Ne]; [exfalso; apply N; left; reflexivity|].
      apply IH. intros I. apply N. right. exact I.
  Qed.

  Definition rank (v : vid) : nat := length (after v l).

  Lemma parent_rank c p : In p (parents c) -> (rank p < rank c)%nat.
  Proof.
    intros H. pose proof (parent_is_vertex c p H) as Ip. apply All in Ip.
    apply SYM in H. destruct (Bef p Ip c H) as (x & y & E & Icx).
    apply in_split in Icx as (x1 & x2 & ->).
    assert (Nc : ~ In c x1 /\ ~ In p (x1 ++ c :: x2)).
    { rewrite E in ND. split.
      - intros I. rewrite <- app_assoc in ND. simpl in ND. apply NoDup_remove_2 in ND. apply ND.
        apply in_or_app. left. exact I.
      - apply NoDup_remove_2 in ND. intros I. apply ND. apply in_or_app. left. exact I. }
    destruct Nc as [Nc Np]. unfold rank. rewrite E.
    rewrite (after_split p (x1 ++ c :: x2) y Np).
    rewrite <- app_assoc. simpl. rewrite (after_split c x1 (x2 ++ p :: y) Nc).
    rewrite app_length. simpl. lia.
  Qed.

  Lemma rank_bound v : In v l -> (rank v < length l)%nat.
  Proof.
    intros I. apply in_split in I as (l1 & l2 & E). unfold rank.
    assert (N : ~ In v l1).
    { rewrite E in ND. apply NoDup_remove_2 in ND. intros I. apply ND. apply in_or_app. left. exact I. }
    rewrite E at 1. rewrite (after_split v l1 l2 N). rewrite E, app_length. simpl. lia.
  Qed.

  Definition sp_acc := ((vid -> status) * list vid)%type.

  Lemma sp_mono fuel v (acc : sp_acc) u : In u (snd acc) -> In u (snd (skip_parents g fuel v acc)).
  Proof. intros I. destruct (skip_parents_spec g fuel v acc) as (_ & M & _). apply M. exact I. Qed.

  (* with fuel above the rank, the recursion marks every parent and whatever it marks has all
     its own parents marked *)
  Definition closes (v : vid) (acc r : sp_acc) : Prop :=
    (forall p, In p (parents v) -> In p (snd r)) /\
    (forall c, In c (snd r) -> In c (snd acc) \/ forall p, In p (parents c) -> In p (snd r)).

  Lemma skip_parents_closes fuel : forall v acc, (rank v < fuel)%nat -> closes v acc (skip_parents g fuel v acc).
  Proof.
    induction fuel as [|f IH]; intros v acc R; [lia|]. simpl.
    assert (G : forall ps a,
              (forall p, In p ps -> In p (parents v)) ->
              let r := List.fold_left (fun a p => skip_parents g f p (upd (fst a) p Skip, p :: snd a)) ps a in
              (forall p, In p ps -> In p (snd r)) /\
              (forall u, In u (snd a) -> In u (snd r)) /\
              (forall c, In c (snd r) -> In c (snd a) \/ forall p, In p (parents c) -> In p (snd r))).
    { induction ps as [|p ps IHp]; intros a Sub; simpl.
      - split; [intros p []|]. split; auto.
      - assert (Rp : (rank p < f)%nat).
        { pose proof (parent_rank v p (Sub p (or_introl eq_refl))). lia. }
        set (a1 := skip_parents g f p (upd (fst a) p Skip, p :: snd a)).
        destruct (IH p (upd (fst a) p Skip, p :: snd a) Rp) as [A1 B1]. fold a1 in A1, B1.
        destruct (IHp a1 (fun q Iq => Sub q (or_intror Iq))) as (A2 & M2 & B2).
        assert (M1 : forall u, In u (p :: snd a) -> In u (snd a1)).
        { intros u Iu. unfold a1. apply sp_mono. exact Iu. }
        split; [|split].
        + intros q [<-|Iq]; [apply M2, M1; left; reflexivity | apply A2; exact Iq].
        + intros u Iu. apply M2, M1. right. exact Iu.
        + intros c Ic. destruct (B2 c Ic) as [Ic1|Cl]; [|right; exact Cl].
          destruct (B1 c Ic1) as [[<-|Ica]|Cl].
          * right. intros q Iq. apply M2, A1. exact Iq.
          * left. exact Ica.
          * right. intros q Iq. apply M2, Cl. exact Iq. }
    destruct (G (parents v) acc (fun p Ip => Ip)) as (A & _ & B). split; [exact A | exact B].
  Qed.


  (* every element of the order is a vertex *)
  Hypothesis Lsub : forall v, In v l -> In v vids.

  Lemma rank_lt_vertices v : In v l -> (rank v < length vids)%nat.
  Proof.
    intros I. pose proof (rank_bound v I). pose proof (NoDup_incl_length ND Lsub). lia.
  Qed.

  (* the receive transition is defined for every outcome of every vertex of the graph *)
  Theorem receive_defined st v r real :
    Inv g cf st -> In v vids -> receive g st v r real <> None.
  Proof.
    intros I Iv. unfold receive. destruct r; try discriminate.
    destruct (skip_parents g (length vids) v (upd (d_status st) v Done, d_marked st)) as [s2 mk] eqn:SP.
    assert (C : closes v (upd (d_status st) v Done, d_marked st) (s2, mk)).
    { rewrite <- SP. apply skip_parents_closes. apply rank_lt_vertices. apply All. exact Iv. }
    destruct C as [A B]. simpl in A, B.
    assert (U : up_closed g v mk = true).
    { unfold up_closed. apply andb_true_intro. split.
      - apply forallb_forall. intros p Ip. apply mem_str_In. apply A. exact Ip.
      - apply forallb_forall. intros c Ic. apply forallb_forall. intros p Ip. apply mem_str_In.
        destruct (B c Ic) as [Old|New]; [|apply New; exact Ip].
        assert (Mono : In p (d_marked st)) by (eapply (m_up g cf st I); eauto).
        pose proof (sp_mono (length vids) v (upd (d_status st) v Done, d_marked st) p Mono) as X.
        rewrite SP in X. exact X. }
    rewrite U. discriminate.
  Qed.
End Fuel.
