(* Completion candidates (C17). *)
From GO Require Import Base.Str Base.Sort Base.Utf8 Model.Tokenizer Model.Option Model.Tree Model.Parse Model.Complete.
From GO Require Import Proofs.TokLemmas Proofs.ParseLemmas Proofs.Match.
From Coq Require Import Sorting.Permutation Sorting.Sorted.
Open Scope N_scope.

Section CompleteLemmas.
  Variable specs : list ospec.
  Variable vfn : nat -> target -> str -> list str.
  Variable afn : nat -> target -> list str -> str -> list str.

  Notation opt_entry := (opt_entry vfn).
  Notation option_completions := (option_completions specs vfn).
  Notation command_completions := (command_completions afn).

  (* the list before the single-candidate hint is added *)
  Definition option_base (t : target) (n : node) (w : str) : list str :=
    sort_strs (flat_map (fun kv => match nth_error specs (snd kv) with
                                   | Some sp => opt_entry t w (strip_dashes w) (fst kv) sp
                                   | None => []
                                   end) (n_opts n)).

  Definition opt_word (k : str) (sp : ospec) : str :=
    [DASH; DASH] ++ k ++ (match os_kind sp with KBool => [] | _ => [61] end).

  Lemma contains_byte_app c a b : contains_byte c (a ++ b) = (contains_byte c a || contains_byte c b)%bool.
  Proof. induction a as [|x a IH]; simpl; [reflexivity|]. rewrite IH. apply Bool.orb_assoc. Qed.

  (* `k=` can only be a prefix of a text that contains `=` *)
  Lemma no_eq_no_value_prefix (k p : str) : contains_byte 61 p = false -> prefixb (k ++ [61]) p = false.
  Proof.
    intros NE. destruct (prefixb (k ++ [61]) p) eqn:P; [|reflexivity].
    apply prefixb_spec in P as [r ->]. rewrite !contains_byte_app in NE. simpl in NE.
    rewrite Bool.orb_true_r in NE. discriminate.
  Qed.

  (* C17, options: for a last word without '=', the options offered are precisely the keys (names
     and aliases, inherited ones included: whatever is in the level's table) that start with the
     typed text; the lone dash is offered only for the word "-" *)
  Theorem option_candidates t n w c :
    contains_byte 61 (strip_dashes w) = false ->
    (In c (option_base t n w) <->
     exists k oid sp, In (k, oid) (n_opts n) /\ nth_error specs oid = Some sp /\
       ((k = [DASH] /\ w = [DASH] /\ c = [DASH]) \/
        (k <> [DASH] /\ prefixb (strip_dashes w) k = true /\ c = opt_word k sp))).
  Proof.
    intros NE. unfold option_base. rewrite sort_strs_In, in_flat_map. split.
    - intros ([k oid] & I & H). simpl in H. destruct (nth_error specs oid) as [sp|] eqn:S; [|contradiction].
      exists k, oid, sp. split; [exact I|]. split; [exact S|].
      unfold Complete.opt_entry in H. rewrite (no_eq_no_value_prefix k _ NE) in H. rewrite app_nil_r in H.
      destruct (str_eqb_spec k [DASH]) as [->|Nk].
      + destruct (str_eqb_spec w [DASH]) as [->|]; [|contradiction]. destruct H as [<-|[]]. left. auto.
      + destruct (prefixb (strip_dashes w) k) eqn:P; [|contradiction]. destruct H as [<-|[]]. right. auto.
    - intros (k & oid & sp & I & S & H). exists (k, oid). split; [exact I|]. simpl. rewrite S.
      unfold Complete.opt_entry. rewrite (no_eq_no_value_prefix k _ NE). rewrite app_nil_r.
      destruct H as [(-> & -> & ->)|(Nk & P & ->)].
      + rewrite !str_eqb_refl. left; reflexivity.
      + apply str_eqb_neq in Nk. rewrite Nk, P. left; reflexivity.
  Qed.

  (* C17, values: after `--name=`, for a key without '=', precisely that option's suggested / valid
     values and the results of its value function, restricted to those that extend the typed word,
     rendered per target *)
  Theorem value_candidates t w k sp :
    k <> [DASH] -> prefixb (strip_dashes w) k = false ->
    opt_entry t w (strip_dashes w) k sp =
      if prefixb (k ++ [61]) (strip_dashes w) then
        let cand e := [DASH; DASH] ++ k ++ [61] ++ e in
        List.map (render t) (List.filter (fun c => prefixb w c) (List.map cand (os_suggested sp))) ++
        match os_sfn sp with
        | Some f => List.map (render t) (List.filter (fun c => prefixb w c) (List.map cand (vfn f t (after_eq w))))
        | None => []
        end
      else [].
  Proof.
    intros Nk NP. unfold Complete.opt_entry. apply str_eqb_neq in Nk. rewrite Nk, NP. simpl. reflexivity.
  Qed.

  (* C17, commands and arguments *)
  Definition command_base (t : target) (n : node) (prev : list str) (w : str) : list str :=
    sort_strs (List.filter (prefixb w) (keys (n_cmds n)) ++
               List.filter (prefixb w) (ni_suggestions (n_info n)) ++
               flat_map (fun f => afn f t prev w) (ni_sfns (n_info n))).

  Theorem command_candidates t n prev w c :
    In c (command_base t n prev w) <->
    (In c (keys (n_cmds n)) /\ prefixb w c = true) \/
    (In c (ni_suggestions (n_info n)) /\ prefixb w c = true) \/
    (exists f, In f (ni_sfns (n_info n)) /\ In c (afn f t prev w)).
  Proof.
    unfold command_base. rewrite sort_strs_In, !in_app_iff, !filter_In, in_flat_map. tauto.
  Qed.

  Theorem command_completions_shape t n prev w :
    command_completions t n prev w =
      match command_base t n prev w, t with
      | [c], Bash => [c ++ [32]]
      | l, _ => l
      end.
  Proof. unfold Complete.command_completions, command_base. destruct (sort_strs _) as [|c [|c2 l]]; destruct t; reflexivity. Qed.

  (* C17: sorted *)
  Theorem option_base_sorted t n w : Sorted sle (option_base t n w).
  Proof. apply sort_strs_sorted. Qed.

  Theorem command_base_sorted t n prev w : Sorted sle (command_base t n prev w).
  Proof. apply sort_strs_sorted. Qed.

  Lemma sorted_single (x : str) : Sorted sle [x].
  Proof. repeat constructor. Qed.

  Theorem option_completions_sorted t n w : Sorted sle (option_completions t n w).
  Proof.
    unfold Complete.option_completions.
    set (base := sort_strs _).
    assert (Sb : Sorted sle base) by apply sort_strs_sorted.
    destruct base as [|c [|c2 l]]; try exact Sb.
    destruct (ends_with_eq c); [|exact Sb].
    destruct (last_opt specs (n_opts n) (strip_dashes w)); [apply sort_strs_sorted | exact Sb].
  Qed.

  Theorem command_completions_sorted t n prev w : Sorted sle (command_completions t n prev w).
  Proof.
    rewrite command_completions_shape. pose proof (command_base_sorted t n prev w) as S.
    destruct (command_base t n prev w) as [|c [|c2 l]]; destruct t; try exact S; apply sorted_single.
  Qed.

  (* C17: every offered option is accepted by the parser at that level: it is an exact key *)
  Theorem offered_option_is_key t n w c :
    NoDup (keys (n_opts n)) ->
    contains_byte 61 (strip_dashes w) = false -> In c (option_base t n w) -> c <> [DASH] ->
    exists k oid sp, c = opt_word k sp /\ matches (n_opts n) k = [(k, oid)] /\ nth_error specs oid = Some sp.
  Proof.
    intros ND NE I Nd. apply (option_candidates t n w c NE) in I as (k & oid & sp & It & S & H).
    destruct H as [(_ & _ & ->)|(Nk & P & ->)]; [congruence|].
    exists k, oid, sp. split; [reflexivity|]. split; [|exact S].
    apply matches_exact. apply alookup_NoDup; assumption.
  Qed.

  (* C17: every offered subcommand is one the parser descends into at that level *)
  Theorem offered_command_is_child n c :
    In c (keys (n_cmds n)) -> exists child, alookup c (n_cmds n) = Some child.
  Proof.
    intros I. destruct (alookup c (n_cmds n)) as [ch|] eqn:L; [eauto|].
    apply alookup_None in L. contradiction.
  Qed.
End CompleteLemmas.

(* C17: completing never runs a command function and always leaves through the exit path: the
   result of [complete] is a candidate list or an error text, both followed by exit 124; there is
   no constructor for "a function ran" *)
Theorem complete_result_shape (r : cresult) :
  (exists l, r = CList l) \/ (exists e, r = CErr e).
Proof. destruct r; eauto. Qed.

(* a last word that is consumed as the value of the option before it, or that lies behind `--` or
   the require-order stop, gets no candidates *)
Theorem tail_offers_nothing pf md lower specs vfn afn t root st0 earlier w st :
  run pf md lower true specs (init root st0) earlier = Ok st -> ph st = PTail ->
  complete pf md lower specs vfn afn t root st0 (earlier ++ [w]) = CList [].
Proof.
  intros R P. unfold complete. rewrite rev_app_distr. simpl. rewrite rev_involutive, R, P. reflexivity.
Qed.

(* a last word reaching the head of the loop in state [st] (no option is waiting for values) gets
   exactly the candidates of that level *)
Theorem head_offers_candidates pf md lower specs vfn afn t root st0 earlier w st :
  run pf md lower true specs (init root st0) earlier = Ok st -> ph st = PHead ->
  complete pf md lower specs vfn afn t root st0 (earlier ++ [w]) = CList (candidates specs vfn afn t st w).
Proof.
  intros R P. unfold complete. rewrite rev_app_distr. simpl. rewrite rev_involutive, R, P. reflexivity.
Qed.
