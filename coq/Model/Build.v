(* The definition API (user.go, user_options.go, user_help.go) as operations on the program tree:
   what New / Bool / String / ... / NewCommand / HelpCommand / Set* build.  The harness executes
   the same operation list against the real API and compares the resulting tree. *)
From GO Require Import Base.Str Base.Utf8 Base.Sort Model.Tokenizer Model.Option Model.Tree.
From Coq Require Import String.
Open Scope N_scope.

Record optdef := mkOptDef {
  od_kind : kind;
  od_name : str;
  od_aliases : list str;
  od_default : value;          (* declared default ([] / {} for slices and maps) *)
  od_min : nat; od_max : nat;  (* only used for slice / map kinds *)
  od_required : bool;
  od_reqmsg : str;
  od_env : str;                (* GetEnv name, "" = none *)
  od_valid : list str;
  od_validq : str;             (* fmt %q of the valid values (from Go) *)
  od_suggested : list str;
  od_sfn : option nat;
  od_setcalled : option (bool * bool);  (* SetCalled modifier: (value, written before the GetEnv modifier) *)
  od_desc : str;
  od_argname : str;            (* ArgName modifier, "" = none *)
  od_defstr : str              (* DefaultStr as fmt renders the default (from Go) *)
}.

Inductive bop :=
| BOpt (path : list str) (o : optdef)
| BNewCmd (path : list str) (name desc : str)
| BUnset (path : list str)
| BUMode (path : list str) (m : umode)
| BReqOrder (path : list str)
| BArgCompl (path : list str) (l : list str)
| BArgFns (path : list str) (l : list nat)
| BSynArg (path : list str) (a d : str)
| BSelf (path : list str) (name desc : str)   (* Self on a command: display name and description *)
| BSetFn (path : list str) (id : nat)
| BHelp (name : str) (aliases : list str).

(* the tree under construction: nodes carry skipOptionsCopy as well *)
Inductive bnode := BNode (i : ninfo) (skip : bool) (opts : list (str * nat)) (cmds : list (str * bnode)).

Definition bn_info (n : bnode) := match n with BNode i _ _ _ => i end.
Definition bn_skip (n : bnode) := match n with BNode _ s _ _ => s end.
Definition bn_opts (n : bnode) := match n with BNode _ _ o _ => o end.
Definition bn_cmds (n : bnode) := match n with BNode _ _ _ c => c end.

Definition set_info (n : bnode) (i : ninfo) : bnode := BNode i (bn_skip n) (bn_opts n) (bn_cmds n).

(* map assignment m[k] = v on association lists *)
Fixpoint aset {V} (k : str) (v : V) (l : list (str * V)) : list (str * V) :=
  match l with
  | [] => [(k, v)]
  | (k', v') :: l' => if str_eqb k k' then (k, v) :: l' else (k', v') :: aset k v l'
  end.

(* copyOptionsFromParent: every option key of the parent is assigned in every child that is neither
   the help command nor a wrapper; then the same from every child down *)
Fixpoint copy_down (fuel : nat) (n : bnode) : bnode :=
  match fuel with
  | O => n
  | S f =>
      match n with
      | BNode i skip opts cmds =>
          BNode i skip opts
            (List.map (fun kc =>
               let c := snd kc in
               let c' :=
                 if str_eqb (ni_name (bn_info c)) (ni_helpname i) || bn_skip c then c
                 else BNode (bn_info c) (bn_skip c)
                            (List.fold_left (fun acc kv => aset (fst kv) (snd kv) acc) opts (bn_opts c))
                            (bn_cmds c) in
               (fst kc, copy_down f c')) cmds)
      end
  end.

Fixpoint bdepth (fuel : nat) (n : bnode) : nat :=
  match fuel with
  | O => O
  | S f => S (List.fold_left (fun acc kc => Nat.max acc (bdepth f (snd kc))) (bn_cmds n) O)
  end.

(* apply f to the node at path *)
Fixpoint update_at (path : list str) (f : bnode -> option bnode) (n : bnode) : option bnode :=
  match path with
  | [] => f n
  | c :: rest =>
      match n with
      | BNode i skip opts cmds =>
          let fix go (l : list (str * bnode)) : option (list (str * bnode)) :=
            match l with
            | [] => None
            | (k, ch) :: l' =>
                if str_eqb k c then
                  match update_at rest f ch with Some ch' => Some ((k, ch') :: l') | None => None end
                else match go l' with Some r => Some ((k, ch) :: r) | None => None end
            end in
          match go cmds with Some cmds' => Some (BNode i skip opts cmds') | None => None end
      end
  end.

Definition default_argname (k : kind) : str :=
  match k with
  | KStr | KStrOpt | KStrRep => s2l "string"
  | KInt | KIntOpt | KIntRep => s2l "int"
  | KFloat | KFloatOpt | KFloatRep => s2l "float64"
  | KMap => s2l "key=value"
  | KBool | KIncr => []
  end.

(* option.New: MinArgs / MaxArgs per kind (slices and maps take the declared bounds) *)
Definition kind_min (k : kind) (declared : nat) : nat :=
  match k with
  | KBool | KIncr | KStrOpt | KIntOpt | KFloatOpt => 0
  | KStr | KInt | KFloat => 1
  | _ => declared
  end.
Definition kind_max (k : kind) (declared : nat) : nat :=
  match k with
  | KBool | KIncr => 0
  | KStr | KInt | KFloat | KStrOpt | KIntOpt | KFloatOpt => 1
  | _ => declared
  end.

Section WithEnv.
  Variable pf : str -> option N.
  Variable env : list (str * str).   (* the process environment at definition time *)

  Definition getenv (n : str) : str := match alookup n env with Some v => v | None => [] end.

  Definition spec_of (o : optdef) : ospec :=
    mkSpec (od_name o) (od_kind o) (kind_min (od_kind o) (od_min o)) (kind_max (od_kind o) (od_max o))
           (od_valid o) (od_validq o) (od_required o) (od_reqmsg o)
           (match od_default o with VBool b => b | _ => false end)
           (od_name o :: od_aliases o) (od_env o) (od_defstr o) (od_desc o)
           (match od_argname o with [] => default_argname (od_kind o) | a => a end)
           (match od_valid o with [] => od_suggested o | v => v ++ od_suggested o end)
           (od_sfn o).

  (* GetEnv at definition time: Save the variable's text (a failing Save is ignored) and mark the
     option called under the variable's name; only for the supported kinds, only when not empty *)
  Definition env_state (o : optdef) (sp : ospec) (os : ostate) : ostate :=
    match od_env o with
    | [] => os
    | name =>
        match getenv name with
        | [] => os
        | v =>
            match od_kind o with
            | KBool =>
                let lv := to_lower v in
                if str_eqb lv (s2l "true") || str_eqb lv (s2l "false") then
                  match save pf false sp os [lv] with
                  | Ok os' => mkState (o_val os') true name
                  | Err _ => mkState (o_val os) true name
                  end
                else os
            | KStr | KInt | KFloat | KStrOpt | KIntOpt | KFloatOpt =>
                match save pf false sp os [v] with
                | Ok os' => mkState (o_val os') true name
                | Err _ => mkState (o_val os) true name
                end
            | _ => os
            end
        end
    end.

  (* modifiers run in the order they are written: SetCalled before GetEnv is overridden by a bound
     variable, SetCalled after GetEnv overrides it *)
  Definition apply_setcalled (sc : option (bool * bool)) (first : bool) (os : ostate) : ostate :=
    match sc with
    | Some (b, f) => if Bool.eqb f first then mkState (o_val os) b (o_used os) else os
    | None => os
    end.

  Definition initial_state (o : optdef) : ostate :=
    let sp := spec_of o in
    let os0 := apply_setcalled (od_setcalled o) true (mkState (od_default o) false []) in
    let os1 := env_state o sp os0 in
    apply_setcalled (od_setcalled o) false os1.

  (* slices and maps validate their bounds at definition time (a panic in Go) *)
  Definition bounds_ok (o : optdef) : bool :=
    match od_kind o with
    | KStrRep | KIntRep | KFloatRep | KMap => Nat.ltb 0 (od_min o) && Nat.leb (od_min o) (od_max o)
    | _ => true
    end.

  (* AddChildOption for the name and every alias: empty or duplicate keys panic *)
  Fixpoint add_keys (ks : list str) (oid : nat) (tbl : list (str * nat)) : option (list (str * nat)) :=
    match ks with
    | [] => Some tbl
    | k :: ks' =>
        match k with
        | [] => None
        | _ => match alookup k tbl with
               | Some _ => None
               | None => add_keys ks' oid (tbl ++ [(k, oid)])
               end
        end
    end.

  Record bstate := mkB {
    b_root : bnode;
    b_specs : list ospec;
    b_store : list ostate
  }.

  Definition new_info (name desc : str) (parent : ninfo) : ninfo :=
    mkInfo name desc (ni_umode parent) (ni_reqorder parent) (ni_helpname parent) FnNone [] [] [].

  Definition on_info (f : ninfo -> ninfo) (n : bnode) : option bnode := Some (set_info n (f (bn_info n))).

  Definition tree_fuel (n : bnode) : nat := S (bdepth 64 n).

  (* the help command added to a node *)
  Definition help_child (name : str) (parent : bnode) : bnode :=
    BNode (mkInfo name [] Fail false name FnHelp
                  (List.filter (fun k => negb (str_eqb k name)) (keys (bn_cmds parent))) [] [(s2l "<topic>", [])])
          false [] [].

  (* add the help command to every node that is not itself named like it; set HelpCommandName everywhere *)
  Fixpoint add_help (fuel : nat) (name : str) (n : bnode) : option bnode :=
    match fuel with
    | O => Some n
    | S f =>
        match n with
        | BNode i skip opts cmds =>
            let i' := mkInfo (ni_name i) (ni_desc i) (ni_umode i) (ni_reqorder i) name (ni_fn i)
                             (ni_suggestions i) (ni_sfns i) (ni_synargs i) in
            let fix go (l : list (str * bnode)) : option (list (str * bnode)) :=
              match l with
              | [] => Some []
              | (k, c) :: l' =>
                  match add_help f name c, go l' with
                  | Some c', Some r => Some ((k, c') :: r)
                  | _, _ => None
                  end
              end in
            match go cmds with
            | None => None
            | Some cmds' =>
                if str_eqb (ni_name i) name then Some (BNode i' skip opts cmds')
                else match alookup name cmds' with
                     | Some _ => None   (* Command already defined: panic *)
                     | None => Some (BNode i' skip opts (cmds' ++ [(name, help_child name (BNode i skip opts cmds))]))
                     end
            end
        end
    end.

  Definition define_option (path : list str) (o : optdef) (b : bstate) : option bstate :=
    if negb (bounds_ok o) then None
    else
      let oid := List.length (b_specs b) in
      match update_at path (fun n =>
              match add_keys (od_name o :: od_aliases o) oid (bn_opts n) with
              | Some tbl => Some (BNode (bn_info n) (bn_skip n) tbl (bn_cmds n))
              | None => None
              end) (b_root b) with
      | Some r => Some (mkB r (b_specs b ++ [spec_of o]) (b_store b ++ [initial_state o]))
      | None => None
      end.

  Definition apply_op (b : bstate) (op : bop) : option bstate :=
    let upd path f := match update_at path f (b_root b) with
                      | Some r => Some (mkB r (b_specs b) (b_store b))
                      | None => None
                      end in
    match op with
    | BOpt path o => define_option path o b
    | BNewCmd path name desc =>
        match name with
        | [] => None
        | _ =>
            match update_at path (fun n =>
                    match alookup name (bn_cmds n) with
                    | Some _ => None
                    | None =>
                        let child := BNode (new_info name desc (bn_info n)) false [] [] in
                        let n' := BNode (bn_info n) (bn_skip n) (bn_opts n) (bn_cmds n ++ [(name, child)]) in
                        Some (copy_down (tree_fuel n') n')
                    end) (b_root b) with
            | Some r => Some (mkB r (b_specs b) (b_store b))
            | None => None
            end
        end
    | BUnset path => upd path (fun n => Some (BNode (bn_info n) true [] (bn_cmds n)))
    | BUMode path m => upd path (on_info (fun i =>
        mkInfo (ni_name i) (ni_desc i) m (ni_reqorder i) (ni_helpname i) (ni_fn i) (ni_suggestions i) (ni_sfns i) (ni_synargs i)))
    | BReqOrder path => upd path (on_info (fun i =>
        mkInfo (ni_name i) (ni_desc i) (ni_umode i) true (ni_helpname i) (ni_fn i) (ni_suggestions i) (ni_sfns i) (ni_synargs i)))
    | BArgCompl path l => upd path (on_info (fun i =>
        mkInfo (ni_name i) (ni_desc i) (ni_umode i) (ni_reqorder i) (ni_helpname i) (ni_fn i) l (ni_sfns i) (ni_synargs i)))
    | BArgFns path l => upd path (on_info (fun i =>
        mkInfo (ni_name i) (ni_desc i) (ni_umode i) (ni_reqorder i) (ni_helpname i) (ni_fn i) (ni_suggestions i) (ni_sfns i ++ l) (ni_synargs i)))
    | BSynArg path a d => upd path (on_info (fun i =>
        mkInfo (ni_name i) (ni_desc i) (ni_umode i) (ni_reqorder i) (ni_helpname i) (ni_fn i) (ni_suggestions i) (ni_sfns i) (ni_synargs i ++ [(a, d)])))
    | BSelf path name desc => upd path (on_info (fun i =>
        mkInfo name desc (ni_umode i) (ni_reqorder i) (ni_helpname i) (ni_fn i) (ni_suggestions i) (ni_sfns i) (ni_synargs i)))
    | BSetFn path id => upd path (on_info (fun i =>
        mkInfo (ni_name i) (ni_desc i) (ni_umode i) (ni_reqorder i) (ni_helpname i) (FnUser id) (ni_suggestions i) (ni_sfns i) (ni_synargs i)))
    | BHelp name aliases =>
        (* the help option at the root, then the help commands, then a full copy down *)
        let hopt := mkOptDef KBool name aliases (VBool false) 0 0 false [] [] [] (s2l "[]") [] None None [] [] (s2l "false") in
        match define_option [] hopt b with
        | None => None
        | Some b1 =>
            match add_help (tree_fuel (b_root b1)) name (b_root b1) with
            | None => None
            | Some r => Some (mkB (copy_down (tree_fuel r) r) (b_specs b1) (b_store b1))
            end
        end
    end.

  Fixpoint apply_ops (b : bstate) (ops : list bop) : option bstate :=
    match ops with
    | [] => Some b
    | op :: r => match apply_op b op with Some b' => apply_ops b' r | None => None end
    end.

  Definition empty_info (name desc : str) : ninfo := mkInfo name desc Fail false [] FnNone [] [] [].

  Definition build (name desc : str) (ops : list bop) : option bstate :=
    apply_ops (mkB (BNode (empty_info name desc) false [] []) [] []) ops.
End WithEnv.

(* forget the construction-time flag *)
Fixpoint to_node (fuel : nat) (n : bnode) : node :=
  match fuel with
  | O => Node (bn_info n) (bn_opts n) []
  | S f => Node (bn_info n) (bn_opts n) (List.map (fun kc => (fst kc, to_node f (snd kc))) (bn_cmds n))
  end.

(* ---- canonical form: tables sorted by key, option ids renumbered in first-visit order of a
        depth-first walk over the sorted tables (what the dump of the real tree does) ---- *)

Fixpoint insert_by_key {V} (x : str * V) (l : list (str * V)) : list (str * V) :=
  match l with
  | [] => [x]
  | y :: l' => if str_leb (fst x) (fst y) then x :: l else y :: insert_by_key x l'
  end.
Fixpoint sort_by_key {V} (l : list (str * V)) : list (str * V) :=
  match l with [] => [] | x :: l' => insert_by_key x (sort_by_key l') end.

Fixpoint index_of (x : nat) (l : list nat) (i : nat) : option nat :=
  match l with
  | [] => None
  | y :: l' => if Nat.eqb x y then Some i else index_of x l' (S i)
  end.

(* [seen]: old ids in order of first visit; new id = position *)
Fixpoint renumber_table (tbl : list (str * nat)) (seen : list nat) : list (str * nat) * list nat :=
  match tbl with
  | [] => ([], seen)
  | (k, o) :: r =>
      match index_of o seen 0 with
      | Some i => let (r', s') := renumber_table r seen in ((k, i) :: r', s')
      | None => let (r', s') := renumber_table r (seen ++ [o]) in ((k, List.length seen) :: r', s')
      end
  end.

Fixpoint canon_node (fuel : nat) (n : node) (seen : list nat) : node * list nat :=
  match fuel with
  | O => (n, seen)
  | S f =>
      let (tbl, seen1) := renumber_table (sort_by_key (n_opts n)) seen in
      let fix go (l : list (str * node)) (s : list nat) : list (str * node) * list nat :=
        match l with
        | [] => ([], s)
        | (k, c) :: l' =>
            let (c', s1) := canon_node f c s in
            let (r, s2) := go l' s1 in ((k, c') :: r, s2)
        end in
      let (cmds, seen2) := go (sort_by_key (n_cmds n)) seen1 in
      (Node (n_info n) tbl cmds, seen2)
  end.

Definition pick {A} (l : list A) (seen : list nat) : list A :=
  flat_map (fun o => match nth_error l o with Some x => [x] | None => [] end) seen.

Definition canon (root : node) (specs : list ospec) (store : list ostate) : node * list ospec * list ostate :=
  let (r, seen) := canon_node 64 root [] in (r, pick specs seen, pick store seen).
