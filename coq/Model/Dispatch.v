(* GetOpt.Dispatch (user.go) and runHelp (user_help.go). *)
From GO Require Import Base.Str Base.Utf8 Model.Tokenizer Model.Option Model.Tree Model.Parse Model.Help.
From Coq Require Import String.
Open Scope N_scope.

Inductive dresult :=
| DRan (fn : nat) (args : list str) (view : list (str * ostate))
    (* exactly one user CommandFn is invoked, once, with these arguments and this view *)
| DHelp (txt : str)      (* txt written to Writer, ErrorHelpCalled returned, no user function *)
| DRootHelp (txt : str)  (* root without CommandFn: txt written to Writer, nil returned *)
| DErr (e : err).        (* error returned, nothing written, no user function *)

Definition msg_no_help_topic (a : str) : str := s2l "no help topic for '" ++ a ++ s2l "'".
Definition msg_no_command_fn (n : str) : str := s2l "command '" ++ n ++ s2l "' has no defined CommandFn".

Section WithSpecs.
  Variable specs : list ospec.

  (* names from the root to the selected node *)
  Definition path_of (st : pst) : list str :=
    List.map (fun l => ni_name (n_info (lv_node l))) (rev (up st)) ++ [ni_name (n_info (cur st))].

  (* what the CommandFn sees through opt.Value / Called / CalledAs: the node's table over the store *)
  Definition view_of (n : node) (store : list ostate) : list (str * ostate) :=
    flat_map (fun kv => match nth_error store (snd kv) with Some os => [(fst kv, os)] | None => [] end) (n_opts n).

  Definition help_of_state (st : pst) : str :=
    help_output specs (path_of st) (match up st with [] => true | _ => false end) (cur st).

  (* runHelp: [st] is the state selected by the help command, its parent is the level above *)
  Definition run_help (st : pst) (rem : list str) : dresult :=
    match up st with
    | [] => DErr (mkErrA EUser [] (s2l "model: help command without parent") false)
    | pl :: ups =>
        let parent := lv_node pl in
        let ppath := List.map (fun l => ni_name (n_info (lv_node l))) (rev (up st)) in
        match rem with
        | [] => DHelp (help_output specs ppath (match ups with [] => true | _ => false end) parent)
        | a0 :: _ =>
            match alookup a0 (n_cmds parent) with   (* the topic is the name the command is declared and selected by *)
            | Some c => DHelp (help_output specs (ppath ++ [ni_name (n_info c)]) false c)
            | None => DErr (mkErrA ENoHelpTopic [a0] (msg_no_help_topic a0) false)
            end
        end
    end.

  Definition dispatch (root : node) (st : pst) (rem : list str) : dresult :=
    let fin := cur st in
    let i := n_info fin in
    if called (store st) (n_opts root) (ni_helpname i) then DHelp (help_of_state st)
    else
      match required_error specs (store st) fin with
      | Some e => DErr e
      | None =>
          match ni_fn i with
          | FnUser id => DRan id rem (view_of fin (store st))
          | FnHelp => run_help st rem
          | FnNone =>
              match up st with
              | [] => DRootHelp (help_of_state st)
              | _ :: _ =>
                  if Nat.ltb 1 (List.length (n_cmds fin)) then DHelp (help_of_state st)
                  else DErr (mkErrA ENoCommandFn [ni_name i] (msg_no_command_fn (ni_name i)) false)
              end
          end
      end.
End WithSpecs.
