(* dag/dag.go: graph construction, DepthFirstSort, and Graph.Run as a labelled transition system
   (scheduler loop, one thread per launched vertex, semaphore, per-Task lock, helper goroutines). *)
From GO Require Import Base.Str Base.Utf8 Base.Sort Model.Tree.
From Coq Require Import String.
Open Scope N_scope.

Definition vid := str.   (* task IDs *)

(* ---- construction ---- *)

Record vertex := mkVertex { v_children : list vid; v_parents : list vid; v_retries : Z }.

(* a *Task argument: nil, or (ID, has a function) *)
Definition taskarg := option (vid * bool).

(* an argument expression of a construction call: a Task value, or g.Task(id) evaluated when the
   call is made *)
Inductive targ := TA (t : taskarg) | TL (id : vid).

Inductive gop :=
| GAdd (t : targ)
| GDep (t : targ) (deps : list targ)
| GRetries (t : targ) (n : Z).

Inductive gerr :=
| XNilTask | XMissingID | XMissingFn (id : vid) | XDupDep (a b : vid)
| XCycle | XTask (id : vid) | XSkipped (id : vid) | XCancel | XNotFound (id : vid).

Record graph := mkGraph {
  g_vs : list (vid * vertex);   (* Vertices map, in first-insertion order *)
  g_errs : list gerr;           (* g.errs *)
  g_dot : str                   (* dotDiagram *)
}.

Definition empty_graph : graph := mkGraph [] [] [].

Definition vertex0 : vertex := mkVertex [] [] 0.

Fixpoint vset (k : vid) (v : vertex) (l : list (vid * vertex)) : list (vid * vertex) :=
  match l with
  | [] => [(k, v)]
  | (k', v') :: l' => if str_eqb k k' then (k, v) :: l' else (k', v') :: vset k v l'
  end.

Definition dq (s : str) : str := [34] ++ s ++ [34].

(* addTask: errors, or the graph with the vertex (an existing vertex is kept: only its Task changes) *)
Definition add_task (g : graph) (t : taskarg) : graph + gerr :=
  match t with
  | None => inr XNilTask
  | Some (id, hasfn) =>
      match id with
      | [] => inr XMissingID
      | _ =>
          if negb hasfn then inr (XMissingFn id)
          else match alookup id (g_vs g) with
               | Some _ => inl g
               | None => inl (mkGraph (g_vs g ++ [(id, vertex0)]) (g_errs g)
                                      (g_dot g ++ [9] ++ dq id ++ s2l ";" ++ [10]))
               end
      end
  end.

(* retrieveOrAddVertex: nil is an error; a known ID is returned whatever the Task says *)
Definition retrieve_or_add (g : graph) (t : taskarg) : (graph * vid) + gerr :=
  match t with
  | None => inr XNilTask
  | Some (id, _) =>
      match alookup id (g_vs g) with
      | Some _ => inl (g, id)
      | None => match add_task g t with
                | inl g' => inl (g', id)
                | inr e => inr e
                end
      end
  end.

Definition add_err (g : graph) (e : gerr) : graph := mkGraph (g_vs g) (g_errs g ++ [e]) (g_dot g).

Definition vget (g : graph) (id : vid) : vertex :=
  match alookup id (g_vs g) with Some v => v | None => vertex0 end.

(* TaskDependsOn: stops at the first dependency that fails to resolve or is a duplicate *)
Fixpoint depends_on (g : graph) (id : vid) (deps : list taskarg) : graph :=
  match deps with
  | [] => g
  | d :: rest =>
      match retrieve_or_add g d with
      | inr e => add_err g e
      | inl (g1, did) =>
          let v := vget g1 id in
          if mem_str did (v_children v) then add_err g1 (XDupDep id did)
          else
            let v' := mkVertex (v_children v ++ [did]) (v_parents v) (v_retries v) in
            let vs1 := vset id v' (g_vs g1) in
            let dv := match alookup did vs1 with Some x => x | None => vertex0 end in
            let vs2 := vset did (mkVertex (v_children dv) (v_parents dv ++ [id]) (v_retries dv)) vs1 in
            depends_on (mkGraph vs2 (g_errs g1)
                                (g_dot g1 ++ [9] ++ dq id ++ s2l " -> " ++ dq did ++ s2l ";" ++ [10]))
                       id rest
      end
  end.

(* Graph.Task(id): the Task of a known vertex (its function is never nil), otherwise an error is
   recorded and an empty Task with that ID is returned *)
Definition resolve (g : graph) (a : targ) : graph * taskarg :=
  match a with
  | TA t => (g, t)
  | TL id =>
      match alookup id (g_vs g) with
      | Some _ => (g, Some (id, true))
      | None => (add_err g (XNotFound id), Some (id, false))
      end
  end.

(* Go evaluates the arguments of a call left to right before the call *)
Fixpoint resolve_all (g : graph) (l : list targ) : graph * list taskarg :=
  match l with
  | [] => (g, [])
  | a :: r => let (g1, t) := resolve g a in let (g2, ts) := resolve_all g1 r in (g2, t :: ts)
  end.

Definition apply_gop (g : graph) (op : gop) : graph :=
  match op with
  | GAdd a =>
      let (g0, t) := resolve g a in
      match add_task g0 t with inl g' => g' | inr e => add_err g0 e end
  | GDep a adeps =>
      let (ga, t) := resolve g a in
      let (g0, deps) := resolve_all ga adeps in
      match retrieve_or_add g0 t with
      | inr e => add_err g0 e
      | inl (g1, id) => depends_on g1 id deps
      end
  | GRetries a n =>
      let (g0, t) := resolve g a in
      match retrieve_or_add g0 t with
      | inr e => add_err g0 e
      | inl (g1, id) =>
          let v := vget g1 id in
          mkGraph (vset id (mkVertex (v_children v) (v_parents v) n) (g_vs g1)) (g_errs g1) (g_dot g1)
      end
  end.

Definition build_graph (ops : list gop) : graph := List.fold_left apply_gop ops empty_graph.

(* Graph.String() *)
Definition dot_text (name : str) (g : graph) : str :=
  [10] ++ s2l "digraph G {" ++ [10; 9] ++ s2l "label = " ++ dq name ++ s2l ";" ++ [10; 9] ++
  s2l "rankdir = TB;" ++ [10] ++ g_dot g ++ s2l "}".

(* ---- DepthFirstSort ---- *)

Inductive vstat := Unvisited | Visited | Traversed.

Fixpoint sset {V} (k : vid) (v : V) (l : list (vid * V)) : list (vid * V) :=
  match l with
  | [] => [(k, v)]
  | (k', v') :: l' => if str_eqb k k' then (k, v) :: l' else (k', v') :: sset k v l'
  end.

Definition sget (st : list (vid * vstat)) (v : vid) : vstat :=
  match alookup v st with Some s => s | None => Unvisited end.

Definition dfs_acc := (list vid * list (vid * vstat))%type.

(* visit with fuel; None = fuel exhausted, Some (inr id) = cycle found at id *)
Fixpoint visit (fuel : nat) (g : graph) (acc : dfs_acc) (v : vid) : option (dfs_acc + vid) :=
  match fuel with
  | O => None
  | S f =>
      let (sorted, st) := acc in
      match sget st v with
      | Traversed => Some (inl acc)
      | Visited => Some (inr v)
      | Unvisited =>
          let fix children (cs : list vid) (a : dfs_acc) : option (dfs_acc + vid) :=
            match cs with
            | [] => Some (inl a)
            | c :: cs' =>
                match visit f g a c with
                | Some (inl a') => children cs' a'
                | other => other
                end
            end in
          match children (v_children (vget g v)) (sorted, sset v Visited st) with
          | Some (inl (sorted', st')) => Some (inl (sorted' ++ [v], sset v Traversed st'))
          | other => other
          end
      end
  end.

(* DepthFirstSort over the vertices in the given (map iteration) order *)
Fixpoint dfs_from (fuel : nat) (g : graph) (order : list vid) (acc : dfs_acc) : option (dfs_acc + vid) :=
  match order with
  | [] => Some (inl acc)
  | v :: rest =>
      match sget (snd acc) v with
      | Unvisited =>
          match visit fuel g acc v with
          | Some (inl acc') => dfs_from fuel g rest acc'
          | other => other
          end
      | _ => dfs_from fuel g rest acc
      end
  end.

Definition dfs_sort (g : graph) (order : list vid) : option (list vid + vid) :=
  match dfs_from (S (List.length (g_vs g))) g order ([], []) with
  | Some (inl (sorted, _)) => Some (inl sorted)
  | Some (inr v) => Some (inr v)
  | None => None
  end.

(* a valid result: every vertex exactly once, every dependency before its dependent *)
Fixpoint index_of_str (x : vid) (l : list vid) (i : nat) : option nat :=
  match l with
  | [] => None
  | y :: l' => if str_eqb x y then Some i else index_of_str x l' (S i)
  end.

Definition nodup_strs (l : list vid) : bool :=
  (fix go (l : list vid) : bool := match l with [] => true | x :: r => negb (mem_str x r) && go r end) l.

Definition valid_topo (g : graph) (l : list vid) : bool :=
  Nat.eqb (List.length l) (List.length (g_vs g)) && nodup_strs l &&
  forallb (fun kv => mem_str (fst kv) l) (g_vs g) &&
  forallb (fun kv =>
    forallb (fun c => match index_of_str c l 0, index_of_str (fst kv) l 0 with
                      | Some ic, Some iv => Nat.ltb ic iv
                      | _, _ => false
                      end) (v_children (snd kv))) (g_vs g).

(* ---- Run ---- *)

Inductive status := Pending | InProgress | Skip | Done.
Inductive outcome := ONil | OErr | OSkipParents.

(* the real thread of a launched vertex *)
Inductive thread :=
| NotSpawned
| Waiting                 (* spawned: waits for a semaphore slot and the Task lock *)
| Running (k : nat)       (* inside the task function, attempt k *)
| Finished (r : outcome)  (* function returned for the last time: will send on the done channel *)
| Gone.                   (* completion received by the scheduler *)

Record config := mkConfig { cf_serial : bool; cf_cap : N }.

Record dstate := mkD {
  d_status : vid -> status;
  d_thread : vid -> thread;
  d_pseudo : list (vid * bool);   (* helper goroutines waiting to send: (id, true = ErrorTaskSkipped) *)
  d_errs : list gerr;
  d_cancelled : bool;             (* ctx.Done() is closed *)
  d_handled : bool;               (* handledContext *)
  d_holders : list vid;           (* threads holding a semaphore slot *)
  d_envlock : vid -> bool;        (* the Task's mutex is held by another graph *)
  d_returned : bool;
  (* ghosts *)
  d_okdone : list vid;            (* vertices whose function returned nil and was received *)
  d_marked : list vid;            (* vertices ever set to runSkip *)
  d_sp : list vid                 (* vertices that returned ErrorSkipParents *)
}.

Definition upd {A} (f : vid -> A) (k : vid) (v : A) : vid -> A :=
  fun k' => if str_eqb k' k then v else f k'.

Definition init_state (errs : list gerr) : dstate :=
  mkD (fun _ => Pending) (fun _ => NotSpawned) [] errs false false [] (fun _ => false) false [] [] [].

Inductive label :=
| LRecvReal (v : vid)
| LRecvPseudo (v : vid) (skipped : bool)
| LPick (v : vid)
| LIdle
| LReturn
| LStart (v : vid)
| LExit (v : vid) (r : outcome)
| LCancel
| LEnvLock (v : vid)
| LEnvUnlock (v : vid).

Section WithGraph.
  Variable g : graph.
  Variable cf : config.

  Definition vids : list vid := keys (g_vs g).
  Definition children (v : vid) : list vid := v_children (vget g v).
  Definition parents (v : vid) : list vid := v_parents (vget g v).
  Definition retries (v : vid) : Z := v_retries (vget g v).

  (* skipParents: every parent is set to runSkip, recursively *)
  Fixpoint skip_parents (fuel : nat) (v : vid) (acc : (vid -> status) * list vid) : (vid -> status) * list vid :=
    match fuel with
    | O => acc
    | S f => List.fold_left (fun a p => skip_parents f p (upd (fst a) p Skip, p :: snd a)) (parents v) acc
    end.

  Definition status_eqb (a b : status) : bool :=
    match a, b with Pending, Pending | InProgress, InProgress | Skip, Skip | Done, Done => true | _, _ => false end.

  (* getNextVertex's test on one vertex *)
  Definition eligible (st : dstate) (v : vid) : bool :=
    (status_eqb (d_status st v) Pending || status_eqb (d_status st v) Skip) &&
    forallb (fun c => negb (status_eqb (d_status st c) Pending) && negb (status_eqb (d_status st c) InProgress)) (children v).

  Definition any_in_progress (st : dstate) : bool :=
    existsb (fun v => status_eqb (d_status st v) InProgress) vids.

  Definition serial_blocked (st : dstate) : bool := cf_serial cf && any_in_progress st.

  Definition all_done (st : dstate) : bool := forallb (fun v => status_eqb (d_status st v) Done) vids.

  (* the context check inside the default branch *)
  Definition ctx_check (st : dstate) : dstate :=
    if d_cancelled st && negb (d_handled st) then
      mkD (d_status st) (d_thread st) (d_pseudo st) (d_errs st ++ [XCancel]) (d_cancelled st) true
          (d_holders st) (d_envlock st) (d_returned st) (d_okdone st) (d_marked st) (d_sp st)
    else st.

  Fixpoint remove_str (x : vid) (l : list vid) : list vid :=
    match l with [] => [] | y :: r => if str_eqb x y then r else y :: remove_str x r end.

  Fixpoint remove_pseudo (x : vid * bool) (l : list (vid * bool)) : option (list (vid * bool)) :=
    match l with
    | [] => None
    | y :: r => if str_eqb (fst x) (fst y) && Bool.eqb (snd x) (snd y) then Some r
                else match remove_pseudo x r with Some r' => Some (y :: r') | None => None end
    end.

  (* the set marked by skipParents must contain the parents of the vertex and be closed under
     "parent of": this is what the recursion computes when its fuel (the number of vertices)
     suffices, i.e. on every acyclic graph; the transition is undefined otherwise *)
  Definition up_closed (v : vid) (marked : list vid) : bool :=
    forallb (fun p => mem_str p marked) (parents v) &&
    forallb (fun c => forallb (fun p => mem_str p marked) (parents c)) marked.

  (* what the scheduler does with a received completion (dag.go:431-442) *)
  Definition receive (st : dstate) (v : vid) (r : outcome) (real : bool) : option dstate :=
    let status1 := upd (d_status st) v Done in
    match r with
    | ONil =>
        Some (mkD status1 (d_thread st) (d_pseudo st) (d_errs st) (d_cancelled st) (d_handled st) (d_holders st)
            (d_envlock st) (d_returned st) (if real then v :: d_okdone st else d_okdone st) (d_marked st) (d_sp st))
    | OErr =>
        Some (mkD status1 (d_thread st) (d_pseudo st) (d_errs st ++ [if real then XTask v else XSkipped v])
            (d_cancelled st) (d_handled st) (d_holders st) (d_envlock st) (d_returned st)
            (d_okdone st) (d_marked st) (d_sp st))
    | OSkipParents =>
        let (status2, marked) := skip_parents (List.length vids) v (status1, d_marked st) in
        if up_closed v marked then
          Some (mkD status2 (d_thread st) (d_pseudo st) (d_errs st) (d_cancelled st) (d_handled st) (d_holders st)
            (d_envlock st) (d_returned st) (d_okdone st) marked (v :: d_sp st))
        else None
    end.

  Definition set_thread (st : dstate) (v : vid) (t : thread) : dstate :=
    mkD (d_status st) (upd (d_thread st) v t) (d_pseudo st) (d_errs st) (d_cancelled st) (d_handled st)
        (d_holders st) (d_envlock st) (d_returned st) (d_okdone st) (d_marked st) (d_sp st).

  Definition thread_running (t : thread) : bool := match t with Running _ => true | _ => false end.
  Definition thread_holds (t : thread) : bool := match t with Running _ | Finished _ => true | _ => false end.

  Definition dstep (st : dstate) (l : label) : option dstate :=
    if d_returned st then
      (* after Run returned only the environment and helper goroutines could move; nothing observable *)
      None
    else
    match l with
    | LRecvReal v =>
        match d_thread st v with
        | Finished r =>
            match receive st v r true with
            | Some st1 =>
                Some (mkD (d_status st1) (upd (d_thread st1) v Gone) (d_pseudo st1) (d_errs st1) (d_cancelled st1)
                          (d_handled st1) (remove_str v (d_holders st1)) (d_envlock st1) (d_returned st1)
                          (d_okdone st1) (d_marked st1) (d_sp st1))
            | None => None
            end
        | _ => None
        end
    | LRecvPseudo v skipped =>
        match remove_pseudo (v, skipped) (d_pseudo st) with
        | Some ps =>
            match receive st v (if skipped then OErr else ONil) false with
            | Some st1 =>
                Some (mkD (d_status st1) (d_thread st1) ps (d_errs st1) (d_cancelled st1) (d_handled st1)
                          (d_holders st1) (d_envlock st1) (d_returned st1) (d_okdone st1) (d_marked st1) (d_sp st1))
            | None => None
            end
        | None => None
        end
    | LPick v =>
        if mem_str v vids && negb (serial_blocked st) && eligible st v then
          let st1 := ctx_check st in
          if status_eqb (d_status st1 v) Skip then
            Some (mkD (upd (d_status st1) v InProgress) (d_thread st1) (d_pseudo st1 ++ [(v, false)]) (d_errs st1)
                      (d_cancelled st1) (d_handled st1) (d_holders st1) (d_envlock st1) (d_returned st1)
                      (d_okdone st1) (d_marked st1) (d_sp st1))
          else
            match d_errs st1 with
            | [] => Some (mkD (upd (d_status st1) v InProgress) (upd (d_thread st1) v Waiting) (d_pseudo st1) []
                              (d_cancelled st1) (d_handled st1) (d_holders st1) (d_envlock st1) (d_returned st1)
                              (d_okdone st1) (d_marked st1) (d_sp st1))
            | _ => Some (mkD (upd (d_status st1) v InProgress) (d_thread st1) (d_pseudo st1 ++ [(v, true)]) (d_errs st1)
                             (d_cancelled st1) (d_handled st1) (d_holders st1) (d_envlock st1) (d_returned st1)
                             (d_okdone st1) (d_marked st1) (d_sp st1))
            end
        else None
    | LIdle =>
        (* getNextVertex found nothing to launch and not everything is done *)
        if (serial_blocked st || negb (existsb (eligible st) vids)) && negb (negb (serial_blocked st) && all_done st)
        then Some (ctx_check st) else None
    | LReturn =>
        if negb (serial_blocked st) && negb (existsb (eligible st) vids) && all_done st then
          Some (mkD (d_status st) (d_thread st) (d_pseudo st) (d_errs st) (d_cancelled st) (d_handled st)
                    (d_holders st) (d_envlock st) true (d_okdone st) (d_marked st) (d_sp st))
        else None
    | LStart v =>
        match d_thread st v with
        | Waiting =>
            if N.ltb (N.of_nat (List.length (d_holders st))) (cf_cap cf) && negb (d_envlock st v) then
              let t := if Z.ltb (retries v) 0 then Finished ONil else Running 0 in
              Some (mkD (d_status st) (upd (d_thread st) v t) (d_pseudo st) (d_errs st) (d_cancelled st)
                        (d_handled st) (v :: d_holders st) (d_envlock st) (d_returned st)
                        (d_okdone st) (d_marked st) (d_sp st))
            else None
        | _ => None
        end
    | LExit v r =>
        match d_thread st v with
        | Running k =>
            let final := match r with ONil => true | _ => Z.leb (retries v) (Z.of_nat k) end in
            Some (set_thread st v (if final then Finished r else Running (S k)))
        | _ => None
        end
    | LCancel =>
        Some (mkD (d_status st) (d_thread st) (d_pseudo st) (d_errs st) true (d_handled st) (d_holders st)
                  (d_envlock st) (d_returned st) (d_okdone st) (d_marked st) (d_sp st))
    | LEnvLock v =>
        if negb (d_envlock st v) && negb (thread_holds (d_thread st v)) then
          Some (mkD (d_status st) (d_thread st) (d_pseudo st) (d_errs st) (d_cancelled st) (d_handled st)
                    (d_holders st) (upd (d_envlock st) v true) (d_returned st) (d_okdone st) (d_marked st) (d_sp st))
        else None
    | LEnvUnlock v =>
        if d_envlock st v then
          Some (mkD (d_status st) (d_thread st) (d_pseudo st) (d_errs st) (d_cancelled st) (d_handled st)
                    (d_holders st) (upd (d_envlock st) v false) (d_returned st) (d_okdone st) (d_marked st) (d_sp st))
        else None
    end.

  (* a run of the system *)
  Fixpoint dsteps (st : dstate) (ls : list label) : option dstate :=
    match ls with
    | [] => Some st
    | l :: r => match dstep st l with Some st' => dsteps st' r | None => None end
    end.
End WithGraph.

(* what Run does before the loop (dag.go:405-420) *)
Inductive prelude := PreErrs (errs : list gerr) | PreNil | PreCycle | PreLoop.

Definition run_prelude (g : graph) (order : list vid) : prelude :=
  match g_errs g with
  | _ :: _ => PreErrs (g_errs g)
  | [] => match g_vs g with
          | [] => PreNil
          | _ => match dfs_sort g order with
                 | Some (inl _) => PreLoop
                 | _ => PreCycle
                 end
          end
  end.
