(* parseCLIArgs (api.go, non-completion path) and GetOpt.Parse (user.go) as a one-token-at-a-time
   state machine.  See DESIGN.md section 3.10 for the argument why this is the same function as
   the iterator loop of the Go code. *)
From GO Require Import Base.Str Base.Utf8 Model.Tokenizer Model.Option Model.Tree.
From Coq Require Import String.
Open Scope N_scope.

(* one completed ancestor level: its node, its ChildText, its UnknownOptions names *)
Record level := mkLevel { lv_node : node; lv_text : list str; lv_unk : list str }.

Inductive phase :=
| PHead                                   (* at the head of the argument loop *)
| PPend (oid : nat) (key : str) (i : nat) (pend : list pair) (tok : str)
        (* option [oid], matched as [key], has [i] values so far and may take more; [pend] are the
           later pairs of the same token [tok] *)
| PTail.                                  (* after `--` or the require-order stop: copy everything *)

Record pst := mkPst {
  cur : node;
  up : list level;       (* ancestors, innermost first *)
  text : list str;       (* ChildText of cur *)
  unk : list str;        (* UnknownOptions of cur (names) *)
  store : list ostate;   (* option objects by id *)
  ph : phase
}.

Definition set_ph (st : pst) (p : phase) : pst := mkPst (cur st) (up st) (text st) (unk st) (store st) p.
Definition set_store (st : pst) (s : list ostate) : pst := mkPst (cur st) (up st) (text st) (unk st) s (ph st).
Definition add_text (st : pst) (t : list str) : pst :=
  mkPst (cur st) (up st) (text st ++ t) (unk st) (store st) (ph st).
Definition add_unk (st : pst) (u : list str) : pst :=
  mkPst (cur st) (up st) (text st) (unk st ++ u) (store st) (ph st).
(* the text of the token is only needed while later pairs of it are pending *)
Definition mk_pend (oid : nat) (key : str) (i : nat) (pend : list pair) (tok : str) : phase :=
  PPend oid key i pend (match pend with [] => [] | _ => tok end).
Definition descend (st : pst) (child : node) : pst :=
  mkPst child (mkLevel (cur st) (text st) (unk st) :: up st) [] [] (store st) PHead.

Fixpoint update_nth {A} (n : nat) (x : A) (l : list A) : list A :=
  match l, n with
  | [], _ => []
  | _ :: l', O => x :: l'
  | y :: l', S n' => y :: update_nth n' x l'
  end.

Definition internal_error : err := mkErrA EUser [] (s2l "model: option id out of range") false.

(* getAliasNameFromPartialEntry: exact key first, else every key with that prefix (table order) *)
Definition matches (tbl : list (str * nat)) (e : str) : list (str * nat) :=
  match alookup e tbl with
  | Some oid => [(e, oid)]
  | None => List.filter (fun kv => prefixb e (fst kv)) tbl
  end.

Definition bracket_list (l : list str) : str := s2l "[" ++ join (s2l " ") l ++ s2l "]".
Definition msg_ambiguous (tok : str) (cands : list str) : str :=
  s2l "Ambiguous option '" ++ tok ++ s2l "', matches " ++ bracket_list cands ++ s2l "!".
Definition msg_unknown (name : str) : str := s2l "Unknown option '" ++ name ++ s2l "'".
Definition msg_warn_unknown (name : str) : str := s2l "WARNING: Unknown option '" ++ name ++ s2l "'" ++ [10].
Definition msg_missing_required (name : str) : str := s2l "Missing required parameter '" ++ name ++ s2l "'".

Definition e_ambiguous (tok : str) (cands : list str) : err :=
  mkErrA EAmbiguous [tok; bracket_list cands] (msg_ambiguous tok cands) false.
Definition e_unknown (name : str) : err := mkErrA EUnknown [name] (msg_unknown name) false.
Definition e_missing_required (msg : str) : err := mkErrA EMissingRequired [msg] msg true.

Definition DD : str := [DASH; DASH].

Section WithEnv.
  Variable pf : str -> option N.          (* strconv.ParseFloat oracle *)
  Variable md : mode.                     (* the program's single-dash mode *)
  Variable lower : bool.                  (* root's mapKeysToLower *)
  Variable ro_on : bool.                  (* true: honour SetRequireOrder (the real parser);
                                             false: the same parser with require-order ignored,
                                             used to state C09 *)
  Variable specs : list ospec.            (* static option data by id *)

  Definition is_unknown (tbl : list (str * nat)) (p : pair) : bool :=
    match matches tbl (p_name p) with [] => true | _ => false end.

  (* save values into option [oid] *)
  Definition save_to (st : pst) (oid : nat) (a : list str) : result pst :=
    match nth_error specs oid, nth_error (store st) oid with
    | Some sp, Some os =>
        bind (save pf lower sp os a) (fun os' => Ok (set_store st (update_nth oid os' (store st))))
    | _, _ => Err internal_error
    end.

  (* what an option has and wants: (id, key, values so far, min, max) *)
  Definition cursor := (nat * str * nat * nat * nat)%type.

  (* api.go:355-386: resolve the pair, mark Called/UsedAlias, Save the attached value *)
  Definition start_pair (st : pst) (tok : str) (p : pair) : result (option (pst * cursor)) :=
    match matches (n_opts (cur st)) (p_name p) with
    | [] => Ok None
    | [(key, oid)] =>
        match nth_error specs oid, nth_error (store st) oid with
        | Some sp, Some os =>
            let os1 := mkState (o_val os) true key in
            bind (save pf lower sp os1 (p_args p)) (fun os2 =>
              Ok (Some (set_store st (update_nth oid os2 (store st)),
                        (oid, key, List.length (p_args p), os_min sp, os_max sp))))
        | _, _ => Err internal_error
        end
    | ms => Err (e_ambiguous tok (sort_strs (keys ms)))
    end.

  Definition wants (c : cursor) : bool :=
    let '(_, _, i, mn, mx) := c in Nat.ltb i mn || Nat.ltb i mx.

  Definition kind_of (oid : nat) : kind :=
    match nth_error specs oid with Some sp => os_kind sp | None => KBool end.

  (* the greedy loop's stop test on the next token (api.go:413-440, with the `--` test) *)
  Definition stops (oid : nat) (t : str) : bool :=
    looks_like_option md t || str_eqb t DD || negb (wellformed pf (kind_of oid) t).

  (* offer token [t] to the option under the cursor: Some st' when it takes it *)
  Definition try_cur (st : pst) (c : cursor) (t : str) : result (option pst) :=
    let '(oid, key, i, mn, mx) := c in
    if Nat.ltb i mn then
      if looks_like_option md t then Err (e_arg_with_dash key)
      else bind (save_to st oid [t]) (fun st' => Ok (Some st'))
    else if Nat.ltb i mx then
      if stops oid t then Ok None
      else bind (save_to st oid [t]) (fun st' => Ok (Some st'))
    else Ok None.

  Definition bump (c : cursor) : cursor := let '(oid, key, i, mn, mx) := c in (oid, key, S i, mn, mx).

  (* process the pairs of a token as far as possible without looking at the next token *)
  Fixpoint advance (st : pst) (tok : str) (pend : list pair) : result pst :=
    match pend with
    | [] => Ok (set_ph st PHead)
    | p :: pend' =>
        match start_pair st tok p with
        | Err e => Err e
        | Ok None => advance st tok pend'
        | Ok (Some (st', c)) =>
            if wants c then let '(oid, key, i, _, _) := c in Ok (set_ph st' (mk_pend oid key i pend' tok))
            else advance st' tok pend'
        end
    end.

  Definition settle (st : pst) (c : cursor) (pend : list pair) (tok : str) : result pst :=
    if wants c then let '(oid, key, i, _, _) := c in Ok (set_ph st (mk_pend oid key i pend tok))
    else advance st tok pend.

  (* token [t] was not taken by the option under the cursor: go on with the later pairs of the same
     token, which may take it.  The boolean tells whether [t] was consumed. *)
  Fixpoint offer (st : pst) (tok : str) (pend : list pair) (t : str) : result (pst * bool) :=
    match pend with
    | [] => Ok (set_ph st PHead, false)
    | p :: pend' =>
        match start_pair st tok p with
        | Err e => Err e
        | Ok None => offer st tok pend' t
        | Ok (Some (st', c)) =>
            match try_cur st' c t with
            | Err e => Err e
            | Ok (Some st'') => bind (settle st'' (bump c) pend' tok) (fun s => Ok (s, true))
            | Ok None => offer st' tok pend' t
            end
        end
    end.

  (* end of input while pairs are pending *)
  Fixpoint advance_eof (st : pst) (tok : str) (pend : list pair) : result pst :=
    match pend with
    | [] => Ok (set_ph st PHead)
    | p :: pend' =>
        match start_pair st tok p with
        | Err e => Err e
        | Ok None => advance_eof st tok pend'
        | Ok (Some (st', (oid, key, i, mn, mx))) =>
            if Nat.ltb i mn then Err (e_missing_arg key)
            else advance_eof st' tok pend'
        end
    end.

  (* the head of the argument loop (api.go:325-472) *)
  Definition head (st : pst) (t : str) : result pst :=
    if str_eqb t DD then Ok (set_ph st PTail)
    else
      let '(pairs, is) := is_option md t in
      let ni := n_info (cur st) in
      let reqorder := ro_on && ni_reqorder ni in
      if is then
        let unknown := List.filter (is_unknown (n_opts (cur st))) pairs in
        match unknown with
        | [] => advance st t pairs
        | _ :: _ =>
            if reqorder then Ok (set_ph (add_text st [t]) PTail)
            else
              let st1 := add_unk st (List.map p_name unknown) in
              let st2 := match ni_umode ni with Fail => st1 | _ => add_text st1 [t] end in
              advance st2 t pairs
        end
      else
        match alookup t (n_cmds (cur st)) with
        | Some child => Ok (descend st child)
        | None =>
            if reqorder then Ok (set_ph (add_text st [t]) PTail)
            else Ok (add_text st [t])
        end.

  Definition step (st : pst) (t : str) : result pst :=
    match ph st with
    | PTail => Ok (add_text st [t])
    | PHead => head st t
    | PPend oid key i pend tok =>
        match nth_error specs oid with
        | None => Err internal_error
        | Some sp =>
            let c := (oid, key, i, os_min sp, os_max sp) in
            match try_cur st c t with
            | Err e => Err e
            | Ok (Some st') => settle st' (bump c) pend tok
            | Ok None =>
                match offer st tok pend t with
                | Err e => Err e
                | Ok (st', true) => Ok st'
                | Ok (st', false) => head st' t
                end
            end
        end
    end.

  Fixpoint run (st : pst) (args : list str) : result pst :=
    match args with
    | [] => Ok st
    | t :: r => match step st t with Ok st' => run st' r | Err e => Err e end
    end.

  Definition finish (st : pst) : result pst :=
    match ph st with
    | PHead | PTail => Ok st
    | PPend oid key i pend tok =>
        match nth_error specs oid with
        | None => Err internal_error
        | Some sp =>
            if Nat.ltb i (os_min sp) then Err (e_missing_arg key)
            else advance_eof st tok pend
        end
    end.

  Definition init (root : node) (st0 : list ostate) : pst := mkPst root [] [] [] st0 PHead.

  (* parseCLIArgs, non completion *)
  Definition walk (root : node) (st0 : list ostate) (args : list str) : result pst :=
    bind (run (init root st0) args) finish.

  (* ---- GetOpt.Parse after the walk ---- *)

  Definition called (st : list ostate) (tbl : list (str * nat)) (name : str) : bool :=
    match name with
    | [] => false
    | _ => match alookup name tbl with
           | Some oid => match nth_error st oid with Some os => o_called os | None => false end
           | None => false
           end
    end.

  Definition check_required (st : list ostate) (oid : nat) : option err :=
    match nth_error specs oid, nth_error st oid with
    | Some sp, Some os =>
        if os_required sp && negb (o_called os) then
          Some (e_missing_required
                  (match os_reqmsg sp with [] => msg_missing_required (os_name sp) | m => m end))
        else None
    | _, _ => None
    end.

  (* required scan in key order (sortedOptions) *)
  Fixpoint first_missing (st : list ostate) (tbl : list (str * nat)) (ks : list str) : option err :=
    match ks with
    | [] => None
    | k :: ks' =>
        match alookup k tbl with
        | Some oid => match check_required st oid with
                      | Some e => Some e
                      | None => first_missing st tbl ks'
                      end
        | None => first_missing st tbl ks'
        end
    end.

  Definition required_error (st : list ostate) (n : node) : option err :=
    first_missing st (n_opts n) (sort_strs (keys (n_opts n))).

  (* the unknown-option policy of one level: warnings written, or the failure *)
  Fixpoint unknown_policy (m : umode) (names : list str) : list str * option err :=
    match names with
    | [] => ([], None)
    | n :: names' =>
        match m with
        | Fail => ([], Some (e_unknown n))
        | Warn => let (w, e) := unknown_policy m names' in (msg_warn_unknown n :: w, e)
        | Pass => unknown_policy m names'
        end
    end.

  (* levels from the root to the selected node *)
  Definition levels_of (st : pst) : list level := rev (mkLevel (cur st) (text st) (unk st) :: up st).

  Fixpoint policy_levels (ls : list level) : list str * option err * list str :=
    match ls with
    | [] => ([], None, [])
    | l :: ls' =>
        let (w, e) := unknown_policy (ni_umode (n_info (lv_node l))) (lv_unk l) in
        match e with
        | Some _ => (w, e, [])
        | None => let '(w', e', r') := policy_levels ls' in (w ++ w', e', lv_text l ++ r')
        end
    end.

  Record presult := mkRes {
    pr_warn : list str;              (* what was written to Writer, one entry per Fprintf *)
    pr_out : result (pst * list str) (* final state and remaining, or the error *)
  }.

  Definition parse (root : node) (st0 : list ostate) (args : list str) : presult :=
    match walk root st0 args with
    | Err e => mkRes [] (Err e)
    | Ok st =>
        let req :=
          match up st with
          | [] => (* the selected node is the root *)
              let hn := ni_helpname (n_info (cur st)) in
              if called (store st) (n_opts root) hn then None else required_error (store st) (cur st)
          | _ => None
          end in
        match req with
        | Some e => mkRes [] (Err e)
        | None =>
            let '(w, e, rem) := policy_levels (levels_of st) in
            match e with
            | Some e => mkRes w (Err e)
            | None => mkRes w (Ok (st, rem))
            end
        end
    end.
End WithEnv.
