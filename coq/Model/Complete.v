(* Shell completion: the COMP_LINE branch of GetOpt.Parse (user.go) and the completion branch of
   parseCLIArgs (api.go). *)
From GO Require Import Base.Str Base.Utf8 Base.Sort Model.Tokenizer Model.Option Model.Tree Model.Parse.
From Coq Require Import String.
Open Scope N_scope.

Inductive target := Bash | Zsh.

(* Go's regexp \s: [\t\n\f\r ] *)
Definition is_space (c : N) : bool :=
  N.eqb c 9 || N.eqb c 10 || N.eqb c 12 || N.eqb c 13 || N.eqb c 32.

(* regexp.MustCompile(`\s+`).Split(s, -1) for a non-empty s: maximal non-space runs, with an empty
   first / last part when the text starts / ends with white space *)
Fixpoint split_ws_aux (s : str) (cur : str) (in_space : bool) : list str :=
  match s with
  | [] => [cur]
  | c :: s' =>
      if is_space c then
        if in_space then split_ws_aux s' cur true
        else cur :: split_ws_aux s' [] true
      else split_ws_aux s' (cur ++ [c]) false
  end.
Definition split_ws (s : str) : list str := split_ws_aux s [] false.

(* the words handed to the tree walk: the trailing empty part is dropped when bash passed a
   non-empty current word ($2), the program name (word 0) is not an argument *)
Definition comp_words (line : str) (parse_args : list str) : list str :=
  let parts := split_ws line in
  let parts' :=
    match rev parts with
    | [] :: r =>
        if Nat.ltb 2 (List.length parse_args) &&
           match nth_error parse_args 1 with Some (_ :: _) => true | _ => false end
        then rev r else parts
    | _ => parts
    end in
  tl parts'.

Inductive cresult :=
| CList (l : list str)     (* printed one per line to the completion writer; exit 124 *)
| CErr (e : err).          (* "\nERROR: <message>\n" on Writer; exit 124 *)

Section WithFns.
  Variable pf : str -> option N.
  Variable md : mode.
  Variable lower : bool.
  Variable specs : list ospec.
  (* the user's completion functions, as data: value functions (target, partial) and argument
     functions (target, previous arguments, partial), selected by the ids stored in the tree *)
  Variable vfn : nat -> target -> str -> list str.
  Variable afn : nat -> target -> list str -> str -> list str.

  Definition strip_dashes (w : str) : str :=
    match w with
    | c1 :: r1 => if N.eqb c1 DASH then
                    match r1 with
                    | c2 :: r2 => if N.eqb c2 DASH then r2 else r1
                    | [] => r1
                    end
                  else w
    | [] => w
    end.

  Definition after_eq (w : str) : str :=
    match split_first 61 w with Some (_, v) => v | None => [] end.

  Definition render (t : target) (c : str) : str :=
    match t with Bash => after_eq c | Zsh => c end.

  (* contribution of one table entry (key, option) to the option completions *)
  Definition opt_entry (t : target) (w partial : str) (k : str) (sp : ospec) : list str :=
    if str_eqb k [DASH] then (if str_eqb w [DASH] then [k] else [])
    else
      (if prefixb partial k then
         [[DASH; DASH] ++ k ++ (match os_kind sp with KBool => [] | _ => [61] end)]
       else []) ++
      (if prefixb (k ++ [61]) partial then
         let cand e := [DASH; DASH] ++ k ++ [61] ++ e in
         List.map (render t) (List.filter (fun c => prefixb w c) (List.map cand (os_suggested sp))) ++
         match os_sfn sp with
         | Some f => List.map (render t) (List.filter (fun c => prefixb w c) (List.map cand (vfn f t (after_eq w))))
         | None => []
         end
       else []).

  (* which entries touch lastOpt.  The value branch fires only for the key written before the `=`
     (api.go: strings.HasPrefix(partialOption, k+"=")), so at most one entry can decide the
     single-candidate hint (CompleteLemmas.option_completions_order_independent) *)
  Definition touches (partial : str) (k : str) : bool :=
    negb (str_eqb k [DASH]) &&
    (prefixb partial k || prefixb (k ++ [61]) partial).

  Definition last_opt (tbl : list (str * nat)) (partial : str) : option ospec :=
    List.fold_left (fun acc kv => if touches partial (fst kv) then nth_error specs (snd kv) else acc) tbl None.

  Definition ends_with_eq (s : str) : bool :=
    match rev s with c :: _ => N.eqb c 61 | [] => false end.

  Definition option_completions (t : target) (n : node) (w : str) : list str :=
    let partial := strip_dashes w in
    let base := sort_strs (flat_map (fun kv => match nth_error specs (snd kv) with
                                               | Some sp => opt_entry t w partial (fst kv) sp
                                               | None => []
                                               end) (n_opts n)) in
    match base with
    | [c] =>
        if ends_with_eq c then
          match last_opt (n_opts n) partial with
          | Some sp =>
              sort_strs (c :: match os_suggested sp with
                              | [] => [c ++ s2l "<" ++ (match os_argname sp with [] => s2l "value" | a => a end) ++ s2l ">"]
                              | l => List.map (fun e => c ++ e) l
                              end)
          | None => base
          end
        else base
    | _ => base
    end.

  Definition command_completions (t : target) (n : node) (prev : list str) (w : str) : list str :=
    let l := sort_strs
               (List.filter (prefixb w) (keys (n_cmds n)) ++
                List.filter (prefixb w) (ni_suggestions (n_info n)) ++
                flat_map (fun f => afn f t prev w) (ni_sfns (n_info n))) in
    match l, t with
    | [c], Bash => [c ++ [32]]
    | _, _ => l
    end.

  (* candidates for the last word [w] when it reaches the head of the loop in state [sh] *)
  Definition candidates (t : target) (sh : pst) (w : str) : list str :=
    match w with
    | c :: _ => if N.eqb c DASH then option_completions t (cur sh) w
                else command_completions t (cur sh) (text sh) w
    | [] => command_completions t (cur sh) (text sh) w
    end.

  (* the tree walk over the earlier words, then the last word *)
  Definition complete (t : target) (root : node) (st0 : list ostate) (words : list str) : cresult :=
    match rev words with
    | [] => CList (candidates t (init root st0) [])
    | w :: rearlier =>
        match run pf md lower true specs (init root st0) (rev rearlier) with
        | Err e => CErr e
        | Ok st =>
            (* the last word is taken as an option value: the walk goes on to the end of the words
               (a still missing mandatory value is then an error), nothing is offered *)
            let consumed :=
              match bind (step pf md lower true specs st w) (finish pf lower specs) with
              | Err e => CErr e
              | Ok _ => CList []
              end in
            match ph st with
            | PTail => CList []
            | PHead => CList (candidates t st w)
            | PPend oid key i pend tok =>
                match nth_error specs oid with
                | None => CErr internal_error
                | Some sp =>
                    match try_cur pf md lower specs st (oid, key, i, os_min sp, os_max sp) w with
                    | Err e => CErr e
                    | Ok (Some _) => consumed
                    | Ok None =>
                        match offer pf md lower specs st tok pend w with
                        | Err e => CErr e
                        | Ok (_, true) => consumed
                        | Ok (sh, false) => CList (candidates t sh w)
                        end
                    end
                end
            end
        end
    end.

  (* what is written to the completion writer *)
  Definition comp_stdout (r : cresult) : str :=
    match r with CList l => join [10] l ++ [10] | CErr _ => [] end.
  Definition comp_stderr (r : cresult) : str :=
    match r with CList _ => [] | CErr e => [10] ++ s2l "ERROR: " ++ e_msg e ++ [10] end.
End WithFns.

(* the completion function family shared with the harness (harness/def.go valueFn / argFn) *)
Definition fam_words1 : list str := [s2l "alpha"; s2l "beta"; s2l "alps"].
Definition fam_words2 : list str := [s2l "red"; s2l "green"; s2l "grey"].

Fixpoint dec_digits (fuel : nat) (n : nat) (acc : str) : str :=
  match fuel with
  | O => acc
  | S f => let d := N.of_nat (Nat.modulo n 10) + 48 in
           if Nat.ltb n 10 then d :: acc else dec_digits f (Nat.div n 10) (d :: acc)
  end.
Definition dec_of_nat (n : nat) : str := dec_digits (S n) n [].

Definition fam_vfn (id : nat) (t : target) (partial : str) : list str :=
  match id with
  | 1%nat => fam_words1
  | 2%nat => List.filter (prefixb partial) fam_words2
  | 3%nat => [s2l "p" ++ partial]
  | 4%nat => match t with Bash => [s2l "b-item"] | Zsh => [s2l "z-item"] end
  | _ => []
  end.

Definition fam_afn (id : nat) (t : target) (prev : list str) (partial : str) : list str :=
  match id with
  | 1%nat => fam_words1
  | 2%nat => List.filter (prefixb partial) fam_words2
  | 3%nat => [s2l "n" ++ dec_of_nat (List.length prev)]
  | 4%nat => match t with Bash => [s2l "b-item"] | Zsh => [s2l "z-item"] end
  | _ => []
  end.
