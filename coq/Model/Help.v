(* Help text: helpOutput (user_help.go) and package internal/help, byte for byte. *)
From GO Require Import Base.Str Base.Utf8 Base.Sort Model.Option Model.Tree.
From Coq Require Import String.
Open Scope N_scope.

Definition SP : N := 32.
Definition NL : N := 10.
Fixpoint spaces (n : nat) : str := match n with O => [] | S n' => SP :: spaces n' end.
Definition indent (s : str) : str := spaces 4 ++ s.

(* strings.ReplaceAll(s, "\n", "\n" ++ pre) *)
Fixpoint replace_nl (pre : str) (s : str) : str :=
  match s with
  | [] => []
  | c :: s' => if N.eqb c NL then NL :: pre ++ replace_nl pre s' else c :: replace_nl pre s'
  end.

(* utf8.RuneCountInString: every invalid byte counts one *)
Fixpoint rune_count_fuel (fuel : nat) (s : str) : nat :=
  match fuel with
  | O => O
  | S f => match s with
           | [] => O
           | _ => S (rune_count_fuel f (skipn (first_rune_len s) s))
           end
  end.
Definition rune_count (s : str) : nat := rune_count_fuel (List.length s) s.

(* fmt.Sprintf("%-Ns", s): pads to N runes *)
Definition pad (do : bool) (s : str) (factor : nat) : str :=
  if do then s ++ spaces (factor - rune_count s) else s.

Definition blen (s : str) : nat := List.length s.

(* Option.Synopsis() *)
Definition alias_syn (e : str) : str :=
  if Nat.ltb 1 (blen e) then [45; 45] ++ e
  else if str_eqb e [45] then e else 45 :: e.

Definition help_synopsis (sp : ospec) : str :=
  join (s2l "|") (List.map alias_syn (os_aliases sp)) ++
  (match os_kind sp with KBool => [] | _ => s2l " <" ++ os_argname sp ++ s2l ">" end) ++
  (if Nat.ltb 1 (os_max sp) then s2l "..." else []).

(* help.Name("", name, description) *)
Definition help_name (name desc : str) : str :=
  let out := name ++ match desc with [] => [] | _ => s2l " - " ++ replace_nl (spaces 8) desc end in
  s2l "NAME:" ++ [NL] ++ indent out ++ [NL].

(* options sorted by Name (names are unique): insertion sort on the name *)
Fixpoint insert_spec (x : ospec) (l : list ospec) : list ospec :=
  match l with
  | [] => [x]
  | y :: l' => if str_leb (os_name x) (os_name y) then x :: l else y :: insert_spec x l'
  end.
Fixpoint sort_specs (l : list ospec) : list ospec :=
  match l with [] => [] | x :: l' => insert_spec x (sort_specs l') end.

Definition opt_synopsis (sp : ospec) : str :=
  let hs := help_synopsis sp in
  match os_kind sp with
  | KBool | KIncr | KStr | KInt | KFloat | KStrOpt | KIntOpt | KFloatOpt =>
      if os_required sp then hs else s2l "[" ++ hs ++ s2l "]"
  | KStrRep | KIntRep | KFloatRep | KMap =>
      (if os_required sp then s2l "<" ++ hs ++ s2l ">" else s2l "[" ++ hs ++ s2l "]") ++ s2l "..."
  end.

(* the 80 column wrapping of the synopsis: (finished lines, current line) *)
Definition syn_add (namelen : nat) (acc : str * str) (syn : str) : str * str :=
  let (out, line) := acc in
  if Nat.ltb 80 (blen line + blen syn) then (out ++ line ++ [NL], spaces namelen ++ [SP] ++ syn)
  else (out, line ++ [SP] ++ syn).

Definition help_synopsis_section (name : str) (args : list (str * str)) (opts : list ospec) (has_cmds : bool) : str :=
  let sname := indent name in
  let req := sort_specs (List.filter os_required opts) in
  let nor := sort_specs (List.filter (fun o => negb (os_required o)) opts) in
  let acc := List.fold_left (syn_add (blen sname)) (List.map opt_synopsis (req ++ nor)) ([], sname) in
  let last := (if has_cmds then s2l "<command> " else []) ++
              match args with [] => s2l "[<args>]" | _ => join [SP] (List.map fst args) end in
  let (out, line) := syn_add (blen sname) acc last in
  s2l "SYNOPSIS:" ++ [NL] ++ out ++ line ++ [NL].

Fixpoint max_len (l : list str) : nat :=
  match l with [] => O | x :: l' => Nat.max (blen x) (max_len l') end.

(* help.CommandList: entries (name, description), any order; sorted by name *)
Fixpoint insert_cmd (x : str * str) (l : list (str * str)) : list (str * str) :=
  match l with
  | [] => [x]
  | y :: l' => if str_leb (fst x) (fst y) then x :: l else y :: insert_cmd x l'
  end.
Fixpoint sort_cmds (l : list (str * str)) : list (str * str) :=
  match l with [] => [] | x :: l' => insert_cmd x (sort_cmds l') end.

Definition help_command_list (cmds : list (str * str)) : str :=
  match cmds with
  | [] => []
  | _ =>
      let factor := max_len (List.map fst cmds) in
      s2l "COMMANDS:" ++ [NL] ++
      List.concat (List.map (fun nd =>
                indent (pad true (fst nd) factor ++ spaces 4 ++
                        replace_nl (spaces 4 ++ indent (pad true [] factor)) (snd nd) ++ [NL]))
              (sort_cmds cmds))
  end.

Definition show_args (args : list (str * str)) : bool :=
  match args with
  | [] => false
  | [(a, d)] => negb (match a with [] => true | _ => false end || match d with [] => true | _ => false end)
  | _ => true
  end.

Definition nonempty (s : str) : bool := match s with [] => false | _ => true end.

Definition help_option_entry (factor : nat) (sp : ospec) : str :=
  let padding := spaces factor in
  indent (pad (negb (os_required sp) || nonempty (os_desc sp) || nonempty (os_env sp)) (help_synopsis sp) factor) ++
  (match os_desc sp with [] => [] | d => replace_nl (spaces 4 ++ padding) d end) ++
  (if os_required sp then
     (match os_env sp with
      | [] => []
      | e => (if nonempty (os_desc sp) then [SP] else []) ++ s2l "(env: " ++ e ++ s2l ")"
      end) ++ [NL; NL]
   else
     (if nonempty (os_desc sp) then [SP] else []) ++ s2l "(default: " ++ os_defstr sp ++
     (match os_env sp with [] => [] | e => s2l ", env: " ++ e end) ++ s2l ")" ++ [NL; NL]).

Definition help_arg_entry (factor : nat) (arg : str * str) : str :=
  indent (pad (nonempty (snd arg)) (fst arg) factor) ++
  (match snd arg with [] => [] | d => replace_nl (spaces 4 ++ spaces factor) d end) ++ [NL; NL].

Definition help_option_list (args : list (str * str)) (opts : list ospec) : str :=
  let l0 := max_len (List.map help_synopsis opts) in
  let l := if show_args args then Nat.max l0 (max_len (List.map fst args)) else l0 in
  let factor := (l + 4)%nat in
  let req := sort_specs (List.filter os_required opts) in
  let nor := sort_specs (List.filter (fun o => negb (os_required o)) opts) in
  (if show_args args then s2l "ARGUMENTS:" ++ [NL] ++ List.concat (List.map (help_arg_entry factor) args) else []) ++
  (match req with [] => [] | _ => s2l "REQUIRED PARAMETERS:" ++ [NL] ++ List.concat (List.map (help_option_entry factor) req) end) ++
  (match nor with [] => [] | _ => s2l "OPTIONS:" ++ [NL] ++ List.concat (List.map (help_option_entry factor) nor) end).

Section WithSpecs.
  Variable specs : list ospec.

  (* the options of a level after alias filtering: table entries whose key is the option's Name *)
  Definition level_options (n : node) : list ospec :=
    flat_map (fun kv => match nth_error specs (snd kv) with
                        | Some sp => if str_eqb (fst kv) (os_name sp) then [sp] else []
                        | None => []
                        end) (n_opts n).

  (* subcommands listed: all but the help command, by the command's own name *)
  Definition listed_commands (n : node) : list (str * str) :=
    flat_map (fun kc => let i := n_info (snd kc) in
                        if str_eqb (ni_name i) (ni_helpname (n_info n)) then []
                        else [(ni_name i, ni_desc i)]) (n_cmds n).

  (* helpOutput(node) with all sections; [path] = names from the root to the node, [is_root] *)
  Definition help_output (path : list str) (is_root : bool) (n : node) : str :=
    let i := n_info n in
    let script := join [SP] path in
    let opts := level_options n in
    let cmds := listed_commands n in
    (if negb is_root || nonempty (ni_desc i) then help_name script (ni_desc i) ++ [NL] else []) ++
    help_synopsis_section script (ni_synargs i) opts (match cmds with [] => false | _ => true end) ++ [NL] ++
    (match cmds with [] => [] | _ => help_command_list cmds ++ [NL] end) ++
    help_option_list (ni_synargs i) opts ++
    (if nonempty (ni_helpname i) && Nat.ltb 1 (List.length (n_cmds n))
     then s2l "Use '" ++ script ++ s2l " help <command>' for extra details." ++ [NL] else []).
End WithSpecs.
