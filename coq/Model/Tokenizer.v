(* isOption (isoption.go): the token splitter, for the non-Windows call sites. *)
From GO Require Import Base.Str Base.Utf8.
Open Scope N_scope.

Inductive mode := Normal | Bundling | SingleDash.

Definition DASH : N := 45.
Definition EQ : N := 61.

Record pair := mkPair { p_name : str; p_args : list str }.

(* The regexp (?s)^(--?)([^=]+)(.*?)$ under leftmost-first semantics:
   Some (long, group2, group3), where [long] tells that the token starts with two dashes
   (isoption.go treats every such token as a long option, also "--=arg" for which the regexp
   backtracks to a single dash with group 2 = "-"). *)
Definition regex_match (s : str) : option (bool * str * str) :=
  match s with
  | d1 :: r1 =>
      if N.eqb d1 DASH then
        match r1 with
        | d2 :: r2 =>
            if N.eqb d2 DASH then
              (* try "--": group 2 = maximal '='-free prefix of r2, must be non-empty *)
              let (g2, g3) := span_not EQ r2 in
              match g2 with
              | _ :: _ => Some (true, g2, g3)
              | [] => (* backtrack to a single dash: group 2 starts with the second dash *)
                  let (g2', g3') := span_not EQ r1 in Some (true, g2', g3')
              end
            else
              let (g2, g3) := span_not EQ r1 in
              match g2 with
              | _ :: _ => Some (false, g2, g3)
              | [] => None
              end
        | [] => None
        end
      else None
  | [] => None
  end.

(* "=arg" -> [arg] when arg is not empty *)
Definition attached (g3 : str) : list str :=
  match g3 with
  | c :: a => if N.eqb c EQ then match a with [] => [] | _ => [a] end else []
  | [] => []
  end.

Fixpoint set_last_args (l : list pair) (a : list str) : list pair :=
  match l with
  | [] => []
  | [p] => [mkPair (p_name p) a]
  | p :: l' => p :: set_last_args l' a
  end.

Definition is_option (md : mode) (s : str) : list pair * bool :=
  if str_eqb s [DASH; DASH] then ([mkPair [DASH; DASH] []], false)
  else if str_eqb s [DASH] then ([mkPair [DASH] []], true)
  else match regex_match s with
       | None => ([], false)
       | Some (two, g2, g3) =>
           if two then ([mkPair g2 (attached g3)], true)
           else match md with
                | Normal => ([mkPair g2 (attached g3)], true)
                | Bundling =>
                    let opts := List.map (fun o => mkPair o []) (explode g2) in
                    (match attached g3 with
                     | [] => opts
                     | a => set_last_args opts a
                     end, true)
                | SingleDash =>
                    let n := first_rune_len g2 in
                    let name := firstn n g2 in
                    let rest := skipn n g2 in
                    (match rest, g3 with
                     | [], [] => [mkPair name []]
                     | _, _ => [mkPair name [rest ++ g3]]
                     end, true)
                end
       end.

Definition looks_like_option (md : mode) (s : str) : bool := snd (is_option md s).
