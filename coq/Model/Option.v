(* internal/option: option kinds, values and Save. *)
From GO Require Import Base.Str Base.Utf8.
From Coq Require Import String.
Open Scope N_scope.

Inductive kind :=
| KBool | KIncr
| KStr | KInt | KFloat
| KStrOpt | KIntOpt | KFloatOpt
| KStrRep | KIntRep | KFloatRep
| KMap.

Definition kind_eqb (a b : kind) : bool :=
  match a, b with
  | KBool, KBool | KIncr, KIncr | KStr, KStr | KInt, KInt | KFloat, KFloat
  | KStrOpt, KStrOpt | KIntOpt, KIntOpt | KFloatOpt, KFloatOpt
  | KStrRep, KStrRep | KIntRep, KIntRep | KFloatRep, KFloatRep | KMap, KMap => true
  | _, _ => false
  end.

Definition is_optional_kind (k : kind) : bool :=
  match k with KStrOpt | KIntOpt | KFloatOpt => true | _ => false end.

Definition is_flag_kind (k : kind) : bool :=
  match k with KBool | KIncr => true | _ => false end.

Definition is_multi_kind (k : kind) : bool :=
  match k with KStrRep | KIntRep | KFloatRep | KMap => true | _ => false end.

(* float64 values are carried as their IEEE bit pattern *)
Inductive value :=
| VBool (b : bool)
| VInt (z : Z)
| VStr (s : str)
| VFloat (bits : N)
| VStrs (l : list str)
| VInts (l : list Z)
| VFloats (l : list N)
| VMap (m : list (str * str)).   (* association list, each key at most once, in first-insertion order *)

(* static part of an option object *)
Record ospec := mkSpec {
  os_name : str;
  os_kind : kind;
  os_min : nat;
  os_max : nat;
  os_valid : list str;      (* ValidValues *)
  os_validq : str;          (* fmt %q rendering of ValidValues (taken from Go) *)
  os_required : bool;
  os_reqmsg : str;
  os_booldef : bool;
  os_aliases : list str;    (* Aliases, name first *)
  os_env : str;
  os_defstr : str;
  os_desc : str;
  os_argname : str;
  os_suggested : list str;
  os_sfn : option nat       (* id of the SuggestedValuesFn, from a described family *)
}.

(* dynamic part *)
Record ostate := mkState {
  o_val : value;
  o_called : bool;
  o_used : str    (* UsedAlias *)
}.

Inductive ekind :=
| EAmbiguous | EMissingArg | EArgWithDash | EConvInt | EConvFloat | ENotKeyValue | EWrongValue
| EMissingRequired | EUnknown | ENoHelpTopic | ENoCommandFn | EHelpCalled | EUser.

Definition ekind_eqb (a b : ekind) : bool :=
  match a, b with
  | EAmbiguous, EAmbiguous | EMissingArg, EMissingArg | EArgWithDash, EArgWithDash
  | EConvInt, EConvInt | EConvFloat, EConvFloat | ENotKeyValue, ENotKeyValue
  | EWrongValue, EWrongValue | EMissingRequired, EMissingRequired | EUnknown, EUnknown
  | ENoHelpTopic, ENoHelpTopic | ENoCommandFn, ENoCommandFn | EHelpCalled, EHelpCalled
  | EUser, EUser => true
  | _, _ => false
  end.

(* an error: its kind, the arguments of its message format, the exact message bytes, whether
   errors.Is(err, ErrorParsing) *)
Record err := mkErrA { e_kind : ekind; e_args : list str; e_msg : str; e_parsing : bool }.

Inductive result (A : Type) := Ok (a : A) | Err (e : err).
Arguments Ok {A} a.
Arguments Err {A} e.

Definition bind {A B} (r : result A) (f : A -> result B) : result B :=
  match r with Ok a => f a | Err e => Err e end.

(* message templates of package text *)
Definition Q : str := s2l "'".
Definition msg_missing_arg (key : str) : str := s2l "Missing argument for option '" ++ key ++ s2l "'!".
Definition msg_arg_with_dash (key : str) : str :=
  msg_missing_arg key ++ [10] ++ s2l "If passing arguments that start with '-' use --option=-argument".
Definition msg_conv_int (key v : str) : str :=
  s2l "Argument error for option '" ++ key ++ s2l "': Can't convert string to int: '" ++ v ++ Q.
Definition msg_conv_float (key v : str) : str :=
  s2l "Argument error for option '" ++ key ++ s2l "': Can't convert string to float64: '" ++ v ++ Q.
Definition msg_not_kv (key : str) : str :=
  s2l "Argument error for option '" ++ key ++ s2l "': Should be of type 'key=value'!".
Definition msg_wrong_value (name validq : str) : str :=
  s2l "wrong value for option '" ++ name ++ s2l "', valid values are " ++ validq.

Definition e_missing_arg (key : str) : err := mkErrA EMissingArg [key] (msg_missing_arg key) true.
Definition e_arg_with_dash (key : str) : err := mkErrA EArgWithDash [key] (msg_arg_with_dash key) true.
Definition e_conv_int (key v : str) : err := mkErrA EConvInt [key; v] (msg_conv_int key v) false.
Definition e_conv_float (key v : str) : err := mkErrA EConvFloat [key; v] (msg_conv_float key v) false.
Definition e_not_kv (key : str) : err := mkErrA ENotKeyValue [key] (msg_not_kv key) false.
Definition e_wrong_value (name validq : str) : err := mkErrA EWrongValue [name; validq] (msg_wrong_value name validq) false.

(* strconv.Atoi, base 10, 64-bit int *)
Definition digit_val (c : N) : option Z :=
  if (N.leb 48 c && N.leb c 57)%bool then Some (Z.of_N c - 48)%Z else None.

Fixpoint digits_val (acc : Z) (s : str) : option Z :=
  match s with
  | [] => Some acc
  | c :: s' => match digit_val c with
               | Some d => digits_val (acc * 10 + d)%Z s'
               | None => None
               end
  end.

Definition MAXINT : Z := 9223372036854775807%Z.
Definition MININT : Z := (-9223372036854775808)%Z.

Definition atoi (s : str) : option Z :=
  let '(neg, ds) := match s with
                    | c :: r => if N.eqb c 45 then (true, r) else if N.eqb c 43 then (false, r) else (false, s)
                    | [] => (false, [])
                    end in
  match ds with
  | [] => None
  | _ => match digits_val 0%Z ds with
         | Some v => let z := if neg then (- v)%Z else v in
                     if (Z.leb MININT z && Z.leb z MAXINT)%bool then Some z else None
         | None => None
         end
  end.

(* inclusive integer range a..b by recursion on the span *)
Fixpoint seqZ_n (a : Z) (n : nat) : list Z :=
  match n with O => [] | S n' => a :: seqZ_n (a + 1)%Z n' end.
Definition seqZ (a b : Z) : list Z := seqZ_n a (Z.to_nat (b - a + 1)%Z).

(* map assignment: replace the value of an existing key, else append *)
Fixpoint map_set (k v : str) (m : list (str * str)) : list (str * str) :=
  match m with
  | [] => [(k, v)]
  | (k', v') :: m' => if str_eqb k k' then (k, v) :: m' else (k', v') :: map_set k v m'
  end.

Fixpoint map_get (k : str) (m : list (str * str)) : option str :=
  match m with
  | [] => None
  | (k', v') :: m' => if str_eqb k k' then Some v' else map_get k m'
  end.

Section WithFloat.
  (* strconv.ParseFloat(., 64) as an oracle: Some bits | None (error) *)
  Variable pf : str -> option N.

  Definition valid_ok (sp : ospec) (a : list str) : bool :=
    match os_valid sp with
    | [] => true
    | vv => forallb (fun e => mem_str e vv) a
    end.

  (* conversion of the elements of an int slice occurrence, with range expansion *)
  Fixpoint conv_ints (used : str) (a : list str) : result (list Z) :=
    match a with
    | [] => Ok []
    | e :: a' =>
        bind (match split_dotdot e with
              | Some (n1, n2) =>
                  match atoi n1, atoi n2 with
                  | Some i1, Some i2 =>
                      if Z.ltb i1 i2 then Ok (seqZ i1 i2) else Err (e_conv_int used e)
                  | _, _ => Err (e_conv_int used e)
                  end
              | None =>
                  match atoi e with
                  | Some i => Ok [i]
                  | None => Err (e_conv_int used e)
                  end
              end)
             (fun l => bind (conv_ints used a') (fun l' => Ok (l ++ l')))
    end.

  Fixpoint conv_floats (used : str) (a : list str) : result (list N) :=
    match a with
    | [] => Ok []
    | e :: a' =>
        match pf e with
        | Some f => bind (conv_floats used a') (fun l' => Ok (f :: l'))
        | None => Err (e_conv_float used e)
        end
    end.

  (* map entries are stored one by one; an entry without '=' fails after the earlier ones were stored *)
  Fixpoint save_map (lower : bool) (used : str) (m : list (str * str)) (a : list str)
    : list (str * str) * option err :=
    match a with
    | [] => (m, None)
    | e :: a' =>
        match split_first 61 e with
        | Some (k, v) => save_map lower used (map_set (if lower then go_lower k else k) v m) a'
        | None => (m, Some (e_not_kv used))
        end
    end.

  (* Option.Save: [lower] is MapKeysToLower.  Returns the new state or an error.
     (On a map error the entries stored before the failing one stay stored in Go; the parse is
     abandoned then, so the partially updated map is not observable through Parse's contract.) *)
  Definition save (lower : bool) (sp : ospec) (st : ostate) (a : list str) : result ostate :=
    let upd v := Ok (mkState v (o_called st) (o_used st)) in
    match a with
    | [] =>
        match os_kind sp, o_val st with
        | KBool, _ => upd (VBool (negb (os_booldef sp)))
        | KIncr, VInt z => upd (VInt (z + 1))
        | _, _ => Ok st
        end
    | a0 :: _ =>
        if negb (valid_ok sp a) then Err (e_wrong_value (os_name sp) (os_validq sp))
        else
        match os_kind sp, o_val st with
        | (KStr | KStrOpt), _ => upd (VStr a0)
        | (KInt | KIntOpt), _ =>
            match atoi a0 with
            | Some i => upd (VInt i)
            | None => Err (e_conv_int (o_used st) a0)
            end
        | (KFloat | KFloatOpt), _ =>
            match pf a0 with
            | Some f => upd (VFloat f)
            | None => Err (e_conv_float (o_used st) a0)
            end
        | KStrRep, VStrs l => upd (VStrs (l ++ a))
        | KIntRep, VInts l => bind (conv_ints (o_used st) a) (fun ii => upd (VInts (l ++ ii)))
        | KFloatRep, VFloats l => bind (conv_floats (o_used st) a) (fun ff => upd (VFloats (l ++ ff)))
        | KMap, VMap m =>
            match save_map lower (o_used st) m a with
            | (m', None) => upd (VMap m')
            | (_, Some e) => Err e
            end
        | KIncr, VInt z => upd (VInt (z + 1))
        | KBool, _ =>
            if str_eqb a0 (s2l "true") then upd (VBool true)
            else if str_eqb a0 (s2l "false") then upd (VBool false)
            else upd (VBool (negb (os_booldef sp)))
        | _, _ => Ok st   (* value of the wrong shape for the kind: excluded by well-formedness *)
        end
    end.

  (* the value shape matches the kind *)
  Definition val_ok (k : kind) (v : value) : bool :=
    match k, v with
    | KBool, VBool _ | KIncr, VInt _ | (KStr | KStrOpt), VStr _ | (KInt | KIntOpt), VInt _
    | (KFloat | KFloatOpt), VFloat _ | KStrRep, VStrs _ | KIntRep, VInts _ | KFloatRep, VFloats _
    | KMap, VMap _ => true
    | _, _ => false
    end.

  (* is the next token well-formed for the element type (the greedy loop's lookahead) *)
  Definition wellformed (k : kind) (t : str) : bool :=
    match k with
    | KIntRep => match atoi t with Some _ => true | None => false end
    | KFloatRep => match pf t with Some _ => true | None => false end
    | KMap => contains_byte 61 t
    | _ => true
    end.
End WithFloat.
