(* The program tree after definition (programTree in api.go), as data. *)
From GO Require Import Base.Str Model.Option.
Open Scope N_scope.

Inductive umode := Fail | Warn | Pass.

Inductive fnref :=
| FnNone            (* CommandFn == nil *)
| FnUser (id : nat) (* a user CommandFn *)
| FnHelp.           (* the built-in runHelp of a help command *)

Record ninfo := mkInfo {
  ni_name : str;
  ni_desc : str;
  ni_umode : umode;
  ni_reqorder : bool;
  ni_helpname : str;             (* HelpCommandName, "" when no help was declared *)
  ni_fn : fnref;
  ni_suggestions : list str;     (* ArgCompletions *)
  ni_sfns : list nat;            (* ArgCompletionsFns, ids in a described family *)
  ni_synargs : list (str * str)  (* HelpSynopsisArg: (arg, description) *)
}.

(* ChildOptions: key -> option id (aliases are extra keys of the same id);
   ChildCommands: key -> node.  Go maps are association lists here; iteration order of a Go
   map is "some permutation of the list". *)
Inductive node := Node (i : ninfo) (opts : list (str * nat)) (cmds : list (str * node)).

Definition n_info (n : node) : ninfo := match n with Node i _ _ => i end.
Definition n_opts (n : node) : list (str * nat) := match n with Node _ o _ => o end.
Definition n_cmds (n : node) : list (str * node) := match n with Node _ _ c => c end.

Fixpoint alookup {V} (k : str) (l : list (str * V)) : option V :=
  match l with
  | [] => None
  | (k', v) :: l' => if str_eqb k k' then Some v else alookup k l'
  end.

Definition keys {V} (l : list (str * V)) : list str := List.map fst l.

Lemma alookup_In {V} k (l : list (str * V)) v : alookup k l = Some v -> In (k, v) l.
Proof.
  induction l as [|[k' v'] l IH]; simpl; [discriminate|].
  destruct (str_eqb_spec k k').
  - intros H; injection H as ->. subst. auto.
  - auto.
Qed.

Lemma alookup_None {V} k (l : list (str * V)) : alookup k l = None <-> ~ In k (keys l).
Proof.
  induction l as [|[k' v'] l IH]; simpl; [tauto|].
  destruct (str_eqb_spec k k').
  - subst. split; [discriminate | intros H; exfalso; apply H; auto].
  - rewrite IH. split; intros H; [intros [E|E]; [congruence | tauto] | tauto].
Qed.

Lemma alookup_Some_key {V} k (l : list (str * V)) v : alookup k l = Some v -> In k (keys l).
Proof. intros H. apply alookup_In in H. apply (in_map fst) in H. exact H. Qed.

Lemma alookup_NoDup {V} k (l : list (str * V)) v :
  NoDup (keys l) -> In (k, v) l -> alookup k l = Some v.
Proof.
  induction l as [|[k' v'] l IH]; simpl; [tauto|].
  intros ND [E|H].
  - injection E as -> ->. rewrite str_eqb_refl. reflexivity.
  - inversion ND as [|? ? Hn ND']; subst. destruct (str_eqb_spec k k').
    + subst. exfalso. apply Hn. apply (in_map fst) in H. exact H.
    + auto.
Qed.
