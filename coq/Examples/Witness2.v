(* Non-vacuity, second program: commands, require-order, a required option, an environment
   variable, help.  See Witness.v for the conventions. *)
From GO Require Import Base.Str Base.Utf8 Base.Sort Model.Tokenizer Model.Option Model.Tree Model.Parse Model.Build Model.Help Model.Dispatch.
From GO Require Import Proofs.TokLemmas Proofs.ParseLemmas Proofs.Labels Proofs.Tail Proofs.Match Proofs.Scalar Proofs.DispatchLemmas Proofs.Env.
From Coq Require Import String Lia.
Open Scope N_scope.
Open Scope string_scope.

Definition pf0 : str -> option N := fun _ => None.
Definition tk (s : string) := s2l s.

(* the last field is fmt's rendering of the default, which the harness takes from Go *)
Definition od (k : kind) (name : string) (aliases : list string) (d : value) (req : bool) (env : string) (defstr : string) : optdef :=
  mkOptDef k (s2l name) (List.map s2l aliases) d 1 1 req [] (s2l env) [] [] [] None None [] [] (s2l defstr).
Definition q (s : string) : string := String (Ascii.ascii_of_nat 34) (s ++ String (Ascii.ascii_of_nat 34) EmptyString).

Definition env0 : list (str * str) := [(tk "CFG", tk "from-env.cfg"); (tk "LEVEL", tk "abc")].

Definition o_config := od KStr "config" ["c"] (VStr (tk "dflt.cfg")) false "CFG" (q "dflt.cfg").
Definition o_level := od KInt "level" [] (VInt 3) false "LEVEL" "3".

Definition ops : list bop :=
  [ BOpt [] (od KIncr "verbose" ["v"] (VInt 0) false "" "0");
    BOpt [] o_config;
    BOpt [] o_level;
    BNewCmd [] (tk "deploy") (tk "deploy it");
    BOpt [tk "deploy"] (od KStr "target" [] (VStr []) true "" (q ""));
    BReqOrder [tk "deploy"];
    BSetFn [tk "deploy"] 1;
    BNewCmd [] (tk "status") (tk "show status");
    BSetFn [tk "status"] 2;
    BHelp (tk "help") [] ].

Definition built := build pf0 env0 (tk "prog") [] ops.
Definition b0 : bstate := match built with Some b => b | None => mkB (BNode (empty_info [] []) false [] []) [] [] end.
Definition root := to_node 64 (b_root b0).
Definition specs := b_specs b0.
Definition store0 := b_store b0.
Definition st0 := init root store0.

Example built_ok : built <> None.
Proof. vm_compute. discriminate. Qed.


Definition walked (args : list string) : pst :=
  match walk pf0 Normal false true specs root store0 (List.map s2l args) with Ok s => s | Err _ => st0 end.
Definition parsed (args : list string) :=
  pr_out (parse pf0 Normal false true specs root store0 (List.map s2l args)).
Definition dispatched (args : list string) :=
  match parsed args with
  | Ok (st, rem) => Some (dispatch specs root st rem)
  | Err _ => None
  end.

(* ---- C09: `deploy` has SetRequireOrder ---- *)
Definition pre9 := List.map s2l ["--verbose"; "deploy"; "--target"; "x"].
Definition st9 : pst := match run pf0 Normal false true specs st0 pre9 with Ok s => s | Err _ => st0 end.

Example C09_stop_hyps :
  run pf0 Normal false true specs (init root store0) pre9 = Ok st9 /\
  at_head pf0 Normal false specs st9 (tk "host") st9 /\
  (true && ni_reqorder (n_info (cur st9)))%bool = true /\
  stops_order Normal st9 (tk "host").
Proof.
  split; [vm_compute; reflexivity|]. split; [left; split; vm_compute; reflexivity|].
  split; [vm_compute; reflexivity|].
  split; [vm_compute; discriminate|]. left. split; vm_compute; reflexivity.
Qed.

Example C09_user_view :
  match parsed ["--verbose"; "deploy"; "--target"; "x"; "host"; "--verbose"; "status"; "--"] with
  | Ok (st, rem) => (List.map o_val (store st), rem)
  | Err _ => ([], [])
  end = ([VInt 1; VStr (tk "from-env.cfg"); VInt 3; VStr (tk "x"); VBool false],
         [tk "host"; tk "--verbose"; tk "status"; tk "--"]).
Proof. vm_compute. reflexivity. Qed.

Example C09_prefix_hyps :
  run pf0 Normal false true specs st0 pre9 = Ok st9 /\ ph st9 <> PTail.
Proof. split; [vm_compute; reflexivity | vm_compute; discriminate]. Qed.

(* ---- C10 ---- *)
Definition st10 := walked ["-v"; "deploy"; "--target=prod"; "a"; "b"].

Example C10_dispatch_hyps :
  called (store st10) (n_opts root) (ni_helpname (n_info (cur st10))) = false /\
  required_error specs (store st10) (cur st10) = None /\
  ni_fn (n_info (cur st10)) = FnUser 1.
Proof. split; [|split]; vm_compute; reflexivity. Qed.

Example C10_user_view :
  match dispatched ["-v"; "deploy"; "--target=prod"; "a"; "b"] with
  | Some (DRan id rem view) => (id, rem, List.map (fun kv => (fst kv, o_val (snd kv))) view)
  | _ => (0%nat, [], [])
  end = (1%nat, [tk "a"; tk "b"],
         [(tk "verbose", VInt 1); (tk "v", VInt 1); (tk "config", VStr (tk "from-env.cfg")); (tk "c", VStr (tk "from-env.cfg"));
          (tk "level", VInt 3); (tk "target", VStr (tk "prod")); (tk "help", VBool false)]).
Proof. vm_compute. reflexivity. Qed.


(* the end-to-end statement on the same command line: its hypotheses hold and it yields the run *)
Example C10_end_to_end_hyps :
  let args := List.map s2l ["-v"; "deploy"; "--target=prod"; "a"; "b"] in
  parse pf0 Normal false true specs root store0 args = mkRes [] (Ok (st10, [tk "a"; tk "b"])) /\
  follow root (select_cmds args (labels pf0 Normal false true specs (init root store0) args)) = Some (cur st10) /\
  ni_name (n_info (cur st10)) = tk "deploy".
Proof. split; [vm_compute; reflexivity|]. split; vm_compute; reflexivity. Qed.

Example C10_selected_node_hyp :
  exists w st rem, parse pf0 Normal false true specs root store0 (List.map s2l ["x"; "status"; "y"]) = mkRes w (Ok (st, rem)) /\
                   ni_name (n_info (cur st)) = tk "status" /\ rem = [tk "x"; tk "y"].
Proof. do 3 eexists. split; [vm_compute; reflexivity|]. split; vm_compute; reflexivity. Qed.

Example C10_inherited_hyps :
  NoDup (keys (n_opts root)) /\ In (tk "config", 1%nat) (n_opts root).
Proof.
  split; [|vm_compute; auto].
  vm_compute. repeat (constructor; [intros H; repeat (destruct H as [H|H]; [discriminate H|]); exact H|]). constructor.
Qed.

(* ---- C11 ---- *)
Definition st11 := walked ["deploy"; "a"].

Example C11_required_blocks_hyps :
  called (store st11) (n_opts root) (ni_helpname (n_info (cur st11))) = false /\
  exists e, required_error specs (store st11) (cur st11) = Some e /\
            e_kind e = EMissingRequired /\ e_parsing e = true /\
            e_msg e = tk "Missing required parameter 'target'".
Proof. split; [vm_compute; reflexivity|]. eexists. split; [vm_compute; reflexivity|]. split; [|split]; vm_compute; reflexivity. Qed.

Example C11_user_view :
  (match dispatched ["deploy"; "a"] with Some (DErr e) => Some (e_kind e, e_parsing e) | _ => None end) =
    Some (EMissingRequired, true) /\
  (match dispatched ["deploy"; "--help"] with Some (DHelp _) => true | _ => false end) = true /\
  (match dispatched ["help"; "nosuch"] with Some (DErr e) => Some (e_kind e) | _ => None end) = Some ENoHelpTopic.
Proof. split; [|split]; vm_compute; reflexivity. Qed.

(* the help command with a topic: the state after ["help"; "deploy"] has the help command's level on
   top of the root level, and `deploy` is a key of the root's command table *)
Definition st11t := walked ["help"; "deploy"].
Example C11_help_topic_hyps :
  (exists pl, up st11t = [pl] /\ exists c, alookup (tk "deploy") (n_cmds (lv_node pl)) = Some c) /\
  (match dispatched ["help"; "deploy"] with Some (DHelp _) => true | _ => false end) = true.
Proof. split; [eexists; split; [vm_compute; reflexivity | eexists; vm_compute; reflexivity] | vm_compute; reflexivity]. Qed.

Definition st11h := walked ["deploy"; "--help"].
Example C11_help_wins_hyps :
  called (store st11h) (n_opts root) (ni_helpname (n_info (cur st11h))) = true /\
  required_error specs (store st11h) (cur st11h) <> None.
Proof. split; vm_compute; [reflexivity | discriminate]. Qed.

(* ---- C12 ---- *)
Example C12_env_valid_hyps :
  plain o_config /\ od_env o_config <> [] /\ getenv env0 (od_env o_config) = tk "from-env.cfg" /\
  tk "from-env.cfg" <> [] /\ env_scalar (od_kind o_config) = true /\ od_valid o_config = [] /\
  conv pf0 (od_kind o_config) (tk "from-env.cfg") = Some (VStr (tk "from-env.cfg")).
Proof. repeat (split; [vm_compute; try reflexivity; discriminate|]). vm_compute. reflexivity. Qed.

Example C12_env_invalid_hyps :
  plain o_level /\ od_env o_level <> [] /\ getenv env0 (od_env o_level) = tk "abc" /\
  env_scalar (od_kind o_level) = true /\ od_valid o_level = [] /\
  conv pf0 (od_kind o_level) (tk "abc") = None.
Proof. repeat (split; [vm_compute; try reflexivity; discriminate|]). vm_compute. reflexivity. Qed.

Example C12_user_view :
  (match parsed [] with Ok (st, _) => List.map o_val (store st) | Err _ => [] end) =
    [VInt 0; VStr (tk "from-env.cfg"); VInt 3; VStr []; VBool false] /\
  (match parsed ["--config"; "cli.cfg"; "--level=9"] with Ok (st, _) => List.map o_val (store st) | Err _ => [] end) =
    [VInt 0; VStr (tk "cli.cfg"); VInt 9; VStr []; VBool false].
Proof. split; vm_compute; reflexivity. Qed.
