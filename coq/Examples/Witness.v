(* Non-vacuity: concrete programs, built through the modelled definition API, on which the
   hypotheses of the property theorems hold and their conclusions compute to what a user expects.
   Every Example here is closed by evaluation (vm_compute / reflexivity) or by applying the property
   lemma to the computed facts. *)
From GO Require Import Base.Str Base.Utf8 Base.Sort Model.Tokenizer Model.Option Model.Tree Model.Parse Model.Build.
From Coq Require Import String.
Open Scope N_scope.
Open Scope string_scope.

(* no float conversions in this program *)
Definition pf0 : str -> option N := fun _ => None.

Definition od (k : kind) (name : string) (aliases : list string) (d : value) (mn mx : nat) : optdef :=
  mkOptDef k (s2l name) (List.map s2l aliases) d mn mx false [] [] [] [] [] None None [] [] [].

Definition ops : list bop :=
  [ BOpt [] (od KStr "name" ["n"] (VStr (s2l "dflt")) 1 1);
    BOpt [] (od KInt "count" [] (VInt 7) 1 1);
    BOpt [] (od KBool "flag" ["f"] (VBool false) 0 0);
    BOpt [] (od KIncr "verbose" ["v"] (VInt 0) 0 0);
    BOpt [] (od KStrOpt "color" [] (VStr (s2l "auto")) 0 1);
    BOpt [] (od KStrRep "list" [] (VStrs []) 1 3);
    BOpt [] (od KIntRep "ints" [] (VInts []) 1 1);
    BOpt [] (od KMap "define" ["D"] (VMap []) 1 1);
    BNewCmd [] (s2l "log") (s2l "show the log");
    BOpt [s2l "log"] (od KStr "format" [] (VStr []) 1 1);
    BSetFn [s2l "log"] 1;
    BHelp (s2l "help") [s2l "?"] ].

Definition built := build pf0 [] (s2l "prog") [] ops.
Definition b0 : bstate := match built with Some b => b | None => mkB (BNode (empty_info [] []) false [] []) [] [] end.
Definition root := to_node 64 (b_root b0).
Definition specs := b_specs b0.
Definition store0 := b_store b0.
Definition st0 := init root store0.

Example built_ok : built <> None.
Proof. vm_compute. discriminate. Qed.


From GO Require Import Proofs.TokLemmas Proofs.ParseLemmas Proofs.Labels Proofs.Tail Proofs.Match Proofs.Scalar Proofs.Multi Proofs.Alias Proofs.Modes Proofs.Unknown.
From Coq Require Import Lia.

Ltac inst_nth :=
  repeat match goal with
         | H : nth_error _ _ = Some _ |- _ => vm_compute in H; inversion H; clear H; subst
         end.
Ltac witness :=
  intros; inst_nth; repeat split; vm_compute;
  try reflexivity; try discriminate; try (intros; discriminate); try lia; auto.

(* what a user sees: values of all options and remaining *)
Definition outcome md (args : list string) :=
  match pr_out (parse pf0 md false true specs root store0 (List.map s2l args)) with
  | Ok (st, rem) => inl (List.map o_val (store st), List.map o_called (store st), rem)
  | Err e => inr (e_kind e, e_msg e)
  end.

Definition tk (s : string) := s2l s.
Definition name_key := tk "name".

(* ---- C01 ---- *)
Example C01_attached_hyps : forall sp os,
  nth_error specs 0 = Some sp -> nth_error (store st0) 0 = Some os ->
  name_key <> [] /\ contains_byte EQ name_key = false /\ tk "a=b c" <> [] /\
  matches (n_opts (cur st0)) name_key = [(name_key, 0%nat)] /\
  scalar_valued (os_kind sp) = true /\ os_max sp = 1%nat /\ (os_min sp <= 1)%nat /\
  valid_ok sp [tk "a=b c"] = true.
Proof. witness. Qed.

Example C01_attached_fires :
  head pf0 Normal false true specs st0 (tk "--name=a=b c") =
  Ok (set_ph (with_opt st0 0 (mkState (VStr (tk "a=b c")) true name_key)) PHead).
Proof.
  assert (Hs : exists sp, nth_error specs 0 = Some sp) by (vm_compute; eauto).
  assert (Ho : exists os, nth_error (store st0) 0 = Some os) by (vm_compute; eauto).
  destruct Hs as [sp Hs], Ho as [os Ho].
  destruct (C01_attached_hyps sp os Hs Ho) as (H1 & H2 & H3 & H4 & H5 & H6 & H7 & H8).
  change (tk "--name=a=b c") with (DASH :: DASH :: name_key ++ EQ :: tk "a=b c").
  rewrite (attached_value pf0 Normal false true specs st0 name_key (tk "a=b c") name_key 0%nat sp os
             H1 H2 H3 H4 Hs Ho H5 H6 H7 H8).
  vm_compute in Hs. inversion Hs; subst. reflexivity.
Qed.

Example C01_user_view :
  outcome Normal ["--name=a=b c"; "--count=-12"; "rest"] =
  inl ([VStr (tk "a=b c"); VInt (-12); VBool false; VInt 0; VStr (tk "auto"); VStrs []; VInts []; VMap []; VStr []; VBool false],
       [true; true; false; false; false; false; false; false; false; false], [tk "rest"]).
Proof. vm_compute. reflexivity. Qed.


Example C01_detached_dash_rejected_view :
  outcome Normal ["--count"; "-12"] =
  inr (EArgWithDash, tk ("Missing argument for option 'count'!" ++ String (Ascii.ascii_of_nat 10) "If passing arguments that start with '-' use --option=-argument")).
Proof. vm_compute. reflexivity. Qed.

Example C01_detached_value_hyps : forall sp os st,
  head pf0 Normal false true specs st0 (tk "--count") = Ok st ->
  nth_error specs 1 = Some sp -> nth_error (store st) 1 = Some os ->
  ph st = PPend 1 (tk "count") 0 [] [] /\
  scalar_valued (os_kind sp) = true /\ os_max sp = 1%nat /\ os_min sp = 1%nat /\
  valid_ok sp [tk "42"] = true /\ looks_like_option Normal (tk "42") = false /\
  conv pf0 (os_kind sp) (tk "42") = Some (VInt 42).
Proof. intros sp os st H. vm_compute in H. inversion H; subst; clear H. witness. Qed.

Example C01_bool_hyps : forall sp os,
  nth_error specs 2 = Some sp -> nth_error (store st0) 2 = Some os ->
  matches (n_opts (cur st0)) (tk "flag") = [(tk "flag", 2%nat)] /\
  os_kind sp = KBool /\ os_min sp = 0%nat /\ os_max sp = 0%nat.
Proof. witness. Qed.

Example C01_increment_hyps : forall sp os,
  nth_error specs 3 = Some sp -> nth_error (store st0) 3 = Some os ->
  matches (n_opts (cur st0)) (tk "verbose") = [(tk "verbose", 3%nat)] /\
  os_kind sp = KIncr /\ o_val os = VInt 0 /\ os_min sp = 0%nat /\ os_max sp = 0%nat.
Proof. witness. Qed.

Example C01_optional_view :
  outcome Normal ["--color"; "--flag"; "--verbose"; "-v"; "--color"; "red"] =
  inl ([VStr (tk "dflt"); VInt 7; VBool true; VInt 2; VStr (tk "red"); VStrs []; VInts []; VMap []; VStr []; VBool false],
       [false; false; true; true; true; false; false; false; false; false], []).
Proof. vm_compute. reflexivity. Qed.

(* ---- C02 ---- *)
Example C02_intake_hyps : forall sp st,
  head pf0 Normal false true specs st0 (tk "--list") = Ok st ->
  nth_error specs 5 = Some sp ->
  ph st = PPend 5 (tk "list") 0 [] [] /\ (0 < os_min sp)%nat /\ (os_min sp <= 1)%nat /\ (1 < os_max sp)%nat /\
  os_kind sp = KStrRep.
Proof. intros sp st H. vm_compute in H. inversion H; subst; clear H. witness. Qed.

Example C02_user_view :
  outcome Normal ["--list"; "a"; "b"; "--ints"; "1..4"; "--list=x"; "y"; "z"; "w"; "--define"; "k=v=w"; "-D"; "k2=x"; "--define=k=last"] =
  inl ([VStr (tk "dflt"); VInt 7; VBool false; VInt 0; VStr (tk "auto");
        VStrs [tk "a"; tk "b"; tk "x"; tk "y"; tk "z"]; VInts [1; 2; 3; 4]%Z;
        VMap [(tk "k", tk "last"); (tk "k2", tk "x")]; VStr []; VBool false],
       [false; false; false; false; false; true; true; true; false; false], [tk "w"]).
Proof. vm_compute. reflexivity. Qed.

Example C02_missing_view :
  match outcome Normal ["--list"] with inr (EMissingArg, _) => True | _ => False end.
Proof. vm_compute. exact I. Qed.

Example C02_map_split_hyp : split_first 61 (tk "k=v=w") = Some (tk "k", tk "v=w").
Proof. vm_compute. reflexivity. Qed.

(* ---- C03 / C04 / C08 / C09 ---- *)
Definition labels_of md ro (args : list string) :=
  labels pf0 md false ro specs st0 (List.map s2l args).

Example C03_labels_view :
  labels_of Normal true ["pos"; "--name"; "v"; "--zzz"; "log"; "--format=x"; "--"; "--flag"; "log"] =
  [LPos; LOpt; LVal; LDropped; LCmd; LOpt; LTerm; LTail; LTail].
Proof. vm_compute. reflexivity. Qed.

Example C03_selection_hyp :
  exists w st rem,
    parse pf0 Normal false true specs root store0 (List.map s2l ["pos"; "--name"; "v"; "log"; "x"; "--"; "--flag"]) = mkRes w (Ok (st, rem)) /\
    rem = [tk "pos"; tk "x"; tk "--flag"].
Proof. vm_compute. eauto. Qed.

Example C08_fail_hyp : In LDropped (labels_of Normal true ["pos"; "--zzz"; "log"]).
Proof. vm_compute. auto. Qed.

Example C08_fail_view :
  outcome Normal ["pos"; "--zzz"; "log"] = inr (EUnknown, tk "Unknown option 'zzz'").
Proof. vm_compute. reflexivity. Qed.

Definition st_la : pst :=
  match run pf0 Normal false true specs st0 (List.map s2l ["--list"; "a"]) with Ok s => s | Err _ => st0 end.
Definition sh_la : pst :=
  match offer pf0 Normal false specs st_la [] [] DD with Ok (s, _) => s | Err _ => st0 end.

(* `--` after a slice option that could still take two more values *)
Example C04_terminator_hyps :
  run pf0 Normal false true specs st0 (List.map s2l ["--list"; "a"]) = Ok st_la /\
  at_head pf0 Normal false specs st_la DD sh_la.
Proof.
  split; [vm_compute; reflexivity|].
  right. exists 5%nat, (tk "list"), 1%nat, [], [].
  assert (Hs : exists sp, nth_error specs 5 = Some sp) by (vm_compute; eauto).
  destruct Hs as [sp Hs]. exists sp. split; [vm_compute; reflexivity|]. split; [exact Hs|].
  vm_compute in Hs. inversion Hs; subst; clear Hs.
  split; vm_compute; reflexivity.
Qed.

Example C04_user_view :
  outcome Normal ["--list"; "a"; "--"; "--flag"; "log"; "--"] =
  inl ([VStr (tk "dflt"); VInt 7; VBool false; VInt 0; VStr (tk "auto"); VStrs [tk "a"]; VInts []; VMap []; VStr []; VBool false],
       [false; false; false; false; false; true; false; false; false; false], [tk "--flag"; tk "log"; tk "--"]).
Proof. vm_compute. reflexivity. Qed.

(* ---- C05 ---- *)
Example C05_prefix_hyps :
  NoDup (keys (n_opts root)) /\
  matches (n_opts root) (tk "na") = [(name_key, 0%nat)] /\
  matches (n_opts root) (tk "co") = [(tk "count", 1%nat); (tk "color", 4%nat)].
Proof.
  split; [|split; vm_compute; reflexivity].
  vm_compute. repeat (constructor; [intros H; repeat (destruct H as [H|H]; [discriminate H|]); exact H|]). constructor.
Qed.

Example C05_ambiguous_hyps :
  alookup (tk "co") (n_opts (cur st0)) = None /\
  (2 <= List.length (List.filter (pfx (tk "co")) (n_opts (cur st0))))%nat.
Proof. split; vm_compute; [reflexivity | lia]. Qed.

Example C05_user_view :
  outcome Normal ["--na=x"; "--cou"; "3"; "--f"] =
  inl ([VStr (tk "x"); VInt 3; VBool true; VInt 0; VStr (tk "auto"); VStrs []; VInts []; VMap []; VStr []; VBool false],
       [true; true; true; false; false; false; false; false; false; false], []) /\
  outcome Normal ["--co"; "x"] =
  inr (EAmbiguous, tk "Ambiguous option '--co', matches [color count]!").
Proof. split; vm_compute; reflexivity. Qed.

(* ---- C06 ---- *)
Example C06_alias_hyps :
  alookup (tk "define") (n_opts (cur st0)) = Some 7%nat /\ alookup (tk "D") (n_opts (cur st0)) = Some 7%nat.
Proof. split; vm_compute; reflexivity. Qed.

Definition called_as (args : list string) :=
  match pr_out (parse pf0 Normal false true specs root store0 (List.map s2l args)) with
  | Ok (st, _) => List.map o_used (store st)
  | Err _ => []
  end.

Example C06_user_view :
  called_as ["-n"; "x"; "--define"; "a=b"; "-D"; "c=d"; "--verb"] =
  [tk "n"; []; []; tk "verbose"; []; []; []; tk "D"; []; []].
Proof. vm_compute. reflexivity. Qed.

(* ---- C07 ---- *)
Example C07_not_single_dash_holds : Forall not_single_dash (List.map s2l ["--flag"; "x"; "--name=v"; "-"; "--"]).
Proof.
  repeat apply Forall_cons; [| | | | |apply Forall_nil].
  - left. eexists. vm_compute. reflexivity.
  - right. left. intros r. vm_compute. discriminate.
  - left. eexists. vm_compute. reflexivity.
  - right. right. reflexivity.
  - left. exists []. reflexivity.
Qed.

Example C07_normal_hyps :
  ph st0 <> PTail /\ tk "name" <> [] /\ no_dash_start (tk "name") /\ contains_byte EQ (tk "name") = false /\
  starts_with_eq_or_empty (tk "=v") /\ matches (n_opts (cur st0)) (tk "name") = [(name_key, 0%nat)].
Proof.
  split; [vm_compute; discriminate|]. split; [vm_compute; discriminate|].
  split; [intros r; vm_compute; discriminate|]. split; [vm_compute; reflexivity|].
  split; [right; eexists; vm_compute; reflexivity | vm_compute; reflexivity].
Qed.

Example C07_user_view :
  outcome Bundling ["-vfv"; "-n=x"] = outcome Bundling ["-v"; "-f"; "-v"; "-n=x"] /\
  outcome SingleDash ["-nfoo"] = outcome SingleDash ["--n=foo"] /\
  outcome Normal ["-name=foo"; "-verb"] = outcome Normal ["--name=foo"; "--verb"] /\
  outcome Bundling ["-vfv"; "-n=x"] =
  inl ([VStr (tk "x"); VInt 7; VBool true; VInt 2; VStr (tk "auto"); VStrs []; VInts []; VMap []; VStr []; VBool false],
       [true; false; true; true; false; false; false; false; false; false], []).
Proof. split; [|split; [|split]]; vm_compute; reflexivity. Qed.

Example C07_bundle_pairs_view :
  is_option Bundling (tk "-vfn=x") = ([mkPair (tk "v") []; mkPair (tk "f") []; mkPair (tk "n") [tk "x"]], true).
Proof. vm_compute. reflexivity. Qed.
