(* Non-vacuity for the DAG theorems: a concrete graph built through the construction API and a
   concrete schedule of the transition system reaching states in which the hypotheses hold. *)
From GO Require Import Base.Str Base.Utf8 Base.Sort Model.Tree Model.Dag.
From GO Require Import Proofs.DagHold Proofs.DagInv Proofs.DagSort Proofs.DagBuild.
From Coq Require Import String Lia.
Open Scope N_scope.
Open Scope string_scope.

Definition tk (s : string) := s2l s.
Definition T (s : string) : targ := TA (Some (tk s, true)).

(* d -> {b, c}, b -> a, c -> a, e -> s; declared out of order, with a re-add and a duplicate edge *)
Definition gops : list gop :=
  [ GDep (T "d") [T "b"; T "c"]; GDep (T "b") [T "a"]; GAdd (T "b"); GDep (T "c") [T "a"];
    GDep (T "e") [T "s"]; GAdd (T "s"); GRetries (TL (tk "c")) 1; GDep (TL (tk "c")) [TL (tk "a")] ].
Definition g := build_graph gops.
Definition cf := mkConfig false 2.

Example graph_view :
  vids g = [tk "d"; tk "b"; tk "c"; tk "a"; tk "e"; tk "s"] /\
  children g (tk "d") = [tk "b"; tk "c"] /\ parents g (tk "a") = [tk "b"; tk "c"] /\
  g_errs g = [XDupDep (tk "c") (tk "a")].
Proof. repeat split. Qed.

Definition after (ls : list label) : dstate :=
  match dsteps g cf (init_state []) ls with Some s => s | None => init_state [] end.
Definition reachable (ls : list label) : Prop := dsteps g cf (init_state []) ls <> None.

Lemma after_inv ls : reachable ls -> Inv g cf (after ls).
Proof.
  unfold reachable, after. intros H. destruct (dsteps g cf (init_state []) ls) as [s|] eqn:E; [|congruence].
  exact (built_reachable gops cf ls s E).
Qed.

Definition A := tk "a". Definition B := tk "b". Definition C := tk "c". Definition D := tk "d".
Definition E := tk "e". Definition S_ := tk "s".

(* a runs and returns nil; b and c run together (limit 2); s waits for a slot *)
Definition tr1 : list label :=
  [LPick A; LStart A; LPick S_; LExit A ONil; LRecvReal A; LPick B; LPick C; LStart B; LStart C].

Example tr1_reachable : reachable tr1.
Proof. vm_compute. discriminate. Qed.

(* C13_deps_before: the LStart of b is enabled in a state where its dependency is okdone *)
Example C13_start_hyp :
  exists st', dstep g cf (after [LPick A; LStart A; LPick S_; LExit A ONil; LRecvReal A; LPick B; LPick C]) (LStart B) = Some st'.
Proof. vm_compute. eauto. Qed.
Example C13_start_view :
  d_okdone (after [LPick A; LStart A; LPick S_; LExit A ONil; LRecvReal A; LPick B; LPick C]) = [A].
Proof. vm_compute. reflexivity. Qed.
(* ... and is not enabled before a's completion has been received *)
Example C13_not_before :
  dstep g cf (after [LPick A; LStart A; LExit A ONil]) (LPick B) = None.
Proof. vm_compute. reflexivity. Qed.

(* C15_bound: two distinct running vertices, the limit is 2, and the third cannot start *)
Example C15_bound_hyps :
  NoDup [B; C] /\ (forall v, In v [B; C] -> thread_running (d_thread (after tr1) v) = true) /\
  dstep g cf (after tr1) (LStart S_) = None /\ d_thread (after tr1) S_ = Waiting.
Proof.
  split; [repeat constructor; simpl; intuition discriminate|].
  split; [intros v [<-|[<-|[]]]; vm_compute; reflexivity|].
  split; vm_compute; reflexivity.
Qed.

(* retries: c fails once and is re-run (attempt 1), then succeeds *)
Example C13_attempts_view :
  d_thread (after (tr1 ++ [LExit C OErr])) C = Running 1 /\
  d_thread (after (tr1 ++ [LExit C OErr; LExit C ONil])) C = Finished ONil.
Proof. split; vm_compute; reflexivity. Qed.

(* s returns ErrorSkipParents: e (its dependent) is marked and never gets a thread *)
Definition tr2 : list label := tr1 ++ [LExit B ONil; LRecvReal B; LStart S_; LExit S_ OSkipParents; LRecvReal S_].
Example tr2_reachable : reachable tr2.
Proof. vm_compute. discriminate. Qed.
Example C14_skip_hyps :
  In S_ (d_sp (after tr2)) /\ depends_on g E S_.
Proof. split; [vm_compute; auto|]. apply dep_edge. vm_compute. auto. Qed.
Example C14_skip_fires : In E (d_marked (after tr2)) /\ d_thread (after tr2) E = NotSpawned.
Proof.
  destruct C14_skip_hyps as [H1 H2].
  exact (skip_parents_blocks g cf (build_graph_sym gops) (after tr2) S_ E (after_inv tr2 tr2_reachable) H1 H2).
Qed.

(* an error is recorded, then nothing new is launched: d is picked but gets no thread *)
Definition tr3 : list label := tr2 ++ [LExit C OErr; LExit C OErr; LRecvReal C].
Example tr3_reachable : reachable tr3.
Proof. vm_compute. discriminate. Qed.
Example C14_no_launch_hyps :
  exists st', dstep g cf (after tr3) (LPick D) = Some st' /\ d_errs (ctx_check (after tr3)) = [XTask C].
Proof. eexists. split; vm_compute; reflexivity. Qed.

(* the whole run: Run returns with the error of c and the skipped d; e is skipped without error *)
Definition tr4 : list label :=
  tr3 ++ [LPick D; LRecvPseudo D true; LPick E; LRecvPseudo E false; LReturn].
Example tr4_reachable : reachable tr4.
Proof. vm_compute. discriminate. Qed.
Example C14_result_view :
  d_errs (after tr4) = [XTask C; XSkipped D] /\ d_returned (after tr4) = true.
Proof. split; vm_compute; reflexivity. Qed.

(* cancellation is noticed at the next scheduling step *)
Example C14_cancel_hyps :
  d_cancelled (after [LPick A; LCancel]) = true /\ d_handled (after [LPick A; LCancel]) = false /\
  d_errs (after [LPick A; LCancel; LPick S_]) = [XCancel].
Proof. repeat split; vm_compute; reflexivity. Qed.

(* another graph holds the Task of a: a cannot start here *)
Example C15_mutex_hyps :
  reachable [LPick A; LEnvLock A] /\ d_envlock (after [LPick A; LEnvLock A]) A = true /\
  dstep g cf (after [LPick A; LEnvLock A]) (LStart A) = None.
Proof. split; [vm_compute; discriminate|]. split; vm_compute; reflexivity. Qed.

(* serial mode: one at a time *)
Definition cfs := mkConfig true 1000000.
Example C15_serial_view :
  (match dsteps g cfs (init_state []) [LPick A; LStart A] with Some st => dstep g cfs st (LPick S_) | None => None end) = None /\
  (match dsteps g cf (init_state []) [LPick A; LStart A] with Some st => dstep g cf st (LPick S_) | None => None end) <> None.
Proof. split; vm_compute; [reflexivity | discriminate]. Qed.

(* ---- C16 ---- *)
Example C16_dfs_hyp :
  dfs_sort g (vids g) = Some (inl [A; B; C; D; S_; E]).
Proof. vm_compute. reflexivity. Qed.

Definition gcyc := build_graph [GDep (T "x") [T "y"]; GDep (T "y") [T "z"]; GDep (T "z") [T "x"]; GAdd (T "w")].
Example C16_cycle_hyps :
  depends gcyc (tk "x") (tk "x") /\ In (tk "x") (vids gcyc) /\ g_errs gcyc = [] /\ g_vs gcyc <> [].
Proof.
  split; [|split; [vm_compute; auto|split; [reflexivity|vm_compute; discriminate]]].
  apply depends_trans with (m := tk "y"); [vm_compute; auto|].
  apply depends_trans with (m := tk "z"); [vm_compute; auto|].
  apply depends_edge. vm_compute. auto.
Qed.
Example C16_cycle_view :
  run_prelude gcyc (vids gcyc) = PreCycle /\ run_prelude gcyc (rev (vids gcyc)) = PreCycle /\
  run_prelude gcyc [tk "w"; tk "z"; tk "x"; tk "y"] = PreCycle.
Proof. repeat split; vm_compute; reflexivity. Qed.

(* C16_progress applies in the middle of the run (b and c running, s waiting for a slot) *)
Example C16_progress_hyps :
  (exists l, dfs_sort g (vids g) = Some (inl l)) /\ (0 < cf_cap cf)%N /\
  d_returned (after tr1) = false /\ (forall v, d_envlock (after tr1) v = false).
Proof.
  split; [eexists; exact C16_dfs_hyp|]. split; [reflexivity|]. split; [vm_compute; reflexivity|].
  intros v. vm_compute. reflexivity.
Qed.

Example C16_progress_fires :
  exists l st', DagProgress.productive l = true /\ dstep g cf (after tr1) l = Some st'.
Proof.
  destruct C16_progress_hyps as (H1 & H2 & H3 & H4).
  assert (S : dsteps g cf (init_state []) tr1 = Some (after tr1)).
  { unfold after. destruct (dsteps g cf (init_state []) tr1) eqn:E; [reflexivity|]. exfalso. exact (tr1_reachable E). }
  exact (built_progress_acyclic gops cf tr1 (after tr1) S H1 H2 H3 H4).
Qed.

(* ---- C14: the report of a whole run (tr4: c fails, d is never started, e is skipped through
   ErrorSkipParents of s) satisfies the hypotheses of the reporting theorems ---- *)
From GO Require Import Proofs.DagReport.

Example C14_report_hyps :
  dsteps g cf (init_state []) tr4 = Some (after tr4) /\ all_done g (after tr4) = true /\
  In D (vids g) /\ In (XTask C) (d_errs (after tr4)) /\ depends_on g D C.
Proof.
  split; [vm_compute; reflexivity|]. split; [vm_compute; reflexivity|]. split; [vm_compute; auto 10|].
  split; [vm_compute; auto|]. apply dep_edge. vm_compute. auto.
Qed.

Example C14_report_fires :
  d_thread (after tr4) D = NotSpawned /\
  (d_errs (after tr4) = [] <-> d_handled (after tr4) = false /\
     forall v, In v (vids g) -> In v (d_okdone (after tr4)) \/ In v (d_sp (after tr4)) \/ In v (d_marked (after tr4))).
Proof.
  destruct C14_report_hyps as (H1 & H2 & H3 & H4 & H5). split.
  - exact (built_failed_blocks_dependents gops cf tr4 (after tr4) C D H1 H4 H5).
  - exact (built_nil_iff gops cf tr4 (after tr4) H1 H2).
Qed.

Example C14_report_view :
  d_errs (after tr4) = [XTask C; XSkipped D] /\ d_thread (after tr4) C = Gone /\
  d_thread (after tr4) D = NotSpawned /\ ~ In D (d_marked (after tr4)) /\
  d_thread (after tr4) E = NotSpawned /\ In E (d_marked (after tr4)) /\ d_sp (after tr4) = [S_] /\
  d_okdone (after tr4) = [B; A].
Proof.
  split; [vm_compute; reflexivity|]. split; [vm_compute; reflexivity|]. split; [vm_compute; reflexivity|].
  split; [vm_compute; intros [H|H]; [discriminate H | exact H]|].
  split; [vm_compute; reflexivity|]. split; [vm_compute; auto|]. split; vm_compute; reflexivity.
Qed.

(* ---- C13, transitive form: d depends on a through b (and c); when d's function is entered a's
   completion has been received ---- *)
Definition tr5 : list label :=
  [LPick A; LStart A; LExit A ONil; LRecvReal A; LPick B; LPick C; LStart B; LStart C;
   LExit B ONil; LExit C ONil; LRecvReal B; LRecvReal C; LPick D].

Example C13_transitive_hyps :
  dsteps g cf (init_state []) tr5 = Some (after tr5) /\
  (exists st', dstep g cf (after tr5) (LStart D) = Some st') /\ depends_on g D A.
Proof.
  split; [vm_compute; reflexivity|]. split; [vm_compute; eauto|].
  apply (dep_trans g D B A); [vm_compute; auto | apply dep_edge; vm_compute; auto].
Qed.

Example C13_transitive_fires : In A (d_okdone (after tr5)) /\ d_thread (after tr5) A = Gone.
Proof.
  destruct C13_transitive_hyps as (H1 & (st' & H2) & H3).
  exact (built_start_needs_all_dependencies gops cf tr5 (after tr5) D st' H1 H2 A H3).
Qed.
