(* Non-vacuity for completion (C17), help (C18), totality (C19) and order independence (C20),
   on the program of Witness2.v. *)
From GO Require Import Base.Str Base.Utf8 Base.Sort Model.Tokenizer Model.Option Model.Tree Model.Parse Model.Build Model.Help Model.Dispatch Model.Complete.
From GO Require Import Proofs.ParseLemmas Proofs.Total Proofs.HelpLemmas Proofs.Perm Proofs.CompleteLemmas Run.Check.
From GO Require Import Examples.Witness2.
From Coq Require Import String Lia Permutation.
Open Scope N_scope.
Open Scope string_scope.

Definition comp (t : target) (words : list string) : cresult :=
  complete pf0 Normal false specs fam_vfn fam_afn t root store0 (List.map s2l words).

(* ---- C17 ---- *)
Example C17_level_hyps :
  exists st, run pf0 Normal false true specs (init root store0) [tk "-v"; tk "deploy"] = Ok st /\ ph st = PHead /\
             ni_name (n_info (cur st)) = tk "deploy".
Proof. eexists. split; [vm_compute; reflexivity|]. split; vm_compute; reflexivity. Qed.

Example C17_user_view :
  comp Bash ["-v"; "deploy"; "--"] =
    CList [tk "--c="; tk "--config="; tk "--help"; tk "--level="; tk "--target="; tk "--v="; tk "--verbose="] /\
  comp Bash ["-v"; "deploy"; "--t"] = CList [tk "--target="; tk "--target=<string>"] /\
  comp Bash [""] = CList [tk "deploy"; tk "help"; tk "status"] /\
  comp Bash ["st"] = CList [tk "status "] /\ comp Zsh ["st"] = CList [tk "status"] /\
  comp Bash ["--"; "st"] = CList [] /\
  (match comp Bash ["--config"; ""] with CList l => l | CErr _ => [tk "?"] end) = [].
Proof. repeat (split; [vm_compute; reflexivity|]). vm_compute. reflexivity. Qed.

Example C17_tail_hyps :
  exists st, run pf0 Normal false true specs (init root store0) [tk "deploy"; tk "--target=x"; tk "host"] = Ok st /\ ph st = PTail.
Proof. eexists. split; vm_compute; reflexivity. Qed.

Example C17_accepted_hyps :
  NoDup (keys (n_opts root)) /\ contains_byte 61 (strip_dashes (tk "--c")) = false /\
  In (tk "--config=") (option_base specs fam_vfn Bash root (tk "--c")).
Proof.
  split; [|split; vm_compute; auto].
  vm_compute. repeat (constructor; [intros H; repeat (destruct H as [H|H]; [discriminate H|]); exact H|]). constructor.
Qed.

(* ---- C18 ---- *)
Definition deploy_node : node := match alookup (tk "deploy") (n_cmds root) with Some c => c | None => root end.

Example C18_wf_level_hyp : wf_level specs deploy_node.
Proof.
  split.
  - vm_compute. repeat (constructor; [intros H; repeat (destruct H as [H|H]; [discriminate H|]); exact H|]). constructor.
  - intros k oid H. vm_compute in H.
    repeat (destruct H as [H|H]; [inversion H; subst; clear H; eexists; split; [vm_compute; reflexivity|]; split; vm_compute; auto 10|]).
    contradiction.
Qed.

Example C18_entries_view :
  List.map os_name (level_options specs deploy_node) = [tk "verbose"; tk "config"; tk "level"; tk "target"; tk "help"] /\
  List.map os_name (entries_required (level_options specs deploy_node)) = [tk "target"].
Proof. split; vm_compute; reflexivity. Qed.

Definition nl := String (Ascii.ascii_of_nat 10) EmptyString.
Example C18_help_text_view :
  help_output specs [tk "prog"; tk "deploy"] false deploy_node =
  tk ("NAME:" ++ nl ++ "    prog deploy - deploy it" ++ nl ++ nl ++
      "SYNOPSIS:" ++ nl ++ "    prog deploy --target <string> [--config|-c <string>] [--help] [--level <int>]" ++ nl ++
      "                [--verbose|-v <>] [<args>]" ++ nl ++ nl ++
      "REQUIRED PARAMETERS:" ++ nl ++ "    --target <string>" ++ nl ++ nl ++
      "OPTIONS:" ++ nl ++
      "    --config|-c <string>    (default: " ++ q "dflt.cfg" ++ ", env: CFG)" ++ nl ++ nl ++
      "    --help                  (default: false)" ++ nl ++ nl ++
      "    --level <int>           (default: 3, env: LEVEL)" ++ nl ++ nl ++
      "    --verbose|-v <>         (default: 0)" ++ nl ++ nl).
Proof. vm_compute. reflexivity. Qed.

(* ---- C19: the hypotheses of totality hold for the built program ---- *)
Ltac wf_opts := intros k o H; vm_compute in H; repeat (destruct H as [H|H]; [inversion H; subst; vm_compute; lia|]); contradiction.
Ltac wf_any :=
  constructor; [wf_opts | intros k c H; vm_compute in H; repeat (destruct H as [H|H]; [inversion H; subst; clear H; wf_any|]); contradiction].

Example C19_wf_hyps : List.length store0 = List.length specs /\ wf_node (List.length specs) root.
Proof. split; [vm_compute; reflexivity|]. unfold root. vm_compute. wf_any. Qed.

Example C19_fires : forall args, good (wf_st specs) (walk pf0 Bundling false true specs root store0 args).
Proof. intros args. destruct C19_wf_hyps as [H1 H2]. exact (walk_never_internal pf0 Bundling false true specs root store0 args H1 H2). Qed.

Example C19_failed_view :
  match parsed ["x"; "--level"; "abc"; "y"] with
  | Err e => e_kind e = EConvInt
  | Ok _ => False
  end.
Proof. vm_compute. reflexivity. Qed.

(* ---- C20: every table reversed (another iteration order of the Go maps) ---- *)
Definition root_rev := rev_node 64 root.

Example C20_perm_hyps : Permutation (n_opts root) (n_opts root_rev) /\ NoDup (keys (n_opts root)) /\ n_opts root <> n_opts root_rev.
Proof.
  split; [change (n_opts root_rev) with (rev (n_opts root)); apply Permutation_rev|].
  split; [|vm_compute; discriminate].
  vm_compute. repeat (constructor; [intros H; repeat (destruct H as [H|H]; [discriminate H|]); exact H|]). constructor.
Qed.

Definition view_of_result (r : result (pst * list str)) :=
  match r with
  | Ok (st, rem) => inl (List.map o_val (store st), List.map o_called (store st), List.map o_used (store st), rem)
  | Err e => inr (e_kind e, e_msg e, e_args e)
  end.

Example C20_user_view :
  List.map (fun a => view_of_result (pr_out (parse pf0 Normal false true specs root store0 (List.map s2l a))))
    [["-v"; "deploy"; "--tar=x"; "h"]; ["--le"; "5"; "status"]; ["--"; "x"]; ["deploy"]; ["--l"]; ["--zz"; "--yy"]] =
  List.map (fun a => view_of_result (pr_out (parse pf0 Normal false true specs root_rev store0 (List.map s2l a))))
    [["-v"; "deploy"; "--tar=x"; "h"]; ["--le"; "5"; "status"]; ["--"; "x"]; ["deploy"]; ["--l"]; ["--zz"; "--yy"]].
Proof. vm_compute. reflexivity. Qed.

Example C20_help_view :
  help_output specs [tk "prog"] true root = help_output specs [tk "prog"] true root_rev.
Proof. vm_compute. reflexivity. Qed.


(* the hypothesis of the end-to-end theorem: the reversed tree is the same tree in another order *)
From GO Require Import Proofs.PermParse Proofs.PermRev.

Ltac nodup_keys := vm_compute; repeat (constructor; [intros H; repeat (destruct H as [H|H]; [discriminate H|]); exact H|]); constructor.
Ltac wfk_any :=
  apply wfk_intro; [nodup_keys | nodup_keys |
    intros k a H; vm_compute in H; repeat (destruct H as [H|H]; [inversion H; subst; clear H; wfk_any|]); contradiction].

Example C20_wfk_hyp : wfk root.
Proof. unfold root. vm_compute. wfk_any. Qed.

Example C20_end_to_end_fires : forall md ro args,
  observe (parse pf0 md false ro specs root store0 args) = observe (parse pf0 md false ro specs root_rev store0 args).
Proof.
  intros md ro args. apply observe_order_independent. apply nsim_rev_node. exact C20_wfk_hyp.
Qed.

(* hypotheses of the end-to-end completion and help theorems on the same program *)
From GO Require Import Proofs.CompleteE2E Proofs.HelpPerm.

Ltac wfc_any :=
  apply wfc_intro;
  [ intros k oid H; vm_compute in H;
    repeat (destruct H as [H|H]; [inversion H; subst; clear H; split; [vm_compute; reflexivity | eexists; vm_compute; reflexivity]|]);
    contradiction
  | nodup_keys
  | intros k a H; vm_compute in H; repeat (destruct H as [H|H]; [inversion H; subst; clear H; wfc_any|]); contradiction ].

Example C20_wfc_hyp : wfc specs root /\ wfc specs root_rev.
Proof. split; [unfold root | unfold root_rev, root]; vm_compute; wfc_any. Qed.

Example C20_completion_fires : forall t words,
  complete pf0 Normal false specs fam_vfn fam_afn t root store0 words =
  complete pf0 Normal false specs fam_vfn fam_afn t root_rev store0 words.
Proof.
  intros t words. destruct C20_wfc_hyp as [W W'].
  apply complete_order_independent; [apply nsim_rev_node; exact C20_wfk_hyp | exact W | exact W'].
Qed.

Example C20_help_hyps :
  NoDup (keys (n_cmds root)) /\ NoDup (keys (n_cmds root_rev)) /\ NoDup (List.map fst (listed_commands root)).
Proof. split; [|split]; nodup_keys. Qed.

(* hypotheses of the end-to-end Parse+Dispatch theorem on the same program, and a non-trivial
   instance: a command function runs with the same arguments on both trees *)
From GO Require Import Proofs.DispatchPerm.

Ltac wfh_any :=
  apply wfh_intro; [nodup_keys | nodup_keys |
    intros k a H; vm_compute in H; repeat (destruct H as [H|H]; [inversion H; subst; clear H; wfh_any|]); contradiction].

Example C20_wfh_hyp : wfh root /\ wfh root_rev.
Proof. split; [unfold root | unfold root_rev, root]; vm_compute; wfh_any. Qed.

Definition dargs := [tk "-v"; tk "deploy"; tk "--target=x"; tk "host"].
Definition st_of (r : presult) : pst := match pr_out r with Ok (s, _) => s | Err _ => init root store0 end.
Definition rem_of (r : presult) : list str := match pr_out r with Ok (_, rem) => rem | Err _ => [] end.

Example C20_dispatch_fires :
  let r := parse pf0 Normal false true specs root store0 dargs in
  let r' := parse pf0 Normal false true specs root_rev store0 dargs in
  r = mkRes (pr_warn r) (Ok (st_of r, rem_of r)) /\ r' = mkRes (pr_warn r') (Ok (st_of r', rem_of r')) /\
  rem_of r = [tk "host"] /\
  (match dispatch specs root (st_of r) (rem_of r) with DRan _ a _ => a = [tk "host"] | _ => False end) /\
  dsim (dispatch specs root (st_of r) (rem_of r)) (dispatch specs root_rev (st_of r') (rem_of r')).
Proof.
  destruct C20_wfh_hyp as [W W']. intros r r'.
  assert (P : r = mkRes (pr_warn r) (Ok (st_of r, rem_of r))) by (vm_compute; reflexivity).
  assert (P' : r' = mkRes (pr_warn r') (Ok (st_of r', rem_of r'))) by (vm_compute; reflexivity).
  split; [exact P|]. split; [exact P'|]. split; [vm_compute; reflexivity|]. split; [vm_compute; reflexivity|].
  exact (proj2 (parse_dispatch_order_independent pf0 Normal false true specs root root_rev store0 dargs _ _ _ _ _ _
            (nsim_rev_node _ _ C20_wfk_hyp) W W' P P')).
Qed.
