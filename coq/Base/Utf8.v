(* utf8.DecodeRuneInString width, and strings.Split(s, "") (explode). *)
From GO Require Import Base.Str.
Open Scope N_scope.

Definition in_range (lo hi x : N) : bool := N.leb lo x && N.leb x hi.
Definition is_cont (x : N) : bool := in_range 128 191 x.

(* Width in bytes of the first rune as utf8.DecodeRuneInString reports it (1 for invalid or
   truncated sequences, 0 only for the empty string). Transcribed from Go's accept-range table. *)
Definition first_rune_len (s : str) : nat :=
  match s with
  | [] => 0%nat
  | b0 :: r =>
      if N.ltb b0 128 then 1%nat
      else if in_range 194 223 b0 then
        match r with
        | b1 :: _ => if is_cont b1 then 2%nat else 1%nat
        | _ => 1%nat
        end
      else if in_range 224 239 b0 then
        let lo := if N.eqb b0 224 then 160 else 128 in
        let hi := if N.eqb b0 237 then 159 else 191 in
        match r with
        | b1 :: b2 :: _ => if in_range lo hi b1 && is_cont b2 then 3%nat else 1%nat
        | _ => 1%nat
        end
      else if in_range 240 244 b0 then
        let lo := if N.eqb b0 240 then 144 else 128 in
        let hi := if N.eqb b0 244 then 143 else 191 in
        match r with
        | b1 :: b2 :: b3 :: _ => if in_range lo hi b1 && is_cont b2 && is_cont b3 then 4%nat else 1%nat
        | _ => 1%nat
        end
      else 1%nat
  end.

Lemma first_rune_len_pos s : s <> [] -> (1 <= first_rune_len s)%nat.
Proof.
  destruct s as [|b0 r]; [congruence|]. intros _. unfold first_rune_len.
  repeat match goal with
  | |- context [if ?c then _ else _] => destruct c
  | |- context [match ?l with [] => _ | _ :: _ => _ end] => destruct l
  end; lia.
Qed.

Lemma first_rune_len_le s : (first_rune_len s <= length s)%nat.
Proof.
  destruct s as [|b0 r]; [simpl; lia|]. unfold first_rune_len.
  repeat match goal with
  | |- context [if ?c then _ else _] => destruct c
  | |- context [match ?l with [] => _ | _ :: _ => _ end] => destruct l
  end; simpl; lia.
Qed.

(* strings.Split(s, ""): one piece per decoded rune, bytes kept.  Fuel = length s. *)
Fixpoint explode_fuel (fuel : nat) (s : str) : list str :=
  match fuel with
  | O => []
  | S f =>
      match s with
      | [] => []
      | _ => let n := first_rune_len s in firstn n s :: explode_fuel f (skipn n s)
      end
  end.

Definition explode (s : str) : list str := explode_fuel (length s) s.

Lemma explode_fuel_concat fuel s : (length s <= fuel)%nat -> concat (explode_fuel fuel s) = s.
Proof.
  revert s; induction fuel as [|f IH]; intros s H.
  - destruct s; simpl in *; [reflexivity | lia].
  - destruct s as [|b r]; [reflexivity|].
    change (explode_fuel (S f) (b :: r)) with
      (firstn (first_rune_len (b :: r)) (b :: r) :: explode_fuel f (skipn (first_rune_len (b :: r)) (b :: r))).
    assert (Hs : b :: r <> []) by congruence.
    pose proof (first_rune_len_pos _ Hs). pose proof (first_rune_len_le (b :: r)).
    set (s := b :: r) in *. cbn [concat].
    rewrite IH.
    + apply firstn_skipn.
    + rewrite skipn_length. lia.
Qed.

Lemma explode_concat s : concat (explode s) = s.
Proof. apply explode_fuel_concat. lia. Qed.

Lemma explode_nonempty s : s <> [] -> explode s <> [].
Proof.
  unfold explode. destruct s; [congruence|]. intros _. simpl. congruence.
Qed.

(* strings.ToLower as the library uses it for map keys (SetMapKeysToLower).  ASCII letters are
   lowered; a byte that is not part of a valid UTF-8 sequence comes back as U+FFFD (EF BF BD), which
   is what strings.Map does with it.  Valid multi-byte letters are left as they are: their Unicode
   case mapping is not modelled (the correspondence generates no upper-case non-ASCII letters). *)
Fixpoint go_lower_fuel (fuel : nat) (s : str) : str :=
  match fuel with
  | O => []
  | S f =>
      match s with
      | [] => []
      | b0 :: _ =>
          let n := first_rune_len s in
          if N.leb 128 b0 && Nat.eqb n 1 then [239; 191; 189] ++ go_lower_fuel f (skipn 1 s)
          else List.map lower_byte (firstn n s) ++ go_lower_fuel f (skipn n s)
      end
  end.

Definition go_lower (s : str) : str :=
  if forallb (fun b => N.ltb b 128) s then to_lower s else go_lower_fuel (length s) s.
