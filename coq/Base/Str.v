(* Byte strings as lists of N, with the string functions the Go code uses. *)
From Coq Require Export List NArith ZArith Bool Lia.
From Coq Require Import Ascii String.
Export ListNotations.
Open Scope N_scope.

Definition str := list N.

(* Coq string literal -> byte list (ASCII only in this development) *)
Definition s2l (s : string) : str :=
  List.map N_of_ascii (list_ascii_of_string s).

Fixpoint str_eqb (a b : str) : bool :=
  match a, b with
  | [], [] => true
  | x :: a', y :: b' => N.eqb x y && str_eqb a' b'
  | _, _ => false
  end.

Lemma str_eqb_spec a b : reflect (a = b) (str_eqb a b).
Proof.
  revert b; induction a as [|x a IH]; intros [|y b]; simpl; try (constructor; congruence).
  destruct (N.eqb_spec x y); simpl.
  - destruct (IH b); constructor; congruence.
  - constructor; congruence.
Qed.

Lemma str_eqb_eq a b : str_eqb a b = true <-> a = b.
Proof. destruct (str_eqb_spec a b); split; congruence. Qed.

Lemma str_eqb_refl a : str_eqb a a = true.
Proof. apply str_eqb_eq; reflexivity. Qed.

Lemma str_eqb_neq a b : str_eqb a b = false <-> a <> b.
Proof. destruct (str_eqb_spec a b); split; congruence. Qed.

Lemma str_eqb_sym a b : str_eqb a b = str_eqb b a.
Proof.
  destruct (str_eqb_spec a b), (str_eqb_spec b a); congruence.
Qed.

Definition str_eq_dec (a b : str) : {a = b} + {a <> b}.
Proof. destruct (str_eqb_spec a b); [left|right]; assumption. Defined.

(* strings.HasPrefix s p *)
Fixpoint prefixb (p s : str) : bool :=
  match p, s with
  | [], _ => true
  | x :: p', y :: s' => N.eqb x y && prefixb p' s'
  | _ :: _, [] => false
  end.

Lemma prefixb_spec p s : prefixb p s = true <-> exists r, s = p ++ r.
Proof.
  revert s; induction p as [|x p IH]; intros s; simpl.
  - split; [eexists; reflexivity | reflexivity].
  - destruct s as [|y s].
    + split; [discriminate | intros [r H]; discriminate].
    + rewrite andb_true_iff, N.eqb_eq, IH. split.
      * intros [-> [r ->]]. exists r. reflexivity.
      * intros [r H]. injection H as -> ->. split; [reflexivity | eexists; reflexivity].
Qed.

Lemma prefixb_refl s : prefixb s s = true.
Proof. apply prefixb_spec. exists []. rewrite app_nil_r. reflexivity. Qed.

Lemma prefixb_app p r : prefixb p (p ++ r) = true.
Proof. apply prefixb_spec. eexists; reflexivity. Qed.

Lemma prefixb_nil s : prefixb [] s = true.
Proof. reflexivity. Qed.

(* strings.HasSuffix *)
Definition suffixb (p s : str) : bool := prefixb (rev p) (rev s).

(* membership *)
Fixpoint mem_str (x : str) (l : list str) : bool :=
  match l with
  | [] => false
  | y :: l' => str_eqb x y || mem_str x l'
  end.

Lemma mem_str_In x l : mem_str x l = true <-> In x l.
Proof.
  induction l as [|y l IH]; simpl.
  - split; [discriminate | tauto].
  - rewrite orb_true_iff, str_eqb_eq, IH. split; intros [H|H]; auto.
Qed.

Lemma mem_str_false x l : mem_str x l = false <-> ~ In x l.
Proof.
  rewrite <- mem_str_In. destruct (mem_str x l); split; congruence.
Qed.

(* bytewise lexicographic order: Go's string < *)
Fixpoint str_ltb (a b : str) : bool :=
  match a, b with
  | _, [] => false
  | [], _ :: _ => true
  | x :: a', y :: b' => if N.ltb x y then true else if N.eqb x y then str_ltb a' b' else false
  end.

Definition str_leb (a b : str) : bool := negb (str_ltb b a).

Lemma str_ltb_irrefl a : str_ltb a a = false.
Proof. induction a as [|x a IH]; simpl; auto. rewrite N.ltb_irrefl, N.eqb_refl. exact IH. Qed.

Lemma str_ltb_trans a b c : str_ltb a b = true -> str_ltb b c = true -> str_ltb a c = true.
Proof.
  revert b c; induction a as [|x a IH]; intros [|y b] [|z c]; simpl; try discriminate; auto.
  destruct (N.ltb_spec x y), (N.ltb_spec y z), (N.ltb_spec x z); try reflexivity;
  destruct (N.eqb_spec x y), (N.eqb_spec y z), (N.eqb_spec x z); try discriminate; try lia; eauto.
Qed.

Lemma str_ltb_total a b : str_ltb a b = false -> str_ltb b a = false -> a = b.
Proof.
  revert b; induction a as [|x a IH]; intros [|y b]; simpl; try discriminate; auto.
  destruct (N.ltb_spec x y), (N.ltb_spec y x); try discriminate; try lia.
  assert (x = y) by lia. subst y. rewrite N.eqb_refl. intros. f_equal. auto.
Qed.

Lemma str_ltb_asym a b : str_ltb a b = true -> str_ltb b a = false.
Proof.
  intros H. destruct (str_ltb b a) eqn:E; auto.
  pose proof (str_ltb_trans _ _ _ H E) as T. rewrite str_ltb_irrefl in T. discriminate.
Qed.

Lemma str_leb_refl a : str_leb a a = true.
Proof. unfold str_leb. rewrite str_ltb_irrefl. reflexivity. Qed.

Lemma str_leb_total a b : str_leb a b = true \/ str_leb b a = true.
Proof.
  unfold str_leb. destruct (str_ltb b a) eqn:E; auto. right.
  rewrite (str_ltb_asym _ _ E). reflexivity.
Qed.

Lemma str_leb_trans a b c : str_leb a b = true -> str_leb b c = true -> str_leb a c = true.
Proof.
  unfold str_leb. rewrite !negb_true_iff. intros H1 H2.
  destruct (str_ltb c a) eqn:E; auto.
  (* c < a, not b < a, not c < b *)
  destruct (str_ltb a b) eqn:Eab.
  - pose proof (str_ltb_trans _ _ _ E Eab). congruence.
  - assert (a = b) by (apply str_ltb_total; auto). subst. congruence.
Qed.

Lemma str_leb_antisym a b : str_leb a b = true -> str_leb b a = true -> a = b.
Proof.
  unfold str_leb. rewrite !negb_true_iff. intros. apply str_ltb_total; auto.
Qed.

(* sort.Strings: insertion sort (the result of any correct sort is the same list) *)
Fixpoint insert_str (x : str) (l : list str) : list str :=
  match l with
  | [] => [x]
  | y :: l' => if str_leb x y then x :: l else y :: insert_str x l'
  end.

Fixpoint sort_strs (l : list str) : list str :=
  match l with
  | [] => []
  | x :: l' => insert_str x (sort_strs l')
  end.

(* strings.Contains s (single byte c) *)
Fixpoint contains_byte (c : N) (s : str) : bool :=
  match s with
  | [] => false
  | x :: s' => N.eqb x c || contains_byte c s'
  end.

(* split at first occurrence of byte c: strings.SplitN(s, c, 2) *)
Fixpoint split_first (c : N) (s : str) : option (str * str) :=
  match s with
  | [] => None
  | x :: s' => if N.eqb x c then Some ([], s')
               else match split_first c s' with
                    | Some (a, b) => Some (x :: a, b)
                    | None => None
                    end
  end.

Lemma split_first_spec c s a b : split_first c s = Some (a, b) -> s = a ++ c :: b /\ contains_byte c a = false.
Proof.
  revert a b; induction s as [|x s IH]; simpl; intros a b H; [discriminate|].
  destruct (N.eqb_spec x c).
  - injection H as <- <-. subst. auto.
  - destruct (split_first c s) as [[a' b']|]; [|discriminate].
    injection H as <- <-. destruct (IH _ _ eq_refl) as [-> Hc]. split; auto.
    simpl. rewrite Hc. destruct (N.eqb_spec x c); [congruence | reflexivity].
Qed.

Lemma split_first_none c s : split_first c s = None <-> contains_byte c s = false.
Proof.
  induction s as [|x s IH]; simpl; [tauto|].
  destruct (N.eqb x c); simpl.
  - split; discriminate.
  - destruct (split_first c s) as [[a b]|]; split; try discriminate; try tauto.
    intros H. apply IH in H. discriminate.
Qed.

(* maximal prefix free of byte c, and the rest *)
Fixpoint span_not (c : N) (s : str) : str * str :=
  match s with
  | [] => ([], [])
  | x :: s' => if N.eqb x c then ([], s) else let (a, b) := span_not c s' in (x :: a, b)
  end.

Lemma span_not_app c s : fst (span_not c s) ++ snd (span_not c s) = s.
Proof.
  induction s as [|x s IH]; simpl; auto.
  destruct (N.eqb x c); simpl; auto.
  destruct (span_not c s); simpl in *. congruence.
Qed.

Lemma span_not_free c s : contains_byte c (fst (span_not c s)) = false.
Proof.
  induction s as [|x s IH]; simpl; auto.
  destruct (N.eqb x c) eqn:E; simpl; auto.
  destruct (span_not c s); simpl in *. rewrite E. exact IH.
Qed.

Lemma span_not_rest c s : snd (span_not c s) = [] \/ exists r, snd (span_not c s) = c :: r.
Proof.
  induction s as [|x s IH]; simpl; auto.
  destruct (N.eqb_spec x c); simpl.
  - right. subst. eauto.
  - destruct (span_not c s); simpl in *. exact IH.
Qed.

(* contains substring ".." ; split at first ".." *)
Fixpoint split_dotdot (s : str) : option (str * str) :=
  match s with
  | [] => None
  | x :: s' =>
      match s' with
      | y :: s'' => if N.eqb x 46 && N.eqb y 46 then Some ([], s'')
                    else match split_dotdot s' with
                         | Some (a, b) => Some (x :: a, b)
                         | None => None
                         end
      | [] => None
      end
  end.

(* ASCII lower-casing: strings.ToLower on ASCII input *)
Definition lower_byte (c : N) : N := if (N.leb 65 c && N.leb c 90)%bool then c + 32 else c.
Definition to_lower (s : str) : str := List.map lower_byte s.

(* join with a separator *)
Fixpoint join (sep : str) (l : list str) : str :=
  match l with
  | [] => []
  | [x] => x
  | x :: l' => x ++ sep ++ join sep l'
  end.

Fixpoint list_eqb {A} (eqb : A -> A -> bool) (a b : list A) : bool :=
  match a, b with
  | [], [] => true
  | x :: a', y :: b' => eqb x y && list_eqb eqb a' b'
  | _, _ => false
  end.

Lemma list_eqb_spec {A} (eqb : A -> A -> bool) :
  (forall x y, eqb x y = true <-> x = y) -> forall a b, list_eqb eqb a b = true <-> a = b.
Proof.
  intros H a; induction a as [|x a IH]; intros [|y b]; simpl; split; try congruence; try discriminate.
  - rewrite andb_true_iff, H, IH. intros [-> ->]; reflexivity.
  - intros E; injection E as -> ->. rewrite andb_true_iff, H, IH. auto.
Qed.

Definition strs_eqb := list_eqb str_eqb.
Lemma strs_eqb_eq a b : strs_eqb a b = true <-> a = b.
Proof. apply list_eqb_spec. apply str_eqb_eq. Qed.
