(* sort.Strings as insertion sort: sortedness, permutation, uniqueness of the result. *)
From GO Require Import Base.Str.
From Coq Require Import Sorting.Permutation Sorting.Sorted.
Open Scope N_scope.

Definition sle (a b : str) : Prop := str_leb a b = true.

Lemma insert_str_perm x l : Permutation (insert_str x l) (x :: l).
Proof.
  induction l as [|y l IH]; simpl; [reflexivity|].
  destruct (str_leb x y); [reflexivity|].
  rewrite IH. apply perm_swap.
Qed.

Lemma sort_strs_perm l : Permutation (sort_strs l) l.
Proof.
  induction l as [|x l IH]; simpl; [reflexivity|].
  rewrite insert_str_perm. constructor. exact IH.
Qed.

Lemma insert_str_sorted x l : Sorted sle l -> Sorted sle (insert_str x l).
Proof.
  induction l as [|y l IH]; intros H; simpl.
  - repeat constructor.
  - destruct (str_leb x y) eqn:E.
    + constructor; [exact H | constructor; exact E].
    + inversion H as [|? ? Hs Hh]; subst. constructor; [apply IH; exact Hs|].
      assert (Hyx : sle y x).
      { unfold sle. destruct (str_leb_total x y) as [T|T]; congruence. }
      destruct l as [|z l]; simpl; [constructor; exact Hyx|].
      destruct (str_leb x z); constructor; [exact Hyx|].
      inversion Hh; subst. assumption.
Qed.

Lemma sort_strs_sorted l : Sorted sle (sort_strs l).
Proof.
  induction l as [|x l IH]; simpl; [constructor|]. apply insert_str_sorted. exact IH.
Qed.

Lemma sle_trans : Relations_1.Transitive sle.
Proof. intros a b c. apply str_leb_trans. Qed.

(* a sorted list is determined by its elements: sorting is invariant under permutation *)
Lemma sorted_perm_eq l1 : forall l2,
  Sorted sle l1 -> Sorted sle l2 -> Permutation l1 l2 -> l1 = l2.
Proof.
  induction l1 as [|x l1 IH]; intros l2 S1 S2 P.
  - apply Permutation_nil in P. auto.
  - destruct l2 as [|y l2]; [apply Permutation_sym, Permutation_nil in P; discriminate|].
    apply Sorted_StronglySorted in S1; [|exact sle_trans].
    apply Sorted_StronglySorted in S2; [|exact sle_trans].
    inversion S1 as [|? ? S1' F1]; subst. inversion S2 as [|? ? S2' F2]; subst.
    assert (Hxy : x = y).
    { assert (Ix : In x (y :: l2)) by (eapply Permutation_in; [exact P | left; reflexivity]).
      assert (Iy : In y (x :: l1)) by (eapply Permutation_in; [apply Permutation_sym; exact P | left; reflexivity]).
      destruct Ix as [->|Ix]; [reflexivity|]. destruct Iy as [->|Iy]; [reflexivity|].
      rewrite Forall_forall in F1, F2. apply str_leb_antisym; [apply F1 | apply F2]; assumption. }
    subst y. f_equal. apply IH.
    + apply StronglySorted_Sorted; assumption.
    + apply StronglySorted_Sorted; assumption.
    + eapply Permutation_cons_inv; eassumption.
Qed.

Lemma sort_strs_perm_eq l1 l2 : Permutation l1 l2 -> sort_strs l1 = sort_strs l2.
Proof.
  intros P. apply sorted_perm_eq; try apply sort_strs_sorted.
  rewrite !sort_strs_perm. exact P.
Qed.

Lemma sort_strs_In x l : In x (sort_strs l) <-> In x l.
Proof.
  split; apply Permutation_in; [|apply Permutation_sym]; apply sort_strs_perm.
Qed.

Lemma sort_strs_length l : length (sort_strs l) = length l.
Proof. apply Permutation_length, sort_strs_perm. Qed.
